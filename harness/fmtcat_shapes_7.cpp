// fmtcat catalog 7: unordered associative containers
#include "fmtcat.h"

namespace fmtcat
{
std::vector<ShapeEntry> shapes_7()
{
  using Str = std::string;
  return {
    FMTCAT_SHAPE("unordered_set_int", V<std::unordered_set<int>>),
    FMTCAT_SHAPE("unordered_set_double", V<std::unordered_set<double>>),
    FMTCAT_SHAPE("unordered_map_string_string", V<std::unordered_map<Str, Str>>),
    FMTCAT_SHAPE("unordered_map_int_double", V<std::unordered_map<int, double>>),
    FMTCAT_SHAPE_W("unordered_set_string", 4, V<std::unordered_set<Str>>),
    FMTCAT_SHAPE("unordered_multiset_int", V<std::unordered_multiset<int>>),
    FMTCAT_SHAPE("unordered_multiset_string", V<std::unordered_multiset<Str>>),
    FMTCAT_SHAPE("unordered_map_int_int", V<std::unordered_map<int, int>>),
    FMTCAT_SHAPE_W("unordered_map_string_int", 4, V<std::unordered_map<Str, int>>),
    FMTCAT_SHAPE("unordered_map_int_string", V<std::unordered_map<int, Str>>),
    FMTCAT_SHAPE("unordered_multimap_int_string", V<std::unordered_multimap<int, Str>>),
    FMTCAT_SHAPE("unordered_multimap_string_string", V<std::unordered_multimap<Str, Str>>),
    FMTCAT_SHAPE_W("mix_map_cstr_uset", 4, V<std::map<Str, int>>, CStr, V<std::unordered_set<Str>>, V<Str>),
  };
}
} // namespace fmtcat
