// fmtcat value generators: every value comes from the case's choice stream (verif::Choices).
// Choice 0 of every decision is the simplest alternative (0, "", empty container, nullopt ...).
// The non-template generators are implemented once in fmtcat.cpp so that the catalog TUs stay cheap.
#pragma once

#include "../engine/harness.h"

#include <cstdint>
#include <string>

namespace fmtcat
{
struct Ctx;

// flags for gen_string
enum : unsigned
{
  GS_NO_NUL = 1u,   // never produce an embedded '\0' (C strings, char arrays handled separately)
  GS_SHORT = 2u,    // at most ~24 bytes (nested elements, keys)
  GS_TEXT = 4u      // printable ASCII only
};

// integers: raw two's complement pattern of the requested width, sign- or zero-extended into 64 bits.
// classes: small, extremes (0, 1, -1, min, max, min+1, max-1), 2^k-1 / 2^k / 2^k+1, uniform over the width
uint64_t gen_int_bits(Ctx& cx, unsigned bits, bool is_signed);
// floating point: 0, small integers, specials (NaN, +-inf, -0.0, denormals, min, max, epsilon...), random bit patterns
double gen_double(Ctx& cx, bool finite_only);
float gen_float(Ctx& cx, bool finite_only);
long double gen_ldouble(Ctx& cx, bool finite_only);
// char: mostly printable, sometimes '\0', control, 0x7f, >= 0x80
char gen_char(Ctx& cx);
// strings: length classes {short 0..8, boundary 0,1,2^k-1,2^k,2^k+1 up to 4096, medium 0..64}; content classes
// {lowercase, printable ASCII incl. braces/quotes/backslash, embedded NUL, non-printable bytes, UTF-8}. Labels are
// recorded in the report (embedded_nul, non_printable, boundary_length, long_string).
std::string gen_string(Ctx& cx, unsigned flags);
// number of elements of a generated container: 0..8 (0 first)
size_t gen_count(Ctx& cx);
} // namespace fmtcat
