// sim harness, part 1: flavour, journal, recording sinks, model types (included by sim_main.cpp only)
#pragma once

#include <algorithm>
#include <array>
#include <atomic>
#include <cstdint>
#include <cstring>
#include <deque>
#include <map>
#include <memory>
#include <set>
#include <sstream>
#include <string>
#include <vector>

#include "../engine/sim.h"

#include "quill/Backend.h"
#include "quill/DeferredFormatCodec.h"
#include "quill/Frontend.h"
#include "quill/LogMacros.h"
#include "quill/Logger.h"
#include "quill/sinks/FileSink.h"
#include "quill/sinks/Sink.h"

#ifndef SIM_QUEUE_TYPE
  #define SIM_QUEUE_TYPE BoundedBlocking
#endif
#ifndef SIM_INITIAL_CAP
  #define SIM_INITIAL_CAP 1024
#endif
#ifndef SIM_MAX_CAP
  #define SIM_MAX_CAP SIM_INITIAL_CAP
#endif

using namespace verif;
using verif::sim::Worker;
using verif::sim::WState;

struct SimFrontendOptions
{
  static constexpr quill::QueueType queue_type = quill::QueueType::SIM_QUEUE_TYPE;
  static constexpr size_t initial_queue_capacity = SIM_INITIAL_CAP;
  static constexpr uint32_t blocking_queue_retry_interval_ns = 800;
  static constexpr size_t unbounded_queue_max_capacity = SIM_MAX_CAP;
  static constexpr quill::HugePagesPolicy huge_pages_policy = quill::HugePagesPolicy::Never;
};
using SFrontend = quill::FrontendImpl<SimFrontendOptions>;
using SLogger = quill::LoggerImpl<SimFrontendOptions>;

// a deferred-format user type whose formatter can be told to throw (C10)
struct Bomb
{
  int kind;      // 0 ok, 1 std::runtime_error, 2 custom non-std class, 3 int, 4 char const*
  uint16_t w;
  uint32_t seq;
};
struct NonStdError
{
  int code;
};
template <>
struct fmtquill::formatter<Bomb>
{
  constexpr auto parse(format_parse_context& ctx) { return ctx.begin(); }
  auto format(Bomb const& b, format_context& ctx) const
  {
    if (b.kind == 1) throw std::runtime_error("bomb: std::runtime_error");
    if (b.kind == 2) throw NonStdError{42};
    if (b.kind == 3) throw 42;
    if (b.kind == 4) throw "bomb: char const*";
    return fmtquill::format_to(ctx.out(), "{}:{}:", b.w, b.seq);
  }
};
template <>
struct quill::Codec<Bomb> : quill::DeferredFormatCodec<Bomb>
{
};

namespace
{
constexpr bool kBounded = (SimFrontendOptions::queue_type == quill::QueueType::BoundedBlocking) ||
  (SimFrontendOptions::queue_type == quill::QueueType::BoundedDropping);
constexpr bool kDropping = (SimFrontendOptions::queue_type == quill::QueueType::BoundedDropping) ||
  (SimFrontendOptions::queue_type == quill::QueueType::UnboundedDropping);
constexpr size_t sim_next_pow2(size_t n) { size_t p = 1; while (p < n) p <<= 1; return p; }
// the largest buffer a statement may have to fit. A bounded queue rounds the configured capacity up to a power of two (what
// get_thread_local_queue_capacity() reports): statements between the configured and the real capacity fit too (flavour bb1500)
constexpr size_t kCap = kBounded ? sim_next_pow2(SIM_INITIAL_CAP) : SIM_MAX_CAP;
constexpr size_t kInitCap = SIM_INITIAL_CAP;
constexpr size_t kHeader = 8 + 3 * sizeof(uintptr_t);            // timestamp + metadata + logger + decoder
// + uint16 worker + uint32 seq + padding: a std::string (4-byte length field) on blocking flavours, a C string (terminator;
// its length travels through the per-thread size cache, whose state after a DROPPED statement matters) on dropping flavours
constexpr size_t kStmtFixed = kHeader + 2 + 4 + (kDropping ? 1 : 4);

Params g_params;
std::string g_prop = "C03";
bool g_excl_f1 = false;   // sim.unpublished_reader_remainder_stall
bool g_excl_f10 = false;  // sim.first_log_between_cache_refresh_and_ts_now
bool g_excl_f11 = false;  // sim.drops_of_exited_thread_unreported
bool g_excl_f2 = false;   // sim.nonstd_exception_from_formatter
bool g_bt_throws = false; // parameter bt_throws=1: a sink throws when a chosen backtrace statement is replayed (C10 x C18)
bool g_excl_f3 = false;   // sim.backtrace_index_not_reset
bool g_excl_f9 = false;   // sim.invalid_context_counter_wraps_at_256

bool is_prop(char const* p) { return g_prop == p; }

// ------------------------------------------------------------------------------------------------------
// journal and sinks
// ------------------------------------------------------------------------------------------------------
struct JEntry
{
  int sink;
  char kind; // 'W' write_log, 'F' flush_sink, 'D' destroyed, 'X' write_log threw (injected)
  std::string logger;
  std::string tid;
  uint64_t ts;
  int level;
  std::string msg;
  std::string statement;
  std::string named; // "k=v;k=v" of the named args handed to the sink ("" when the pointer is null or the vector empty)
};

struct World;
World* g_world = nullptr;

bool g_nonstd_sink_throws = false; // a sink threw something that is not a std::exception in this case (label)
struct ThrowPlan
{
  std::set<long> write_calls; // 1-based indices of write_log calls that throw
  std::set<long> flush_calls;
  std::set<std::string> throw_ids; // "w:seq" of statements for which this sink's write_log throws (once)
};

void journal_push(JEntry e);

class FnFilter : public quill::Filter
{
public:
  FnFilter(std::string name, uint32_t salt) : quill::Filter(std::move(name)), _salt(salt) {}
  // verdict = pure function of (level, hash(message))
  static bool verdict(uint32_t salt, int level, std::string_view msg)
  {
    uint64_t h = fnv1a(msg.data(), msg.size()) ^ (salt * 0x9E3779B97F4A7C15ull) ^ static_cast<uint64_t>(level * 131);
    return (h % 4) != 0; // rejects a quarter
  }
  bool filter(quill::MacroMetadata const*, uint64_t, std::string_view, std::string_view, std::string_view, quill::LogLevel lvl,
              std::string_view msg, std::string_view) noexcept override
  {
    return verdict(_salt, static_cast<int>(lvl), msg);
  }
  uint32_t _salt;
};

class RecSink : public quill::Sink
{
public:
  explicit RecSink(int idx, std::optional<quill::PatternFormatterOptions> ov = std::nullopt)
    : quill::Sink(std::move(ov)), _idx(idx)
  {
  }
  ~RecSink() override { journal_push(JEntry{_idx, 'D', {}, {}, 0, 0, {}, {}}); }
  void write_log(quill::MacroMetadata const*, uint64_t ts, std::string_view tid, std::string_view, std::string const&,
                 std::string_view logger, quill::LogLevel lvl, std::string_view, std::string_view,
                 std::vector<std::pair<std::string, std::string>> const* na, std::string_view msg, std::string_view stmt) override
  {
    ++writes;
    bool by_id = false;
    if (!plan.throw_ids.empty())
    {
      size_t a = msg.find(':'), b = a == std::string_view::npos ? a : msg.find(':', a + 1);
      if (b != std::string_view::npos)
      {
        auto it = plan.throw_ids.find(std::string{msg.substr(0, b)});
        if (it != plan.throw_ids.end()) { plan.throw_ids.erase(it); by_id = true; }
      }
    }
    if (by_id || plan.write_calls.count(writes))
    {
      journal_push(JEntry{_idx, 'X', std::string{logger}, std::string{tid}, ts, static_cast<int>(lvl), std::string{msg}, {}});
      // every third planned failure (by call index) is not derived from std::exception: the backend's catch-all branches
      if (!by_id && writes % 3 == 0) { g_nonstd_sink_throws = true; throw 42; }
      throw std::runtime_error("injected write_log failure in sink " + std::to_string(_idx));
    }
    JEntry e{_idx, 'W', std::string{logger}, std::string{tid}, ts, static_cast<int>(lvl), std::string{msg}, std::string{stmt}, {}};
    if (na) for (auto const& kv : *na) e.named += kv.first + "=" + kv.second + ";";
    journal_push(std::move(e));
  }
  void flush_sink() override;
  int _idx;
  long writes{0}, flushes{0};
  ThrowPlan plan;
};

// ------------------------------------------------------------------------------------------------------
// model
// ------------------------------------------------------------------------------------------------------
enum class OpKind { None, Log, Flush, InitBt, FlushBt, RemoveBlocking, Other };
enum class SKind { Normal, Backtrace, BadTemplate, BadSpec, Bomb, BtNoInit, MacroStatic, MacroDynamic, Named, NamedBtNoInit, Dynamic, NamedBacktrace, RuntimeMeta, NamedBadSpec, RtBadSpec };

inline bool is_bt_kind(SKind k) { return k == SKind::Backtrace || k == SKind::NamedBacktrace; }

struct Stmt
{
  int w{0};
  uint32_t seq{0};
  int logger{0};   // index into World::loggers (a logger INSTANCE; re-created names get new entries)
  int level{4};
  uint32_t padlen{0};
  SKind kind{SKind::Normal};
  int bomb_kind{0};
  bool call_done{false};
  bool accepted{false};
  bool threw{false};
  bool faulty{false};      // cannot be formatted / must be skipped: may be written as an error text or be absent
  uint64_t ts{0};
  uint64_t enq_time{0};
  size_t issue_idx{0};
  size_t encoded{0};
  bool stalled{false};
  bool was_blocked{false};
  bool in_y1{false};
  bool evaluated{true};    // C16: arguments were evaluated (statement passed the logger level)
  bool immediate{false};   // logged with log_statement<immediate_flush = true>: the call flushes before it returns
};

struct FlushRec
{
  int w{0};
  int logger{0};
  size_t issue_idx{0};
  bool returned{false};
  std::vector<size_t> must_be_written; // stmt indices that must be written+flushed when it returns
};

struct WInfo
{
  Worker* w{nullptr};
  bool alive{true};
  bool has_logged{false};   // has a thread context
  uint32_t next_seq{0};
  OpKind pending{OpKind::None};
  size_t pending_stmt{0};
  size_t pending_flush{0};
  int pending_logger{-1};
  // results written by the worker thread while it runs the op
  bool res_accepted{false};
  bool res_threw{false};
  size_t res_capacity{0};
  uint32_t counter{0};      // C16 bump counter (written on the worker)
  long drops_unreported{0};
  int bt_logger{-1};        // C18: the one logger this worker uses for backtrace traffic
  std::vector<size_t> imm_must; // immediate-flush log call in flight: statements that must be written when it returns
};

struct BtEvent
{
  char kind;      // 'I' init, 'B' backtrace statement, 'S' ordinary statement, 'F' flush_backtrace
  size_t stmt{0};
  uint32_t cap{0};
  int flush_level{10};
};

// logger patterns outside C16: loggers whose options compare equal share one PatternFormatter inside the backend, loggers
// with different patterns must not
char const* const kLoggerPatterns[3] = {"%(message)", "%(logger)|%(message)", "%(log_level_short_code) %(thread_id) %(message)"};

// C03: a logger on a user-supplied clock that runs ahead of / behind the (virtual) wall clock. Such statements carry no
// ordering claim and the backend must not hold them back by the grace period: they are delivered like any other statement.
class SimUserClock final : public quill::UserClockSource
{
public:
  uint64_t now() const override
  {
    uint64_t const v = static_cast<uint64_t>(static_cast<int64_t>(sim::core().vclock) + offset_ns);
    if (sim::Worker* w = sim::tl_worker)
    {
      if (w->user_clock_reads_in_op++ == 0) w->first_user_ts_in_op = v;
    }
    return v;
  }
  int64_t offset_ns{0};
};
SimUserClock g_user_clocks[4];

struct LoggerInfo
{
  bool user_clock{false};   // statements carry the value of g_user_clocks[..] instead of the wall clock
  std::string name;
  SLogger* ptr{nullptr};
  std::vector<int> sinks;
  int pat{0};               // index into kLoggerPatterns
  int level{4};             // current logger level (C16)
  bool valid{true};         // removal not requested
  bool removed{false};      // removal completed (observed)
  bool has_override{false};
  // C18 model input: events in the program order of the single worker that uses this logger for backtraces
  std::vector<BtEvent> bt_events;
  bool bt_init{false};
  uint32_t bt_cap{0};
  int bt_flush_level{10};
  long bt_stored_since_flush{0};
  int bt_owner{-1};
};

struct SinkInfo
{
  std::shared_ptr<RecSink> user_ref;  // the harness' ("user") reference; reset by DropSinkRef
  RecSink* raw{nullptr};
  std::string name;
  int level_filter{0};                 // level filter set at creation
  std::vector<uint32_t> filter_salts;
  std::vector<size_t> filter_from;     // op counter at which the filter was added (0 = at creation): later statements only
  std::vector<std::pair<size_t, int>> level_hist; // (op counter, level): set_log_level_filter at a drained point
  bool has_override{false};
  bool destroyed{false};
};

struct World
{
  Choices* c{nullptr};
  Report* r{nullptr};
  quill::ManualBackendWorker* mbw{nullptr};
  quill::BackendOptions bo;
  uint64_t grace_ns{0};
  std::deque<WInfo> workers; // deque: worker lambdas keep pointers to their WInfo
  std::deque<LoggerInfo> loggers;
  std::deque<SinkInfo> sinks;              // sink INSTANCES (a name from the pool can be re-created after the previous instance died)
  std::map<std::string, int> sink_by_name; // name -> most recent instance
  std::deque<Stmt> stmts;
  bool lbl_filter_added_late{false}, lbl_sink_level_changed{false}, lbl_bt_control{false};
  std::deque<FlushRec> flushes;
  std::vector<JEntry> journal;
  std::vector<std::string> notes; // error notifier
  size_t op_counter{0};
  long injected_faults{0};
  // poll / burst state
  bool in_poll{false};
  int burst_budget{0};
  bool idle_seen{false};
  long polls{0};
  long yields[7]{0, 0, 0, 0, 0, 0, 0};
  long bursts_at[7]{0, 0, 0, 0, 0, 0, 0};
  bool draining{false};
  int cur_point{0};
  int force_pair_at_y2_hit{0}; // C05: run the pair-then-tick composite at the k-th queue visit of the next poll
  int y2_hits_in_poll{0};
  bool stalls_enabled{true};  // C05: a third of the cases only (a late statement voids the ordering claim for the whole case)
  long exited_since_idle{0};  // thread exits since the backend last reached its idle branch (C20 / F9)
  long max_exited_between_idles{0};
  // labels
  bool lbl_exit_with_pending{false}, lbl_blocked{false}, lbl_stall{false}, lbl_first_log_in_y1{false};
  bool lbl_shrink_between{false}, lbl_removal_with_queued{false}, lbl_recreated{false};
  std::string opslog;

  void log_op(std::string const& s)
  {
    if (opslog.size() < 2600) { opslog += s; opslog += ' '; }
    static bool const trace = std::getenv("VERIF_TRACE") != nullptr;
    if (trace) std::fprintf(stderr, "%s ", s.c_str());
  }
};

void journal_push(JEntry e)
{
  if (!g_world) return;
  if (e.kind == 'D' && e.sink >= 0 && static_cast<size_t>(e.sink) < g_world->sinks.size()) g_world->sinks[static_cast<size_t>(e.sink)].destroyed = true;
  g_world->journal.push_back(std::move(e));
}

void RecSink::flush_sink()
{
  ++flushes;
  if (plan.flush_calls.count(flushes))
  {
    if (flushes % 3 == 0) { g_nonstd_sink_throws = true; throw NonStdError{7}; }
    throw std::runtime_error("injected flush_sink failure in sink " + std::to_string(_idx));
  }
  if (!g_world) return;
  // collapse runs of flushes (idle polls flush every time)
  auto& j = g_world->journal;
  if (!j.empty() && j.back().kind == 'F' && j.back().sink == _idx) return;
  j.push_back(JEntry{_idx, 'F', {}, {}, 0, 0, {}, {}});
}

// statement metadata: one per level, format "{}:{}:{}" = worker:seq:padding
constexpr quill::MacroMetadata kMd[] = {
  {"sim.cpp:1", "f", "{}:{}:{}", nullptr, quill::LogLevel::TraceL3, quill::MacroMetadata::Event::Log},
  {"sim.cpp:2", "f", "{}:{}:{}", nullptr, quill::LogLevel::TraceL2, quill::MacroMetadata::Event::Log},
  {"sim.cpp:3", "f", "{}:{}:{}", nullptr, quill::LogLevel::TraceL1, quill::MacroMetadata::Event::Log},
  {"sim.cpp:4", "f", "{}:{}:{}", nullptr, quill::LogLevel::Debug, quill::MacroMetadata::Event::Log},
  {"sim.cpp:5", "f", "{}:{}:{}", nullptr, quill::LogLevel::Info, quill::MacroMetadata::Event::Log},
  {"sim.cpp:6", "f", "{}:{}:{}", nullptr, quill::LogLevel::Notice, quill::MacroMetadata::Event::Log},
  {"sim.cpp:7", "f", "{}:{}:{}", nullptr, quill::LogLevel::Warning, quill::MacroMetadata::Event::Log},
  {"sim.cpp:8", "f", "{}:{}:{}", nullptr, quill::LogLevel::Error, quill::MacroMetadata::Event::Log},
  {"sim.cpp:9", "f", "{}:{}:{}", nullptr, quill::LogLevel::Critical, quill::MacroMetadata::Event::Log},
  {"sim.cpp:10", "f", "{}:{}:{}", nullptr, quill::LogLevel::Backtrace, quill::MacroMetadata::Event::Log},
};
// unformattable templates (C10)
constexpr quill::MacroMetadata kMdBadTemplate{"sim.cpp:20", "f", "{}:{}:{} {}", nullptr, quill::LogLevel::Info, quill::MacroMetadata::Event::Log};
constexpr quill::MacroMetadata kMdBadSpec{"sim.cpp:21", "f", "{}:{}:{:d}", nullptr, quill::LogLevel::Info, quill::MacroMetadata::Event::Log};
// named arguments whose THIRD value cannot be formatted (:d for a string): the first two values are produced before it fails
constexpr quill::MacroMetadata kMdNamedBadSpec{"sim.cpp:23", "f", "{a}:{b}:{c:d}", nullptr, quill::LogLevel::Info, quill::MacroMetadata::Event::Log};
// named-argument statement (same text "w:seq:pad"): the sinks must receive exactly these three pairs, and a later plain
// statement that reuses the transit slot must receive none
constexpr quill::MacroMetadata kMdNamed{"sim.cpp:30", "f", "{a}:{b}:{c}", nullptr, quill::LogLevel::Info, quill::MacroMetadata::Event::Log};
constexpr quill::MacroMetadata kMdNamedBt{"sim.cpp:31", "f", "{a}:{b}:{c}", nullptr, quill::LogLevel::Backtrace, quill::MacroMetadata::Event::Log};
// level supplied at run time
constexpr quill::MacroMetadata kMdDyn{"sim.cpp:32", "f", "{}:{}:{}", nullptr, quill::LogLevel::Dynamic, quill::MacroMetadata::Event::Log};
// what LOG_RUNTIME_METADATA expands to: file, line and function travel as three more arguments behind separators
constexpr quill::MacroMetadata kMdRuntime{"[placeholder]", "[placeholder]",
                                          "{}:{}:{}" QUILL_MAGIC_SEPARATOR "{}" QUILL_MAGIC_SEPARATOR "{}" QUILL_MAGIC_SEPARATOR "{}", nullptr,
                                          quill::LogLevel::Dynamic, quill::MacroMetadata::Event::LogWithRuntimeMetadata};
// LOG_RUNTIME_METADATA whose format string does not fit its arguments (":d" for a string)
constexpr quill::MacroMetadata kMdRuntimeBad{"[placeholder]", "[placeholder]",
                                             "{}:{}:{:d}" QUILL_MAGIC_SEPARATOR "{}" QUILL_MAGIC_SEPARATOR "{}" QUILL_MAGIC_SEPARATOR "{}", nullptr,
                                             quill::LogLevel::Dynamic, quill::MacroMetadata::Event::LogWithRuntimeMetadata};
constexpr quill::MacroMetadata kMdBomb{"sim.cpp:22", "f", "{}{}", nullptr, quill::LogLevel::Info, quill::MacroMetadata::Event::Log};

std::string make_pad(int w, uint32_t seq, uint32_t len)
{
  std::string p(len, 'a');
  for (uint32_t k = 0; k < len; ++k) p[k] = static_cast<char>('a' + ((w * 7u + seq * 13u + k * 3u) % 26u));
  return p;
}

bool parse_msg(std::string const& m, int& w, uint32_t& seq, std::string& pad)
{
  size_t a = m.find(':');
  if (a == std::string::npos || a == 0) return false;
  size_t b = m.find(':', a + 1);
  if (b == std::string::npos) return false;
  char* e = nullptr;
  long wl = std::strtol(m.c_str(), &e, 10);
  if (e != m.c_str() + a) return false;
  unsigned long sl = std::strtoul(m.c_str() + a + 1, &e, 10);
  if (e != m.c_str() + b) return false;
  w = static_cast<int>(wl);
  seq = static_cast<uint32_t>(sl);
  pad = m.substr(b + 1);
  return true;
}

bool is_error_text(std::string const& m) { return m.rfind("[Could not format log statement.", 0) == 0; }

void fail(World& W, std::string const& m) { W.r->fail(m); }

char const* kLevelNames[] = {"TRACE_L3", "TRACE_L2", "TRACE_L1", "DEBUG", "INFO", "NOTICE", "WARNING", "ERROR", "CRITICAL", "BACKTRACE", "NONE", "DYNAMIC"};
char const* kLevelCodes[] = {"T3", "T2", "T1", "D", "I", "N", "W", "E", "C", "BT", "_", "DN"};
} // namespace
