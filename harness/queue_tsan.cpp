// qtsan — second opinion for C01 / C02: the REAL std::atomic queue code on two real threads under
// ThreadSanitizer (fork per case; a TSan report kills the child and becomes a failing case).
// Generated: queue kind, capacities, reader publish percent, record size sequence, consumer batching.
// Oracle: FIFO of position-dependent payloads + TSan's happens-before race detection (which flags a
// weakened release/acquire even on x86).
#include "../engine/harness.h"

#include "quill/core/BoundedSPSCQueue.h"
#include "quill/core/UnboundedSPSCQueue.h"

#include <atomic>
#include <thread>

using namespace verif;

namespace
{
Params g_params;
std::string g_prop = "C01";

inline unsigned char pat(uint32_t seq, uint32_t k)
{
  uint32_t x = seq * 2654435761u + k * 40503u + 17u;
  x ^= x >> 13;
  return static_cast<unsigned char>(x * 31u + (x >> 7));
}

struct Plan
{
  std::vector<uint32_t> sizes;
  std::vector<uint8_t> shrink_after; // unbounded: request a shrink after record k
  unsigned consumer_batch{1};
};

template <typename Q, bool kUnbounded>
void run_pair(Q& q, Plan const& plan, Report& r, size_t max_record)
{
  std::atomic<bool> bad{false};
  std::string why;
  std::atomic<uint32_t> produced{0};
  std::thread prod(
    [&]()
    {
      for (uint32_t i = 0; i < plan.sizes.size() && !bad.load(std::memory_order_relaxed); ++i)
      {
        uint32_t n = plan.sizes[i];
        std::byte* p = nullptr;
        long spins = 0;
        while (!(p = q.prepare_write(n)))
        {
          if (++spins > 20000000) { bad = true; return; }
          std::this_thread::yield();
        }
        // self-describing record: 4-byte length, then pattern
        std::memcpy(p, &n, 4);
        for (uint32_t k = 4; k < n; ++k) reinterpret_cast<unsigned char*>(p)[k] = pat(i, k);
        q.finish_and_commit_write(n);
        produced.store(i + 1, std::memory_order_relaxed);
        if constexpr (kUnbounded)
        {
          if (plan.shrink_after[i]) q.shrink(64u << (plan.shrink_after[i] % 4));
        }
      }
    });
  std::thread cons(
    [&]()
    {
      uint32_t seq = 0;
      unsigned pending = 0;
      long idle = 0;
      while (seq < plan.sizes.size() && !bad.load(std::memory_order_relaxed))
      {
        std::byte* p;
        if constexpr (kUnbounded) p = q.prepare_read().read_pos; else p = q.prepare_read();
        if (!p)
        {
          if (pending) { q.commit_read(); pending = 0; }
          if (++idle > 40000000) { why = "consumer starved: record " + std::to_string(seq) + " never visible"; bad = true; return; }
          std::this_thread::yield();
          continue;
        }
        idle = 0;
        uint32_t n;
        std::memcpy(&n, p, 4);
        if (n != plan.sizes[seq]) { why = "record " + std::to_string(seq) + ": length " + std::to_string(n) + " expected " + std::to_string(plan.sizes[seq]); bad = true; return; }
        for (uint32_t k = 4; k < n; ++k)
        {
          if (reinterpret_cast<unsigned char*>(p)[k] != pat(seq, k)) { why = "record " + std::to_string(seq) + ": byte " + std::to_string(k) + " corrupted"; bad = true; return; }
        }
        q.finish_read(n);
        ++seq;
        if (++pending >= plan.consumer_batch) { q.commit_read(); pending = 0; }
      }
      if (pending) q.commit_read();
    });
  prod.join();
  cons.join();
  (void)max_record;
  if (bad) r.fail(why.empty() ? "producer blocked for ever (queue never drained)" : why);
}
} // namespace

namespace verif
{
HarnessInfo harness_info() { return {"qtsan", true, 400, 60000}; }

void harness_init(Params const& p)
{
  g_params = p;
  g_prop = param_str(p, "prop", "C01");
}

void run_case(Choices& c, Report& r)
{
  Plan plan;
  unsigned n = 50 + c.pick(2000);
  plan.consumer_batch = 1 + c.pick(8);
  if (g_prop == "C02")
  {
    size_t init = 64u << c.pick(5);        // 64..1024
    size_t max = init << c.pick(5);        // x1..x16
    unsigned shrinks = 0;
    for (unsigned i = 0; i < n; ++i)
    {
      uint32_t s;
      switch (c.weighted({6, 2, 1}))
      {
      case 0: s = 8 + c.pick(static_cast<uint32_t>(init / 4)); break;
      case 1: s = 8 + c.pick(static_cast<uint32_t>(max / 2)); break;
      default: s = static_cast<uint32_t>(max - c.pick(static_cast<uint32_t>(max / 16 + 1))); break;
      }
      if (s < 8) s = 8;
      if (s > max) s = static_cast<uint32_t>(max);
      plan.sizes.push_back(s);
      uint8_t sh = (c.pick(40) == 39) ? static_cast<uint8_t>(1 + c.pick(4)) : 0;
      if (sh) ++shrinks;
      plan.shrink_after.push_back(sh);
    }
    r.line("unbounded init=" + std::to_string(init) + " max=" + std::to_string(max) + " records=" + std::to_string(n) +
           " shrinks=" + std::to_string(shrinks) + " batch=" + std::to_string(plan.consumer_batch));
    quill::detail::UnboundedSPSCQueue q{init, max};
    run_pair<quill::detail::UnboundedSPSCQueue, true>(q, plan, r, max);
    r.nontrivial = n >= 200 && max > init;
    if (shrinks) r.label("shrinks");
  }
  else
  {
    size_t cap = 64u << c.pick(7); // 64..4096
    unsigned percent = c.pick(3) == 0 ? 5 : c.pick(101);
    for (unsigned i = 0; i < n; ++i)
    {
      uint32_t s = (c.pick(8) == 7) ? static_cast<uint32_t>(cap - c.pick(static_cast<uint32_t>(cap / 8))) : 8 + c.pick(static_cast<uint32_t>(cap / 3));
      if (s < 8) s = 8;
      if (s > cap) s = static_cast<uint32_t>(cap);
      plan.sizes.push_back(s);
    }
    r.line("bounded cap=" + std::to_string(cap) + " percent=" + std::to_string(percent) + " records=" + std::to_string(n) +
           " batch=" + std::to_string(plan.consumer_batch));
    quill::detail::BoundedSPSCQueueImpl<size_t> q{cap, quill::HugePagesPolicy::Never, percent};
    run_pair<quill::detail::BoundedSPSCQueueImpl<size_t>, false>(q, plan, r, cap);
    r.nontrivial = n >= 200;
  }
}

bool probe_known_class(std::string const&, std::string&) { return false; }
} // namespace verif
