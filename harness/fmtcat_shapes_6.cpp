// fmtcat catalog 6: std types nested two deep
#include "fmtcat.h"

namespace fmtcat
{
std::vector<ShapeEntry> shapes_6()
{
  using Str = std::string;
  return {
    FMTCAT_SHAPE_W("vector_vector_int", 4, V<std::vector<std::vector<int>>>),
    FMTCAT_SHAPE_W("vector_vector_string", 4, V<std::vector<std::vector<Str>>>),
    FMTCAT_SHAPE_W("map_string_vector_int", 4, V<std::map<Str, std::vector<int>>>),
    FMTCAT_SHAPE_W("optional_pair_int_string", 4, V<std::optional<std::pair<int, Str>>>),
    FMTCAT_SHAPE_W("vector_optional_string", 4, V<std::vector<std::optional<Str>>>),
    FMTCAT_SHAPE_W("tuple_int_string_vector_double", 4, V<std::tuple<int, Str, std::vector<double>>>),
    FMTCAT_SHAPE("vector_pair_int_string", V<std::vector<std::pair<int, Str>>>),
    FMTCAT_SHAPE("map_int_optional_string", V<std::map<int, std::optional<Str>>>),
    FMTCAT_SHAPE("map_string_map_int_string", V<std::map<Str, std::map<int, Str>>>),
    FMTCAT_SHAPE("optional_optional_int", V<std::optional<std::optional<int>>>),
    FMTCAT_SHAPE("optional_vector_string", V<std::optional<std::vector<Str>>>),
    FMTCAT_SHAPE("tuple_pair_tuple", V<std::tuple<std::pair<int, Str>, std::tuple<Str, double>>>),
    FMTCAT_SHAPE("array_vector_string_2", V<std::array<std::vector<Str>, 2>>),
    FMTCAT_SHAPE("list_deque_int", V<std::list<std::deque<int>>>),
    FMTCAT_SHAPE_W("flist_flist_int", 4, V<std::forward_list<std::forward_list<int>>>),
    FMTCAT_SHAPE_W("vector_flist_string", 4, V<std::vector<std::forward_list<Str>>>),
  };
}
} // namespace fmtcat
