// fmtcat catalog 6: std types nested two deep, user types inside containers, wide mixes
#include "fmtcat.h"

namespace fmtcat
{
std::vector<ShapeEntry> shapes_6()
{
  using Str = std::string;
  static char const* const kDirectNested = "fmtcat.direct_codec_nested_quoted";
  return {
    FMTCAT_SHAPE_W("vector_vector_int", 4, V<std::vector<std::vector<int>>>),
    FMTCAT_SHAPE_W("vector_vector_string", 4, V<std::vector<std::vector<Str>>>),
    FMTCAT_SHAPE_W("map_string_vector_int", 4, V<std::map<Str, std::vector<int>>>),
    FMTCAT_SHAPE_W("optional_pair_int_string", 4, V<std::optional<std::pair<int, Str>>>),
    FMTCAT_SHAPE_W("vector_optional_string", 4, V<std::vector<std::optional<Str>>>),
    FMTCAT_SHAPE_W("tuple_int_string_vector_double", 4, V<std::tuple<int, Str, std::vector<double>>>),
    FMTCAT_SHAPE("vector_pair_int_string", V<std::vector<std::pair<int, Str>>>),
    FMTCAT_SHAPE("map_int_optional_string", V<std::map<int, std::optional<Str>>>),
    FMTCAT_SHAPE("array_vector_string_2", V<std::array<std::vector<Str>, 2>>),
    FMTCAT_SHAPE("list_deque_int", V<std::list<std::deque<int>>>),
    FMTCAT_SHAPE_W("flist_flist_int", 4, V<std::forward_list<std::forward_list<int>>>),
    FMTCAT_SHAPE_W("vector_flist_string", 4, V<std::vector<std::forward_list<Str>>>),
    FMTCAT_SHAPE("deque_array_int_3", V<std::deque<std::array<int, 3>>>),
    FMTCAT_SHAPE("set_pair_int_string", V<std::set<std::pair<int, Str>>>),
    FMTCAT_SHAPE("unordered_map_string_vector_int", V<std::unordered_map<Str, std::vector<int>>>),
    FMTCAT_SHAPE("vector_rich_user", V<std::vector<RichUser>>),
    FMTCAT_SHAPE("vector_pod_user", V<std::vector<PodUser>>),
    FMTCAT_SHAPE("optional_rich_user", V<std::optional<RichUser>>),
    FMTCAT_SHAPE("array_wide_user_2", V<std::array<WideUser, 2>>),
    FMTCAT_SHAPE("vector_chrono_seconds", V<std::vector<std::chrono::seconds>>),
    FMTCAT_SHAPE("pair_vector_map", V<std::pair<std::vector<int>, std::map<Str, int>>>),
    FMTCAT_SHAPE_K("vector_direct_user", kDirectNested, V<std::vector<DirectUser>>),
    FMTCAT_SHAPE_K("optional_direct_user", kDirectNested, V<std::optional<DirectUser>>),
    FMTCAT_SHAPE_K("tuple_direct_user_int", kDirectNested, V<std::tuple<DirectUser, int>>),
    FMTCAT_SHAPE_W("mix_nested_wide", 6, V<std::vector<Str>>, CStr, V<std::map<Str, int>>, V<Str>, V<std::optional<Str>>,
                   V<std::forward_list<Str>>, CArr<8>, V<std::vector<std::vector<int>>>),
  };
}
} // namespace fmtcat
