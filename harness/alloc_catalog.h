// C11 — shared part of the `alloc` harness: environment of one armed statement, value generators,
// user types with recording formatters, and the EMIT macro that expands ONE statement shape into a
// real call site of every log macro family (each call site has its own static MacroMetadata).
//
// Discipline (soundness): everything a statement needs (argument objects, level, file/function
// strings) is built BEFORE verif_alloc_arm(); between arm and disarm there is only the switch over
// the macro family and the macro itself.
#pragma once

#include "../engine/harness.h"
#include "alloc_interpose.h"

#include "quill/Backend.h"
#include "quill/DeferredFormatCodec.h"
#include "quill/DirectFormatCodec.h"
#include "quill/Frontend.h"
#include "quill/LogMacros.h"
#include "quill/Logger.h"
#include "quill/sinks/Sink.h"

#include "quill/std/Array.h"
#include "quill/std/Chrono.h"
#include "quill/std/Deque.h"
#include "quill/std/ForwardList.h"
#include "quill/std/List.h"
#include "quill/std/Map.h"
#include "quill/std/Optional.h"
#include "quill/std/Pair.h"
#include "quill/std/Set.h"
#include "quill/std/Tuple.h"
#include "quill/std/UnorderedMap.h"
#include "quill/std/UnorderedSet.h"
#include "quill/std/Vector.h"

#include "quill/bundled/fmt/chrono.h"
#include "quill/bundled/fmt/format.h"
#include "quill/bundled/fmt/ostream.h"

#include <array>
#include <atomic>
#include <chrono>
#include <deque>
#include <forward_list>
#include <list>
#include <map>
#include <optional>
#include <ostream>
#include <set>
#include <string>
#include <string_view>
#include <tuple>
#include <unordered_map>
#include <unordered_set>
#include <vector>

#include <sys/syscall.h>
#include <unistd.h>

namespace va
{
// ---- which frontend flavour the binary is built for (one FrontendOptions per process) -----------
#if defined(VERIF_ALLOC_BOUNDED)
struct FrontendOpts
{
  static constexpr quill::QueueType queue_type = quill::QueueType::BoundedBlocking;
  static constexpr size_t initial_queue_capacity = 128u * 1024u;
  static constexpr uint32_t blocking_queue_retry_interval_ns = 800;
  static constexpr size_t unbounded_queue_max_capacity = 2ull * 1024u * 1024u * 1024u;
  static constexpr quill::HugePagesPolicy huge_pages_policy = quill::HugePagesPolicy::Never;
};
#else
using FrontendOpts = quill::FrontendOptions; // the library default: UnboundedBlocking, 128 KiB
#endif
using FrontendT = quill::FrontendImpl<FrontendOpts>;
using LoggerT = quill::LoggerImpl<FrontendOpts>;

inline uint32_t sys_gettid() { return static_cast<uint32_t>(::syscall(SYS_gettid)); }

// ---- formatter-thread recorder ------------------------------------------------------------------
struct FmtRec
{
  std::atomic<uint64_t> on_backend{0};
  std::atomic<uint64_t> off_backend{0};
  std::atomic<uint32_t> last_off_tid{0};
};
extern std::atomic<uint32_t> g_backend_tid; // set once in harness_init (tid seen inside the user Sink)
extern FmtRec g_rec_deferred;               // formatters of the DeferredFormatCodec user types
extern FmtRec g_rec_direct;                 // formatter of the DirectFormatCodec user type
extern FmtRec g_rec_enum;                   // user formatter of an enum (plain codec, formatted on the backend)

inline void record_fmt(FmtRec& r)
{
  uint32_t const t = sys_gettid();
  if (t == g_backend_tid.load(std::memory_order_relaxed)) r.on_backend.fetch_add(1, std::memory_order_relaxed);
  else
  {
    r.last_off_tid.store(t, std::memory_order_relaxed);
    r.off_backend.fetch_add(1, std::memory_order_relaxed);
  }
}

// ---- user types ---------------------------------------------------------------------------------
// unscoped enum printed through operator<< + fmtquill::ostream_formatter (the idiom of quill's own
// enum tests; an enum with no formatter at all does not compile with the bundled fmt 11)
enum PlainEnum : int { PE_Zero = 0, PE_Seven = 7, PE_Big = 100000 };
inline std::ostream& operator<<(std::ostream& os, PlainEnum v) { return os << "PlainEnum(" << static_cast<int>(v) << ")"; }
enum class Color : uint8_t { Red = 0, Green = 1, Blue = 2, Other = 255 };       // fmtquill::formatter below
enum class Mode : int32_t { Off = -1, Idle = 0, On = 1 };                        // format_as below
inline int32_t format_as(Mode m) { return static_cast<int32_t>(m); }

// trivially copyable + default constructible: DeferredFormatCodec memcpy path
struct Pod
{
  int32_t id;
  double value;
  char tag[12];
};
// trivially copyable, NOT default constructible: DeferredFormatCodec placement-new (copy ctor) path
struct PodNoDefault
{
  explicit PodNoDefault(uint64_t k) : key(k), half(static_cast<uint32_t>(k >> 1)) {}
  uint64_t key;
  uint32_t half;
};
static_assert(std::is_trivially_copyable_v<Pod> && std::is_default_constructible_v<Pod>);
static_assert(std::is_trivially_copyable_v<PodNoDefault> && !std::is_default_constructible_v<PodNoDefault>);
// documented opt-in: formatted on the caller
struct DirectT
{
  int32_t a;
  char text[40];
};
} // namespace va

template <>
struct fmtquill::formatter<va::PlainEnum> : fmtquill::ostream_formatter
{
};

template <>
struct fmtquill::formatter<va::Color>
{
  constexpr auto parse(format_parse_context& ctx) { return ctx.begin(); }
  auto format(va::Color c, format_context& ctx) const
  {
    va::record_fmt(va::g_rec_enum);
    char const* n = c == va::Color::Red ? "Red" : c == va::Color::Green ? "Green" : c == va::Color::Blue ? "Blue" : "Other";
    return fmtquill::format_to(ctx.out(), "{}", n);
  }
};

template <>
struct fmtquill::formatter<va::Pod>
{
  constexpr auto parse(format_parse_context& ctx) { return ctx.begin(); }
  auto format(va::Pod const& p, format_context& ctx) const
  {
    va::record_fmt(va::g_rec_deferred);
    return fmtquill::format_to(ctx.out(), "Pod(id={}, value={}, tag={})", p.id, p.value,
                               fmtquill::string_view{p.tag, ::strnlen(p.tag, sizeof p.tag)});
  }
};
template <>
struct quill::Codec<va::Pod> : quill::DeferredFormatCodec<va::Pod>
{
};

template <>
struct fmtquill::formatter<va::PodNoDefault>
{
  constexpr auto parse(format_parse_context& ctx) { return ctx.begin(); }
  auto format(va::PodNoDefault const& p, format_context& ctx) const
  {
    va::record_fmt(va::g_rec_deferred);
    return fmtquill::format_to(ctx.out(), "PodNoDefault(key={}, half={})", p.key, p.half);
  }
};
template <>
struct quill::Codec<va::PodNoDefault> : quill::DeferredFormatCodec<va::PodNoDefault>
{
};

template <>
struct fmtquill::formatter<va::DirectT>
{
  constexpr auto parse(format_parse_context& ctx) { return ctx.begin(); }
  auto format(va::DirectT const& d, format_context& ctx) const
  {
    va::record_fmt(va::g_rec_direct);
    return fmtquill::format_to(ctx.out(), "DirectT(a={}, text={})", d.a,
                               fmtquill::string_view{d.text, ::strnlen(d.text, sizeof d.text)});
  }
};
template <>
struct quill::Codec<va::DirectT> : quill::DirectFormatCodec<va::DirectT>
{
};

namespace va
{
// ---- macro families -----------------------------------------------------------------------------
enum Fam : int
{
  F_LOG_INFO = 0, F_LOG_TRACE_L3, F_LOG_TRACE_L2, F_LOG_TRACE_L1, F_LOG_DEBUG, F_LOG_NOTICE, F_LOG_WARNING,
  F_LOG_ERROR, F_LOG_CRITICAL,
  F_LOGV_INFO, F_LOGV_DEBUG, F_LOGV_ERROR,
  F_LOGJ_INFO, F_LOGJ_TRACE_L1, F_LOGJ_WARNING,
  F_LOG_INFO_TAGS, F_LOG_DEBUG_TAGS, F_LOGV_NOTICE_TAGS, F_LOGJ_INFO_TAGS,
  F_LOG_INFO_LIMIT, F_LOG_WARNING_LIMIT, F_LOGV_INFO_LIMIT, F_LOGJ_ERROR_LIMIT,
  F_LOG_INFO_LIMIT_EVERY_N, F_LOGV_DEBUG_LIMIT_EVERY_N, F_LOGJ_INFO_LIMIT_EVERY_N,
  F_LOG_DYNAMIC, F_LOGV_DYNAMIC, F_LOGJ_DYNAMIC, F_LOG_DYNAMIC_TAGS,
  F_LOG_BACKTRACE, F_LOGV_BACKTRACE, F_LOGJ_BACKTRACE, F_LOG_BACKTRACE_TAGS,
  F_LOG_RUNTIME_METADATA,
  F_COUNT
};

struct FamInfo
{
  char const* macro; // exact macro name
  char const* group; // label
  bool backtrace;    // stored in the backtrace ring, never reaches the sink in this harness
};
FamInfo const& fam_info(int fam);

// ---- environment of one statement ---------------------------------------------------------------
struct Env
{
  verif::Choices& c;
  LoggerT* lg{nullptr};
  int fam{F_LOG_INFO};
  quill::LogLevel dyn_level{quill::LogLevel::Info}; // LOG_DYNAMIC / LOG_RUNTIME_METADATA
  char const* rt_file{"alloc_catalog.cpp"};
  char const* rt_func{"fn"};
  uint32_t rt_line{1};

  // filled by the generators
  std::string desc;   // rendering of the values
  size_t est{96};     // generous upper estimate of the encoded size (header + arguments)
  int cached{-1};     // set by the shapes that work at the size-cache boundary: cached lengths used
  // queue budget (bytes enqueued on this thread since the last flush, estimate)
  size_t* since_flush{nullptr};
  // known finding alloc.map_pair_temporary_copy excluded: keys / mapped values of map-like
  // containers are then built so that copying them cannot allocate (strings within the 15-char
  // small-string buffer, empty nested vectors)
  bool excl_map_copy{false};
  long excluded_map_copy_hits{0};
  bool map_copy_class{false}; // the generated statement IS in that class (an owning key / mapped value)
  // results
  bool emitted{false};
  VerifAllocCounts cnt{};

  explicit Env(verif::Choices& ch) : c(ch) {}

  // -- generators: choice 0 is always the simplest value
  size_t len_top()
  {
    switch (c.weighted({2, 3, 3, 2, 1}))
    {
    case 0: return 0;
    case 1: return static_cast<size_t>(c.range(1, 15));     // libstdc++ SSO
    case 2: return static_cast<size_t>(c.range(16, 64));
    case 3: return static_cast<size_t>(c.range(65, 500));
    default: return static_cast<size_t>(c.range(501, 2000));
    }
  }
  size_t len_elem()
  {
    switch (c.weighted({2, 3, 2}))
    {
    case 0: return 0;
    case 1: return static_cast<size_t>(c.range(1, 15));
    default: return static_cast<size_t>(c.range(16, 120));
    }
  }
  size_t csize(size_t maxn = 16)
  {
    size_t n;
    switch (c.weighted({2, 2, 3, 3}))
    {
    case 0: n = 0; break;
    case 1: n = 1; break;
    case 2: n = static_cast<size_t>(c.range(2, 4)); break;
    default: n = static_cast<size_t>(c.range(5, 16)); break;
    }
    return n > maxn ? maxn : n;
  }
  std::string str_of(size_t len)
  {
    // printable ASCII, deterministic in (len, salt); never contains quill's runtime-metadata separator
    uint32_t salt = c.pick(64);
    std::string s(len, ' ');
    for (size_t k = 0; k < len; ++k) s[k] = static_cast<char>(0x21 + ((k * 7 + salt * 3 + (k >> 5)) % 94));
    est += len + 24;
    return s;
  }
  std::string top_str()
  {
    std::string s = str_of(len_top());
    desc += " s" + std::to_string(s.size());
    return s;
  }
  std::string elem_str()
  {
    std::string s = str_of(len_elem());
    desc += " e" + std::to_string(s.size());
    return s;
  }
  // distinct element string for keyed containers (prefix makes it unique)
  std::string key_str(size_t idx)
  {
    std::string s = "k" + std::to_string(idx) + ":" + str_of(len_elem());
    desc += " k" + std::to_string(s.size());
    return s;
  }
  // key / mapped value of a map-like container
  std::string map_val_str()
  {
    if (!excl_map_copy)
    {
      std::string s = elem_str();
      if (s.size() > 15) map_copy_class = true;
      return s;
    }
    ++excluded_map_copy_hits;
    std::string s = str_of(static_cast<size_t>(c.range(0, 15)));
    desc += " e" + std::to_string(s.size());
    return s;
  }
  std::string map_key_str(size_t idx)
  {
    if (!excl_map_copy)
    {
      std::string s = key_str(idx);
      if (s.size() > 15) map_copy_class = true;
      return s;
    }
    ++excluded_map_copy_hits;
    std::string s = "k" + std::to_string(idx) + ":";
    s += str_of(static_cast<size_t>(c.range(0, static_cast<int64_t>(15 - s.size()))));
    desc += " k" + std::to_string(s.size());
    return s;
  }
  size_t map_nested_max(size_t maxn)
  {
    if (!excl_map_copy) return maxn;
    ++excluded_map_copy_hits;
    return 0;
  }
  int64_t i64()
  {
    int64_t v;
    switch (c.weighted({3, 3, 1, 1, 2}))
    {
    case 0: v = 0; break;
    case 1: v = c.range(-100, 100); break;
    case 2: v = INT64_MAX; break;
    case 3: v = INT64_MIN; break;
    default: v = c.range(-4000000000000000000ll, 4000000000000000000ll); break;
    }
    est += 16;
    desc += " " + std::to_string(v);
    return v;
  }
  int32_t i32() { return static_cast<int32_t>(i64()); }
  uint64_t u64() { return static_cast<uint64_t>(i64()); }
  double dbl()
  {
    double v;
    switch (c.weighted({3, 3, 1, 1, 1}))
    {
    case 0: v = 0.0; break;
    case 1: v = static_cast<double>(c.range(-100000, 100000)) / 64.0; break;
    case 2: v = 1.7976931348623157e308; break;
    case 3: v = -4.9406564584124654e-324; break;
    default: v = 3.0e-7 * static_cast<double>(c.range(0, 1000000)); break;
    }
    est += 16;
    char b[40];
    std::snprintf(b, sizeof b, " %g", v);
    desc += b;
    return v;
  }
  bool bit()
  {
    bool b = c.flip();
    est += 8;
    desc += b ? " T" : " F";
    return b;
  }
  void container(char const* what, size_t n)
  {
    est += 32;
    desc += std::string{" "} + what + "[" + std::to_string(n) + "]";
  }

  // called by EMIT before arming: makes sure the statement fits the current queue buffer without
  // growing it (flushes first when the estimate of what is still queued is too large)
  void pre_emit();
};

// a statement never exceeds ~30 KiB; at most kQueueBudget bytes are left unflushed before the next
// statement is enqueued, so the 128 KiB queue buffer never has to grow
constexpr size_t kQueueBudget = 40u * 1024u;

// ---- catalog ------------------------------------------------------------------------------------
struct Shape
{
  char const* name;
  char const* tfam;      // type family label
  bool nontrivial;       // has >= 1 variable-length or container argument
  int max_cached;        // upper bound of size-cache entries the statement can use (C strings, char
                         // arrays, forward_list counts, direct-format sizes)
  bool in_domain;        // subject to the zero-allocation claim
  bool deferred_user;    // logs >= 1 DeferredFormatCodec user object
  bool direct_user;      // logs >= 1 DirectFormatCodec user object
  bool enum_fmt;         // logs >= 1 enum with a user formatter
  void (*fn)(Env&);
};

void register_shapes_1(std::vector<Shape>& out);
void register_shapes_2(std::vector<Shape>& out);
void register_shapes_3(std::vector<Shape>& out);
} // namespace va

// ---- one statement shape -> a real call site of every macro family -------------------------------
// FMT: positional format string for the LOG_ families; PFX: message prefix for LOGV_/LOGJ_ (they
// append the placeholders themselves, the argument expressions must be plain identifiers).
#define VA_TAGS TAGS("alloc", "c11")
#define VA_EMIT(FMT, PFX, ...)                                                                                        \
  do                                                                                                                  \
  {                                                                                                                   \
    e.pre_emit();                                                                                                     \
    e.emitted = true;                                                                                                 \
    verif_alloc_arm();                                                                                                \
    switch (e.fam)                                                                                                    \
    {                                                                                                                 \
    case va::F_LOG_INFO: { LOG_INFO(e.lg, FMT, ##__VA_ARGS__); } break;                                               \
    case va::F_LOG_TRACE_L3: { LOG_TRACE_L3(e.lg, FMT, ##__VA_ARGS__); } break;                                       \
    case va::F_LOG_TRACE_L2: { LOG_TRACE_L2(e.lg, FMT, ##__VA_ARGS__); } break;                                       \
    case va::F_LOG_TRACE_L1: { LOG_TRACE_L1(e.lg, FMT, ##__VA_ARGS__); } break;                                       \
    case va::F_LOG_DEBUG: { LOG_DEBUG(e.lg, FMT, ##__VA_ARGS__); } break;                                             \
    case va::F_LOG_NOTICE: { LOG_NOTICE(e.lg, FMT, ##__VA_ARGS__); } break;                                           \
    case va::F_LOG_WARNING: { LOG_WARNING(e.lg, FMT, ##__VA_ARGS__); } break;                                         \
    case va::F_LOG_ERROR: { LOG_ERROR(e.lg, FMT, ##__VA_ARGS__); } break;                                             \
    case va::F_LOG_CRITICAL: { LOG_CRITICAL(e.lg, FMT, ##__VA_ARGS__); } break;                                       \
    case va::F_LOGV_INFO: { LOGV_INFO(e.lg, PFX, ##__VA_ARGS__); } break;                                             \
    case va::F_LOGV_DEBUG: { LOGV_DEBUG(e.lg, PFX, ##__VA_ARGS__); } break;                                           \
    case va::F_LOGV_ERROR: { LOGV_ERROR(e.lg, PFX, ##__VA_ARGS__); } break;                                           \
    case va::F_LOGJ_INFO: { LOGJ_INFO(e.lg, PFX, ##__VA_ARGS__); } break;                                             \
    case va::F_LOGJ_TRACE_L1: { LOGJ_TRACE_L1(e.lg, PFX, ##__VA_ARGS__); } break;                                     \
    case va::F_LOGJ_WARNING: { LOGJ_WARNING(e.lg, PFX, ##__VA_ARGS__); } break;                                       \
    case va::F_LOG_INFO_TAGS: { LOG_INFO_TAGS(e.lg, VA_TAGS, FMT, ##__VA_ARGS__); } break;                            \
    case va::F_LOG_DEBUG_TAGS: { LOG_DEBUG_TAGS(e.lg, VA_TAGS, FMT, ##__VA_ARGS__); } break;                          \
    case va::F_LOGV_NOTICE_TAGS: { LOGV_NOTICE_TAGS(e.lg, VA_TAGS, PFX, ##__VA_ARGS__); } break;                      \
    case va::F_LOGJ_INFO_TAGS: { LOGJ_INFO_TAGS(e.lg, VA_TAGS, PFX, ##__VA_ARGS__); } break;                          \
    case va::F_LOG_INFO_LIMIT: { LOG_INFO_LIMIT(std::chrono::nanoseconds{0}, e.lg, FMT, ##__VA_ARGS__); } break;      \
    case va::F_LOG_WARNING_LIMIT: { LOG_WARNING_LIMIT(std::chrono::nanoseconds{0}, e.lg, FMT, ##__VA_ARGS__); } break; \
    case va::F_LOGV_INFO_LIMIT: { LOGV_INFO_LIMIT(std::chrono::nanoseconds{0}, e.lg, PFX, ##__VA_ARGS__); } break;    \
    case va::F_LOGJ_ERROR_LIMIT: { LOGJ_ERROR_LIMIT(std::chrono::nanoseconds{0}, e.lg, PFX, ##__VA_ARGS__); } break;  \
    case va::F_LOG_INFO_LIMIT_EVERY_N: { LOG_INFO_LIMIT_EVERY_N(1, e.lg, FMT, ##__VA_ARGS__); } break;                \
    case va::F_LOGV_DEBUG_LIMIT_EVERY_N: { LOGV_DEBUG_LIMIT_EVERY_N(1, e.lg, PFX, ##__VA_ARGS__); } break;            \
    case va::F_LOGJ_INFO_LIMIT_EVERY_N: { LOGJ_INFO_LIMIT_EVERY_N(1, e.lg, PFX, ##__VA_ARGS__); } break;              \
    case va::F_LOG_DYNAMIC: { LOG_DYNAMIC(e.lg, e.dyn_level, FMT, ##__VA_ARGS__); } break;                            \
    case va::F_LOGV_DYNAMIC: { LOGV_DYNAMIC(e.lg, e.dyn_level, PFX, ##__VA_ARGS__); } break;                          \
    case va::F_LOGJ_DYNAMIC: { LOGJ_DYNAMIC(e.lg, e.dyn_level, PFX, ##__VA_ARGS__); } break;                          \
    case va::F_LOG_DYNAMIC_TAGS: { LOG_DYNAMIC_TAGS(e.lg, e.dyn_level, VA_TAGS, FMT, ##__VA_ARGS__); } break;         \
    case va::F_LOG_BACKTRACE: { LOG_BACKTRACE(e.lg, FMT, ##__VA_ARGS__); } break;                                     \
    case va::F_LOGV_BACKTRACE: { LOGV_BACKTRACE(e.lg, PFX, ##__VA_ARGS__); } break;                                   \
    case va::F_LOGJ_BACKTRACE: { LOGJ_BACKTRACE(e.lg, PFX, ##__VA_ARGS__); } break;                                   \
    case va::F_LOG_BACKTRACE_TAGS: { LOG_BACKTRACE_TAGS(e.lg, VA_TAGS, FMT, ##__VA_ARGS__); } break;                  \
    case va::F_LOG_RUNTIME_METADATA:                                                                                  \
    {                                                                                                                 \
      LOG_RUNTIME_METADATA(e.lg, e.dyn_level, e.rt_file, e.rt_line, e.rt_func, FMT, ##__VA_ARGS__);                   \
    }                                                                                                                 \
    break;                                                                                                            \
    default: break;                                                                                                   \
    }                                                                                                                 \
    e.cnt = verif_alloc_disarm();                                                                                     \
  } while (0)
