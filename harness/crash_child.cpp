// C07 — child program of the `crashkid` harness (standalone: own main, no rapidcheck, no sanitizers).
//
//   g++ -std=gnu++17 -g -O1 -DQUILL_VERIF -I/repo/include ../harness/crash_child.cpp -lpthread -o crash_child
//
// usage: crash_child <spec-file>            (one directive per line)
//        crash_child --spec "<directives separated by ';'>"
//
// Common directives
//   mode crash|cycles
//   dir <scratch dir>            log files, report.txt, snapshots are created in here
//   clock system|tsc
//   queue default|small          FrontendOptions (128 KiB initial) | 1 KiB initial unbounded queue (grows)
//   level info|debug|trace       logger level (always <= Info)
//   wbuf <n>                     FileSinkConfig::set_write_buffer_size (-1 = leave default)
//
// mode crash
//   exitwait 0|1                 BackendOptions::wait_for_queues_to_empty_before_exit; 0 only when the event is a signal (the
//                                signal clause of C07 does not depend on that option, the stop/exit clause requires it)
//   backend sleep_us=<n> slow_us=<n> grace_us=<n> flush_ms=<n>
//   handler 0|1 timeout=<s> logger=none|named|missing
//   loggers shared|per_thread
//   thread n=<statements> pre=<completed before the event> exits=0|1 sizes=<s0,s1,...>   (first = main thread)
//   event kind=return|exit_main|exit_thread|stop|sigsegv|sigabrt|sigfpe|sigill|sigint|sigterm
//         actor=<thread index; == number of threads: an auxiliary non-logging worker>
//         delivery=raise|pthread_kill|kill|fault  drain=0|1  prealloc=0|1
//         (kill: process-directed, every thread but the actor blocks the signals; fault: null store, 1/0, ud2, abort())
//         second=<ms>: with delivery=raise, a parked thread raises the SAME signal <ms> milliseconds after the actor (quill's
//         handler is documented to be entered by several threads: only the first one works, the others wait)
//   Every thread logs its first `pre` statements "<thread>:<seq>:<checksum>:<payload>", then it exits (exits=1, joined
//   by main), parks (polling a flag), or - the actor - waits until all others are quiescent, writes report.txt
//   ("completed c0 c1 ..", "written W", "t_event <CLOCK_MONOTONIC s>") and performs the termination event.
//
// mode cycles
//   live <L>                     persistent worker threads 1..L (main is 0)
//   cycle sleep_us= slow_us= grace_us= flush_ms= handler=0|1 logger=reuse|fresh remove=0|1 stopper=<tid> drain=0|1
//   burst tid=<0..L | e>  sizes=<...> [flush=1]   (tid=e: a new thread that logs the burst and exits; joined before Stop;
//                                           sizes=mod23x<count>: count statements of sizes i % 23; flush=1: the thread
//                                           calls flush_log() right after its burst)
//   After every Stop the cycle's log file is copied to snap<i>.txt with plain syscalls (what is flushed at that instant).
//
// exit codes of the child itself (harness problems, never a verdict about quill): 90 bad spec, 77 survived a signal,
// 78 signal never delivered, 79 drain wait expired.
#include "quill/Backend.h"
#include "quill/Frontend.h"
#include "quill/LogMacros.h"
#include "quill/Logger.h"
#include "quill/sinks/FileSink.h"

#include <atomic>
#include <chrono>
#include <csignal>
#include <cstdint>
#include <cstdio>
#include <cstdlib>
#include <cstring>
#include <fcntl.h>
#include <fstream>
#include <map>
#include <pthread.h>
#include <sstream>
#include <string>
#include <sys/resource.h>
#include <sys/stat.h>
#include <thread>
#include <unistd.h>
#include <vector>

namespace
{
// ------------------------------------------------------------------------------------------------
// statement identity (duplicated verbatim in crashkid.cpp: the oracle recomputes every line)
// ------------------------------------------------------------------------------------------------
std::string make_payload(unsigned tid, unsigned seq, unsigned size)
{
  static char const alpha[] =
    "ABCDEFGHIJKLMNOPQRSTUVWXYZabcdefghijklmnopqrstuvwxyz0123456789 .,;-_+*/=()[]<>{}!?#%&@^~|'\"\\$`";
  uint32_t x = tid * 2654435761u ^ seq * 40503u ^ size * 97u ^ 0x9e3779b9u;
  std::string s(size, ' ');
  for (unsigned i = 0; i < size; ++i)
  {
    x = x * 1664525u + 1013904223u;
    s[i] = alpha[(x >> 16) % (sizeof alpha - 1)];
  }
  return s;
}

std::string checksum_hex(std::string const& s)
{
  uint32_t h = 2166136261u;
  for (unsigned char c : s) { h ^= c; h *= 16777619u; }
  char b[16];
  std::snprintf(b, sizeof b, "%08x", h);
  return b;
}

// ------------------------------------------------------------------------------------------------
// spec
// ------------------------------------------------------------------------------------------------
using KV = std::map<std::string, std::string>;

struct Line
{
  std::string key;
  std::vector<std::string> pos; // positional values
  KV kv;
};

[[noreturn]] void bad_spec(std::string const& why)
{
  std::fprintf(stderr, "crash_child: bad spec: %s\n", why.c_str());
  _exit(90);
}

std::vector<Line> parse_spec(std::string const& text)
{
  std::vector<Line> out;
  std::string cur;
  auto flush_line = [&]()
  {
    std::istringstream is(cur);
    Line l;
    std::string tok;
    if (is >> l.key)
    {
      if (l.key[0] != '#')
      {
        while (is >> tok)
        {
          auto eq = tok.find('=');
          if (eq == std::string::npos) l.pos.push_back(tok);
          else l.kv[tok.substr(0, eq)] = tok.substr(eq + 1);
        }
        out.push_back(l);
      }
    }
    cur.clear();
  };
  for (char c : text)
  {
    if (c == '\n' || c == ';') flush_line();
    else cur += c;
  }
  flush_line();
  return out;
}

long kv_int(KV const& kv, char const* k, long dflt)
{
  auto it = kv.find(k);
  return it == kv.end() ? dflt : std::strtol(it->second.c_str(), nullptr, 10);
}
std::string kv_str(KV const& kv, char const* k, char const* dflt)
{
  auto it = kv.find(k);
  return it == kv.end() ? std::string{dflt} : it->second;
}
std::vector<unsigned> parse_sizes(std::string const& s)
{
  std::vector<unsigned> v;
  size_t p = 0;
  while (p < s.size())
  {
    size_t q = s.find(',', p);
    if (q == std::string::npos) q = s.size();
    if (q > p)
    {
      std::string const tok = s.substr(p, q - p);
      if (tok.compare(0, 6, "mod23x") == 0)
      {
        // compact form of a big burst of tiny statements: sizes i % 23 for i < count
        unsigned long const count = std::strtoul(tok.c_str() + 6, nullptr, 10);
        for (unsigned long i = 0; i < count; ++i) v.push_back(static_cast<unsigned>(i % 23));
      }
      else v.push_back(static_cast<unsigned>(std::strtoul(tok.c_str(), nullptr, 10)));
    }
    p = q + 1;
  }
  return v;
}

struct BackendSpec
{
  long sleep_us{-1}; // -1: library default (500 ns)
  long slow_us{0};
  long grace_us{1};
  long flush_ms{200};
  bool exit_wait{true}; // BackendOptions::wait_for_queues_to_empty_before_exit (false only with a signal as the event)
};

struct ThreadSpec
{
  unsigned n{0};
  unsigned pre{0};
  bool exits{false};
  std::vector<unsigned> sizes;
};

struct Burst
{
  bool ephemeral{false};
  bool flush{false}; // the thread calls flush_log() right after the burst (other threads may be logging / exiting meanwhile)
  unsigned tid{0};
  std::vector<unsigned> sizes;
};

struct CycleSpec
{
  BackendSpec be;
  bool handler{false};
  bool fresh_logger{false};
  bool remove{false};
  unsigned stopper{0};
  bool drain{false};
  std::vector<Burst> bursts;
};

struct Spec
{
  std::string mode{"crash"};
  std::string dir;
  bool tsc{false};
  bool small_queue{false};
  std::string level{"info"};
  long wbuf{-1};
  // crash
  BackendSpec be;
  bool handler{true};
  unsigned timeout{20};
  std::string hlogger{"none"};
  bool per_thread_loggers{false};
  std::vector<ThreadSpec> threads;
  std::string kind{"return"};
  unsigned actor{0};
  std::string delivery{"raise"};
  bool drain{false};
  bool prealloc{false};
  long second_ms{-1}; // >= 0: a second (parked) thread raises the same signal that many ms after the actor did
  // cycles
  unsigned live{0};
  std::vector<CycleSpec> cycles;
};

void read_backend(KV const& kv, BackendSpec& b)
{
  b.sleep_us = kv_int(kv, "sleep_us", b.sleep_us);
  b.slow_us = kv_int(kv, "slow_us", b.slow_us);
  b.grace_us = kv_int(kv, "grace_us", b.grace_us);
  b.flush_ms = kv_int(kv, "flush_ms", b.flush_ms);
}

Spec build_spec(std::vector<Line> const& lines)
{
  Spec s;
  for (auto const& l : lines)
  {
    auto p0 = [&]() -> std::string
    {
      if (l.pos.empty()) bad_spec("directive '" + l.key + "' needs a value");
      return l.pos[0];
    };
    if (l.key == "mode") s.mode = p0();
    else if (l.key == "dir") s.dir = p0();
    else if (l.key == "clock") s.tsc = (p0() == "tsc");
    else if (l.key == "queue") s.small_queue = (p0() == "small");
    else if (l.key == "level") s.level = p0();
    else if (l.key == "wbuf") s.wbuf = std::strtol(p0().c_str(), nullptr, 10);
    else if (l.key == "exitwait") s.be.exit_wait = p0() != "0";
    else if (l.key == "backend") read_backend(l.kv, s.be);
    else if (l.key == "handler")
    {
      s.handler = (p0() != "0");
      s.timeout = static_cast<unsigned>(kv_int(l.kv, "timeout", 20));
      s.hlogger = kv_str(l.kv, "logger", "none");
    }
    else if (l.key == "loggers") s.per_thread_loggers = (p0() == "per_thread");
    else if (l.key == "thread")
    {
      ThreadSpec t;
      t.n = static_cast<unsigned>(kv_int(l.kv, "n", 0));
      t.pre = static_cast<unsigned>(kv_int(l.kv, "pre", 0));
      t.exits = kv_int(l.kv, "exits", 0) != 0;
      t.sizes = parse_sizes(kv_str(l.kv, "sizes", ""));
      if (t.sizes.size() != t.n) bad_spec("thread: sizes count != n");
      if (t.pre > t.n) bad_spec("thread: pre > n");
      s.threads.push_back(t);
    }
    else if (l.key == "event")
    {
      s.kind = kv_str(l.kv, "kind", "return");
      s.actor = static_cast<unsigned>(kv_int(l.kv, "actor", 0));
      s.delivery = kv_str(l.kv, "delivery", "raise");
      s.drain = kv_int(l.kv, "drain", 0) != 0;
      s.prealloc = kv_int(l.kv, "prealloc", 0) != 0;
      s.second_ms = kv_int(l.kv, "second", -1);
    }
    else if (l.key == "live") s.live = static_cast<unsigned>(std::strtoul(p0().c_str(), nullptr, 10));
    else if (l.key == "cycle")
    {
      CycleSpec c;
      read_backend(l.kv, c.be);
      c.handler = kv_int(l.kv, "handler", 0) != 0;
      c.fresh_logger = kv_str(l.kv, "logger", "reuse") == "fresh";
      c.remove = kv_int(l.kv, "remove", 0) != 0;
      c.stopper = static_cast<unsigned>(kv_int(l.kv, "stopper", 0));
      c.drain = kv_int(l.kv, "drain", 0) != 0;
      s.cycles.push_back(c);
    }
    else if (l.key == "burst")
    {
      if (s.cycles.empty()) bad_spec("burst before cycle");
      Burst b;
      std::string t = kv_str(l.kv, "tid", "0");
      if (t == "e") b.ephemeral = true;
      else b.tid = static_cast<unsigned>(std::strtoul(t.c_str(), nullptr, 10));
      b.sizes = parse_sizes(kv_str(l.kv, "sizes", ""));
      b.flush = kv_int(l.kv, "flush", 0) != 0;
      s.cycles.back().bursts.push_back(b);
    }
    else bad_spec("unknown directive '" + l.key + "'");
  }
  if (s.dir.empty()) bad_spec("dir missing");
  return s;
}

// ------------------------------------------------------------------------------------------------
// counting / slow file sink
// ------------------------------------------------------------------------------------------------
std::atomic<long> g_written{0};
std::atomic<long> g_slow_us{0};

class CountingFileSink : public quill::FileSink
{
public:
  using quill::FileSink::FileSink;

  void write_log(quill::MacroMetadata const* md, uint64_t ts, std::string_view thread_id, std::string_view thread_name,
                 std::string const& process_id, std::string_view logger_name, quill::LogLevel level,
                 std::string_view level_desc, std::string_view level_code,
                 std::vector<std::pair<std::string, std::string>> const* named_args, std::string_view log_message,
                 std::string_view log_statement) override
  {
    quill::FileSink::write_log(md, ts, thread_id, thread_name, process_id, logger_name, level, level_desc, level_code,
                               named_args, log_message, log_statement);
    g_written.fetch_add(1, std::memory_order_relaxed);
    long const slow = g_slow_us.load(std::memory_order_relaxed);
    if (slow > 0)
    {
      timespec req{slow / 1000000, (slow % 1000000) * 1000};
      nanosleep(&req, nullptr);
    }
  }
};

struct SmallQueueOptions
{
  static constexpr quill::QueueType queue_type = quill::QueueType::UnboundedBlocking;
  static constexpr size_t initial_queue_capacity = 1024u;
  static constexpr uint32_t blocking_queue_retry_interval_ns = 800;
  static constexpr size_t unbounded_queue_max_capacity = 2ull * 1024u * 1024u * 1024u;
  static constexpr quill::HugePagesPolicy huge_pages_policy = quill::HugePagesPolicy::Never;
};

int volatile* volatile g_null = nullptr;
int volatile g_zero = 0;
int volatile g_seven = 7;
int volatile g_sink_int = 0;

void nap_us(long us)
{
  timespec req{us / 1000000, (us % 1000000) * 1000};
  nanosleep(&req, nullptr);
}

void write_file(std::string const& path, std::string const& content, bool append)
{
  int fd = ::open(path.c_str(), O_WRONLY | O_CREAT | (append ? O_APPEND : O_TRUNC), 0644);
  if (fd < 0) return;
  size_t off = 0;
  while (off < content.size())
  {
    ssize_t w = ::write(fd, content.data() + off, content.size() - off);
    if (w <= 0) break;
    off += static_cast<size_t>(w);
  }
  ::close(fd);
}

// what another process would see in the file at this instant
void snapshot_file(std::string const& from, std::string const& to)
{
  int in = ::open(from.c_str(), O_RDONLY);
  int out = ::open(to.c_str(), O_WRONLY | O_CREAT | O_TRUNC, 0644);
  if (in >= 0 && out >= 0)
  {
    char buf[65536];
    ssize_t r;
    while ((r = ::read(in, buf, sizeof buf)) > 0)
    {
      ssize_t off = 0;
      while (off < r)
      {
        ssize_t w = ::write(out, buf + off, static_cast<size_t>(r - off));
        if (w <= 0) break;
        off += w;
      }
    }
  }
  if (in >= 0) ::close(in);
  if (out >= 0) ::close(out);
}

quill::BackendOptions make_backend_options(BackendSpec const& b)
{
  quill::BackendOptions bo;
  if (b.sleep_us >= 0) bo.sleep_duration = std::chrono::microseconds{b.sleep_us};
  bo.wait_for_queues_to_empty_before_exit = b.exit_wait;
  bo.log_timestamp_ordering_grace_period = std::chrono::microseconds{b.grace_us};
  bo.sink_min_flush_interval = std::chrono::milliseconds{b.flush_ms};
  return bo;
}

quill::LogLevel level_of(std::string const& l)
{
  if (l == "debug") return quill::LogLevel::Debug;
  if (l == "trace") return quill::LogLevel::TraceL3;
  return quill::LogLevel::Info;
}

int signal_of(std::string const& kind)
{
  if (kind == "sigsegv") return SIGSEGV;
  if (kind == "sigabrt") return SIGABRT;
  if (kind == "sigfpe") return SIGFPE;
  if (kind == "sigill") return SIGILL;
  if (kind == "sigint") return SIGINT;
  if (kind == "sigterm") return SIGTERM;
  return 0;
}

// ------------------------------------------------------------------------------------------------
template <typename TOpts>
struct Program
{
  using Frontend = quill::FrontendImpl<TOpts>;
  using Logger = quill::LoggerImpl<TOpts>;

  Spec const& spec;
  explicit Program(Spec const& s) : spec(s) {}

  static constexpr unsigned kMaxThreads = 64;
  std::atomic<unsigned> completed[kMaxThreads] = {};
  std::atomic<int> parked[kMaxThreads] = {};
  std::atomic<int> main_ready{0};
  std::atomic<int> finish{0};
  std::atomic<int> kill_request{0};
  pthread_t kill_target{};
  std::vector<Logger*> thread_logger; // per logical thread

  std::shared_ptr<quill::Sink> make_sink(std::string const& file)
  {
    quill::FileSinkConfig cfg;
    cfg.set_open_mode('w');
    if (spec.wbuf >= 0) cfg.set_write_buffer_size(static_cast<size_t>(spec.wbuf));
    return Frontend::template create_or_get_sink<CountingFileSink>(file, cfg, quill::FileEventNotifier{});
  }

  Logger* make_logger(std::string const& name, std::shared_ptr<quill::Sink> sink)
  {
    Logger* l = Frontend::create_or_get_logger(
      name, std::move(sink), quill::PatternFormatterOptions{"%(message)"},
      spec.tsc ? quill::ClockSourceType::Tsc : quill::ClockSourceType::System);
    l->set_log_level(level_of(spec.level));
    return l;
  }

  void start_backend(BackendSpec const& b, bool handler, unsigned timeout, std::string const& hlogger_name)
  {
    g_slow_us.store(b.slow_us);
    quill::BackendOptions bo = make_backend_options(b);
    if (handler)
    {
      quill::SignalHandlerOptions sho;
      sho.timeout_seconds = timeout;
      sho.logger = hlogger_name;
      quill::Backend::start<TOpts>(bo, sho);
    }
    else
    {
      quill::Backend::start(bo);
    }
  }

  void log_one(Logger* logger, unsigned tid, unsigned seq, unsigned size)
  {
    std::string const payload = make_payload(tid, seq, size);
    std::string const ck = checksum_hex(payload);
    switch (seq % 3)
    {
    case 0: LOG_INFO(logger, "{}:{}:{}:{}", tid, seq, ck, payload); break;
    case 1: LOG_INFO(logger, "{}:{}:{}:{}", tid, seq, ck, payload.c_str()); break;
    default: LOG_INFO(logger, "{}:{}:{}:{}", tid, seq, ck, std::string_view{payload}); break;
    }
  }

  // ---------------------------------------------------------------------------------------------
  // mode crash
  // ---------------------------------------------------------------------------------------------
  void block_handled_signals()
  {
    sigset_t set;
    sigemptyset(&set);
    for (int s : {SIGSEGV, SIGABRT, SIGFPE, SIGILL, SIGINT, SIGTERM}) sigaddset(&set, s);
    pthread_sigmask(SIG_BLOCK, &set, nullptr);
  }

  std::atomic<int> second_sig{0};
  std::atomic<int> second_raiser{-1};

  void park(unsigned t)
  {
    parked[t].store(1);
    while (!finish.load())
    {
      nap_us(200);
      if (second_sig.load() != 0 && second_raiser.load() == static_cast<int>(t))
      {
        int const sig = second_sig.load();
        if (spec.second_ms > 0) nap_us(spec.second_ms * 1000);
        ::raise(sig); // the handler parks this thread (or the process is already gone)
        for (;;) nap_us(1000);
      }
    }
  }

  void write_report()
  {
    std::string rep = "completed";
    for (size_t t = 0; t < spec.threads.size(); ++t) rep += " " + std::to_string(completed[t].load());
    rep += "\nwritten " + std::to_string(g_written.load()) + "\n";
    timespec now{};
    clock_gettime(CLOCK_MONOTONIC, &now); // system-wide clock: the parent measures event -> process end
    char tb[64];
    std::snprintf(tb, sizeof tb, "t_event %lld.%09ld\n", static_cast<long long>(now.tv_sec), now.tv_nsec);
    rep += tb;
    write_file(spec.dir + "/report.txt", rep, false);
  }

  // returns true when the caller (main) has to return from main
  bool act()
  {
    unsigned const nthreads = static_cast<unsigned>(spec.threads.size());
    if (spec.drain)
    {
      long total = 0;
      for (unsigned t = 0; t < nthreads; ++t) total += completed[t].load();
      int waited = 0;
      while (g_written.load() < total)
      {
        nap_us(200);
        if (++waited > 50000) _exit(79);
      }
    }
    write_report();

    std::string const& k = spec.kind;
    if (k == "return") return true;
    if (k == "exit_main" || k == "exit_thread") std::exit(0);
    if (k == "stop")
    {
      quill::Backend::stop();
      // what is in the file (as seen through a fresh descriptor) at the instant stop() returned
      snapshot_file(spec.dir + "/log.txt", spec.dir + "/snap.txt");
      write_file(spec.dir + "/report.txt", std::string{"stop_returned running="} + (quill::Backend::is_running() ? "1" : "0") + "\n", true);
      if (spec.actor == 0) return true;
      finish.store(1); // main returns from main
      for (;;) nap_us(1000);
    }
    int const sig = signal_of(k);
    if (sig == 0) bad_spec("unknown kind " + k);
    if (spec.delivery == "fault" && (sig == SIGSEGV || sig == SIGFPE || sig == SIGILL || sig == SIGABRT))
    {
      // the real thing instead of raise(): the kernel (or abort()) sends the signal to this thread
      if (sig == SIGSEGV) { *g_null = 1; }
      else if (sig == SIGFPE) { g_sink_int = g_seven / g_zero; }
      else if (sig == SIGABRT) { std::abort(); }
      else
      {
#if defined(__x86_64__) || defined(__i386__)
        __asm__ volatile("ud2");
#else
        ::raise(sig);
#endif
      }
      _exit(77);
    }
    if (spec.delivery == "raise" || spec.delivery == "fault")
    {
      if (spec.delivery == "raise" && spec.second_ms >= 0)
      {
        for (unsigned o = 0; o < kMaxThreads; ++o)
          if (o != spec.actor && parked[o].load()) { second_raiser.store(static_cast<int>(o)); second_sig.store(sig); break; }
      }
      ::raise(sig);
      _exit(77); // the handler must not return here for any of the six signals
    }
    kill_target = pthread_self();
    kill_request.store(sig);
    // "between its log statements": plain user code, no quill call in progress
    for (int i = 0; i < 100000; ++i) nap_us(100);
    _exit(78);
  }

  void worker_body(unsigned t)
  {
    unsigned const nthreads = static_cast<unsigned>(spec.threads.size());
    bool const is_actor = (t == spec.actor);
    if (!is_actor && spec.delivery == "kill") block_handled_signals();
    if (is_actor && spec.prealloc) Frontend::preallocate();
    if (t < nthreads)
    {
      ThreadSpec const& ts = spec.threads[t];
      for (unsigned i = 0; i < ts.pre; ++i)
      {
        log_one(thread_logger[t], t, i, ts.sizes[i]);
        completed[t].store(i + 1);
      }
      if (!is_actor)
      {
        if (ts.exits && ts.pre == ts.n) return; // thread exits; main joins it
        park(t);
        return;
      }
    }
    // actor (possibly the auxiliary non-logging worker): wait until everybody else is quiescent
    while (!main_ready.load()) nap_us(100);
    for (unsigned o = 1; o < nthreads; ++o)
    {
      if (o == t) continue;
      ThreadSpec const& os = spec.threads[o];
      if (os.exits && os.pre == os.n) continue; // joined by main before main_ready
      while (!parked[o].load()) nap_us(100);
    }
    act();
  }

  int run_crash()
  {
    unsigned const nthreads = static_cast<unsigned>(spec.threads.size());
    if (nthreads == 0 || nthreads >= kMaxThreads) bad_spec("thread count");
    if (spec.actor > nthreads) bad_spec("actor out of range");
    int const sig = signal_of(spec.kind);
    if ((spec.kind == "return" || spec.kind == "exit_main") && spec.actor != 0) bad_spec("actor must be main");
    if (spec.kind == "exit_thread" && spec.actor == 0) bad_spec("actor must be a worker");
    if (sig != 0 && (!spec.handler || spec.actor >= nthreads)) bad_spec("signal kinds need the handler and a logging actor");

    // the pthread_kill / kill sender: never logs, never runs the handler
    if (sig != 0 && (spec.delivery == "pthread_kill" || spec.delivery == "kill"))
    {
      new std::thread( // leaked on purpose: it never ends

        [this]()
        {
          sigset_t all;
          sigfillset(&all);
          pthread_sigmask(SIG_SETMASK, &all, nullptr);
          int s;
          while ((s = kill_request.load()) == 0) nap_us(50);
          nap_us(300); // let the target get back into plain user code
          if (spec.delivery == "kill") ::kill(getpid(), s);
          else pthread_kill(kill_target, s);
          for (;;) nap_us(1000);
        });
    }

    std::string const hname = spec.hlogger == "named" ? "zz_sig" : (spec.hlogger == "missing" ? "no_such_logger" : "");
    start_backend(spec.be, spec.handler, spec.timeout, hname);

    auto sink = make_sink(spec.dir + "/log.txt");
    Logger* shared = spec.per_thread_loggers ? nullptr : make_logger("app", sink);
    for (unsigned t = 0; t < nthreads; ++t)
    {
      thread_logger.push_back(spec.per_thread_loggers ? make_logger("t" + std::to_string(t), sink) : shared);
    }
    if (spec.hlogger == "named") make_logger("zz_sig", sink);
    sink.reset();

    unsigned const nworkers = (spec.actor == nthreads) ? nthreads + 1 : nthreads; // + auxiliary actor
    std::vector<std::thread*> workers(nworkers, nullptr);
    for (unsigned t = 1; t < nworkers; ++t) workers[t] = new std::thread([this, t]() { worker_body(t); });

    // main thread = logical thread 0
    bool const main_is_actor = (spec.actor == 0);
    if (!main_is_actor && spec.delivery == "kill") block_handled_signals();
    if (main_is_actor && spec.prealloc) Frontend::preallocate();
    ThreadSpec const& ms = spec.threads[0];
    for (unsigned i = 0; i < ms.pre; ++i)
    {
      log_one(thread_logger[0], 0, i, ms.sizes[i]);
      completed[0].store(i + 1);
    }
    // threads that finished their program exit for real (thread-local context destroyed) before the event
    for (unsigned t = 1; t < nthreads; ++t)
    {
      ThreadSpec const& ts = spec.threads[t];
      if (t != spec.actor && ts.exits && ts.pre == ts.n) workers[t]->join();
    }
    if (main_is_actor)
    {
      for (unsigned t = 1; t < nthreads; ++t)
      {
        ThreadSpec const& ts = spec.threads[t];
        if (ts.exits && ts.pre == ts.n) continue;
        while (!parked[t].load()) nap_us(100);
      }
      if (act()) return 0; // return from main (other threads stay parked; their std::thread objects are leaked)
      return 0;
    }
    main_ready.store(1);
    while (!finish.load()) nap_us(200);
    return 0; // stop() was issued by a worker: normal return from main
  }

  // ---------------------------------------------------------------------------------------------
  // mode cycles
  // ---------------------------------------------------------------------------------------------
  std::atomic<int> go_cycle{-1};       // bursts of this cycle may start
  std::atomic<int> stop_cycle{-1};     // the stopper of this cycle may call stop()
  std::atomic<int> stopped_cycle{-1};  // stop() of this cycle returned
  std::atomic<int> burst_done[kMaxThreads] = {};
  std::atomic<Logger*> cycle_logger{nullptr};
  unsigned next_seq[kMaxThreads] = {};

  void run_bursts_of(unsigned tid, CycleSpec const& c, Logger* logger)
  {
    for (Burst const& b : c.bursts)
    {
      if (b.ephemeral || b.tid != tid) continue;
      for (unsigned sz : b.sizes) log_one(logger, tid, next_seq[tid]++, sz);
      if (b.flush) logger->flush_log();
    }
  }

  void live_body(unsigned tid)
  {
    for (size_t ci = 0; ci < spec.cycles.size(); ++ci)
    {
      while (go_cycle.load() < static_cast<int>(ci)) nap_us(50);
      CycleSpec const& c = spec.cycles[ci];
      run_bursts_of(tid, c, cycle_logger.load());
      burst_done[tid].store(static_cast<int>(ci) + 1);
      if (c.stopper == tid)
      {
        while (stop_cycle.load() < static_cast<int>(ci)) nap_us(50);
        quill::Backend::stop();
        stopped_cycle.store(static_cast<int>(ci));
      }
    }
  }

  int run_cycles()
  {
    if (spec.live + 1 >= kMaxThreads) bad_spec("live");
    std::vector<std::thread> live;
    for (unsigned t = 1; t <= spec.live; ++t) live.emplace_back([this, t]() { live_body(t); });

    Logger* reuse = nullptr;
    long total_completed = 0;
    std::string report;
    for (size_t ci = 0; ci < spec.cycles.size(); ++ci)
    {
      CycleSpec const& c = spec.cycles[ci];
      if (c.stopper > spec.live) bad_spec("stopper");
      start_backend(c.be, c.handler, 5, "");
      bool const running_after_start = quill::Backend::is_running();

      Logger* logger;
      std::string file;
      if (c.fresh_logger)
      {
        file = spec.dir + "/cyc" + std::to_string(ci) + ".log";
        logger = make_logger("cyc" + std::to_string(ci), make_sink(file));
      }
      else
      {
        file = spec.dir + "/app.log";
        if (!reuse) reuse = make_logger("app", make_sink(file));
        logger = reuse;
      }
      cycle_logger.store(logger);
      go_cycle.store(static_cast<int>(ci));

      // ephemeral threads: log a burst, exit; main logs its own bursts meanwhile
      std::vector<std::thread> eph;
      unsigned e_idx = 0;
      for (Burst const& b : c.bursts)
      {
        if (!b.ephemeral) continue;
        unsigned const etid = 100u * (static_cast<unsigned>(ci) + 1u) + e_idx++;
        eph.emplace_back(
          [this, etid, &b, logger]()
          {
            unsigned seq = 0;
            for (unsigned sz : b.sizes) log_one(logger, etid, seq++, sz);
            if (b.flush) logger->flush_log();
          });
      }
      run_bursts_of(0, c, logger);
      for (auto& t : eph) t.join();
      for (unsigned t = 1; t <= spec.live; ++t)
      {
        while (burst_done[t].load() < static_cast<int>(ci) + 1) nap_us(50);
      }
      for (Burst const& b : c.bursts) total_completed += static_cast<long>(b.sizes.size());

      if (c.drain)
      {
        int waited = 0;
        while (g_written.load() < total_completed)
        {
          nap_us(200);
          if (++waited > 50000) _exit(79);
        }
      }
      if (c.fresh_logger && c.remove) Frontend::remove_logger(logger);

      // every log call of this cycle has returned: Stop is issued now
      long const pending = total_completed - g_written.load();
      if (c.stopper == 0)
      {
        quill::Backend::stop();
      }
      else
      {
        stop_cycle.store(static_cast<int>(ci));
        while (stopped_cycle.load() < static_cast<int>(ci)) nap_us(50);
      }
      bool const running_after_stop = quill::Backend::is_running();
      snapshot_file(file, spec.dir + "/snap" + std::to_string(ci) + ".txt");
      report += "cycle " + std::to_string(ci) + " pending=" + std::to_string(pending) +
        " started=" + (running_after_start ? "1" : "0") + " running_after_stop=" + (running_after_stop ? "1" : "0") +
        " total=" + std::to_string(total_completed) + "\n";
      write_file(spec.dir + "/report.txt", report, false);
    }
    for (auto& t : live) t.join();
    report += "done\n";
    write_file(spec.dir + "/report.txt", report, false);
    return 0;
  }
};

std::string read_text(char const* path)
{
  std::ifstream f(path, std::ios::binary);
  if (!f) bad_spec(std::string{"cannot read "} + path);
  std::stringstream ss;
  ss << f.rdbuf();
  return ss.str();
}
} // namespace

int main(int argc, char** argv)
{
  if (argc < 2) bad_spec("usage: crash_child <spec-file> | --spec \"<text>\"");
  std::string text;
  if (std::strcmp(argv[1], "--spec") == 0)
  {
    if (argc < 3) bad_spec("--spec needs text");
    text = argv[2];
  }
  else text = read_text(argv[1]);

  rlimit rl{0, 0};
  setrlimit(RLIMIT_CORE, &rl);

  Spec const& spec = *new Spec(build_spec(parse_spec(text))); // leaked: outlives static destruction
  if (spec.small_queue)
  {
    auto* p = new Program<SmallQueueOptions>(spec); // leaked on purpose: parked threads keep using it during exit
    return spec.mode == "cycles" ? p->run_cycles() : p->run_crash();
  }
  auto* p = new Program<quill::FrontendOptions>(spec);
  return spec.mode == "cycles" ? p->run_cycles() : p->run_crash();
}
