// C04 — Async-formatted message equals formatting the arguments at the call site; deep copy; size accounting.
//
// In-process, single thread: the harness thread is BOTH the logging thread and the (manual) backend thread.
// Per case: 1..3 statements, each = (shape from the typed catalog, generated runtime format string, generated
// values). For every statement, in this order:
//   1. expected = sanitize(fmtquill::vformat(fmt, original objects))            (call-site oracle)
//   2. direct codec round trip in a canary-guarded buffer: size pass == encode advance == decode advance, and the
//      decoded argument store formats to `expected`                               (size accounting, 2nd way)
//   3. logger->log_statement<false,false>(...) with the runtime MacroMetadata     (quill's own assert = 1st way);
//      one statement in five uses log_statement<false,true> with a dynamic level, which travels behind the arguments
//   4. every argument object is overwritten / cleared / destroyed                 (deep copy)
// then the backend is polled until empty and the messages (and levels) handed to the recording sink must equal the
// expected ones, in order (a size mismatch would desynchronise the following records: 3rd way).
//
// Catalog: fmtcat_shapes_1.cpp ... fmtcat_shapes_8.cpp (Stmt<Slot...> instantiations; all eight link into the one
// binary), shared headers fmtcat.h (slots, Val<T>, user types) and fmtcat_valgen.h (value generators).
//
// Params: exclude=<classes>  known-finding classes avoided by construction
//                            (fmtcat.direct_codec_nested_quoted, fmtcat.positional_format_misread_as_named)
//         shape=<name>       force one shape (list_shapes=1 prints them)
//         fork=1             fork-per-case (also FMTCAT_FORK=1): slow, but the driver shrinks crashing cases
//         reexec_max=<n>     an in-process abort within the first n cases (default 10000) re-runs the same command
//                            fork-per-case to shrink it; later aborts leave the unshrunk replay and exit 1
//
// Oracle notes (soundness): sanitisation is applied exactly when an argument's decoded type sets
// DynamicFormatArgStore's string-related flag (strings, char, every custom-formatted type), mirrored per slot in
// SlotInfo::string_related and cross-checked (counter string_related_flag_differs_from_model). The backend drops ONE
// trailing '\n' of a message before the sinks see it (BackendWorker, "if the log_message ends with \n we should
// exclude it"): the comparison does the same (label trailing_newline). unordered_* containers are compared as
// multisets of call-site element texts (any permutation joined by ", "). Null C strings only as top-level arguments
// (expected ""), StringRef targets stay untouched until the case ends.
#include "fmtcat.h"

#include "../engine/driver_common.h" // write_replay (crash guard only)

#include "quill/Backend.h"
#include "quill/Frontend.h"
#include "quill/sinks/Sink.h"

#include <cfloat>
#include <cmath>
#include <csignal>

using namespace verif;

extern "C" void __sanitizer_set_death_callback(void (*callback)(void)) __attribute__((weak));

namespace fmtcat
{
namespace
{
// ---------------------------------------------------------------------------------------------------------------------
// process-lifetime state
// ---------------------------------------------------------------------------------------------------------------------
Params g_params;
quill::ManualBackendWorker* g_worker = nullptr;
FLogger* g_logger = nullptr;
std::vector<std::string> g_recorded; // log_message of every write_log since the last drain
std::vector<quill::LogLevel> g_recorded_level;
std::vector<std::string> g_notes;    // error_notifier messages since the last drain
std::vector<ShapeEntry> g_shapes;
unsigned g_total_weight = 0;
long g_forced_shape = -1;
size_t g_fallback_shape = 0;
bool g_excl_brace_adjacent = false;
quill::detail::SizeCacheVector g_cache; // persistent like the per-thread cache of ThreadContext
quill::DynamicFormatArgStore g_store;
std::vector<unsigned char> g_rt;

constexpr size_t kGuard = 256;
constexpr unsigned char kCanary = 0xA5;

// runtime metadata: never relocated; an entry is reused only 65536 statements later (every case drains the
// backend completely before it ends, so nothing can still refer to it)
struct Meta
{
  std::string fmt;
  std::string fmt_rt; // fmt + separator "{}" separator "{}" separator "{}" (what LOG_RUNTIME_METADATA builds)
  alignas(quill::MacroMetadata) unsigned char md[sizeof(quill::MacroMetadata)];
};
constexpr size_t kMetaRing = 65536;
std::deque<Meta> g_meta;
size_t g_meta_next = 0;

class RecordingSink final : public quill::Sink
{
public:
  void write_log(quill::MacroMetadata const*, uint64_t, std::string_view, std::string_view, std::string const&,
                 std::string_view, quill::LogLevel level, std::string_view, std::string_view,
                 std::vector<std::pair<std::string, std::string>> const*, std::string_view log_message,
                 std::string_view) override
  {
    g_recorded.emplace_back(log_message);
    g_recorded_level.push_back(level);
  }
  void flush_sink() override {}
};

// The CONFIGURED sanitisation (BackendOptions::check_printable_char), chosen per process by the parameter "printable":
//   default : quill's default predicate (' '..'~' and '\n')
//   strict  : a user predicate that is stricter than the default for some plain ASCII characters ('|', '"', '%', '7')
//             and wider for others ('\t' is allowed)
//   off     : check_printable_char = {} (no sanitisation at all)
int g_printable_mode = 0; // 0 default, 1 strict, 2 off
bool printable_pred(char ch)
{
  unsigned char u = static_cast<unsigned char>(ch);
  if (g_printable_mode == 1)
  {
    if (u == '|' || u == '"' || u == '%' || u == '7') return false;
    return (u >= 0x20 && u <= 0x7E) || u == '\n' || u == '\t';
  }
  return (u >= 0x20 && u <= 0x7E) || u == '\n';
}
// independent reimplementation of what BackendOptions::check_printable_char documents: every character the predicate
// rejects is replaced by \xHH (two upper-case hex digits)
std::string sanitize(std::string const& s)
{
  static char const hex[] = "0123456789ABCDEF";
  if (g_printable_mode == 2) return s;
  std::string o;
  o.reserve(s.size());
  for (unsigned char u : s)
  {
    if (printable_pred(static_cast<char>(u))) o += static_cast<char>(u);
    else { o += "\\x"; o += hex[u >> 4]; o += hex[u & 15]; }
  }
  return o;
}

struct Tok
{
  bool is_arg{false};
  size_t arg{0};
  std::string spec;    // without the colon
  std::string lit_out; // literal: the text it produces
};

struct Piece
{
  bool unordered{false};
  size_t arg{0};
  std::string text; // expected text of this piece (sanitised when the statement is)
};

struct Pending : Prepared
{
  Meta* meta{nullptr};
  std::string shape;
  std::string expected; // full message, sanitised when the statement is string-related
  bool sr{false};
  bool want_runtime_md{false};
  bool has_unordered{false};
  bool logged{false};
  size_t nargs{0};
  std::vector<Tok> toks;
  bool manual{false};
  bool any_spec{false};
  std::vector<Piece> pieces; // only when has_unordered
};
std::deque<Pending> g_pending;

// ---------------------------------------------------------------------------------------------------------------------
// crash guard: an abort (quill assert, sanitizer report) inside an in-process case would otherwise end the driver
// with an exit code the check script reads as an infrastructure failure. Turn it into a failing case: write the
// replay file of the CURRENT choice vector, then (early in a run) re-execute the same command fork-per-case so that
// the driver meets the same case again in a child and shrinks it; otherwise exit 1 with the unshrunk replay.
// ---------------------------------------------------------------------------------------------------------------------
bool g_fork_mode = false;
bool g_replay_mode = false;
std::string g_replay_out;
std::vector<std::string> g_argv;
long g_case_counter = 0;
long g_reexec_max_cases = 10000;
uint32_t const* g_cur_choices = nullptr;
size_t g_cur_n = 0;
Report* g_cur_report = nullptr;
volatile sig_atomic_t g_dying = 0;

void on_death()
{
  if (g_fork_mode || g_dying || g_cur_report == nullptr) return;
  g_dying = 1;
  Report r;
  r.failed = true;
  r.message = "process aborted inside the case (failed quill assert or sanitizer report; see stderr)";
  r.render = g_cur_report->render;
  if (!g_replay_out.empty() && g_cur_choices != nullptr)
  {
    std::vector<uint32_t> v(g_cur_choices, g_cur_choices + g_cur_n);
    write_replay(g_replay_out, "fmtcat", g_params, v, r);
  }
  std::printf("%s", r.render.c_str());
  std::printf(g_replay_mode ? "REPLAY-FAIL: %s\n" : "CASE-ABORTED: %s\n", r.message.c_str());
  std::fflush(stdout);
  if (!g_replay_mode && !g_replay_out.empty() && !g_argv.empty() && g_case_counter <= g_reexec_max_cases)
  {
    // Second attempt, fork-per-case: the driver regenerates the same cases from the same seed, the crashing one
    // now dies in a child and is shrunk by the driver. The unshrunk replay is kept aside as the fallback (see
    // reexec_epilogue) so that the failure cannot get lost.
    std::string const aside = g_replay_out + ".unshrunk";
    std::rename(g_replay_out.c_str(), aside.c_str());
    setenv("FMTCAT_REEXEC", "1", 1);
    std::vector<char*> av;
    for (auto& a : g_argv) av.push_back(&a[0]);
    static char p1[] = "--param", p2[] = "fork=1";
    av.push_back(p1);
    av.push_back(p2);
    av.push_back(nullptr);
    sigset_t all;
    sigfillset(&all);
    sigprocmask(SIG_UNBLOCK, &all, nullptr);
    std::printf("fmtcat: re-running fork-per-case to shrink the aborting case\n");
    std::fflush(stdout);
    execv("/proc/self/exe", av.data());
    std::rename(aside.c_str(), g_replay_out.c_str()); // exec failed
  }
  _exit(1);
}

// runs at exit of the re-executed (fork-per-case) process
void reexec_epilogue()
{
  std::string const aside = g_replay_out + ".unshrunk";
  if (access(g_replay_out.c_str(), F_OK) == 0)
  {
    unlink(aside.c_str()); // the driver found the failure again and left the shrunk replay
    return;
  }
  if (access(aside.c_str(), F_OK) == 0)
  {
    std::rename(aside.c_str(), g_replay_out.c_str());
    std::printf("fmtcat: the in-process abort did not reproduce fork-per-case; the unshrunk replay is kept\n");
    std::fflush(stdout);
    _exit(1);
  }
}

void on_sigabrt(int)
{
  on_death();
  signal(SIGABRT, SIG_DFL);
  raise(SIGABRT);
}

void read_cmdline()
{
  std::ifstream f("/proc/self/cmdline", std::ios::binary);
  std::string all((std::istreambuf_iterator<char>(f)), std::istreambuf_iterator<char>());
  std::vector<std::string>& av = g_argv;
  av.clear();
  size_t pos = 0;
  while (pos < all.size())
  {
    size_t e = all.find('\0', pos);
    if (e == std::string::npos) e = all.size();
    av.emplace_back(all.substr(pos, e - pos));
    pos = e + 1;
  }
  char const* fe = std::getenv("FMTCAT_FORK");
  g_fork_mode = fe != nullptr && fe[0] != '\0' && fe[0] != '0';
  for (size_t k = 1; k < av.size(); ++k)
  {
    if (av[k] == "--replay-out" && k + 1 < av.size()) g_replay_out = av[k + 1];
    if (av[k] == "--replay" && k + 1 < av.size()) g_replay_mode = true;
    if (av[k] == "--param" && k + 1 < av.size() && (av[k + 1] == "fork=1" || av[k + 1] == "fork")) g_fork_mode = true;
  }
}

// ---------------------------------------------------------------------------------------------------------------------
// format-string grammar
// ---------------------------------------------------------------------------------------------------------------------
std::string gen_fill_align(Choices& c)
{
  size_t a = c.weighted({5, 2, 2, 2});
  if (a == 0) return {};
  std::string s;
  if (c.pick(3) == 2)
  {
    static char const fills[] = "*_.-#0 x=+~";
    s += fills[c.pick(sizeof fills - 1)];
  }
  s += "<>^"[a - 1];
  return s;
}

std::string gen_width(Choices& c)
{
  if (c.pick(2) == 0) return {};
  return std::to_string(1 + c.pick(24));
}

std::string gen_precision(Choices& c, unsigned max)
{
  if (c.pick(3) != 2) return {};
  return "." + std::to_string(c.pick(max + 1));
}

// a spec (without the colon) that fmt accepts for the category; "" = none. Choice 0 everywhere = no spec.
std::string gen_spec(Choices& c, Cat cat)
{
  if (cat == Cat::Opaque) return {};
  if (c.pick(2) == 0) return {};
  std::string s;
  switch (cat)
  {
  case Cat::SInt:
  case Cat::UInt:
  {
    s = gen_fill_align(c);
    if (cat == Cat::SInt) s += std::array<char const*, 4>{"", "+", "-", " "}[c.pick(4)];
    if (c.pick(4) == 3) s += "#";
    if (c.pick(4) == 3) s += "0";
    s += gen_width(c);
    s += std::array<char const*, 7>{"", "d", "x", "X", "o", "b", "B"}[c.pick(7)];
    break;
  }
  case Cat::Bool:
  {
    s = gen_fill_align(c);
    size_t t = c.pick(5);
    if (t >= 3 && c.pick(3) == 2) s += "#";
    if (t >= 2 && c.pick(3) == 2) s += "0";
    s += gen_width(c);
    s += std::array<char const*, 5>{"", "s", "d", "x", "b"}[t];
    break;
  }
  case Cat::Char:
  {
    s = gen_fill_align(c);
    s += gen_width(c);
    s += std::array<char const*, 6>{"", "c", "?", "d", "x", "X"}[c.pick(6)];
    break;
  }
  case Cat::Float:
  {
    s = gen_fill_align(c);
    s += std::array<char const*, 4>{"", "+", "-", " "}[c.pick(4)];
    if (c.pick(5) == 4) s += "#";
    if (c.pick(4) == 3) s += "0";
    s += gen_width(c);
    s += gen_precision(c, 17);
    s += std::array<char const*, 9>{"", "f", "e", "g", "E", "F", "G", "a", "A"}[c.pick(9)];
    break;
  }
  case Cat::Str:
  {
    s = gen_fill_align(c);
    s += gen_width(c);
    s += gen_precision(c, 40);
    s += std::array<char const*, 3>{"", "s", "?"}[c.pick(3)];
    break;
  }
  case Cat::Ptr:
  {
    s = gen_fill_align(c);
    s += gen_width(c);
    if (c.pick(2) == 1) s += "p";
    break;
  }
  case Cat::Dur:
    s = std::array<char const*, 7>{"%H:%M:%S", "%Q%q", "%Q", "%q", ">14", "%M:%S", "%T"}[c.pick(7)];
    break;
  case Cat::TimePoint:
    s = std::array<char const*, 7>{"%F %T", "%Y-%m-%d", "%H:%M:%S", "%H:%M", "%j", ">40", "%D %R"}[c.pick(7)];
    break;
  case Cat::Opaque: break;
  }
  return s;
}

// literal text between placeholders: {text as written in the format string, text it produces}.
// Printable ASCII, '\n' and (rarely) '\t'. Brace escapes are padded with a blank so that quill's named-argument
// scanner (C19's business; its handling of "}}" directly after a placeholder is finding F4) never sees
// "{<letter>" and never a "}}" glued to a placeholder.
struct Lit { char const* in_fmt; char const* out; };
Lit gen_literal(Choices& c, Report& r)
{
  static Lit const lits[] = {{"", ""},         {" ", " "},       {", ", ", "},       {"x=", "x="},   {" [", " ["},
                             {"] ", "] "},     {": ", ": "},     {"{{ ", "{ "},      {" }}", " }"},  {"%", "%"},
                             {"\n", "\n"},     {" -> ", " -> "}, {"|", "|"},         {"value ", "value "},
                             {"\"", "\""},     {"\\", "\\"},     {"%s %d", "%s %d"}, {"#", "#"},     {"100% ", "100% "},
                             {"a", "a"},       {"\t", "\t"},     {"{{ }} ", "{ } "}, {"line1\nline2 ", "line1\nline2 "}};
  // known-finding class fmtcat.positional_format_misread_as_named: UNpadded brace escapes, which may end up glued
  // to a placeholder ("{}}}", "{}{{a}}"): MacroMetadata::_contains_named_args loses sync there and takes the "{a" of
  // an escaped "{{a}}" for a named argument. Excluded by construction => the padded twins (never "{<letter>").
  static Lit const glued[] = {{"}}", "}"}, {"{{", "{"}, {"{{a}}", "{a}"}};
  static Lit const padded[] = {{" }}", " }"}, {"{{ ", "{ "}, {"{{ a }}", "{ a }"}};
  size_t const nl = sizeof lits / sizeof *lits;
  size_t const k = c.pick(static_cast<uint32_t>(nl + 3));
  if (k < nl) return lits[k];
  if (g_excl_brace_adjacent)
  {
    r.count("excluded.fmtcat.positional_format_misread_as_named");
    return padded[k - nl];
  }
  r.label("known_class.fmtcat.positional_format_misread_as_named");
  return glued[k - nl];
}

void build_format(Choices& c, Report& r, SlotInfo const* info, size_t n, std::string& fmt, std::vector<Tok>& toks,
                  bool& manual, bool& any_spec)
{
  fmt.clear();
  toks.clear();
  any_spec = false;
  manual = n > 0 && c.weighted({3, 1}) == 1;
  std::vector<size_t> idx;
  if (n == 0) { /* literal text only */ }
  else if (!manual)
  {
    size_t k = n;
    if (n > 1 && c.pick(8) == 7) k = c.pick(static_cast<uint32_t>(n)); // trailing arguments not referenced
    for (size_t i = 0; i < k; ++i) idx.push_back(i);
  }
  else
  {
    for (size_t i = 0; i < n; ++i) idx.push_back(i);
    for (size_t i = n; i > 1; --i) std::swap(idx[i - 1], idx[c.pick(static_cast<uint32_t>(i))]);
    if (c.pick(4) == 3) idx.push_back(c.pick(static_cast<uint32_t>(n))); // one argument referenced twice
    if (idx.size() > 1 && c.pick(6) == 5) idx.pop_back();                 // one argument not referenced
  }
  auto add_lit = [&]()
  {
    Lit l = gen_literal(c, r);
    if (l.in_fmt[0] == '\0') return;
    fmt += l.in_fmt;
    Tok t;
    t.lit_out = l.out;
    toks.push_back(std::move(t));
  };
  for (size_t i : idx)
  {
    add_lit();
    Tok t;
    t.is_arg = true;
    t.arg = i;
    t.spec = gen_spec(c, info[i].cat);
    if (!t.spec.empty()) any_spec = true;
    fmt += "{";
    if (manual) fmt += std::to_string(i);
    if (!t.spec.empty()) { fmt += ":"; fmt += t.spec; }
    fmt += "}";
    toks.push_back(std::move(t));
  }
  add_lit();
}

// ---------------------------------------------------------------------------------------------------------------------
// comparison
// ---------------------------------------------------------------------------------------------------------------------
// does `inner` equal some permutation of `elems` joined by ", " ?
bool perm_match(std::string const& inner, size_t pos, std::vector<std::string> const& elems, std::vector<char>& used,
                size_t left)
{
  if (left == 0) return pos == inner.size();
  for (size_t k = 0; k < elems.size(); ++k)
  {
    if (used[k]) continue;
    bool dup = false; // identical texts are interchangeable
    for (size_t j = 0; j < k; ++j) if (!used[j] && elems[j] == elems[k]) { dup = true; break; }
    if (dup) continue;
    std::string const& e = elems[k];
    if (inner.compare(pos, e.size(), e) != 0) continue;
    size_t np = pos + e.size();
    if (left > 1)
    {
      if (inner.compare(np, 2, ", ") != 0) continue;
      np += 2;
    }
    used[k] = 1;
    if (perm_match(inner, np, elems, used, left - 1)) return true;
    used[k] = 0;
  }
  return false;
}

bool match(Pending const& p, std::string const& got, bool strip_trailing_newline, std::string& why)
{
  if (!p.has_unordered)
  {
    std::string_view exp{p.expected};
    // BackendWorker drops ONE trailing '\n' of the message before handing it to the sinks (by design)
    if (strip_trailing_newline && !exp.empty() && exp.back() == '\n') exp.remove_suffix(1);
    if (got == exp) return true;
    why = "expected \"" + esc(std::string{exp}, 400) + "\" (" + std::to_string(exp.size()) + " B) got \"" +
      esc(got, 400) + "\" (" + std::to_string(got.size()) + " B)";
    return false;
  }
  size_t pos = 0;
  std::string g = got;
  if (strip_trailing_newline && !p.expected.empty() && p.expected.back() == '\n') g += '\n';
  for (auto const& pc : p.pieces)
  {
    if (pos + pc.text.size() > g.size())
    {
      why = "message too short: expected (modulo unordered element order) \"" + esc(p.expected, 400) + "\" got \"" +
        esc(got, 400) + "\"";
      return false;
    }
    if (!pc.unordered)
    {
      if (g.compare(pos, pc.text.size(), pc.text) != 0)
      {
        why = "piece mismatch at offset " + std::to_string(pos) + ": expected (modulo unordered element order) \"" +
          esc(p.expected, 400) + "\" got \"" + esc(got, 400) + "\"";
        return false;
      }
    }
    else
    {
      std::string sub = g.substr(pos, pc.text.size());
      bool ok = sub.size() >= 2 && sub.front() == '{' && sub.back() == '}';
      if (ok)
      {
        std::vector<std::string> elems;
        for (auto const& e : p.uelems[pc.arg]) elems.push_back(p.sr ? sanitize(e) : e);
        std::vector<char> used(elems.size(), 0);
        ok = perm_match(sub.substr(1, sub.size() - 2), 0, elems, used, elems.size());
      }
      if (!ok)
      {
        why = "unordered container argument #" + std::to_string(pc.arg) + ": \"" + esc(sub, 300) +
          "\" is not a permutation of the call-site elements \"" + esc(pc.text, 300) + "\"";
        return false;
      }
    }
    pos += pc.text.size();
  }
  if (pos != g.size())
  {
    why = "message too long: expected (modulo unordered element order) \"" + esc(p.expected, 400) + "\" got \"" +
      esc(got, 400) + "\"";
    return false;
  }
  return true;
}

void drain(Report& r)
{
  g_worker->poll();
  size_t k = 0;
  for (auto& p : g_pending)
  {
    if (!p.logged) continue;
    if (k >= g_recorded.size())
    {
      r.fail("statement #" + std::to_string(k) + " (" + p.shape + ", fmt \"" + esc(p.meta->fmt) +
             "\") never reached the sink; expected \"" + esc(p.expected, 300) + "\"");
      break;
    }
    std::string why;
    if (!match(p, g_recorded[k], true, why))
      r.fail("backend message differs from call-site formatting: shape " + p.shape + ", fmt \"" + esc(p.meta->fmt) +
             "\": " + why);
    if (g_recorded_level[k] != p.level)
      r.fail("sink saw log level " + std::to_string(static_cast<int>(g_recorded_level[k])) + " for a statement logged with " +
             (p.dynamic_level ? "dynamic " : "static ") + "level " + std::to_string(static_cast<int>(p.level)) + " (shape " +
             p.shape + ")");
    ++k;
  }
  if (!r.failed && k != g_recorded.size())
    r.fail("sink received " + std::to_string(g_recorded.size()) + " messages for " + std::to_string(k) +
           " statements; extra: \"" + esc(g_recorded[k], 300) + "\"");
  for (auto const& n : g_notes)
  {
    if (n.find("Quill INFO: Allocated a new SPSC queue") != std::string::npos) { r.count("queue_reallocations"); continue; }
    r.fail("backend error notifier fired: " + esc(n, 500));
  }
  g_pending.clear();
  g_recorded.clear();
  g_recorded_level.clear();
  g_notes.clear();
}

// fixed statement for the probes: returns the message the sink received
template <class... A>
std::string probe_message(char const* fmt, A const&... a)
{
  static std::deque<quill::MacroMetadata> metas;
  metas.emplace_back("fmtcat.cpp:1", "probe", fmt, nullptr, quill::LogLevel::Info, quill::MacroMetadata::Event::Log);
  g_recorded.clear();
  g_logger->log_statement<false, false>(quill::LogLevel::None, &metas.back(), a...);
  g_worker->poll();
  std::string m = g_recorded.empty() ? std::string{"<nothing>"} : g_recorded.front();
  g_recorded.clear();
  g_recorded_level.clear();
  g_notes.clear();
  return m;
}
} // namespace

// ---------------------------------------------------------------------------------------------------------------------
// value generators
// ---------------------------------------------------------------------------------------------------------------------
void note_label(Ctx& cx, char const* l) { cx.r.label(l); }
bool pick_flip(Ctx& cx, unsigned num, unsigned den) { return cx.c.flip(num, den); }
size_t pick_n(Ctx& cx, size_t n) { return cx.c.pick(static_cast<uint32_t>(n)); }

uint64_t gen_int_bits(Ctx& cx, unsigned bits, bool sg)
{
  Choices& c = cx.c;
  uint64_t const mask = bits >= 64 ? ~0ull : ((1ull << bits) - 1);
  uint64_t const smax = mask >> 1, smin = smax + 1;
  uint64_t v = 0;
  switch (c.weighted({4, 3, 2, 3}))
  {
  case 0: v = c.pick(10); break;
  case 1:
  {
    unsigned k = c.pick(7);
    if (sg) v = std::array<uint64_t, 7>{0, 1, mask /* -1 */, smin, smax, smin + 1, smax - 1}[k];
    else v = std::array<uint64_t, 7>{0, 1, mask, mask - 1, smax, smin, 2}[k];
    cx.r.label("int_extreme");
    break;
  }
  case 2:
  {
    uint64_t p = 1ull << c.pick(bits);
    v = (p + c.pick(3) - 1) & mask;
    if (sg && c.pick(2) == 1) v = (~v + 1) & mask;
    break;
  }
  default: v = ((static_cast<uint64_t>(c.raw()) << 34) ^ (static_cast<uint64_t>(c.raw()) << 17) ^ c.raw()) & mask;
  }
  if (sg && bits < 64 && ((v >> (bits - 1)) & 1)) v |= ~mask;
  return v;
}

double gen_double(Ctx& cx, bool finite)
{
  Choices& c = cx.c;
  switch (c.weighted({3, 3, 3, 2, 2}))
  {
  case 0: return static_cast<double>(c.pick(10));
  case 1:
  {
    static double const t[] = {0.5,  -1.0, 0.1,  1e-5, 3.141592653589793, 1e21,  123456789.125, -2.5e-7,
                               1e15, 1e16, 9007199254740993.0, 0.3, 2.0 / 3, 1e100, 1e-100, 1234.5678};
    return t[c.pick(sizeof t / sizeof *t)];
  }
  case 2:
  {
    static double const fin[] = {-0.0, DBL_TRUE_MIN, -DBL_TRUE_MIN, DBL_MIN, DBL_MAX, -DBL_MAX, DBL_EPSILON,
                                 1.0 + DBL_EPSILON, 4.9406564584124654e-324 * 3};
    unsigned k = c.pick(finite ? 9 : 13);
    if (k < 9) { cx.r.label("float_extreme"); return fin[k]; }
    cx.r.label("nan_inf");
    switch (k)
    {
    case 9: return std::numeric_limits<double>::quiet_NaN();
    case 10: return -std::numeric_limits<double>::quiet_NaN();
    case 11: return std::numeric_limits<double>::infinity();
    default: return -std::numeric_limits<double>::infinity();
    }
  }
  case 3:
  {
    uint64_t b = (static_cast<uint64_t>(c.raw()) << 34) ^ (static_cast<uint64_t>(c.raw()) << 17) ^ c.raw();
    double d;
    std::memcpy(&d, &b, sizeof d);
    if (!std::isfinite(d))
    {
      if (finite) { b &= ~(1ull << 62); std::memcpy(&d, &b, sizeof d); }
      else cx.r.label("nan_inf");
    }
    return d;
  }
  default: return static_cast<double>(c.range(-1000000, 1000000)) / 1000.0;
  }
}

float gen_float(Ctx& cx, bool finite)
{
  Choices& c = cx.c;
  switch (c.weighted({3, 3, 3, 2}))
  {
  case 0: return static_cast<float>(c.pick(10));
  case 1:
  {
    static float const t[] = {0.5f, -1.0f, 0.1f, 1e-5f, 3.14159274f, 1e21f, 16777217.0f, -2.5e-7f, 0.3f, 1234.5678f};
    return t[c.pick(sizeof t / sizeof *t)];
  }
  case 2:
  {
    static float const fin[] = {-0.0f, FLT_TRUE_MIN, -FLT_TRUE_MIN, FLT_MIN, FLT_MAX, -FLT_MAX, FLT_EPSILON};
    unsigned k = c.pick(finite ? 7 : 11);
    if (k < 7) { cx.r.label("float_extreme"); return fin[k]; }
    cx.r.label("nan_inf");
    switch (k)
    {
    case 7: return std::numeric_limits<float>::quiet_NaN();
    case 8: return -std::numeric_limits<float>::quiet_NaN();
    case 9: return std::numeric_limits<float>::infinity();
    default: return -std::numeric_limits<float>::infinity();
    }
  }
  default:
  {
    uint32_t b = (c.raw() << 2) ^ c.raw();
    float f;
    std::memcpy(&f, &b, sizeof f);
    if (!std::isfinite(f))
    {
      if (finite) { b &= ~(1u << 30); std::memcpy(&f, &b, sizeof f); }
      else cx.r.label("nan_inf");
    }
    return f;
  }
  }
}

long double gen_ldouble(Ctx& cx, bool finite)
{
  Choices& c = cx.c;
  switch (c.weighted({3, 3, 2, 2}))
  {
  case 0: return static_cast<long double>(c.pick(10));
  case 1: return static_cast<long double>(gen_double(cx, finite));
  case 2:
  {
    static long double const fin[] = {-0.0L, LDBL_TRUE_MIN, LDBL_MIN, LDBL_MAX, -LDBL_MAX, LDBL_EPSILON, 1.0L / 3.0L,
                                      0.1L};
    unsigned k = c.pick(finite ? 8 : 11);
    if (k < 8) { cx.r.label("float_extreme"); return fin[k]; }
    cx.r.label("nan_inf");
    if (k == 8) return std::numeric_limits<long double>::quiet_NaN();
    return k == 9 ? std::numeric_limits<long double>::infinity() : -std::numeric_limits<long double>::infinity();
  }
  default:
  {
    uint64_t m = (static_cast<uint64_t>(c.raw()) << 34) ^ (static_cast<uint64_t>(c.raw()) << 17) ^ c.raw();
    long double x = std::ldexp(static_cast<long double>(m), static_cast<int>(c.range(-16400, 16300)));
    if (c.flip()) x = -x;
    if (!std::isfinite(x)) x = 1.5L;
    return x;
  }
  }
}

char gen_char(Ctx& cx)
{
  Choices& c = cx.c;
  switch (c.weighted({5, 3, 1, 1, 1, 1, g_printable_mode == 1 ? 2u : 0u}))
  {
  case 6: cx.r.label("ascii_rejected_by_custom_predicate"); return "|\"%7\t"[c.pick(5)];
  case 0: return static_cast<char>('a' + c.pick(26));
  case 1: return static_cast<char>(0x20 + c.pick(95));
  case 2: cx.r.label("non_printable"); return '\0';
  case 3: cx.r.label("non_printable"); return static_cast<char>(1 + c.pick(31));
  case 4: cx.r.label("non_printable"); return '\x7f';
  default: cx.r.label("non_printable"); return static_cast<char>(0x80 + c.pick(128));
  }
}

size_t gen_count(Ctx& cx)
{
  Choices& c = cx.c;
  switch (c.weighted({2, 3, 2, 1}))
  {
  case 0: return 0;
  case 1: return 1 + c.pick(3);
  case 2: return c.pick(9);
  default: return 8;
  }
}

std::string gen_string(Ctx& cx, unsigned flags)
{
  Choices& c = cx.c;
  bool const is_short = (flags & GS_SHORT) != 0;
  size_t len = 0;
  switch (c.weighted({5, 3, 2}))
  {
  case 0: len = c.pick(9); break;
  case 1:
  {
    static unsigned const bl[] = {0,   1,   2,   3,   4,   7,   8,   9,    15,   16,   17,   31,   32,   33,   63,  64,
                                  65,  127, 128, 129, 255, 256, 257, 511,  512,  513,  1023, 1024, 1025, 2047, 2048,
                                  2049, 4095, 4096};
    static unsigned const bs[] = {0, 1, 2, 3, 4, 7, 8, 9, 15, 16, 17, 23, 24};
    len = is_short ? bs[c.pick(sizeof bs / sizeof *bs)] : bl[c.pick(sizeof bl / sizeof *bl)];
    cx.r.label("boundary_length");
    break;
  }
  default: len = c.pick(is_short ? 25 : 65);
  }
  if (len >= 1024) cx.r.label("long_string");
  size_t cls = (flags & GS_TEXT) ? c.weighted({4, 3}) : c.weighted({4, 3, 2, 2, 1});
  if (cls == 2 && (flags & GS_NO_NUL)) cls = 3;
  uint64_t lcg = 0;
  size_t drawn = 0;
  auto next = [&]() -> uint32_t
  {
    if (drawn < 6) { ++drawn; return c.raw(); }
    if (drawn == 6) { ++drawn; lcg = (static_cast<uint64_t>(c.raw()) << 20) ^ 0x9E3779B97F4A7C15ull; }
    lcg = lcg * 6364136223846793005ull + 1442695040888963407ull;
    return static_cast<uint32_t>(lcg >> 33);
  };
  static unsigned char const np[] = {0x01, 0x07, '\t', '\r', '\n', 0x1b, 0x1f, 0x7f, 0x80, 0x9c, 0xc3, 0xff, 0xe2, 0x0b};
  std::string s;
  s.reserve(len);
  switch (cls)
  {
  case 0:
    for (size_t i = 0; i < len; ++i) s += static_cast<char>('a' + next() % 26);
    break;
  case 1:
    for (size_t i = 0; i < len; ++i) s += static_cast<char>(0x20 + next() % 95);
    break;
  case 2:
  {
    size_t forced = len ? next() % len : 0;
    for (size_t i = 0; i < len; ++i)
    {
      uint32_t x = next();
      s += (i == forced || x % 5 == 0) ? '\0' : static_cast<char>(0x20 + (x / 5) % 95);
    }
    if (len) cx.r.label("embedded_nul");
    break;
  }
  case 3:
  {
    size_t forced = len ? next() % len : 0;
    for (size_t i = 0; i < len; ++i)
    {
      uint32_t x = next();
      s += (i == forced || x % 4 == 0) ? static_cast<char>(np[(x / 4) % sizeof np]) : static_cast<char>(0x20 + (x / 4) % 95);
    }
    if (len) cx.r.label("non_printable");
    break;
  }
  default:
  {
    static char const* const u8[] = {"\xC3\xA9", "\xC3\x9F", "\xE2\x82\xAC", "\xE6\x97\xA5", "\xF0\x9F\x98\x80", "a", " "};
    while (s.size() < len) s += u8[next() % (sizeof u8 / sizeof *u8)];
    s.resize(len); // may cut a sequence: invalid UTF-8 is a legitimate byte string too
    if (len) cx.r.label("non_printable");
  }
  }
  return s;
}

int64_t gen_chrono_count(Ctx& cx)
{
  Choices& c = cx.c;
  switch (c.weighted({2, 3, 3, 2, 1}))
  {
  case 0: return 0;
  case 1: return c.pick(101);
  case 2: return c.range(0, 86400000);
  case 3: return c.range(0, 2000000000);
  default: return -c.range(1, 100000);
  }
}

double gen_chrono_real(Ctx& cx)
{
  Choices& c = cx.c;
  switch (c.weighted({2, 3, 3}))
  {
  case 0: return 0.0;
  case 1: return static_cast<double>(c.range(-100000, 100000)) / 1000.0;
  default: return static_cast<double>(c.range(0, 2000000000)) / 7.0;
  }
}

int64_t gen_epoch_seconds(Ctx& cx)
{
  Choices& c = cx.c;
  switch (c.weighted({1, 3, 3}))
  {
  case 0: return 0;
  case 1: return c.range(0, 4102444799ll);
  default: return 1700000000ll + c.range(0, 86400 * 366);
  }
}

// ---------------------------------------------------------------------------------------------------------------------
// Ctx
// ---------------------------------------------------------------------------------------------------------------------
Prepared* Ctx::plan(SlotInfo const* info, size_t n)
{
  // runtime metadata slot
  if (g_meta.size() < kMetaRing) g_meta.emplace_back();
  Meta& m = g_meta[g_meta_next % kMetaRing];
  ++g_meta_next;

  g_pending.emplace_back();
  Pending& p = g_pending.back();
  p.meta = &m;
  p.shape = shape;
  p.nargs = n;
  p.uelems.resize(n);
  build_format(c, r, info, n, m.fmt, p.toks, p.manual, p.any_spec);
  if (c.pick(5) == 4)
  {
    // the dynamic level is appended to the record after the arguments
    static quill::LogLevel const lv[] = {quill::LogLevel::TraceL3, quill::LogLevel::TraceL2, quill::LogLevel::TraceL1,
                                         quill::LogLevel::Debug,   quill::LogLevel::Info,    quill::LogLevel::Notice,
                                         quill::LogLevel::Warning, quill::LogLevel::Error,   quill::LogLevel::Critical};
    p.dynamic_level = true;
    p.level = lv[c.pick(sizeof lv / sizeof *lv)];
    r.label("dynamic_log_level");
    p.want_runtime_md = c.pick(2) == 1;
  }
  return &p;
}

bool Ctx::prepare(Prepared* pp, SlotInfo const* info, size_t n, fmtquill::format_args args)
{
  Pending& p = *static_cast<Pending*>(pp);
  Meta& m = *p.meta;
  std::string raw;
  try
  {
    raw = fmtquill::vformat(m.fmt, args);
  }
  catch (std::exception const& e)
  {
    // the grammar produced something fmt rejects for these argument types: harness limitation, never a finding.
    // Fall back to plain placeholders by construction and count it.
    r.count("harness.callsite_format_rejected");
    r.line(std::string{"  (call site rejected \""} + esc(m.fmt) + "\": " + e.what() + ")");
    m.fmt.clear();
    p.toks.clear();
    p.manual = false;
    p.any_spec = false;
    for (size_t i = 0; i < n; ++i)
    {
      if (i) { m.fmt += " "; Tok l; l.lit_out = " "; p.toks.push_back(l); }
      m.fmt += "{}";
      Tok t; t.is_arg = true; t.arg = i;
      p.toks.push_back(t);
    }
    raw = fmtquill::vformat(m.fmt, args);
  }
  // LOG_RUNTIME_METADATA form: the message is split from file / line / function at the 3-byte separator, so a message that
  // contains the separator itself is outside this variant (that is finding F5, which belongs to C12 / C19)
  static std::string const kSep{QUILL_MAGIC_SEPARATOR};
  // (and the macro appends automatic "{}" fields, so a format with manual argument indexes cannot be used with it)
  p.runtime_md = p.want_runtime_md && !p.manual && raw.find(kSep) == std::string::npos && m.fmt.find(kSep) == std::string::npos;
  quill::MacroMetadata* md;
  if (p.runtime_md)
  {
    m.fmt_rt = m.fmt + kSep + "{}" + kSep + "{}" + kSep + "{}";
    md = new (static_cast<void*>(m.md)) quill::MacroMetadata("[placeholder]", "[placeholder]", m.fmt_rt.c_str(), nullptr, quill::LogLevel::Dynamic,
                                                             quill::MacroMetadata::Event::LogWithRuntimeMetadata);
    r.label("runtime_metadata_statement");
  }
  else
  {
    md = new (static_cast<void*>(m.md)) quill::MacroMetadata(
      "fmtcat.cpp:1", "run_case", m.fmt.c_str(), nullptr, p.dynamic_level ? quill::LogLevel::Dynamic : quill::LogLevel::Info,
      quill::MacroMetadata::Event::Log);
  }
  p.md = md;
  if (md->has_named_args())
  {
    // positional format that quill's scanner takes for a named-argument one: only reachable through the glued brace
    // escapes of the known-finding class above (logged all the same: the oracle decides)
    r.label("positional_format_classified_as_named");
  }

  bool any_varlen = false;
  int max_depth = 0;
  // a runtime-metadata statement is sanitised after the split whatever its argument types are (and carries two C strings)
  if (p.runtime_md) p.sr = true;
  for (size_t i = 0; i < n; ++i)
  {
    p.sr = p.sr || info[i].string_related;
    p.has_unordered = p.has_unordered || info[i].unordered;
    any_varlen = any_varlen || info[i].var_len;
    max_depth = std::max(max_depth, info[i].depth);
    r.label(std::string{"family."} + info[i].family);
  }
  p.expected = p.sr ? sanitize(raw) : raw;
  if (p.has_unordered)
  {
    std::string concat;
    for (auto const& t : p.toks)
    {
      Piece pc;
      std::string txt;
      if (!t.is_arg) txt = t.lit_out;
      else
      {
        std::string f = "{" + std::to_string(t.arg);
        if (!t.spec.empty()) f += ":" + t.spec;
        f += "}";
        txt = fmtquill::vformat(f, args);
        pc.unordered = info[t.arg].unordered;
        pc.arg = t.arg;
      }
      concat += txt;
      pc.text = p.sr ? sanitize(txt) : txt;
      p.pieces.push_back(std::move(pc));
    }
    if (concat != raw)
    {
      // self-check of the piecewise view; fall back to the exact comparison if it ever disagrees
      r.count("harness.piecewise_view_disagrees");
      p.has_unordered = false;
    }
    r.label("unordered_container");
  }

  // classification
  if (any_varlen && (n >= 2 || p.any_spec)) r.nontrivial = true;
  if (p.any_spec) r.label("spec");
  if (p.manual) r.label("manual_indices");
  if (p.expected != raw) r.label("sanitised");
  if (!raw.empty() && raw.back() == '\n') r.label("trailing_newline");
  if (max_depth >= 2) r.label("nested_two_deep");
  r.label(n == 1 ? "args_1" : n <= 4 ? "args_2_4" : n <= 12 ? "args_5_12" : "args_13_plus");
  r.line(std::string{"stmt "} + shape + " fmt=\"" + esc(m.fmt, 160) + "\" => \"" + esc(p.expected, 160) + "\"");
  return true;
}

std::byte* Ctx::rt_buffer(size_t sz)
{
  size_t const off = c.pick(16); // records are not aligned in the queue either
  size_t const need = sz + 2 * kGuard + 64;
  if (g_rt.size() < need) g_rt.resize(need * 2);
  unsigned char* b = g_rt.data() + kGuard + off;
  std::memset(b - kGuard, kCanary, sz + 2 * kGuard);
  // NUL sentinels behind the trailing guard: a decoder that misses a terminator stops here instead of running away
  std::memset(b + sz + kGuard, 0, 32);
  return reinterpret_cast<std::byte*>(b);
}

bool Ctx::rt_after_encode(Prepared* pp, std::byte* b, std::byte* w, size_t sz)
{
  auto& p = *static_cast<Pending*>(pp);
  if (cache->size() > 12) r.label("over_12_cached_lengths");
  else if (cache->size() == 12) r.label("exactly_12_cached_lengths");
  r.count("encoded_bytes", static_cast<long>(sz));
  if (static_cast<size_t>(w - b) != sz)
  {
    r.fail("size accounting: compute_encoded_size says " + std::to_string(sz) + " B but encode advanced " +
           std::to_string(w - b) + " B (shape " + p.shape + ", fmt \"" + esc(p.meta->fmt) + "\", expected \"" +
           esc(p.expected, 200) + "\")");
    return false;
  }
  auto const* u = reinterpret_cast<unsigned char const*>(b);
  for (size_t k = 1; k <= kGuard; ++k)
  {
    if (*(u - k) != kCanary || u[sz + k - 1] != kCanary)
    {
      r.fail("size accounting: encode wrote outside its " + std::to_string(sz) + " B (canary byte at offset " +
             (*(u - k) != kCanary ? "-" + std::to_string(k) : "+" + std::to_string(sz + k - 1)) + " changed; shape " +
             p.shape + ")");
      return false;
    }
  }
  return true;
}

bool Ctx::rt_after_decode(Prepared* pp, std::byte* b, std::byte* rp, size_t sz)
{
  auto& p = *static_cast<Pending*>(pp);
  bool ok = true;
  if (static_cast<size_t>(rp - b) != sz)
  {
    r.fail("size accounting: encoded " + std::to_string(sz) + " B but decode consumed " + std::to_string(rp - b) +
           " B (shape " + p.shape + ", fmt \"" + esc(p.meta->fmt) + "\", expected \"" + esc(p.expected, 200) + "\")");
    ok = false;
  }
  if (ok)
  {
    if (store->has_string_related_type() != p.sr) r.count("string_related_flag_differs_from_model");
    std::string direct;
    try
    {
      direct = fmtquill::vformat(
        p.meta->fmt, fmtquill::basic_format_args<fmtquill::format_context>{store->data(), store->size()});
      if (p.sr) direct = sanitize(direct);
      std::string why;
      if (!match(p, direct, false, why))
      {
        r.fail("decoded arguments format differently from the call site (direct codec round trip): shape " + p.shape +
               ", fmt \"" + esc(p.meta->fmt) + "\": " + why);
        ok = false;
      }
    }
    catch (std::exception const& e)
    {
      r.fail("decoded arguments cannot be formatted with \"" + esc(p.meta->fmt) + "\" (shape " + p.shape +
             "): " + e.what() + "; call site gave \"" + esc(p.expected, 200) + "\"");
      ok = false;
    }
  }
  store->clear();
  return ok;
}

void Ctx::after_log(Prepared* pp, bool accepted)
{
  auto& p = *static_cast<Pending*>(pp);
  p.logged = accepted;
#if defined(FMTCAT_DROPPING)
  if (!accepted) { r.label("statement_dropped"); r.count("dropped"); }
#else
  if (!accepted) r.fail("log_statement returned false on an unbounded blocking queue (shape " + p.shape + ")");
#endif
  r.count("statements");
  r.label("mutated_after_call");
}

void Ctx::abandon(Prepared* pp) { static_cast<Pending*>(pp)->logged = false; }
} // namespace fmtcat

// =====================================================================================================================
// harness interface
// =====================================================================================================================
namespace verif
{
using namespace fmtcat;

HarnessInfo harness_info()
{
  // fork-per-case on request (FMTCAT_FORK=1 or "--param fork=1"): slower, but a crashing case (quill assert,
  // sanitizer report) is then handled and SHRUNK by the driver. harness_info() has no Params, hence the cmdline.
  read_cmdline();
  return {"fmtcat", g_fork_mode, 300, 20000};
}

void harness_init(Params const& p)
{
  g_params = p;
  g_excl_brace_adjacent = excluded(p, "fmtcat.positional_format_misread_as_named");
  g_reexec_max_cases = param_int(p, "reexec_max", 10000);
  {
    std::string pm = param_str(p, "printable", "default");
    g_printable_mode = pm == "strict" ? 1 : pm == "off" ? 2 : 0;
  }
  if (std::getenv("FMTCAT_REEXEC") != nullptr && g_fork_mode && !g_replay_out.empty()) std::atexit(reexec_epilogue);

  for (auto fn : {&shapes_1, &shapes_2, &shapes_3, &shapes_4, &shapes_7, &shapes_5, &shapes_6, &shapes_8})
    for (auto const& e : fn()) g_shapes.push_back(e);
  std::string forced = param_str(p, "shape");
  for (size_t k = 0; k < g_shapes.size(); ++k)
  {
    g_total_weight += g_shapes[k].weight;
    if (!forced.empty() && forced == g_shapes[k].name) g_forced_shape = static_cast<long>(k);
    if (std::string{g_shapes[k].name} == "direct_user") g_fallback_shape = k;
  }
  if (!forced.empty() && g_forced_shape < 0)
  {
    std::fprintf(stderr, "fmtcat: unknown shape '%s'; shapes:", forced.c_str());
    for (auto const& e : g_shapes) std::fprintf(stderr, " %s", e.name);
    std::fprintf(stderr, "\n");
    std::exit(2);
  }
  if (param_flag(p, "list_shapes"))
  {
    for (auto const& e : g_shapes) std::printf("%s%s\n", e.name, e.known_class ? " (known class)" : "");
    std::printf("%zu shapes\n", g_shapes.size());
  }

}

// The backend is set up lazily by the first case (or probe) of a process: in fork-per-case mode that is the child,
// which must itself be the thread that calls init() and poll().
static void ensure_backend()
{
  if (g_worker != nullptr) return;
  g_worker = quill::Backend::acquire_manual_backend_worker(); // once per process
  quill::BackendOptions bo;
  bo.error_notifier = [](std::string const& m) { g_notes.push_back(m); };
  bo.log_timestamp_ordering_grace_period = std::chrono::microseconds{0};
  if (g_printable_mode == 1) bo.check_printable_char = [](char ch) { return printable_pred(ch); };
  else if (g_printable_mode == 2) bo.check_printable_char = {};
  g_worker->init(bo);

  auto sink = FFrontend::create_or_get_sink<RecordingSink>("fmtcat_recording_sink");
  g_logger = FFrontend::create_or_get_logger(
    "fmtcat", std::move(sink),
    quill::PatternFormatterOptions{"%(message)", "%H:%M:%S.%Qns", quill::Timezone::GmtTime, false},
    quill::ClockSourceType::System);

  if (!g_fork_mode)
  {
    signal(SIGABRT, on_sigabrt);
    if (&__sanitizer_set_death_callback != nullptr) __sanitizer_set_death_callback(on_death);
  }
}

void run_case(Choices& c, Report& r)
{
  ensure_backend();
  ++g_case_counter;
  g_cur_choices = c.p;
  g_cur_n = c.n;
  g_cur_report = &r;
  g_pending.clear();
  g_recorded.clear();
  g_recorded_level.clear();
  g_notes.clear();
  // canonical start state of both size caches (a no-op for correct code, which clears them whenever it uses them;
  // it keeps a case a pure function of its choices even when a mutated tree forgets to)
  g_cache.clear();
  quill::detail::get_local_thread_context<FmtcatFrontendOptions>()->get_conditional_arg_size_cache().clear();

  std::vector<std::unique_ptr<std::string>> keep;
  Ctx cx{c, r};
  cx.logger = g_logger;
  cx.cache = &g_cache;
  cx.store = &g_store;
  cx.keep = &keep;

  unsigned const nstmt = 1 + c.pick(3);
  if (nstmt > 1) r.label("back_to_back_statements");
  for (unsigned s = 0; s < nstmt && !r.failed; ++s)
  {
    size_t idx = 0;
    if (g_forced_shape >= 0) { idx = static_cast<size_t>(g_forced_shape); c.raw(); }
    else
    {
      uint32_t w = c.pick(g_total_weight);
      for (idx = 0; idx + 1 < g_shapes.size() && w >= g_shapes[idx].weight; ++idx) w -= g_shapes[idx].weight;
    }
    if (g_shapes[idx].known_class != nullptr)
    {
      if (excluded(g_params, g_shapes[idx].known_class))
      {
        // known finding: excluded by construction, counted
        r.count(std::string{"excluded."} + g_shapes[idx].known_class);
        idx = g_fallback_shape;
      }
      else r.label(std::string{"known_class."} + g_shapes[idx].known_class);
    }
    cx.shape = g_shapes[idx].name;
    cx.nest = 0;
    g_shapes[idx].fn(cx);
    // sometimes drain between statements, otherwise they sit back to back in the queue
    if (s + 1 < nstmt && !r.failed && c.pick(4) == 3) drain(r);
  }
  drain(r);
  keep.clear(); // StringRef targets may go only now
  g_cur_report = nullptr;
}

bool probe_known_class(std::string const& cls, std::string& what)
{
  ensure_backend();
  if (cls == "fmtcat.direct_codec_nested_quoted")
  {
    std::vector<DirectUser> v;
    v.push_back(DirectUser{"ab", 1});
    std::string exp = fmtquill::format("{}", v);
    std::string got = probe_message("{}", v);
    if (got != exp)
    {
      what = "std::vector<T> with Codec<T> : DirectFormatCodec<T>: call site formats \"" + exp +
        "\", the backend writes \"" + got + "\" (elements decoded as string_view are quoted and escaped)";
      return true;
    }
    return false;
  }
  if (cls == "fmtcat.positional_format_misread_as_named")
  {
    int const seven = 7;
    char const* fmts[] = {"{}{{a}}", "{}}}{{a}}", "{0}{{a}}{0}"};
    for (char const* f : fmts)
    {
      std::string exp = fmtquill::format(fmtquill::runtime(f), seven);
      std::string got = probe_message(f, seven);
      if (got != exp)
      {
        what = std::string{"positional format \""} + f + "\" with argument 7: call site formats \"" + exp +
          "\", the backend writes \"" + got +
          "\" (MacroMetadata::_contains_named_args skips the character after a placeholder, reads \"{a\" of the escaped "
          "\"{{a}}\" as a named argument and the statement takes the named-argument path)";
        return true;
      }
    }
    return false;
  }
  return false;
}
} // namespace verif
