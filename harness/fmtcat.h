// C04 fmtcat — shared header of the typed statement catalog.
//
// A "shape" is a log statement with fixed argument TYPES: Stmt<Slot...>::run(Ctx&). Each slot type knows how to
// generate a value of its argument type from the choice stream, which object is handed to quill (arg()), which
// object is handed to fmtquill::format at the call site (ref(): the same object, or an equivalent view where the
// call site cannot format the original, e.g. unterminated char[N], null char const*, StringRef) and how to
// overwrite/destroy the argument after the log call (clobber()). Everything that does not depend on the argument
// types (format-string grammar, oracle, size-accounting checks, comparison) lives in fmtcat.cpp behind Ctx.
#pragma once

#include "../engine/harness.h"
#include "fmtcat_valgen.h"

#include "quill/DeferredFormatCodec.h"
#include "quill/DirectFormatCodec.h"
#include "quill/Frontend.h"
#include "quill/Logger.h"
#include "quill/StringRef.h"
#include "quill/core/Codec.h"
#include "quill/core/DynamicFormatArgStore.h"
#include "quill/core/InlinedVector.h"
#include "quill/std/Array.h"
#include "quill/std/Chrono.h"
#include "quill/std/Deque.h"
#include "quill/std/FilesystemPath.h"
#include "quill/std/ForwardList.h"
#include "quill/std/List.h"
#include "quill/std/Map.h"
#include "quill/std/Optional.h"
#include "quill/std/Pair.h"
#include "quill/std/Set.h"
#include "quill/std/Tuple.h"
#include "quill/std/UnorderedMap.h"
#include "quill/std/UnorderedSet.h"
#include "quill/std/Vector.h"

#include "quill/bundled/fmt/chrono.h"
#include "quill/bundled/fmt/format.h"
#include "quill/bundled/fmt/ranges.h"
#include "quill/bundled/fmt/std.h"

#include <algorithm>
#include <array>
#include <chrono>
#include <cstring>
#include <deque>
#include <filesystem>
#include <forward_list>
#include <list>
#include <map>
#include <memory>
#include <optional>
#include <set>
#include <string>
#include <string_view>
#include <tuple>
#include <type_traits>
#include <unordered_map>
#include <unordered_set>
#include <utility>
#include <vector>

// =====================================================================================================================
// User-defined types and enums of the catalog (formatter + codec), shared by all catalog TUs
// =====================================================================================================================
// frontend flavour: default options (unbounded blocking), or with -DFMTCAT_DROPPING a small BoundedDropping queue so that
// statements are really DROPPED between accepted ones (size cache / stream state after a drop belongs to C04 as well)
#if defined(FMTCAT_DROPPING)
struct FmtcatFrontendOptions
{
  static constexpr quill::QueueType queue_type = quill::QueueType::BoundedDropping;
  static constexpr size_t initial_queue_capacity = 1024;
  static constexpr uint32_t blocking_queue_retry_interval_ns = 800;
  static constexpr size_t unbounded_queue_max_capacity = 1024;
  static constexpr quill::HugePagesPolicy huge_pages_policy = quill::HugePagesPolicy::Never;
};
#else
using FmtcatFrontendOptions = quill::FrontendOptions;
#endif
using FFrontend = quill::FrontendImpl<FmtcatFrontendOptions>;
using FLogger = quill::LoggerImpl<FmtcatFrontendOptions>;

namespace fmtcat
{
enum Color : int { Red = 0, Green = 1, Blue = 2 };               // unscoped, own formatter (custom_type on the backend)
enum class Level : uint8_t { Low = 0, Mid = 1, High = 2 };       // scoped, own formatter
enum class Big : uint64_t { Zero = 0, One = 1, Huge = 0xFFFFFFFFFFFFFFFFull }; // scoped 64 bit, own formatter
enum class Code : int16_t { A = 0, B = 1, C = -1 };              // scoped, format_as -> formatted as its integer

inline auto format_as(Code c) { return static_cast<int16_t>(c); }

// trivially copyable user type -> DeferredFormatCodec memcpy path
struct PodUser
{
  int32_t id;
  double score;
  char tag[6]; // not necessarily terminated
};

// not trivially copyable -> DeferredFormatCodec placement-new / move / destroy path
struct RichUser
{
  std::string name;
  std::vector<int> nums;
  uint32_t age{0};
};

// not trivially copyable and over-aligned: exercises align_pointer and the sizeof+alignof-1 accounting
struct alignas(32) WideUser
{
  std::string text;
  double weight{0};
};

// formatted on the caller's thread into a length-prefixed string -> DirectFormatCodec
struct DirectUser
{
  std::string name;
  int x{0};
};
} // namespace fmtcat

template <>
struct fmtquill::formatter<fmtcat::Color>
{
  constexpr auto parse(format_parse_context& ctx) { return ctx.begin(); }
  auto format(fmtcat::Color c, format_context& ctx) const
  {
    switch (c)
    {
    case fmtcat::Red: return fmtquill::format_to(ctx.out(), "Red");
    case fmtcat::Green: return fmtquill::format_to(ctx.out(), "Green");
    case fmtcat::Blue: return fmtquill::format_to(ctx.out(), "Blue");
    default: return fmtquill::format_to(ctx.out(), "Color({})", static_cast<int>(c));
    }
  }
};

template <>
struct fmtquill::formatter<fmtcat::Level>
{
  constexpr auto parse(format_parse_context& ctx) { return ctx.begin(); }
  auto format(fmtcat::Level l, format_context& ctx) const
  {
    switch (l)
    {
    case fmtcat::Level::Low: return fmtquill::format_to(ctx.out(), "Low");
    case fmtcat::Level::Mid: return fmtquill::format_to(ctx.out(), "Mid");
    case fmtcat::Level::High: return fmtquill::format_to(ctx.out(), "High");
    default: return fmtquill::format_to(ctx.out(), "Level({})", static_cast<unsigned>(l));
    }
  }
};

template <>
struct fmtquill::formatter<fmtcat::Big>
{
  constexpr auto parse(format_parse_context& ctx) { return ctx.begin(); }
  auto format(fmtcat::Big b, format_context& ctx) const
  {
    return fmtquill::format_to(ctx.out(), "Big<{}>", static_cast<uint64_t>(b));
  }
};

template <>
struct fmtquill::formatter<fmtcat::PodUser>
{
  constexpr auto parse(format_parse_context& ctx) { return ctx.begin(); }
  auto format(fmtcat::PodUser const& u, format_context& ctx) const
  {
    size_t n = 0;
    while (n < sizeof u.tag && u.tag[n] != '\0') ++n;
    return fmtquill::format_to(ctx.out(), "Pod(id={}, score={}, tag={})", u.id, u.score,
                               fmtquill::string_view{u.tag, n});
  }
};

template <>
struct fmtquill::formatter<fmtcat::RichUser>
{
  constexpr auto parse(format_parse_context& ctx) { return ctx.begin(); }
  auto format(fmtcat::RichUser const& u, format_context& ctx) const
  {
    return fmtquill::format_to(ctx.out(), "Rich(name={}, nums={}, age={})", u.name, u.nums, u.age);
  }
};

template <>
struct fmtquill::formatter<fmtcat::WideUser>
{
  constexpr auto parse(format_parse_context& ctx) { return ctx.begin(); }
  auto format(fmtcat::WideUser const& u, format_context& ctx) const
  {
    return fmtquill::format_to(ctx.out(), "Wide<{}|{}>", u.text, u.weight);
  }
};

template <>
struct fmtquill::formatter<fmtcat::DirectUser>
{
  constexpr auto parse(format_parse_context& ctx) { return ctx.begin(); }
  auto format(fmtcat::DirectUser const& u, format_context& ctx) const
  {
    return fmtquill::format_to(ctx.out(), "Direct(name={}, x={})", u.name, u.x);
  }
};

template <>
struct quill::Codec<fmtcat::PodUser> : quill::DeferredFormatCodec<fmtcat::PodUser>
{
};
template <>
struct quill::Codec<fmtcat::RichUser> : quill::DeferredFormatCodec<fmtcat::RichUser>
{
};
template <>
struct quill::Codec<fmtcat::WideUser> : quill::DeferredFormatCodec<fmtcat::WideUser>
{
};
template <>
struct quill::Codec<fmtcat::DirectUser> : quill::DirectFormatCodec<fmtcat::DirectUser>
{
};

static_assert(quill::DeferredFormatCodec<fmtcat::PodUser>::use_memcpy, "PodUser must take the memcpy path");
static_assert(!quill::DeferredFormatCodec<fmtcat::RichUser>::use_memcpy, "RichUser must take the copy path");
static_assert(!quill::DeferredFormatCodec<fmtcat::WideUser>::use_memcpy, "WideUser must take the copy path");

namespace fmtcat
{
// =====================================================================================================================
// Non-template part (implemented in fmtcat.cpp)
// =====================================================================================================================

// spec grammar of a placeholder
enum class Cat : uint8_t { SInt, UInt, Bool, Char, Float, Str, Ptr, Dur, TimePoint, Opaque };

struct SlotInfo
{
  Cat cat;
  bool string_related; // the decoded argument sets DynamicFormatArgStore's string-related flag (=> sanitisation)
  bool var_len;        // encoded size depends on the value
  bool unordered;      // unordered_* container: rebuilt on the backend, compared as a multiset of elements
  int depth;           // nesting depth of std wrappers (vector<vector<int>> = 2)
  char const* family;  // label
};

// one statement between prepare() and the comparison after the poll; the private part lives in fmtcat.cpp
struct Prepared
{
  quill::MacroMetadata const* md{nullptr};
  bool dynamic_level{false};                    // log_statement<false, true>: the level travels at the end of the record
  bool runtime_md{false};                       // logged the way LOG_RUNTIME_METADATA does: file, line, function as three more
                                                // arguments behind separators, event LogWithRuntimeMetadata (implies dynamic_level)
  quill::LogLevel level{quill::LogLevel::Info}; // level the sink must see
  // per argument: call-site texts of the elements of an unordered container (empty vector for other arguments)
  std::vector<std::vector<std::string>> uelems;
};

struct Ctx
{
  verif::Choices& c;
  verif::Report& r;
  FLogger* logger{nullptr};
  quill::detail::SizeCacheVector* cache{nullptr};
  quill::DynamicFormatArgStore* store{nullptr};
  char const* shape{""};
  int nest{0}; // > 0 while generating elements of a container (strings are kept short there)
  // StringRef targets: alive and untouched until the case ends (StringRef is documented as non-owning)
  std::vector<std::unique_ptr<std::string>>* keep{nullptr};

  Ctx(verif::Choices& cc, verif::Report& rr) : c(cc), r(rr) {}

  // builds the runtime format string + MacroMetadata for the slots (BEFORE the values are generated, so that an
  // exhausted choice stream simplifies the values first and the format last) ...
  Prepared* plan(SlotInfo const* info, size_t n);
  // ... then evaluates the call-site reference with the original objects
  bool prepare(Prepared* p, SlotInfo const* info, size_t n, fmtquill::format_args args);
  // size accounting, direct codec round trip (see fmtcat.cpp)
  std::byte* rt_buffer(size_t sz);
  bool rt_after_encode(Prepared* p, std::byte* b, std::byte* w, size_t sz);
  bool rt_after_decode(Prepared* p, std::byte* b, std::byte* rp, size_t sz);
  void after_log(Prepared* p, bool accepted);
  void abandon(Prepared* p);
};

struct Nest
{
  Ctx& cx;
  explicit Nest(Ctx& c) : cx(c) { ++cx.nest; }
  ~Nest() { --cx.nest; }
};

int64_t gen_chrono_count(Ctx& cx);
double gen_chrono_real(Ctx& cx);
int64_t gen_epoch_seconds(Ctx& cx);
void note_label(Ctx& cx, char const* l);
bool pick_flip(Ctx& cx, unsigned num, unsigned den);
size_t pick_n(Ctx& cx, size_t n);

struct ShapeEntry
{
  char const* name;
  void (*fn)(Ctx&);
  unsigned weight;
  char const* known_class; // non-null: the shape belongs to this known-finding class
};

// each catalog TU exports its shapes (fixed order)
std::vector<ShapeEntry> shapes_1();
std::vector<ShapeEntry> shapes_2();
std::vector<ShapeEntry> shapes_3();
std::vector<ShapeEntry> shapes_4();
std::vector<ShapeEntry> shapes_5();
std::vector<ShapeEntry> shapes_6();
std::vector<ShapeEntry> shapes_7();
std::vector<ShapeEntry> shapes_8();

// =====================================================================================================================
// Val<T>: value generator / clobber / classification of every type that can appear as (part of) an argument
// =====================================================================================================================
template <class T, class = void>
struct Val;

template <class T>
inline void scribble(std::basic_string<char, std::char_traits<char>, T>& s)
{
  // overwrite in place first (a shallow copy would now see '#'), then release the storage (ASan: use after free)
  std::fill(s.begin(), s.end(), '#');
  s.clear();
  s.shrink_to_fit();
}

// ---- integers (not bool, not char) ----
template <class T>
struct Val<T, std::enable_if_t<std::is_integral_v<T> && !std::is_same_v<T, bool> && !std::is_same_v<T, char>>>
{
  static constexpr Cat cat = std::is_signed_v<T> ? Cat::SInt : Cat::UInt;
  static constexpr bool sr = false, varlen = false, unordered = false;
  static constexpr int depth = 0;
  static constexpr char const* family = "int";
  static T make(Ctx& cx)
  {
    if constexpr (sizeof(T) > 8)
    {
      unsigned __int128 hi = gen_int_bits(cx, 64, std::is_signed_v<T>);
      unsigned __int128 lo = gen_int_bits(cx, 64, false);
      // sign extension of hi already happened in 64 bits; small values: hi == 0 or all ones
      return static_cast<T>((hi << 64) ^ lo);
    }
    else
    {
      return static_cast<T>(gen_int_bits(cx, sizeof(T) * 8, std::is_signed_v<T>));
    }
  }
  static T make_key(Ctx& cx) { return make(cx); }
  static void clobber(T& v) { v = static_cast<T>(v ^ static_cast<T>(0x5A)); }
};

template <>
struct Val<bool>
{
  static constexpr Cat cat = Cat::Bool;
  static constexpr bool sr = false, varlen = false, unordered = false;
  static constexpr int depth = 0;
  static constexpr char const* family = "bool";
  static bool make(Ctx& cx) { return pick_n(cx, 2) == 1; }
  static bool make_key(Ctx& cx) { return make(cx); }
  static void clobber(bool& v) { v = !v; }
};

template <>
struct Val<char>
{
  static constexpr Cat cat = Cat::Char;
  static constexpr bool sr = true, varlen = false, unordered = false;
  static constexpr int depth = 0;
  static constexpr char const* family = "char";
  static char make(Ctx& cx) { return gen_char(cx); }
  static char make_key(Ctx& cx) { return make(cx); }
  static void clobber(char& v) { v = static_cast<char>(v ^ 0x15); }
};

// ---- floating point ----
template <class T>
struct Val<T, std::enable_if_t<std::is_floating_point_v<T>>>
{
  static constexpr Cat cat = Cat::Float;
  static constexpr bool sr = false, varlen = false, unordered = false;
  static constexpr int depth = 0;
  static constexpr char const* family = "float";
  static T gen(Ctx& cx, bool finite)
  {
    if constexpr (std::is_same_v<T, float>) return gen_float(cx, finite);
    else if constexpr (std::is_same_v<T, double>) return gen_double(cx, finite);
    else return gen_ldouble(cx, finite);
  }
  static T make(Ctx& cx) { return gen(cx, false); }
  static T make_key(Ctx& cx) { return gen(cx, true); } // NaN keys would break the ordering of the ORIGINAL container
  static void clobber(T& v) { v = static_cast<T>(-12345.5); }
};

// ---- enums ----
template <class T>
struct Val<T, std::enable_if_t<std::is_enum_v<T>>>
{
  using U = std::underlying_type_t<T>;
  static constexpr bool is_code = std::is_same_v<T, Code>;
  // Code has format_as -> formatted (and mapped by fmt) as its integer; the others have formatters (custom_type)
  static constexpr Cat cat = is_code ? Cat::SInt : Cat::Opaque;
  static constexpr bool sr = !is_code, varlen = false, unordered = false;
  static constexpr int depth = 0;
  static constexpr char const* family = "enum";
  static T make(Ctx& cx)
  {
    // named values first, then anything the underlying type can hold
    if (pick_n(cx, 4) != 3) return static_cast<T>(static_cast<U>(pick_n(cx, 3)));
    return static_cast<T>(static_cast<U>(gen_int_bits(cx, sizeof(U) * 8, std::is_signed_v<U>)));
  }
  static T make_key(Ctx& cx) { return make(cx); }
  static void clobber(T& v) { v = static_cast<T>(static_cast<U>(static_cast<U>(v) ^ static_cast<U>(0x2A))); }
};

// ---- void const* ----
template <>
struct Val<void const*>
{
  static constexpr Cat cat = Cat::Ptr;
  static constexpr bool sr = false, varlen = false, unordered = false;
  static constexpr int depth = 0;
  static constexpr char const* family = "pointer";
  static void const* make(Ctx& cx)
  {
    return reinterpret_cast<void const*>(static_cast<uintptr_t>(gen_int_bits(cx, 64, false)));
  }
  static void clobber(void const*& v) { v = reinterpret_cast<void const*>(static_cast<uintptr_t>(0xDEAD)); }
};

// ---- std::string (any allocator) ----
template <class A>
struct Val<std::basic_string<char, std::char_traits<char>, A>>
{
  using S = std::basic_string<char, std::char_traits<char>, A>;
  static constexpr Cat cat = Cat::Str;
  static constexpr bool sr = true, varlen = true, unordered = false;
  static constexpr int depth = 0;
  static constexpr char const* family = "std_string";
  static S make(Ctx& cx)
  {
    std::string s = gen_string(cx, cx.nest > 0 ? GS_SHORT : 0u);
    return S{s.data(), s.size()};
  }
  static S make_key(Ctx& cx)
  {
    std::string s = gen_string(cx, GS_SHORT);
    return S{s.data(), s.size()};
  }
  static void clobber(S& v) { scribble(v); }
};

// ---- std::string_view as an element (points into process-lifetime text; top-level views use the SV slot) ----
template <>
struct Val<std::string_view>
{
  static constexpr Cat cat = Cat::Str;
  static constexpr bool sr = true, varlen = true, unordered = false;
  static constexpr int depth = 0;
  static constexpr char const* family = "string_view";
  static std::string_view make(Ctx& cx)
  {
    static char const text[] = "the quick\tbrown fox\x01jumps over\0the lazy dog {} \"quoted\" \\ \xC3\xA9\x7F end";
    size_t const n = sizeof text - 1;
    size_t off = pick_n(cx, n);
    size_t len = pick_n(cx, 20);
    if (off + len > n) len = n - off;
    return std::string_view{text + off, len};
  }
  static std::string_view make_key(Ctx& cx) { return make(cx); }
  static void clobber(std::string_view& v) { v = std::string_view{"#clobbered#"}; }
};

// ---- char const* as an element (never null inside containers: the call site could not format it) ----
template <>
struct Val<char const*>
{
  static constexpr Cat cat = Cat::Str;
  static constexpr bool sr = true, varlen = true, unordered = false;
  static constexpr int depth = 0;
  static constexpr char const* family = "const_char_ptr";
  static char const* make(Ctx& cx)
  {
    static char const* const t[] = {"", "a", "two words", "tab\there", "quote\"d", "\x01\x02", "caf\xC3\xA9", "{}",
                                    "a somewhat longer C string that does not fit a small buffer", "back\\slash"};
    return t[pick_n(cx, sizeof t / sizeof *t)];
  }
  static void clobber(char const*& v) { v = "#clobbered#"; }
};

// ---- user types ----
template <>
struct Val<PodUser>
{
  static constexpr Cat cat = Cat::Opaque;
  static constexpr bool sr = true, varlen = false, unordered = false;
  static constexpr int depth = 0;
  static constexpr char const* family = "user_deferred_trivial";
  static PodUser make(Ctx& cx)
  {
    PodUser u;
    std::memset(&u, 0, sizeof u);
    u.id = static_cast<int32_t>(gen_int_bits(cx, 32, true));
    u.score = gen_double(cx, false);
    std::string t = gen_string(cx, GS_SHORT | GS_NO_NUL);
    std::memcpy(u.tag, t.data(), std::min(t.size(), sizeof u.tag)); // 6 or more bytes: unterminated tag
    return u;
  }
  static void clobber(PodUser& v) { std::memset(&v, 0x7E, sizeof v); }
};

template <>
struct Val<RichUser>
{
  static constexpr Cat cat = Cat::Opaque;
  static constexpr bool sr = true, varlen = false, unordered = false;
  static constexpr int depth = 0;
  static constexpr char const* family = "user_deferred_nontrivial";
  static RichUser make(Ctx& cx)
  {
    Nest n{cx};
    RichUser u;
    u.name = gen_string(cx, GS_SHORT);
    size_t k = gen_count(cx);
    for (size_t i = 0; i < k; ++i) u.nums.push_back(static_cast<int>(gen_int_bits(cx, 32, true)));
    u.age = static_cast<uint32_t>(gen_int_bits(cx, 32, false));
    return u;
  }
  static void clobber(RichUser& v)
  {
    scribble(v.name);
    std::fill(v.nums.begin(), v.nums.end(), -1);
    v.nums.clear();
    v.nums.shrink_to_fit();
    v.age = 0xFFFFFFFFu;
  }
};

template <>
struct Val<WideUser>
{
  static constexpr Cat cat = Cat::Opaque;
  static constexpr bool sr = true, varlen = false, unordered = false;
  static constexpr int depth = 0;
  static constexpr char const* family = "user_deferred_overaligned";
  static WideUser make(Ctx& cx)
  {
    Nest n{cx};
    WideUser u;
    u.text = gen_string(cx, GS_SHORT);
    u.weight = gen_double(cx, false);
    return u;
  }
  static void clobber(WideUser& v)
  {
    scribble(v.text);
    v.weight = -1;
  }
};

template <>
struct Val<DirectUser>
{
  static constexpr Cat cat = Cat::Opaque;
  static constexpr bool sr = true, varlen = true, unordered = false;
  static constexpr int depth = 0;
  static constexpr char const* family = "user_direct";
  static DirectUser make(Ctx& cx)
  {
    DirectUser u;
    u.name = gen_string(cx, cx.nest > 0 ? GS_SHORT : 0u);
    u.x = static_cast<int>(gen_int_bits(cx, 32, true));
    return u;
  }
  static void clobber(DirectUser& v)
  {
    scribble(v.name);
    v.x = -1;
  }
};

// ---- chrono ----
template <class Rep, class Period>
struct Val<std::chrono::duration<Rep, Period>>
{
  using D = std::chrono::duration<Rep, Period>;
  static constexpr Cat cat = Cat::Dur;
  static constexpr bool sr = true, varlen = false, unordered = false;
  static constexpr int depth = 0;
  static constexpr char const* family = "chrono_duration";
  static D make(Ctx& cx)
  {
    if constexpr (std::is_floating_point_v<Rep>) return D{static_cast<Rep>(gen_chrono_real(cx))};
    else return D{static_cast<Rep>(gen_chrono_count(cx))};
  }
  static D make_key(Ctx& cx) { return make(cx); }
  static void clobber(D& v) { v = D{static_cast<Rep>(-7)}; }
};

template <class Dur>
struct Val<std::chrono::time_point<std::chrono::system_clock, Dur>>
{
  using TP = std::chrono::time_point<std::chrono::system_clock, Dur>;
  static constexpr Cat cat = Cat::TimePoint;
  static constexpr bool sr = true, varlen = false, unordered = false;
  static constexpr int depth = 0;
  static constexpr char const* family = "chrono_time_point";
  static TP make(Ctx& cx)
  {
    static_assert(Dur::period::num == 1, "sub-second or second resolution only");
    int64_t const per_s = Dur::period::den;
    int64_t const s = gen_epoch_seconds(cx);
    int64_t const sub = per_s > 1 ? static_cast<int64_t>(pick_n(cx, static_cast<size_t>(std::min<int64_t>(per_s, 1000000000)))) : 0;
    return TP{Dur{static_cast<typename Dur::rep>(s * per_s + sub)}};
  }
  static void clobber(TP& v) { v = TP{Dur{static_cast<typename Dur::rep>(1)}}; }
};

// ---- filesystem::path ----
template <>
struct Val<std::filesystem::path>
{
  static constexpr Cat cat = Cat::Opaque;
  static constexpr bool sr = true, varlen = true, unordered = false;
  static constexpr int depth = 0;
  static constexpr char const* family = "fs_path";
  static std::filesystem::path make(Ctx& cx)
  {
    std::string s = gen_string(cx, GS_SHORT);
    if (pick_n(cx, 2) == 1) s = "/var/log/" + s;
    return std::filesystem::path{s};
  }
  static void clobber(std::filesystem::path& v) { v = std::filesystem::path{"/clobbered"}; }
};

// ---- sequence containers ----
template <class C, class T>
struct SeqVal
{
  static constexpr Cat cat = Cat::Opaque;
  static constexpr bool sr = true, varlen = true, unordered = false;
  static constexpr int depth = 1 + Val<T>::depth;
  static C make(Ctx& cx)
  {
    Nest n{cx};
    C v;
    size_t k = gen_count(cx);
    for (size_t i = 0; i < k; ++i) v.push_back(Val<T>::make(cx));
    return v;
  }
  static void clobber(C& v)
  {
    for (auto& e : v) Val<T>::clobber(e);
    v.clear();
  }
};

template <class T, class A>
struct Val<std::vector<T, A>> : SeqVal<std::vector<T, A>, T>
{
  static constexpr char const* family = "vector";
};
template <class T, class A>
struct Val<std::deque<T, A>> : SeqVal<std::deque<T, A>, T>
{
  static constexpr char const* family = "deque";
};
template <class T, class A>
struct Val<std::list<T, A>> : SeqVal<std::list<T, A>, T>
{
  static constexpr char const* family = "list";
};

template <class T, class A>
struct Val<std::forward_list<T, A>>
{
  using C = std::forward_list<T, A>;
  static constexpr Cat cat = Cat::Opaque;
  static constexpr bool sr = true, varlen = true, unordered = false;
  static constexpr int depth = 1 + Val<T>::depth;
  static constexpr char const* family = "forward_list";
  static C make(Ctx& cx)
  {
    Nest n{cx};
    C v;
    size_t k = gen_count(cx);
    auto it = v.before_begin();
    for (size_t i = 0; i < k; ++i) it = v.insert_after(it, Val<T>::make(cx));
    return v;
  }
  static void clobber(C& v)
  {
    for (auto& e : v) Val<T>::clobber(e);
    v.clear();
  }
};

template <class T, size_t N>
struct Val<std::array<T, N>>
{
  using C = std::array<T, N>;
  static constexpr Cat cat = Cat::Opaque;
  static constexpr bool sr = true, varlen = Val<T>::varlen, unordered = false;
  static constexpr int depth = 1 + Val<T>::depth;
  static constexpr char const* family = "array";
  static C make(Ctx& cx)
  {
    Nest n{cx};
    C v{};
    for (auto& e : v) e = Val<T>::make(cx);
    return v;
  }
  static void clobber(C& v)
  {
    for (auto& e : v) Val<T>::clobber(e);
  }
};

// ---- set-like (ordered and unordered) ----
template <class C, class K, bool Unordered>
struct SetVal
{
  static constexpr Cat cat = Cat::Opaque;
  static constexpr bool sr = true, varlen = true, unordered = Unordered;
  static constexpr int depth = 1 + Val<K>::depth;
  static C make(Ctx& cx)
  {
    Nest n{cx};
    C v;
    size_t k = gen_count(cx);
    for (size_t i = 0; i < k; ++i) v.insert(Val<K>::make_key(cx));
    return v;
  }
  static void clobber(C& v) { v.clear(); }
};

template <class K, class Cmp, class A>
struct Val<std::set<K, Cmp, A>> : SetVal<std::set<K, Cmp, A>, K, false>
{
  static constexpr char const* family = "set";
};
template <class K, class Cmp, class A>
struct Val<std::multiset<K, Cmp, A>> : SetVal<std::multiset<K, Cmp, A>, K, false>
{
  static constexpr char const* family = "multiset";
};
template <class K, class H, class E, class A>
struct Val<std::unordered_set<K, H, E, A>> : SetVal<std::unordered_set<K, H, E, A>, K, true>
{
  static constexpr char const* family = "unordered_set";
};
template <class K, class H, class E, class A>
struct Val<std::unordered_multiset<K, H, E, A>> : SetVal<std::unordered_multiset<K, H, E, A>, K, true>
{
  static constexpr char const* family = "unordered_multiset";
};

// ---- map-like ----
template <class C, class K, class V, bool Unordered>
struct MapVal
{
  static constexpr Cat cat = Cat::Opaque;
  static constexpr bool sr = true, varlen = true, unordered = Unordered;
  static constexpr int depth = 1 + (Val<K>::depth > Val<V>::depth ? Val<K>::depth : Val<V>::depth);
  static C make(Ctx& cx)
  {
    Nest n{cx};
    C v;
    size_t k = gen_count(cx);
    for (size_t i = 0; i < k; ++i)
    {
      K key = Val<K>::make_key(cx);
      V val = Val<V>::make(cx);
      v.emplace(std::move(key), std::move(val));
    }
    return v;
  }
  static void clobber(C& v)
  {
    for (auto& e : v) Val<V>::clobber(e.second);
    v.clear();
  }
};

template <class K, class V, class Cmp, class A>
struct Val<std::map<K, V, Cmp, A>> : MapVal<std::map<K, V, Cmp, A>, K, V, false>
{
  static constexpr char const* family = "map";
};
template <class K, class V, class Cmp, class A>
struct Val<std::multimap<K, V, Cmp, A>> : MapVal<std::multimap<K, V, Cmp, A>, K, V, false>
{
  static constexpr char const* family = "multimap";
};
template <class K, class V, class H, class E, class A>
struct Val<std::unordered_map<K, V, H, E, A>> : MapVal<std::unordered_map<K, V, H, E, A>, K, V, true>
{
  static constexpr char const* family = "unordered_map";
};
template <class K, class V, class H, class E, class A>
struct Val<std::unordered_multimap<K, V, H, E, A>> : MapVal<std::unordered_multimap<K, V, H, E, A>, K, V, true>
{
  static constexpr char const* family = "unordered_multimap";
};

// ---- optional / pair / tuple ----
template <class T>
struct Val<std::optional<T>>
{
  using C = std::optional<T>;
  static constexpr Cat cat = Cat::Opaque;
  static constexpr bool sr = true, varlen = true, unordered = false;
  static constexpr int depth = 1 + Val<T>::depth;
  static constexpr char const* family = "optional";
  static C make(Ctx& cx)
  {
    Nest n{cx};
    if (pick_n(cx, 4) == 0) return std::nullopt;
    return C{Val<T>::make(cx)};
  }
  static void clobber(C& v)
  {
    if (v) Val<T>::clobber(*v);
    v.reset();
  }
};

template <class A, class B>
struct Val<std::pair<A, B>>
{
  using C = std::pair<A, B>;
  static constexpr Cat cat = Cat::Opaque;
  static constexpr bool sr = true, varlen = Val<A>::varlen || Val<B>::varlen, unordered = false;
  static constexpr int depth = 1 + (Val<A>::depth > Val<B>::depth ? Val<A>::depth : Val<B>::depth);
  static constexpr char const* family = "pair";
  static C make(Ctx& cx)
  {
    Nest n{cx};
    A a = Val<A>::make(cx);
    B b = Val<B>::make(cx);
    return C{std::move(a), std::move(b)};
  }
  static C make_key(Ctx& cx)
  {
    Nest n{cx};
    A a = Val<A>::make_key(cx);
    B b = Val<B>::make_key(cx);
    return C{std::move(a), std::move(b)};
  }
  static void clobber(C& v)
  {
    Val<A>::clobber(v.first);
    Val<B>::clobber(v.second);
  }
};

template <class... Ts>
struct Val<std::tuple<Ts...>>
{
  using C = std::tuple<Ts...>;
  static constexpr Cat cat = Cat::Opaque;
  static constexpr bool sr = true, varlen = (Val<Ts>::varlen || ...), unordered = false;
  static constexpr int depth = 1 + std::max({0, Val<Ts>::depth...});
  static constexpr char const* family = "tuple";
  static C make(Ctx& cx)
  {
    Nest n{cx};
    return C{Val<Ts>::make(cx)...}; // braced init: left to right
  }
  static void clobber(C& v)
  {
    std::apply([](auto&... e) { (Val<std::decay_t<decltype(e)>>::clobber(e), ...); }, v);
  }
};

// =====================================================================================================================
// Slots
// =====================================================================================================================

// call-site texts of the elements of an unordered container: format a one-element container and strip the braces
template <class C>
inline void unordered_element_texts(C const& c, std::vector<std::string>& out)
{
  for (auto const& e : c)
  {
    C one;
    one.insert(e);
    std::string s = fmtquill::format("{}", one);
    out.push_back(s.size() >= 2 ? s.substr(1, s.size() - 2) : s);
  }
}

// generic value slot: the argument object itself is formatted at the call site
template <class T>
struct V
{
  T v{};
  void gen(Ctx& cx) { v = Val<T>::make(cx); }
  T const& arg() const { return v; }
  T const& ref() const { return v; }
  void clobber(Ctx&) { Val<T>::clobber(v); }
  static SlotInfo info()
  {
    return {Val<T>::cat, Val<T>::sr, Val<T>::varlen, Val<T>::unordered, Val<T>::depth, Val<T>::family};
  }
  void uelems(std::vector<std::string>& out) const
  {
    if constexpr (Val<T>::unordered) unordered_element_texts(v, out);
    else (void)out;
  }
};

// char const* / char*: backing std::string; null pointer => "" (pinned by StringLoggingTest: "csn []")
template <bool Mutable>
struct CStrT
{
  std::string back;
  using P = std::conditional_t<Mutable, char*, char const*>;
  P p{nullptr};
  std::string_view rv;
  void gen(Ctx& cx)
  {
    if (pick_n(cx, 8) == 7)
    {
      p = nullptr;
      rv = std::string_view{};
      note_label(cx, "null_cstring");
      return;
    }
    back = gen_string(cx, GS_NO_NUL);
    p = back.data();
    rv = back;
  }
  P const& arg() const { return p; }
  std::string_view const& ref() const { return rv; }
  void clobber(Ctx&)
  {
    scribble(back);
    p = nullptr;
    rv = std::string_view{};
  }
  static SlotInfo info() { return {Cat::Str, true, true, false, 0, Mutable ? "char_ptr" : "const_char_ptr"}; }
  void uelems(std::vector<std::string>&) const {}
};
using CStr = CStrT<false>;
using MCStr = CStrT<true>;

// char[N]: terminated (with garbage after the NUL), unterminated (all N bytes non-NUL) or empty.
// The call site cannot format an unterminated array, so the reference is the view of the first strnlen bytes.
template <size_t N, bool Const = false>
struct CArr
{
  char a[N];
  std::string_view rv;
  void gen(Ctx& cx)
  {
    std::string s = gen_string(cx, GS_NO_NUL | GS_SHORT);
    while (s.size() < N) s += static_cast<char>('a' + (s.size() % 26)); // at least N non-NUL bytes available
    size_t const mode = pick_n(cx, 4); // 0 terminated, 1 unterminated, 2 empty, 3 terminated at the last byte
    std::memcpy(a, s.data(), N);
    size_t len = N;
    if (mode == 0) { len = pick_n(cx, N); a[len] = '\0'; }
    else if (mode == 2) { len = 0; a[0] = '\0'; }
    else if (mode == 3) { len = N - 1; a[N - 1] = '\0'; }
    else note_label(cx, "unterminated_char_array");
    if (len == 0) note_label(cx, "empty_char_array");
    rv = std::string_view{a, len};
  }
  using R = std::conditional_t<Const, char const (&)[N], char (&)[N]>;
  R arg() { return a; }
  std::string_view const& ref() const { return rv; }
  void clobber(Ctx&)
  {
    std::memset(a, '!', N); // no NUL left: a late reader would run off the array
    rv = std::string_view{};
  }
  static SlotInfo info() { return {Cat::Str, true, true, false, 0, "char_array"}; }
  void uelems(std::vector<std::string>&) const {}
};

// std::string_view over a sub-range of a backing string (not NUL-terminated at its end)
struct SV
{
  std::string back;
  std::string_view v;
  void gen(Ctx& cx)
  {
    back = gen_string(cx, 0u);
    size_t off = 0, len = back.size();
    if (!back.empty() && pick_n(cx, 3) == 2)
    {
      off = pick_n(cx, back.size());
      len = pick_n(cx, back.size() - off + 1);
    }
    v = std::string_view{back.data() + off, len};
  }
  std::string_view const& arg() const { return v; }
  std::string_view const& ref() const { return v; }
  void clobber(Ctx&)
  {
    scribble(back);
    v = std::string_view{};
  }
  static SlotInfo info() { return {Cat::Str, true, true, false, 0, "string_view"}; }
  void uelems(std::vector<std::string>&) const {}
};

// quill::utility::StringRef: non-owning, so its target stays alive and untouched until the case ends
struct SRef
{
  std::optional<quill::utility::StringRef> sr;
  std::string_view rv;
  void gen(Ctx& cx)
  {
    cx.keep->push_back(std::make_unique<std::string>(gen_string(cx, 0u)));
    std::string const& target = *cx.keep->back();
    switch (pick_n(cx, 3))
    {
    case 0: sr.emplace(target); rv = target; break;
    case 1: sr.emplace(std::string_view{target}); rv = target; break;
    default:
    {
      // (pointer, size) constructor over a sub-range
      size_t off = target.empty() ? 0 : pick_n(cx, target.size());
      size_t len = pick_n(cx, target.size() - off + 1);
      sr.emplace(target.data() + off, len);
      rv = std::string_view{target.data() + off, len};
    }
    }
  }
  quill::utility::StringRef const& arg() const { return *sr; }
  std::string_view const& ref() const { return rv; }
  void clobber(Ctx&) { sr.reset(); } // the wrapper object may go away, the target may not
  static SlotInfo info() { return {Cat::Str, true, false, false, 0, "string_ref"}; }
  void uelems(std::vector<std::string>&) const {}
};

// T[N] of non-char element type (quill/std/Array.h)
template <class T, size_t N>
struct TArr
{
  T a[N]{};
  void gen(Ctx& cx)
  {
    Nest n{cx};
    for (auto& e : a) e = Val<T>::make(cx);
  }
  using R = T const (&)[N];
  R arg() const { return a; }
  R ref() const { return a; }
  void clobber(Ctx&)
  {
    for (auto& e : a) Val<T>::clobber(e);
  }
  static SlotInfo info() { return {Cat::Opaque, true, Val<T>::varlen, false, 1 + Val<T>::depth, "c_array"}; }
  void uelems(std::vector<std::string>&) const {}
};

// =====================================================================================================================
// One statement of a given shape
// =====================================================================================================================
template <class... A>
inline bool codec_roundtrip(Ctx& cx, Prepared* p, A const&... a)
{
  namespace qd = quill::detail;
  // (2) of the size accounting: size pass == encode advance == decode advance, in a harness-owned buffer with
  // canaries, using exactly the functions LoggerImpl::log_statement and the backend use
  size_t const sz = qd::compute_encoded_size_and_cache_string_lengths(*cx.cache, a...);
  std::byte* const b = cx.rt_buffer(sz);
  std::byte* w = b;
  qd::encode(w, *cx.cache, a...);
  if (!cx.rt_after_encode(p, b, w, sz)) return false;
  std::byte* rp = b;
  qd::decode_and_store_args<qd::remove_cvref_t<A>...>(rp, *cx.store);
  return cx.rt_after_decode(p, b, rp, sz);
}

template <class... S>
struct Stmt
{
  static void run(Ctx& cx)
  {
    std::array<SlotInfo, sizeof...(S)> const info_arr{{S::info()...}};
    SlotInfo const* const info = info_arr.data();
    Prepared* p = cx.plan(info, sizeof...(S));
    if (!p) return;
    std::tuple<S...> sl;
    std::apply([&cx](auto&... s) { (s.gen(cx), ...); }, sl);
    // call-site reference, evaluated BEFORE the log call with the original objects
    bool const prepared = std::apply(
      [&](auto&... s) { return cx.prepare(p, info, sizeof...(S), fmtquill::make_format_args(s.ref()...)); }, sl);
    if (!prepared) return;
    {
      size_t i = 0;
      std::apply([&](auto&... s) { ((s.uelems(p->uelems[i]), ++i), ...); }, sl);
    }
    std::apply(
      [&](auto&... s)
      {
        if (!codec_roundtrip(cx, p, s.arg()...))
        {
          cx.abandon(p); // size accounting already failed: logging it would trip quill's assert / desynchronise
          return;
        }
        bool const ok = p->runtime_md
          ? cx.logger->template log_statement<false, true>(p->level, p->md, s.arg()..., "fmtcat_rt.cpp", 4711, "rt_fn")
          : p->dynamic_level
          ? cx.logger->template log_statement<false, true>(p->level, p->md, s.arg()...)
          : cx.logger->template log_statement<false, false>(quill::LogLevel::None, p->md, s.arg()...);
        cx.after_log(p, ok);
        // deep copy: overwrite / destroy every argument before the backend gets to run
        (s.clobber(cx), ...);
      },
      sl);
  }
};

#define FMTCAT_SHAPE(name, ...) ::fmtcat::ShapeEntry{name, &::fmtcat::Stmt<__VA_ARGS__>::run, 2u, nullptr}
#define FMTCAT_SHAPE_W(name, w, ...) ::fmtcat::ShapeEntry{name, &::fmtcat::Stmt<__VA_ARGS__>::run, w, nullptr}
#define FMTCAT_SHAPE_K(name, cls, ...) ::fmtcat::ShapeEntry{name, &::fmtcat::Stmt<__VA_ARGS__>::run, 2u, cls}
} // namespace fmtcat
