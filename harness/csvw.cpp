// csvw — C17 for quill::CsvWriter (include/quill/CsvWriter.h), with the REAL backend thread.
//
// A CsvWriter is create_or_get_logger("__csv__" + name, sinks, "%(message)") + a header statement in its constructor,
// one statement per append_row(), flush_log() in flush() and remove_logger_blocking() in its destructor. C17 says that a
// removal never discards statements logged before it, that sinks nobody references any more are destroyed (files closed)
// while shared sinks keep working, that the blocking removal returns only after the removal completed (so that the name
// can be created again with different sinks) and that creation / look-up by name is idempotent.
//
// A case is a generated history over a small pool of writer names / files / sink names and 1-2 frontend threads:
// construct (five overloads), append rows (single rows, bursts, asynchronous bursts on the second thread), flush,
// destroy, burst-then-destroy (optionally inside the backend's idle window, see the hook below), re-create the same name
// (same file 'a' / 'w', or a different sink), ordinary loggers sharing sinks with writers, user references to sinks,
// look-ups by name. All removals are blocking, so every check below is schedule independent:
//   * when a writer's destructor (or remove_logger_blocking of an ordinary logger) returns: get_logger(name) is null,
//     get_number_of_loggers() equals the model, every sink whose last owner it was is destroyed (recording sink: destructor
//     counted; file: no descriptor of the process refers to it any more and its content is exactly the model's), sinks
//     that are still referenced are NOT destroyed (file still open), and every row logged through it is on its sinks;
//   * after Backend::stop(): every file / recording holds exactly the model's lines (headers by the documented rules:
//     'w' truncates and writes the header, 'a' on an existing file appends without one, flag overloads obey the flag, the
//     rotating overload writes the header on top of every file opened by a rotation), each exactly once, in per-thread
//     order (statements of one thread are totally ordered; nothing is claimed about the interleaving of two threads
//     beyond what the checks at the blocking removals imply); every recording sink was destroyed exactly once.
// Reference model: a registry of loggers / sinks / files written here; expected texts by fmtquill::format at the call site.
//
// Hook: -DQUILL_VERIF gives the backend worker yield points. At Y5 (idle branch: "all queues empty" has just been
// observed, the clean-up of invalidated loggers comes next) the backend thread can be parked until the harness has
// appended a burst and run the destructor's removal request: statements are then certainly still queued when the
// backend looks at the invalidated logger. The hook only delays the backend; no oracle depends on it.
// Fork per case; body of the case on its own thread so that a removal that never returns is reported, not only killed.
// Params: maxops=N (ops per case, default 24), midcheck=0 (only the checks after Backend::stop()), hang_ms=N (default 30000:
// a blocking call that takes longer is reported as a failure).
#include "../engine/harness.h"

#include "quill/Backend.h"
#include "quill/CsvWriter.h"
#include "quill/Frontend.h"
#include "quill/Logger.h"
#include "quill/backend/RdtscClock.h"
#include "quill/sinks/FileSink.h"
#include "quill/sinks/RotatingFileSink.h"
#include "quill/sinks/Sink.h"

#include <algorithm>
#include <atomic>
#include <chrono>
#include <condition_variable>
#include <cstdlib>
#include <dirent.h>
#include <fstream>
#include <functional>
#include <map>
#include <memory>
#include <mutex>
#include <set>
#include <sstream>
#include <thread>
#include <unistd.h>

using namespace verif;

namespace
{
Params g_params;
long g_driver_pid = 0;
bool g_midcheck = true;
long g_max_ops = 24;

// ---------------------------------------------------------------------------------------------------------------------
struct SchemaA
{
  static constexpr char const* header = "id,name,value";
  static constexpr char const* format = "{},{},{}";
};
struct SchemaB
{
  static constexpr char const* header = "k,tag,qty,px";
  static constexpr char const* format = "{},{},{},{:.2f}";
};
char const* schema_header(int s) { return s == 0 ? SchemaA::header : SchemaB::header; }

struct BbOptions
{
  static constexpr quill::QueueType queue_type = quill::QueueType::BoundedBlocking;
  static constexpr size_t initial_queue_capacity = 4096;
  static constexpr uint32_t blocking_queue_retry_interval_ns = 200;
  static constexpr size_t unbounded_queue_max_capacity = 4096;
  static constexpr quill::HugePagesPolicy huge_pages_policy = quill::HugePagesPolicy::Never;
};

constexpr quill::MacroMetadata kOrdMd{"csvw.cpp:1", "f", "o{}|{}", nullptr, quill::LogLevel::Info, quill::MacroMetadata::Event::Log};

// ---------------------------------------------------------------------------------------------------------------------
// recording sink: the recording and the destruction counter outlive the sink object
struct RecState
{
  std::mutex m;
  std::vector<std::string> stmts;
  int destroyed{0};
};

class RecSink : public quill::Sink
{
public:
  explicit RecSink(std::shared_ptr<RecState> s) : st(std::move(s)) {}
  ~RecSink() override
  {
    std::lock_guard<std::mutex> lk(st->m);
    ++st->destroyed;
  }
  void write_log(quill::MacroMetadata const*, uint64_t, std::string_view, std::string_view, std::string const&, std::string_view,
                 quill::LogLevel, std::string_view, std::string_view, std::vector<std::pair<std::string, std::string>> const*,
                 std::string_view, std::string_view log_statement) override
  {
    std::lock_guard<std::mutex> lk(st->m);
    st->stmts.emplace_back(log_statement);
  }
  void flush_sink() override {}
  std::shared_ptr<RecState> st;
};

// ---------------------------------------------------------------------------------------------------------------------
// backend yield hook (runs on the backend thread; lock-free operations only)
std::atomic<int> g_arm{0}; // 0 idle, 1 armed by the harness, 2 backend parked at Y5
void yield_hook(int point)
{
  if (point != 5) return;
  int e = 1;
  if (!g_arm.compare_exchange_strong(e, 2)) return;
  auto const t0 = std::chrono::steady_clock::now();
  while (g_arm.load() == 2 && !quill::detail::LoggerManager::instance().has_invalidated_loggers() &&
         std::chrono::steady_clock::now() - t0 < std::chrono::milliseconds{3})
  {
    std::this_thread::yield();
  }
  g_arm.store(0);
}

// ---------------------------------------------------------------------------------------------------------------------
// second frontend thread: executes closures handed over by the body thread
struct Worker
{
  std::thread th;
  std::mutex m;
  std::condition_variable cv;
  std::function<void()> job;
  bool has_job{false};
  bool busy{false};
  bool quit{false};
  std::string error;

  void start()
  {
    th = std::thread(
      [this]()
      {
        for (;;)
        {
          std::function<void()> j;
          {
            std::unique_lock<std::mutex> lk(m);
            cv.wait(lk, [this]() { return has_job || quit; });
            if (!has_job && quit) return;
            j = std::move(job);
            has_job = false;
          }
          std::string err;
          try { j(); }
          catch (std::exception const& e) { err = e.what(); }
          catch (...) { err = "unknown exception"; }
          {
            std::lock_guard<std::mutex> lk(m);
            if (!err.empty() && error.empty()) error = err;
            busy = false;
          }
          cv.notify_all();
        }
      });
  }
  void post(std::function<void()> f)
  {
    {
      std::lock_guard<std::mutex> lk(m);
      job = std::move(f);
      has_job = true;
      busy = true;
    }
    cv.notify_all();
  }
  void wait_idle()
  {
    std::unique_lock<std::mutex> lk(m);
    cv.wait(lk, [this]() { return !busy; });
  }
  void stop()
  {
    if (!th.joinable()) return;
    {
      std::lock_guard<std::mutex> lk(m);
      quit = true;
    }
    cv.notify_all();
    th.join();
  }
};

// ---------------------------------------------------------------------------------------------------------------------
// reference model
struct Item
{
  int thr;
  int owner; // logger incarnation
  bool header;
  std::string text;
};

struct MSink
{
  int id{0};
  int kind{0};          // 0 recording sink, 1 FileSink on files[file], 2 RotatingFileSink on rots[file]
  std::string reg_name; // name in the sink registry ("" = never registered)
  int file{-1};
  std::shared_ptr<RecState> rec;
  quill::Sink* raw{nullptr};
  std::shared_ptr<quill::Sink> user_ref; // the harness' ("user's") own reference
  int n_loggers{0};
  bool dead{false};
  bool outlived_writer{false};
  std::vector<Item> items; // kind 0: expected recording
};

struct MFile
{
  std::string path;
  bool exists{false};
  std::vector<Item> items;
  int live_sink{-1};
};

struct MRot
{
  std::string path;
  std::string stem;
  bool exists{false};
  std::vector<Item> items;
  size_t max_seen{0};
};

struct OwnerInfo
{
  bool rot_flag{false};
  std::string header;
};

struct LInfo
{
  std::string name; // writer name (without the "__csv__" prefix) / ordinary logger name
  int owner{-1};
  int schema{0};
  std::vector<int> sinks;
  void* ptr{nullptr};
  long burst_op{-1}; // index of the op that appended >= 8 rows without a flush since
};

struct Row
{
  uint32_t id;
  std::string s;
  double d;
  int64_t q;
};

struct Hist
{
  int created{0};
  bool queued_destroy{false};
  std::string targets;
};

std::vector<std::string> split_lines(std::string const& content, bool& terminated)
{
  std::vector<std::string> out;
  terminated = content.empty() || content.back() == '\n';
  size_t pos = 0;
  while (pos < content.size())
  {
    size_t e = content.find('\n', pos);
    if (e == std::string::npos) { out.push_back(content.substr(pos)); break; }
    out.push_back(content.substr(pos, e - pos));
    pos = e + 1;
  }
  return out;
}

bool read_file(std::string const& path, std::string& out)
{
  std::ifstream f(path, std::ios::binary);
  if (!f) return false;
  std::ostringstream ss;
  ss << f.rdbuf();
  out = ss.str();
  return true;
}

// number of descriptors of this process that refer to `path`
int count_fds(std::string const& path)
{
  int n = 0;
  DIR* d = opendir("/proc/self/fd");
  if (!d) return -1;
  while (dirent* e = readdir(d))
  {
    if (e->d_name[0] == '.') continue;
    char buf[512];
    std::string p = std::string{"/proc/self/fd/"} + e->d_name;
    ssize_t k = readlink(p.c_str(), buf, sizeof buf - 1);
    if (k <= 0) continue;
    buf[k] = 0;
    if (path == buf) ++n;
  }
  closedir(d);
  return n;
}

// `obs` must be an interleaving of the per-thread subsequences of `exp` (exactly once, per-thread order)
std::string check_interleave(std::vector<std::string> const& obs, std::vector<Item> const& exp, std::string const& what)
{
  std::vector<size_t> seq[2];
  for (size_t k = 0; k < exp.size(); ++k) seq[exp[k].thr ? 1 : 0].push_back(k);
  std::set<size_t> S{0};
  for (size_t k = 0; k < obs.size(); ++k)
  {
    std::set<size_t> N;
    for (size_t i : S)
    {
      size_t j = k - i;
      if (i < seq[0].size() && exp[seq[0][i]].text == obs[k]) N.insert(i + 1);
      if (j < seq[1].size() && exp[seq[1][j]].text == obs[k]) N.insert(i);
    }
    if (N.empty())
    {
      size_t i = *S.begin(), j = k - i;
      std::string m = what + ": line " + std::to_string(k + 1) + " of " + std::to_string(obs.size()) + " is \"" + esc(obs[k], 80) + "\" but the model (" +
        std::to_string(exp.size()) + " lines) expects ";
      if (i < seq[0].size()) m += "\"" + esc(exp[seq[0][i]].text, 80) + "\"";
      if (j < seq[1].size()) m += std::string{i < seq[0].size() ? " or (second thread) " : ""} + "\"" + esc(exp[seq[1][j]].text, 80) + "\"";
      if (i >= seq[0].size() && j >= seq[1].size()) m += "nothing more";
      return m + " (lost, duplicated, misplaced or foreign statement / header rule violated)";
    }
    S.swap(N);
  }
  if (obs.size() < exp.size())
  {
    size_t i = *S.begin(), j = obs.size() - i;
    size_t miss = i < seq[0].size() ? seq[0][i] : seq[1][j < seq[1].size() ? j : 0];
    return what + ": holds " + std::to_string(obs.size()) + " lines, the model expects " + std::to_string(exp.size()) + "; first missing: \"" +
      esc(exp[miss].text, 80) + "\" (statement lost)";
  }
  return {};
}

// ---------------------------------------------------------------------------------------------------------------------
struct Shared // between run_case (driver thread) and the body thread
{
  std::mutex m;
  std::condition_variable cv;
  bool done{false};
  std::string current;
  Report rep;
};

template <typename FO>
struct WBox
{
  std::unique_ptr<quill::CsvWriter<SchemaA, FO>> a;
  std::unique_ptr<quill::CsvWriter<SchemaB, FO>> b;
  void reset()
  {
    a.reset();
    b.reset();
  }
};

template <typename FO>
struct Case
{
  using FE = quill::FrontendImpl<FO>;
  using LG = quill::LoggerImpl<FO>;
  static constexpr int kSlots = 3;
  static constexpr int kOrd = 2;

  Choices& c;
  Report& r;
  Shared& sh;
  std::string dir;
  unsigned nthreads{1};
  Worker worker;
  bool async_out{false};
  int busy_slot{-1};

  std::vector<MSink> sinks;
  MFile files[3];
  MRot rots[2];
  std::vector<OwnerInfo> owners;
  std::map<std::string, Hist> hist;

  struct WSlot
  {
    bool alive{false};
    LInfo info;
    WBox<FO> box;
  } w[kSlots];
  struct OSlot
  {
    bool alive{false};
    LInfo info;
    LG* lg{nullptr};
  } o[kOrd];

  size_t n_alive{0};
  uint32_t next_id{1};
  long op_index{0};
  std::string ops;
  bool stop_ops{false};
  std::mutex notes_m;
  std::vector<std::string> notes;

  Case(Choices& cc, Report& rr, Shared& s) : c(cc), r(rr), sh(s) {}

  // ---- small helpers --------------------------------------------------------------------------------------------
  void fail(std::string const& m)
  {
    r.fail(m);
    stop_ops = true;
  }
  void note_current(std::string const& s)
  {
    std::lock_guard<std::mutex> lk(sh.m);
    sh.current = s;
  }
  void op(std::string const& s)
  {
    if (ops.size() < 1500) ops += s + " ";
    note_current(s);
  }
  void sync_worker()
  {
    if (!async_out) return;
    worker.wait_idle();
    async_out = false;
    busy_slot = -1;
    check_worker_error();
  }
  void check_worker_error()
  {
    std::lock_guard<std::mutex> lk(worker.m);
    if (!worker.error.empty())
    {
      fail("unexpected exception on the second frontend thread: " + worker.error);
      worker.error.clear();
    }
  }
  // run fn on frontend thread `thr` and wait for it
  void exec(int thr, std::function<void()> const& fn)
  {
    if (thr == 0 || nthreads < 2)
    {
      try { fn(); }
      catch (std::exception const& e) { fail(std::string{"unexpected exception: "} + e.what()); }
      return;
    }
    sync_worker();
    worker.post(fn);
    worker.wait_idle();
    check_worker_error();
  }
  void touch_slot(int slot)
  {
    if (async_out && busy_slot == slot) sync_worker();
  }
  std::string full_name(LInfo const& L, bool writer) const { return writer ? "__csv__" + L.name : L.name; }

  std::string sink_label(MSink const& S) const
  {
    if (S.kind == 0) return "recording sink #" + std::to_string(S.id) + (S.reg_name.empty() ? "" : "(" + S.reg_name + ")");
    if (S.kind == 1) return "file sink f" + std::to_string(S.file);
    return "rotating file sink r" + std::to_string(S.file);
  }
  std::vector<Item>& target_items(MSink& S)
  {
    if (S.kind == 0) return S.items;
    if (S.kind == 1) return files[S.file].items;
    return rots[S.file].items;
  }
  void add_item(LInfo const& L, int thr, std::string const& text, bool header)
  {
    for (int s : L.sinks) target_items(sinks[static_cast<size_t>(s)]).push_back(Item{thr, L.owner, header, text});
  }
  std::string target_key(std::vector<int> const& ids) const
  {
    std::vector<std::string> k;
    for (int s : ids)
    {
      MSink const& S = sinks[static_cast<size_t>(s)];
      k.push_back(S.kind == 0 ? "rec" + std::to_string(S.id) : (S.kind == 1 ? "file" : "rot") + std::to_string(S.file));
    }
    std::sort(k.begin(), k.end());
    std::string o;
    for (auto const& x : k) o += x + ",";
    return o;
  }
  int new_owner(bool rot_flag, std::string const& header)
  {
    owners.push_back(OwnerInfo{rot_flag, header});
    return static_cast<int>(owners.size()) - 1;
  }
  MSink& new_sink(int kind)
  {
    MSink S;
    S.id = static_cast<int>(sinks.size());
    S.kind = kind;
    sinks.push_back(S);
    return sinks.back();
  }

  // ---- value generation -----------------------------------------------------------------------------------------
  std::string gen_str()
  {
    static char const alphabet[] = "abcdefghijklmnopqrstuvwxyzABCDEFGHIJKLMNOPQRSTUVWXYZ0123456789 _-.;\"{}%";
    constexpr unsigned sz = sizeof alphabet - 1;
    unsigned len = 0;
    switch (c.weighted({3, 4, 2, 1}))
    {
    case 0: len = 0; break;
    case 1: len = 1 + c.pick(6); break;
    case 2: len = 7 + c.pick(10); break;
    default: len = 17 + c.pick(24); break;
    }
    if (len == 0) return {};
    unsigned a = c.pick(sz), b = 1 + c.pick(sz - 1);
    std::string s(len, 'a');
    for (unsigned i = 0; i < len; ++i) s[i] = alphabet[(a + i * b) % sz];
    return s;
  }
  double gen_double()
  {
    static double const tbl[] = {0.0, 1.5, -2.25, 100.125, 0.001, 123456.789, 3.0e10, -0.5};
    return c.pick(4) == 0 ? static_cast<double>(c.pick(1000000)) / 100.0 : tbl[c.pick(8)];
  }
  static std::string row_text(int schema, Row const& x)
  {
    return schema == 0 ? fmtquill::format("{},{},{}", x.id, x.s, x.d) : fmtquill::format("{},{},{},{:.2f}", x.id, x.s, x.q, x.d);
  }
  std::vector<Row> gen_rows(unsigned n)
  {
    std::vector<Row> rows;
    Row base{0, gen_str(), gen_double(), c.range(-1000, 100000)};
    for (unsigned i = 0; i < n; ++i)
    {
      Row x = base;
      x.id = next_id++;
      if (i > 0)
      {
        x.s += static_cast<char>('a' + (i % 26u));
        x.d += 0.25 * i;
        x.q += i;
      }
      rows.push_back(x);
    }
    return rows;
  }

  // ---- sinks ----------------------------------------------------------------------------------------------------
  struct Chosen
  {
    int id{-1};
    std::shared_ptr<quill::Sink> sp;
  };

  // a reference to a sink the model says is alive, obtained the way a user would
  std::shared_ptr<quill::Sink> lookup(MSink& S)
  {
    if (S.user_ref) return S.user_ref;
    std::shared_ptr<quill::Sink> sp;
    try { sp = FE::get_sink(S.reg_name); }
    catch (std::exception const& e)
    {
      fail("get_sink(\"" + esc(S.reg_name, 60) + "\") threw \"" + e.what() + "\" although the " + sink_label(S) + " is still referenced by " +
           std::to_string(S.n_loggers) + " logger(s)");
      return {};
    }
    if (sp.get() != S.raw)
    {
      fail("get_sink(\"" + esc(S.reg_name, 60) + "\") returned a different object than the one created under that name, which is still referenced (look-up by name is not idempotent)");
      return {};
    }
    return sp;
  }

  Chosen named_rec(unsigned k)
  {
    std::string const name = "s" + std::to_string(k);
    auto fresh = std::make_shared<RecState>();
    for (auto& S : sinks)
    {
      if (!S.dead && S.kind == 0 && S.reg_name == name)
      {
        std::shared_ptr<quill::Sink> sp = FE::template create_or_get_sink<RecSink>(name, fresh);
        if (sp.get() != S.raw)
        {
          fail("create_or_get_sink(\"" + name + "\") created / returned another object although the sink of that name is still referenced (user ref: " +
               std::string{S.user_ref ? "yes" : "no"} + ", loggers: " + std::to_string(S.n_loggers) + "): creation by name is not idempotent");
          return {};
        }
        return Chosen{S.id, sp};
      }
    }
    std::shared_ptr<quill::Sink> sp = FE::template create_or_get_sink<RecSink>(name, fresh);
    auto* rs = dynamic_cast<RecSink*>(sp.get());
    if (!rs || rs->st != fresh)
    {
      fail("create_or_get_sink(\"" + name + "\") returned a stale object: the previous sink of that name has no owner left (it must have been destroyed)");
      return {};
    }
    MSink& S = new_sink(0);
    S.reg_name = name;
    S.rec = fresh;
    S.raw = sp.get();
    return Chosen{S.id, sp};
  }

  Chosen unregistered_rec()
  {
    auto st = std::make_shared<RecState>();
    std::shared_ptr<quill::Sink> sp = std::make_shared<RecSink>(st);
    MSink& S = new_sink(0);
    S.rec = st;
    S.raw = sp.get();
    return Chosen{S.id, sp};
  }

  Chosen file_sink(unsigned f)
  {
    MFile& F = files[f];
    if (F.live_sink >= 0)
    {
      MSink& S = sinks[static_cast<size_t>(F.live_sink)];
      auto sp = lookup(S);
      if (!sp) return {};
      return Chosen{S.id, sp};
    }
    char const mode = c.pick(2) ? 'a' : 'w';
    if (mode == 'w') F.items.clear();
    F.exists = true;
    quill::FileSinkConfig cfg;
    cfg.set_open_mode(mode);
    cfg.set_filename_append_option(quill::FilenameAppendOption::None);
    std::shared_ptr<quill::Sink> sp = FE::template create_or_get_sink<quill::FileSink>(F.path, cfg);
    MSink& S = new_sink(1);
    S.reg_name = F.path;
    S.file = static_cast<int>(f);
    S.raw = sp.get();
    F.live_sink = S.id;
    op(std::string{"[filesink f"} + std::to_string(f) + "," + mode + "]");
    return Chosen{S.id, sp};
  }

  Chosen choose_sink(bool allow_file, bool prefer_existing = false)
  {
    size_t k = prefer_existing ? c.weighted({1, 6, 1, allow_file ? 1u : 0u}) : c.weighted({3, 3, 2, allow_file ? 2u : 0u});
    if (k == 1)
    {
      std::vector<int> cand;
      for (auto const& S : sinks)
        if (!S.dead && S.kind != 2 && (S.user_ref || !S.reg_name.empty())) cand.push_back(S.id);
      if (cand.empty()) k = 2;
      else
      {
        MSink& S = sinks[static_cast<size_t>(cand[c.pick(static_cast<uint32_t>(cand.size()))])];
        auto sp = lookup(S);
        if (!sp) return {};
        return Chosen{S.id, sp};
      }
    }
    if (k == 0) return named_rec(c.pick(3));
    if (k == 2) return unregistered_rec();
    return file_sink(c.pick(3));
  }

  // ---- content checks -------------------------------------------------------------------------------------------
  std::string check_rec(MSink const& S)
  {
    std::vector<std::string> obs;
    {
      std::lock_guard<std::mutex> lk(S.rec->m);
      obs = S.rec->stmts;
    }
    for (auto& s : obs)
    {
      if (s.empty() || s.back() != '\n') return sink_label(S) + ": received the statement \"" + esc(s, 80) + "\" without the terminating newline";
      s.pop_back();
    }
    return check_interleave(obs, S.items, sink_label(S));
  }

  std::string check_file(MFile const& F, unsigned f)
  {
    std::string const what = "file f" + std::to_string(f) + ".csv";
    std::string content;
    bool const there = read_file(F.path, content);
    if (!F.exists) return there ? what + ": exists although no sink ever opened it" : std::string{};
    if (!there) return what + ": missing although a sink opened it";
    bool term = true;
    auto lines = split_lines(content, term);
    if (!term) return what + ": does not end with a newline (last line \"" + esc(lines.back(), 80) + "\")";
    return check_interleave(lines, F.items, what);
  }

  std::string check_rot(MRot const& R, unsigned ri, bool label_it)
  {
    std::string const what = "rotating file r" + std::to_string(ri);
    std::vector<std::pair<long, std::string>> fl;
    DIR* d = opendir(dir.c_str());
    if (!d) return what + ": cannot list the scratch directory";
    std::string const ext = ".csv";
    while (dirent* e = readdir(d))
    {
      std::string fn = e->d_name;
      if (fn == R.stem + ext) { fl.emplace_back(0, dir + "/" + fn); continue; }
      if (fn.size() > R.stem.size() + 1 + ext.size() && fn.compare(0, R.stem.size() + 1, R.stem + ".") == 0 &&
          fn.compare(fn.size() - ext.size(), ext.size(), ext) == 0)
      {
        std::string mid = fn.substr(R.stem.size() + 1, fn.size() - R.stem.size() - 1 - ext.size());
        if (!mid.empty() && std::all_of(mid.begin(), mid.end(), [](char ch) { return ch >= '0' && ch <= '9'; }))
          fl.emplace_back(std::strtol(mid.c_str(), nullptr, 10), dir + "/" + fn);
      }
    }
    closedir(d);
    if (!R.exists) return fl.empty() ? std::string{} : what + ": files exist although no sink ever opened it";
    if (fl.empty()) return what + ": no file exists although a sink opened it";
    // oldest first: highest index ... .2 .1 and the base name last (documented Index naming scheme)
    std::sort(fl.begin(), fl.end(), [](auto const& x, auto const& y) { return x.first > y.first; });
    std::vector<std::string> flat;
    for (size_t fi = 0; fi < fl.size(); ++fi)
    {
      std::string content;
      std::string const fname = fl[fi].second.substr(dir.size() + 1);
      if (!read_file(fl[fi].second, content)) return what + ": cannot read " + fname;
      bool term = true;
      auto lines = split_lines(content, term);
      if (!term) return what + ": " + fname + " does not end with a newline";
      // documented size rule ("maximum file size in bytes per file"); the header written on top of a rotated file is not
      // counted by the sink, hence the slack
      if (content.size() > R.max_seen + 64)
        return what + ": " + fname + " is " + std::to_string(content.size()) + " bytes, rotation_max_file_size was " + std::to_string(R.max_seen);
      if (fi > 0)
      {
        // this file was opened by a rotation, triggered by the statement that is now its first row
        if (R.items.empty() || lines.empty()) return what + ": " + fname + " was opened by a rotation but is empty";
        size_t p = std::min(flat.size(), R.items.size() - 1);
        OwnerInfo const& oi = owners[static_cast<size_t>(R.items[p].owner)];
        if (oi.rot_flag)
        {
          if (lines[0] != oi.header)
            return what + ": " + fname + " was opened by a rotation and must start with the header \"" + oi.header + "\" but starts with \"" + esc(lines[0], 80) + "\"";
          lines.erase(lines.begin());
        }
      }
      for (auto& l : lines) flat.push_back(std::move(l));
    }
    if (label_it && fl.size() > 1) r.label("rotated");
    if (label_it) r.count("rotated_files", static_cast<long>(fl.size()) - 1);
    return check_interleave(flat, R.items, what + " (" + std::to_string(fl.size()) + " files, oldest first)");
  }

  // the sink has lost its last owner: it must be gone, its file closed and complete
  void check_dead_sink(MSink& S, std::string const& why)
  {
    S.dead = true;
    if (S.kind == 1) files[S.file].live_sink = -1;
    if (!g_midcheck || r.failed) return;
    if (S.kind == 0)
    {
      int dn;
      {
        std::lock_guard<std::mutex> lk(S.rec->m);
        dn = S.rec->destroyed;
      }
      if (dn != 1)
      {
        fail(sink_label(S) + " was destroyed " + std::to_string(dn) + " times, expected once: " + why + " and neither a logger nor the user references it any more");
        return;
      }
      std::string e = check_rec(S);
      if (!e.empty()) fail(e + " [checked when the sink lost its last owner: " + why + "]");
      return;
    }
    std::string const& path = S.kind == 1 ? files[S.file].path : rots[S.file].path;
    int const fds = count_fds(path);
    if (fds != 0)
    {
      fail(sink_label(S) + ": its file is still open (" + std::to_string(fds) + " descriptor(s)) although " + why + " and neither a logger nor the user references the sink any more");
      return;
    }
    std::string e = S.kind == 1 ? check_file(files[S.file], static_cast<unsigned>(S.file)) : check_rot(rots[S.file], static_cast<unsigned>(S.file), false);
    if (!e.empty()) fail(e + " [checked right after the file was closed: " + why + "]");
  }

  // a logger is gone (blocking removal returned): registry + sinks
  void after_logger_gone(LInfo const& L, bool writer)
  {
    std::string const full = full_name(L, writer);
    std::string const why = (writer ? "the destructor of writer \"" : "remove_logger_blocking of \"") + esc(L.name.substr(L.name.find_last_of('/') + 1), 40) + "\" returned";
    if (g_midcheck && !r.failed)
    {
      if (FE::get_logger(full) != nullptr) fail(why + " but get_logger() still finds the logger");
      size_t const n = FE::get_number_of_loggers();
      if (n != n_alive)
        fail(why + " but get_number_of_loggers() is " + std::to_string(n) + ", the model has " + std::to_string(n_alive) + " (the removal had not completed)");
    }
    for (int s : L.sinks)
    {
      MSink& S = sinks[static_cast<size_t>(s)];
      --S.n_loggers;
      if (writer && S.n_loggers > 0) S.outlived_writer = true;
      if (S.n_loggers == 0 && !S.user_ref)
      {
        check_dead_sink(S, why);
        continue;
      }
      if (!g_midcheck || r.failed) continue;
      std::string const holders = std::string{S.user_ref ? "the user" : ""} + (S.user_ref && S.n_loggers ? " and " : "") +
        (S.n_loggers ? std::to_string(S.n_loggers) + " other logger(s)" : "");
      if (S.kind == 0)
      {
        std::set<std::string> seen;
        int dn;
        {
          std::lock_guard<std::mutex> lk(S.rec->m);
          dn = S.rec->destroyed;
          for (auto const& x : S.rec->stmts) seen.insert(x);
        }
        if (dn != 0)
        {
          fail(sink_label(S) + " was destroyed when " + why + " although " + holders + " still reference(s) it");
          continue;
        }
        for (auto const& it : S.items)
        {
          if (it.owner == L.owner && !it.header && !seen.count(it.text + "\n"))
          {
            fail(why + " but its statement \"" + esc(it.text, 80) + "\" is not on the " + sink_label(S) + " (logged before the removal, must be written before the logger is destroyed)");
            break;
          }
        }
      }
      else
      {
        int const fds = count_fds(files[S.file].path);
        if (fds != 1)
          fail(sink_label(S) + ": " + std::to_string(fds) + " descriptors refer to its file after " + why + " although " + holders + " still reference(s) the sink (expected the file to stay open once)");
      }
    }
  }

  // ---- writers --------------------------------------------------------------------------------------------------
  int free_slot() const
  {
    for (int k = 0; k < kSlots; ++k) if (!w[k].alive) return k;
    return -1;
  }
  int slot_of_name(std::string const& name) const
  {
    for (int k = 0; k < kSlots; ++k) if (w[k].alive && w[k].info.name == name) return k;
    return -1;
  }
  int pick_alive()
  {
    std::vector<int> a;
    for (int k = 0; k < kSlots; ++k) if (w[k].alive) a.push_back(k);
    if (a.empty()) return -1;
    return a[c.pick(static_cast<uint32_t>(a.size()))];
  }
  std::string class_name(int cls, unsigned idx) const
  {
    if (cls == 0) return files[idx].path;
    if (cls == 1) return rots[idx].path;
    return "u" + std::to_string(idx);
  }
  std::string short_name(int cls, unsigned idx) const { return (cls == 0 ? "f" : cls == 1 ? "r" : "u") + std::to_string(idx); }

  template <typename... A>
  static void build(WBox<FO>& b, int schema, A&&... a)
  {
    if (schema == 0) b.a = std::make_unique<quill::CsvWriter<SchemaA, FO>>(std::forward<A>(a)...);
    else b.b = std::make_unique<quill::CsvWriter<SchemaB, FO>>(std::forward<A>(a)...);
  }

  // sink of a file-name overload: the registry hands out the live sink of that name, or the writer creates one
  int attach_named_file_sink(unsigned f, bool& fresh)
  {
    MFile& F = files[f];
    fresh = F.live_sink < 0;
    if (!fresh) return F.live_sink;
    MSink& S = new_sink(1);
    S.reg_name = F.path;
    S.file = static_cast<int>(f);
    F.live_sink = S.id;
    return S.id;
  }
  void resolve_raw(MSink& S, bool fresh)
  {
    if (r.failed) return;
    std::shared_ptr<quill::Sink> sp;
    try { sp = FE::get_sink(S.reg_name); }
    catch (std::exception const& e)
    {
      fail("get_sink() of the " + sink_label(S) + " threw \"" + e.what() + "\" right after a writer was constructed on it");
      return;
    }
    if (fresh) S.raw = sp.get();
    else if (sp.get() != S.raw)
      fail("constructing a writer over the " + sink_label(S) + ", which is still referenced, created a second sink object for the same name (creation by name is not idempotent)");
  }

  // forced_ovl: -1 = by class. Returns the slot or -1.
  int do_construct(int cls, unsigned idx, int forced_ovl, int forced_mode)
  {
    std::string name = class_name(cls, idx);
    if (slot_of_name(name) >= 0)
    {
      // the name is in use (a second writer of the same name is outside the domain): next free name of the class
      unsigned const n = cls == 0 ? 3u : cls == 1 ? 2u : 3u;
      bool found = false;
      for (unsigned k = 1; k < n && !found; ++k)
      {
        unsigned j = (idx + k) % n;
        if (slot_of_name(class_name(cls, j)) < 0) { idx = j; found = true; }
      }
      if (!found) { do_destroy(slot_of_name(name), static_cast<int>(c.pick(nthreads)), "D"); return -1; }
      name = class_name(cls, idx);
    }
    int const slot = free_slot();
    if (slot < 0) { do_destroy(static_cast<int>(c.pick(kSlots)), static_cast<int>(c.pick(nthreads)), "D"); return -1; }

    int ovl = forced_ovl;
    if (ovl < 0)
    {
      if (cls == 0) { static int const t[] = {0, 1, 3, 4}; ovl = t[c.weighted({3, 2, 1, 1})]; }
      else if (cls == 1) ovl = 2;
      else ovl = c.weighted({3, 2}) == 0 ? 3 : 4;
    }
    int const schema = static_cast<int>(c.pick(2));
    int const thr = static_cast<int>(c.pick(nthreads));
    WSlot& W = w[slot];
    W.info = LInfo{};
    W.info.name = name;
    W.info.schema = schema;
    bool hdr = true;
    bool flag = true;
    char mode = 'w';
    std::string desc;
    std::vector<Chosen> chosen;
    bool fresh = false;
    size_t rot_max = 0;

    if (ovl == 0 || ovl == 1)
    {
      MFile& F = files[idx];
      mode = forced_mode ? static_cast<char>(forced_mode) : (c.pick(2) ? 'a' : 'w');
      if (ovl == 1) flag = c.pick(3) != 1;
      if (F.live_sink >= 0 && mode == 'w')
      {
        // the live sink of that name would be reused without re-opening the file: 'w' has no documented meaning then
        mode = 'a';
        r.count("forced_append_because_the_file_sink_is_alive");
      }
      if (mode == 'a' && F.exists) r.label("append_mode_existing_file");
      if (mode == 'w') F.items.clear();
      hdr = ovl == 0 ? (mode == 'w' || !F.exists) : flag;
      F.exists = true;
      W.info.sinks = {attach_named_file_sink(idx, fresh)};
      r.label(ovl == 0 ? "ctor_filename_open_mode" : "ctor_filename_filesinkconfig");
      desc = std::string{ovl == 0 ? "C0(" : "C1("} + short_name(cls, idx) + "," + mode + (ovl == 1 ? (flag ? ",H" : ",noH") : "");
    }
    else if (ovl == 2)
    {
      MRot& R = rots[idx];
      mode = forced_mode ? static_cast<char>(forced_mode) : (c.pick(2) ? 'a' : 'w');
      flag = c.pick(3) != 1;
      static size_t const kMax[] = {512, 768, 1024};
      rot_max = kMax[c.pick(3)];
      if (mode == 'a' && R.exists) r.label("append_mode_existing_file");
      if (mode == 'w') { R.items.clear(); R.max_seen = 0; }
      R.exists = true;
      R.max_seen = std::max(R.max_seen, rot_max);
      hdr = flag;
      MSink& S = new_sink(2);
      S.reg_name = R.path;
      S.file = static_cast<int>(idx);
      W.info.sinks = {S.id};
      fresh = true;
      r.label("ctor_filename_rotatingconfig");
      desc = "C2(" + short_name(cls, idx) + "," + mode + "," + std::to_string(rot_max) + (flag ? ",H" : ",noH");
    }
    else
    {
      unsigned const want = ovl == 3 ? 1u : 2u + c.pick(2);
      for (unsigned k = 0; k < want && !r.failed; ++k)
      {
        Chosen ch = choose_sink(true);
        if (ch.id < 0) break;
        bool dup = false;
        for (auto const& x : chosen) if (x.id == ch.id) dup = true;
        if (!dup) chosen.push_back(ch);
      }
      if (r.failed || chosen.empty()) return -1;
      flag = c.pick(3) != 1;
      hdr = flag;
      desc = std::string{ovl == 3 ? "C3(" : "C4("} + short_name(cls, idx) + ",";
      for (auto& ch : chosen)
      {
        MSink& S = sinks[static_cast<size_t>(ch.id)];
        W.info.sinks.push_back(ch.id);
        bool const keep = c.pick(2) == 1;
        if (keep && !S.user_ref) S.user_ref = ch.sp;
        desc += (S.kind == 0 ? "s" + std::to_string(S.id) : "f" + std::to_string(S.file)) + (S.user_ref ? "*" : "") + "+";
      }
      desc.pop_back();
      desc += flag ? ",H" : ",noH";
      r.label(ovl == 3 ? "ctor_name_one_sink" : "ctor_name_several_sinks");
    }
    desc += std::string{",s"} + (schema ? "B" : "A") + ",t" + std::to_string(thr) + ")->w" + std::to_string(slot);
    op(desc);

    W.info.owner = new_owner(ovl == 2 && flag, schema_header(schema));
    for (int s : W.info.sinks) ++sinks[static_cast<size_t>(s)].n_loggers;
    ++n_alive;
    W.alive = true;

    // history of the name
    {
      Hist& H = hist[name];
      std::string const tk = target_key(W.info.sinks);
      if (H.created > 0)
      {
        r.label("re_created_same_name");
        if (H.queued_destroy) r.nontrivial = true;
        if (H.targets != tk) r.label("re_created_with_different_sink");
      }
      ++H.created;
      H.targets = tk;
    }

    exec(thr,
         [&]()
         {
           if (ovl == 0) build(W.box, schema, name, mode, quill::FilenameAppendOption::None);
           else if (ovl == 1)
           {
             quill::FileSinkConfig cfg;
             cfg.set_open_mode(mode);
             cfg.set_filename_append_option(quill::FilenameAppendOption::None);
             build(W.box, schema, name, cfg, flag);
           }
           else if (ovl == 2)
           {
             quill::RotatingFileSinkConfig cfg;
             cfg.set_open_mode(mode);
             cfg.set_filename_append_option(quill::FilenameAppendOption::None);
             cfg.set_rotation_max_file_size(rot_max);
             cfg.set_rotation_naming_scheme(quill::RotatingFileSinkConfig::RotationNamingScheme::Index);
             build(W.box, schema, name, cfg, flag);
           }
           else if (ovl == 3)
           {
             std::shared_ptr<quill::Sink> sp = std::move(chosen[0].sp);
             build(W.box, schema, name, std::move(sp), flag);
           }
           else
           {
             std::vector<std::shared_ptr<quill::Sink>> v;
             for (auto& ch : chosen) v.push_back(std::move(ch.sp));
             chosen.clear();
             build(W.box, schema, name, std::move(v), flag);
           }
         });
    chosen.clear();
    if (r.failed) return slot;
    if (hdr) add_item(W.info, thr, schema_header(schema), true);
    if (ovl <= 2) resolve_raw(sinks[static_cast<size_t>(W.info.sinks[0])], fresh);

    W.info.ptr = FE::get_logger("__csv__" + name);
    if (!W.info.ptr) fail("get_logger() does not find the logger of the writer that was just constructed");
    size_t const n = FE::get_number_of_loggers();
    if (n != n_alive && !r.failed)
      fail("after constructing a writer get_number_of_loggers() is " + std::to_string(n) + ", the model has " + std::to_string(n_alive));
    size_t alive_writers = 0;
    for (auto const& x : w) alive_writers += x.alive ? 1u : 0u;
    if (alive_writers >= 2) r.label("two_writers_alive");
    return slot;
  }

  int ensure_writer()
  {
    int s = pick_alive();
    if (s >= 0) return s;
    return do_construct(0, 0, 0, 'w');
  }

  void do_append(int slot, int thr, unsigned n, bool async, char const* tag)
  {
    if (slot < 0 || r.failed) return;
    WSlot& W = w[slot];
    touch_slot(slot);
    std::vector<Row> rows = gen_rows(n);
    int const schema = W.info.schema;
    for (auto const& x : rows) add_item(W.info, thr, row_text(schema, x), false);
    for (int s : W.info.sinks)
    {
      if (sinks[static_cast<size_t>(s)].n_loggers > 1) r.label("rows_through_a_sink_shared_by_several_loggers");
      if (sinks[static_cast<size_t>(s)].outlived_writer) r.label("shared_sink_survives");
    }
    if (n >= 8) W.info.burst_op = op_index;
    op(std::string{tag} + "(w" + std::to_string(slot) + ",x" + std::to_string(n) + ",t" + std::to_string(thr) + ")");
    WBox<FO>* box = &W.box;
    auto fn = [box, schema, rows]()
    {
      for (auto const& x : rows)
      {
        if (schema == 0) box->a->append_row(x.id, x.s, x.d);
        else box->b->append_row(x.id, x.s, x.q, x.d);
      }
    };
    if (async && nthreads >= 2)
    {
      sync_worker();
      worker.post(fn);
      async_out = true;
      busy_slot = slot;
      r.label("asynchronous_burst_on_second_thread");
    }
    else exec(thr, fn);
  }

  void do_destroy(int slot, int thr, char const* tag)
  {
    if (slot < 0 || !w[slot].alive || r.failed) return;
    WSlot& W = w[slot];
    touch_slot(slot);
    op(std::string{tag} + "(w" + std::to_string(slot) + ",t" + std::to_string(thr) + ")");
    if (W.info.burst_op >= 0 && W.info.burst_op + 1 >= op_index)
    {
      hist[W.info.name].queued_destroy = true;
      r.label("destroyed_right_after_a_burst");
    }
    W.alive = false;
    --n_alive;
    exec(thr, [&]() { W.box.reset(); });
    after_logger_gone(W.info, true);
  }

  // ---- ops ------------------------------------------------------------------------------------------------------
  bool is_rotating(int slot) const
  {
    return slot >= 0 && w[slot].alive && !w[slot].info.sinks.empty() && sinks[static_cast<size_t>(w[slot].info.sinks[0])].kind == 2;
  }
  unsigned burst_size(int slot)
  {
    // a rotating writer needs some 25 rows per rotation (rotation_max_file_size >= 512 is enforced by the config)
    bool const rot = is_rotating(slot);
    switch (rot ? c.weighted({3, 2, 5}) : c.weighted({4, 3, 3}))
    {
    case 0: return 1;
    case 1: return 2 + c.pick(3);
    default: return rot ? 20 + c.pick(60) : 8 + c.pick(33);
    }
  }

  void op_append(bool async)
  {
    int const slot = ensure_writer();
    unsigned const n = burst_size(slot);
    if (nthreads < 2) async = false;
    int const thr = async ? 1 : static_cast<int>(c.pick(nthreads));
    do_append(slot, thr, n, async, async ? "AA" : "A");
  }

  void op_construct()
  {
    int const cls = static_cast<int>(c.weighted({4, 2, 3}));
    unsigned const idx = c.pick(cls == 1 ? 2u : 3u);
    do_construct(cls, idx, -1, 0);
  }

  void op_destroy()
  {
    int const slot = pick_alive();
    if (slot < 0) { op_construct(); return; }
    do_destroy(slot, static_cast<int>(c.pick(nthreads)), "D");
  }

  void op_burst_destroy()
  {
    int const slot = ensure_writer();
    if (slot < 0 || r.failed) return;
    unsigned const n = 8 + c.pick(is_rotating(slot) ? 60 : 25);
    bool const armed = c.pick(3) != 0;
    int const thr_a = static_cast<int>(c.pick(nthreads));
    int const thr_d = static_cast<int>(c.pick(nthreads));
    touch_slot(slot);
    bool parked = false;
    if (armed)
    {
      // park the backend at Y5 ("all queues empty" observed, logger clean-up next)
      if (thr_a != 0 || thr_d != 0) sync_worker();
      g_arm.store(1);
      auto const t0 = std::chrono::steady_clock::now();
      while (g_arm.load() != 2 && std::chrono::steady_clock::now() - t0 < std::chrono::milliseconds{3}) std::this_thread::yield();
      int e = 1;
      parked = !g_arm.compare_exchange_strong(e, 0);
    }
    do_append(slot, thr_a, n, false, "B");
    ++op_index;
    do_destroy(slot, thr_d, armed ? "Darm" : "D"); // the rendering depends on choices only (whether the backend really parked is a label)
    int e = 2;
    g_arm.compare_exchange_strong(e, 0);
    if (parked) r.label("destroyed_inside_the_backend_idle_window");
  }

  void op_flush()
  {
    int const slot = pick_alive();
    if (slot < 0) return;
    int const thr = static_cast<int>(c.pick(nthreads));
    touch_slot(slot);
    WSlot& W = w[slot];
    W.info.burst_op = -1;
    op("F(w" + std::to_string(slot) + ",t" + std::to_string(thr) + ")");
    WBox<FO>* box = &W.box;
    int const schema = W.info.schema;
    exec(thr, [box, schema]() { if (schema == 0) box->a->flush(); else box->b->flush(); });
  }

  void op_recreate()
  {
    std::vector<std::string> cand;
    for (auto const& kv : hist)
      if (slot_of_name(kv.first) < 0) cand.push_back(kv.first);
    if (cand.empty()) { op_construct(); return; }
    std::string const name = cand[c.pick(static_cast<uint32_t>(cand.size()))];
    for (unsigned k = 0; k < 3; ++k)
    {
      if (files[k].path == name)
      {
        // same file appended / same file truncated / the same name over a different sink
        switch (c.weighted({3, 2, 2}))
        {
        case 0: do_construct(0, k, static_cast<int>(c.pick(2)), 'a'); break;
        case 1: do_construct(0, k, static_cast<int>(c.pick(2)), 'w'); break;
        default: do_construct(0, k, c.pick(2) ? 4 : 3, 0); break;
        }
        return;
      }
    }
    for (unsigned k = 0; k < 2; ++k)
      if (rots[k].path == name) { do_construct(1, k, 2, c.pick(2) ? 'w' : 'a'); return; }
    for (unsigned k = 0; k < 3; ++k)
      if (name == "u" + std::to_string(k)) { do_construct(2, k, -1, 0); return; }
  }

  void op_ord()
  {
    unsigned const k = c.pick(kOrd);
    OSlot& O = o[k];
    int const thr = static_cast<int>(c.pick(nthreads));
    if (!O.alive)
    {
      Chosen ch = choose_sink(true, true);
      if (ch.id < 0 || r.failed) return;
      MSink& S = sinks[static_cast<size_t>(ch.id)];
      bool const keep = c.pick(2) == 1;
      if (keep && !S.user_ref) S.user_ref = ch.sp;
      O.info = LInfo{};
      O.info.name = "ord" + std::to_string(k);
      O.info.sinks = {ch.id};
      O.info.owner = new_owner(false, "");
      ++S.n_loggers;
      ++n_alive;
      O.alive = true;
      op("OC(ord" + std::to_string(k) + "," + (S.kind == 0 ? "s" + std::to_string(S.id) : "f" + std::to_string(S.file)) + (S.user_ref ? "*" : "") + ",t" + std::to_string(thr) + ")");
      exec(thr,
           [&]()
           {
             std::shared_ptr<quill::Sink> sp = std::move(ch.sp);
             O.lg = FE::create_or_get_logger(O.info.name, std::move(sp), quill::PatternFormatterOptions{"%(logger)|%(message)", "", quill::Timezone::GmtTime});
           });
      ch.sp.reset();
      if (r.failed) return;
      O.info.ptr = O.lg;
      if (FE::get_logger(O.info.name) != O.lg) fail("get_logger(\"" + O.info.name + "\") does not return the logger create_or_get_logger() just returned");
      if (FE::get_number_of_loggers() != n_alive && !r.failed)
        fail("after creating an ordinary logger get_number_of_loggers() is " + std::to_string(FE::get_number_of_loggers()) + ", the model has " + std::to_string(n_alive));
      r.label("ordinary_logger");
      return;
    }
    if (c.weighted({5, 1}) == 0)
    {
      unsigned const n = 1 + c.pick(3);
      std::vector<std::pair<uint32_t, std::string>> msgs;
      for (unsigned i = 0; i < n; ++i)
      {
        uint32_t id = next_id++;
        std::string s = gen_str();
        msgs.emplace_back(id, s);
        add_item(O.info, thr, O.info.name + "|" + fmtquill::format("o{}|{}", id, s), false);
      }
      for (int s : O.info.sinks)
      {
        MSink const& S = sinks[static_cast<size_t>(s)];
        if (S.outlived_writer) r.label("shared_sink_survives");
        if (S.n_loggers > 1) r.label("rows_through_a_sink_shared_by_several_loggers");
      }
      op("OL(ord" + std::to_string(k) + ",x" + std::to_string(n) + ",t" + std::to_string(thr) + ")");
      LG* lg = O.lg;
      exec(thr, [lg, msgs]() { for (auto const& m : msgs) lg->template log_statement<false, false>(quill::LogLevel::None, &kOrdMd, m.first, m.second); });
      return;
    }
    remove_ord(k, thr);
  }

  void remove_ord(unsigned k, int thr)
  {
    OSlot& O = o[k];
    if (!O.alive || r.failed) return;
    op("OR(ord" + std::to_string(k) + ",t" + std::to_string(thr) + ")");
    O.alive = false;
    --n_alive;
    LG* lg = O.lg;
    exec(thr, [lg]() { FE::remove_logger_blocking(lg); });
    O.lg = nullptr;
    after_logger_gone(O.info, false);
  }

  void drop_user_ref(MSink& S)
  {
    op("SD(" + (S.kind == 0 ? "s" + std::to_string(S.id) : "f" + std::to_string(S.file)) + ")");
    S.user_ref.reset();
    if (S.n_loggers == 0) check_dead_sink(S, "the user dropped the last reference");
  }

  void op_sink()
  {
    switch (c.weighted({2, 3, 2, 1}))
    {
    case 0:
    {
      Chosen ch = named_rec(c.pick(3));
      if (ch.id < 0) return;
      MSink& S = sinks[static_cast<size_t>(ch.id)];
      if (!S.user_ref) S.user_ref = ch.sp;
      op("SC(s" + std::to_string(S.id) + "=" + S.reg_name + ")");
      break;
    }
    case 1:
    {
      std::vector<int> cand;
      for (auto const& S : sinks) if (!S.dead && S.user_ref) cand.push_back(S.id);
      if (cand.empty()) return;
      drop_user_ref(sinks[static_cast<size_t>(cand[c.pick(static_cast<uint32_t>(cand.size()))])]);
      break;
    }
    case 2:
    {
      // the user takes a reference to the file sink of a live writer (Frontend::get_sink): it must outlive the writer
      std::vector<int> cand;
      for (auto const& S : sinks) if (!S.dead && S.kind == 1 && !S.user_ref) cand.push_back(S.id);
      if (cand.empty()) return;
      MSink& S = sinks[static_cast<size_t>(cand[c.pick(static_cast<uint32_t>(cand.size()))])];
      auto sp = lookup(S);
      if (!sp) return;
      S.user_ref = sp;
      op("SH(f" + std::to_string(S.file) + ")");
      r.label("user_holds_a_writers_file_sink");
      break;
    }
    default:
    {
      Chosen ch = unregistered_rec();
      MSink& S = sinks[static_cast<size_t>(ch.id)];
      S.user_ref = ch.sp;
      op("SU(s" + std::to_string(S.id) + ")");
      break;
    }
    }
  }

  // idempotent look-ups, from any thread
  void op_lookup()
  {
    int const thr = static_cast<int>(c.pick(nthreads));
    unsigned const which = c.pick(8);
    op("L(t" + std::to_string(thr) + ")");
    std::string err;
    std::vector<std::pair<std::string, void*>> lgs;
    for (auto const& x : w) if (x.alive) lgs.emplace_back("__csv__" + x.info.name, x.info.ptr);
    for (auto const& x : o) if (x.alive) lgs.emplace_back(x.info.name, x.info.ptr);
    std::vector<std::pair<std::string, quill::Sink*>> sks;
    std::vector<std::pair<std::string, quill::Sink*>> rec_sks;
    for (auto const& S : sinks)
    {
      if (S.dead || S.reg_name.empty() || !S.raw) continue;
      sks.emplace_back(S.reg_name, S.raw);
      if (S.kind == 0) rec_sks.emplace_back(S.reg_name, S.raw);
    }
    auto probe = std::make_shared<RecState>();
    exec(thr,
         [&]()
         {
           for (size_t k = 0; k < lgs.size() && err.empty(); ++k)
           {
             auto const& nm = lgs[(k + which) % lgs.size()];
             if (FE::get_logger(nm.first) != nm.second) err = "get_logger(\"" + esc(nm.first, 60) + "\") does not return the live logger of that name";
             else if (FE::create_or_get_logger(nm.first) != nm.second) err = "create_or_get_logger(\"" + esc(nm.first, 60) + "\") does not return the live logger of that name";
             else
             {
               std::shared_ptr<quill::Sink> other = std::make_shared<RecSink>(probe);
               if (FE::create_or_get_logger(nm.first, std::move(other), quill::PatternFormatterOptions{"%(message)", "", quill::Timezone::GmtTime}) != nm.second)
                 err = "create_or_get_logger(\"" + esc(nm.first, 60) + "\", other sink) does not return the live logger of that name";
             }
           }
           for (auto const& sk : sks)
           {
             if (!err.empty()) break;
             try
             {
               if (FE::get_sink(sk.first).get() != sk.second) err = "get_sink(\"" + esc(sk.first, 60) + "\") does not return the live sink of that name";
             }
             catch (std::exception const& e) { err = "get_sink(\"" + esc(sk.first, 60) + "\") threw \"" + e.what() + "\" although the sink is still referenced"; }
           }
           for (auto const& sk : rec_sks)
           {
             if (!err.empty()) break;
             if (FE::template create_or_get_sink<RecSink>(sk.first, probe).get() != sk.second)
               err = "create_or_get_sink(\"" + sk.first + "\") does not return the live sink of that name";
           }
         });
    if (!err.empty()) { fail(err); return; }
    if (r.failed) return;
    std::lock_guard<std::mutex> lk(probe->m);
    if (probe->destroyed != static_cast<int>(lgs.size()))
      fail("the sink handed to create_or_get_logger() for an existing name was destroyed " + std::to_string(probe->destroyed) + " times in " + std::to_string(lgs.size()) + " calls (expected: dropped, once per call)");
    else if (!probe->stmts.empty())
      fail("a sink handed to create_or_get_logger() for an EXISTING name received statements (\"" + esc(probe->stmts[0], 60) + "\")");
  }

  void step()
  {
    switch (c.weighted({6, 4, 3, 4, 1, 4, 3, 3, 2, 2}))
    {
    case 0: op_append(false); break;
    case 1: op_construct(); break;
    case 2: op_destroy(); break;
    case 3: op_burst_destroy(); break;
    case 4: op_flush(); break;
    case 5: op_recreate(); break;
    case 6: op_ord(); break;
    case 7: op_sink(); break;
    case 8: op_lookup(); break;
    default: op_append(true); break;
    }
  }

  // ---- the case -------------------------------------------------------------------------------------------------
  void run()
  {
    dir = "/dev/shm/csvw-" + std::to_string(g_driver_pid);
    std::error_code ec;
    quill::fs::remove_all(dir, ec);
    quill::fs::create_directories(dir, ec);
    for (unsigned k = 0; k < 3; ++k) files[k].path = dir + "/f" + std::to_string(k) + ".csv";
    for (unsigned k = 0; k < 2; ++k)
    {
      rots[k].stem = "r" + std::to_string(k);
      rots[k].path = dir + "/" + rots[k].stem + ".csv";
    }

    nthreads = 1 + c.pick(2);
    static unsigned const kSleepUs[] = {50, 10, 100, 0};
    quill::BackendOptions bo;
    unsigned const sleep_us = kSleepUs[c.pick(4)];
    bo.sleep_duration = std::chrono::microseconds{sleep_us};
    bo.sink_min_flush_interval = std::chrono::milliseconds{c.pick(2) ? 0 : 200};
    bo.transit_events_soft_limit = size_t{1} << (c.pick(2) ? 2 + c.pick(6) : 12);
    bo.transit_events_hard_limit = bo.transit_events_soft_limit << 2;
    bo.check_backend_singleton_instance = false;
    bo.error_notifier = [this](std::string const& m)
    {
      // "Quill INFO: Experienced N blocking occurrences" is the documented notice of the bounded blocking queue, not an error
      if (m.find("blocking occurrences") != std::string::npos) return;
      std::lock_guard<std::mutex> lk(notes_m);
      notes.push_back(m);
    };
    unsigned const nops = 1 + c.pick(static_cast<uint32_t>(g_max_ops));
    r.line(std::string{"queue="} + (std::is_same<FO, BbOptions>::value ? "BoundedBlocking/4096" : "default") + " threads=" + std::to_string(nthreads) +
           " sleep_us=" + std::to_string(sleep_us) + " min_flush_ms=" + std::to_string(bo.sink_min_flush_interval.count()) + " soft=" +
           std::to_string(bo.transit_events_soft_limit) + " ops=" + std::to_string(nops));
    if (std::is_same<FO, BbOptions>::value) r.label("bounded_blocking_queue");
    if (nthreads >= 2) r.label("two_frontend_threads");

    g_arm.store(0);
    quill::detail::verif_yield = &yield_hook;
    quill::Backend::start(bo);
    if (nthreads >= 2) worker.start();

    for (unsigned k = 0; k < nops && !stop_ops && !r.failed; ++k)
    {
      step();
      ++op_index;
    }

    // ---- wind down: every writer / logger removed (blocking), every user reference dropped, backend stopped ----
    note_current("teardown");
    if (async_out) { worker.wait_idle(); async_out = false; busy_slot = -1; check_worker_error(); }
    for (int k = 0; k < kSlots; ++k)
    {
      if (w[k].alive && !r.failed) do_destroy(k, 0, "D");
      // after a failure: no more checks, but every writer must be gone before the backend stops (its destructor blocks)
      w[k].alive = false;
      w[k].box.reset();
    }
    for (unsigned k = 0; k < kOrd; ++k)
    {
      if (o[k].alive && !r.failed) remove_ord(k, 0);
      if (o[k].lg) FE::remove_logger_blocking(o[k].lg);
      o[k].lg = nullptr;
      o[k].alive = false;
    }
    for (auto& S : sinks)
    {
      if (S.dead || !S.user_ref) continue;
      if (r.failed) { S.user_ref.reset(); continue; }
      drop_user_ref(S);
    }
    worker.stop();
    note_current("Backend::stop()");
    quill::Backend::stop();
    note_current("final checks");
    r.line("ops: " + ops);

    unsigned rows = 0;
    for (auto const& S : sinks) rows += static_cast<unsigned>(S.items.size());
    r.count("sinks", static_cast<long>(sinks.size()));
    r.count("statements", static_cast<long>(next_id) - 1);

    if (!r.failed)
    {
      std::lock_guard<std::mutex> lk(notes_m);
      if (!notes.empty()) r.fail("backend error notifier was called: " + notes[0]);
    }
    if (!r.failed && FE::get_number_of_loggers() != 0)
      r.fail("after every writer was destroyed and every logger removed (blocking), get_number_of_loggers() is " + std::to_string(FE::get_number_of_loggers()));
    for (auto const& S : sinks)
    {
      if (r.failed) break;
      if (S.kind != 0) continue;
      int dn;
      {
        std::lock_guard<std::mutex> lk(S.rec->m);
        dn = S.rec->destroyed;
      }
      if (dn != 1)
      {
        r.fail(sink_label(S) + " was destroyed " + std::to_string(dn) + " times by the end of the case (every logger that used it was removed, the user dropped its reference)");
        break;
      }
      std::string e = check_rec(S);
      if (!e.empty()) r.fail(e);
    }
    for (unsigned k = 0; k < 3 && !r.failed; ++k)
    {
      std::string e = check_file(files[k], k);
      if (!e.empty()) r.fail(e);
      else if (count_fds(files[k].path) != 0) r.fail("file f" + std::to_string(k) + ".csv is still open at the end of the case");
    }
    for (unsigned k = 0; k < 2 && !r.failed; ++k)
    {
      std::string e = check_rot(rots[k], k, true);
      if (!e.empty()) r.fail(e);
      else if (count_fds(rots[k].path) != 0) r.fail("rotating file r" + std::to_string(k) + ".csv is still open at the end of the case");
    }
    quill::fs::remove_all(dir, ec);
  }
};

template <typename FO>
void body(std::vector<uint32_t> choices, size_t consumed, std::shared_ptr<Shared> sh, size_t* consumed_out)
{
  Choices c{choices};
  c.i = consumed;
  Report& r = sh->rep;
  // the Case object is leaked on purpose when the body hangs (the process ends with _exit)
  auto* cs = new Case<FO>(c, r, *sh);
  cs->run();
  *consumed_out = c.consumed();
  delete cs;
  {
    std::lock_guard<std::mutex> lk(sh->m);
    sh->done = true;
  }
  sh->cv.notify_all();
}
} // namespace

namespace verif
{
HarnessInfo harness_info() { return {"csvw", true, 220, 90000}; }

void harness_init(Params const& p)
{
  g_params = p;
  g_driver_pid = static_cast<long>(getpid());
  g_midcheck = param_int(p, "midcheck", 1) != 0;
  g_max_ops = param_int(p, "maxops", 24);
  if (g_max_ops < 1) g_max_ops = 1;
  // the TSC calibration (a process-wide singleton, >= 30 ms of spinning) is done once here and inherited by every forked case
  (void)quill::detail::RdtscClock::RdtscTicks::instance().ns_per_tick();
  // a case that dies (sanitizer abort, failed assert) cannot remove its scratch directory: the driver process does it at exit
  // (forked children end with _exit and never run this)
  std::atexit(
    []()
    {
      if (static_cast<long>(getpid()) != g_driver_pid) return;
      std::error_code ec;
      quill::fs::remove_all("/dev/shm/csvw-" + std::to_string(g_driver_pid), ec);
    });
}

void run_case(Choices& c, Report& r)
{
  bool const bb = c.weighted({3, 1}) == 1;
  std::vector<uint32_t> copy(c.p, c.p + c.n);
  auto sh = std::make_shared<Shared>();
  auto consumed = std::make_shared<size_t>(c.consumed());
  size_t const start = c.consumed();
  std::thread th;
  if (bb) th = std::thread([copy, start, sh, consumed]() { body<BbOptions>(copy, start, sh, consumed.get()); });
  else th = std::thread([copy, start, sh, consumed]() { body<quill::FrontendOptions>(copy, start, sh, consumed.get()); });
  long const hang_ms = param_int(g_params, "hang_ms", 30000);
  bool done;
  {
    std::unique_lock<std::mutex> lk(sh->m);
    done = sh->cv.wait_for(lk, std::chrono::milliseconds{hang_ms}, [&]() { return sh->done; });
  }
  if (done)
  {
    th.join();
    r = sh->rep;
    c.i = *consumed;
    return;
  }
  // a blocking call never returned: report it (the threads are abandoned; the forked child ends with _exit)
  th.detach();
  std::string cur;
  {
    std::lock_guard<std::mutex> lk(sh->m);
    cur = sh->current;
  }
  r.line("hung in: " + cur);
  r.fail("operation \"" + cur + "\" did not return within " + std::to_string(hang_ms) + " ms with the backend thread running (a blocking removal / flush / Backend::stop() that never completes)");
  (void)new std::shared_ptr<Shared>(sh);   // keep the shared state alive for the abandoned threads
  (void)new std::shared_ptr<size_t>(consumed);
}

bool probe_known_class(std::string const&, std::string&) { return false; }
} // namespace verif
