// fmtcat catalog 8: nested std types (continued), user types inside containers, wide mixes
#include "fmtcat.h"

namespace fmtcat
{
std::vector<ShapeEntry> shapes_8()
{
  using Str = std::string;
  static char const* const kDirectNested = "fmtcat.direct_codec_nested_quoted";
  return {
    FMTCAT_SHAPE("deque_array_int_3", V<std::deque<std::array<int, 3>>>),
    FMTCAT_SHAPE("set_pair_int_string", V<std::set<std::pair<int, Str>>>),
    FMTCAT_SHAPE("unordered_map_string_vector_int", V<std::unordered_map<Str, std::vector<int>>>),
    FMTCAT_SHAPE("vector_rich_user", V<std::vector<RichUser>>),
    FMTCAT_SHAPE("vector_pod_user", V<std::vector<PodUser>>),
    FMTCAT_SHAPE("optional_rich_user", V<std::optional<RichUser>>),
    FMTCAT_SHAPE("array_wide_user_2", V<std::array<WideUser, 2>>),
    FMTCAT_SHAPE("vector_chrono_seconds", V<std::vector<std::chrono::seconds>>),
    FMTCAT_SHAPE("pair_vector_map", V<std::pair<std::vector<int>, std::map<Str, int>>>),
    FMTCAT_SHAPE_K("vector_direct_user", kDirectNested, V<std::vector<DirectUser>>),
    FMTCAT_SHAPE_K("optional_direct_user", kDirectNested, V<std::optional<DirectUser>>),
    FMTCAT_SHAPE_K("tuple_direct_user_int", kDirectNested, V<std::tuple<DirectUser, int>>),
    FMTCAT_SHAPE_W("mix_nested_wide", 6, V<std::vector<Str>>, CStr, V<std::map<Str, int>>, V<Str>, V<std::optional<Str>>,
                   V<std::forward_list<Str>>, CArr<8>, V<std::vector<std::vector<int>>>),
  };
}
} // namespace fmtcat
