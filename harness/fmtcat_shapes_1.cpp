// fmtcat catalog 1: every scalar type, alone and in mixes (fixed-size encodings)
#include "fmtcat.h"

namespace fmtcat
{
std::vector<ShapeEntry> shapes_1()
{
  using i128 = __int128;
  using u128 = unsigned __int128;
  return {
    FMTCAT_SHAPE_W("i32", 1, V<int>),
    ShapeEntry{"no_args", &Stmt<>::run, 1u, nullptr}, // literal text only
    FMTCAT_SHAPE_W("i16", 1, V<short>),
    FMTCAT_SHAPE_W("i8", 1, V<signed char>),
    FMTCAT_SHAPE_W("long", 1, V<long>),
    FMTCAT_SHAPE_W("i64", 1, V<long long>),
    FMTCAT_SHAPE_W("u8", 1, V<unsigned char>),
    FMTCAT_SHAPE_W("u16", 1, V<unsigned short>),
    FMTCAT_SHAPE_W("u32", 1, V<unsigned>),
    FMTCAT_SHAPE_W("ulong", 1, V<unsigned long>),
    FMTCAT_SHAPE_W("u64", 1, V<unsigned long long>),
    FMTCAT_SHAPE_W("i128", 1, V<i128>),
    FMTCAT_SHAPE_W("u128", 1, V<u128>),
    FMTCAT_SHAPE_W("bool", 1, V<bool>),
    FMTCAT_SHAPE_W("char", 1, V<char>),
    FMTCAT_SHAPE_W("float", 1, V<float>),
    FMTCAT_SHAPE_W("double", 1, V<double>),
    FMTCAT_SHAPE_W("long_double", 1, V<long double>),
    FMTCAT_SHAPE_W("enum_unscoped", 1, V<Color>),
    FMTCAT_SHAPE_W("enum_scoped_u8", 1, V<Level>),
    FMTCAT_SHAPE_W("enum_scoped_u64", 1, V<Big>),
    FMTCAT_SHAPE_W("enum_format_as", 1, V<Code>),
    FMTCAT_SHAPE_W("void_ptr", 1, V<void const*>),
    FMTCAT_SHAPE_W("scalars_int_double", 1, V<int>, V<double>),
    FMTCAT_SHAPE_W("scalars_mix6", 2, V<int>, V<double>, V<bool>, V<char>, V<unsigned long>, V<float>),
    FMTCAT_SHAPE_W("scalars_enum_ptr_ld", 1, V<Level>, V<void const*>, V<long double>, V<Color>, V<signed char>),
    FMTCAT_SHAPE_W("scalars_widths", 1, V<signed char>, V<short>, V<int>, V<long long>, V<unsigned char>, V<unsigned short>,
                 V<unsigned>, V<unsigned long long>),
    FMTCAT_SHAPE_W("char_string", 2, V<char>, V<std::string>),
    FMTCAT_SHAPE_W("int_string", 2, V<int>, V<std::string>),
  };
}
} // namespace fmtcat
