// C11 — allocation interposers for the `alloc` harness (linked into the executable, no sanitizers).
//
// The executable
//   * replaces every global operator new / new[] / delete / delete[] (plain, nothrow, aligned,
//     aligned nothrow, sized, sized aligned),
//   * defines malloc calloc realloc free posix_memalign aligned_alloc memalign valloc pvalloc
//     (forwarding to glibc's exported __libc_* entry points: same heap, no dlsym, no recursion),
//   * defines mmap mmap64 mremap (forwarding with syscall(2)),
// and counts the calls made by the CALLING THREAD while that thread's `armed` flag is set.
// The counters are plain PODs in initial-exec TLS of the executable: touching them never allocates.
// Not counted (documented limit): allocation inside the kernel (page faults), and glibc-internal
// mmap/brk made on behalf of malloc (those are already counted as the malloc call that caused them).
#include "alloc_interpose.h"

#include <atomic>
#include <cerrno>
#include <cstdarg>
#include <cstdlib>
#include <cstring>
#include <new>

#include <execinfo.h>
#include <sys/mman.h>
#include <sys/syscall.h>
#include <unistd.h>

extern "C"
{
void* __libc_malloc(size_t);
void* __libc_calloc(size_t, size_t);
void* __libc_realloc(void*, size_t);
void __libc_free(void*);
void* __libc_memalign(size_t, size_t);
}

namespace
{
struct State
{
  int armed;
  VerifAllocCounts c;
};

__attribute__((tls_model("initial-exec"))) __thread State t_state;
std::atomic<uint64_t> g_seen_total{0};

enum Kind { K_NEW, K_MALLOC, K_MMAP };

__attribute__((noinline)) void capture_stack(State& s)
{
  // backtrace() itself is allocation free after its first call (warmed in verif_alloc_thread_init);
  // disarm anyway so that nothing it does can be attributed to the code under test
  s.armed = 0;
  s.c.nframes = backtrace(s.c.frames, static_cast<int>(sizeof(s.c.frames) / sizeof(s.c.frames[0])));
  s.armed = 1;
}

inline void note_alloc(Kind k, size_t bytes)
{
  g_seen_total.fetch_add(1, std::memory_order_relaxed);
  State& s = t_state;
  if (!s.armed) return;
  if (k == K_NEW) ++s.c.n_new;
  else if (k == K_MALLOC) ++s.c.n_malloc;
  else ++s.c.n_mmap;
  s.c.bytes += bytes;
  if (s.c.nframes == 0) capture_stack(s);
}

inline void note_free(void const* p)
{
  State& s = t_state;
  if (s.armed && p != nullptr) ++s.c.n_free;
}

inline void* new_impl(size_t n, bool nothrow)
{
  note_alloc(K_NEW, n);
  void* p = __libc_malloc(n ? n : 1);
  if (p == nullptr && !nothrow) throw std::bad_alloc{};
  return p;
}

inline void* new_aligned_impl(size_t n, size_t al, bool nothrow)
{
  note_alloc(K_NEW, n);
  void* p = __libc_memalign(al, n ? n : 1);
  if (p == nullptr && !nothrow) throw std::bad_alloc{};
  return p;
}

inline void delete_impl(void* p) noexcept
{
  note_free(p);
  __libc_free(p);
}
} // namespace

// ------------------------------------------------------------------------------------------------
extern "C"
{
void verif_alloc_thread_init()
{
  State& s = t_state;
  s.armed = 0;
  std::memset(&s.c, 0, sizeof s.c);
  void* tmp[4];
  (void)backtrace(tmp, 4);
}

void verif_alloc_arm()
{
  State& s = t_state;
  std::memset(&s.c, 0, sizeof s.c);
  std::atomic_signal_fence(std::memory_order_seq_cst);
  s.armed = 1;
  std::atomic_signal_fence(std::memory_order_seq_cst);
}

VerifAllocCounts verif_alloc_disarm()
{
  State& s = t_state;
  std::atomic_signal_fence(std::memory_order_seq_cst);
  s.armed = 0;
  std::atomic_signal_fence(std::memory_order_seq_cst);
  return s.c;
}

uint64_t verif_alloc_seen_total() { return g_seen_total.load(std::memory_order_relaxed); }

// ---- malloc family -----------------------------------------------------------------------------
void* malloc(size_t n)
{
  note_alloc(K_MALLOC, n);
  return __libc_malloc(n);
}

void* calloc(size_t a, size_t b)
{
  note_alloc(K_MALLOC, a * b);
  return __libc_calloc(a, b);
}

void* realloc(void* p, size_t n)
{
  note_alloc(K_MALLOC, n);
  return __libc_realloc(p, n);
}

void free(void* p)
{
  note_free(p);
  __libc_free(p);
}

int posix_memalign(void** out, size_t al, size_t n)
{
  note_alloc(K_MALLOC, n);
  if (al < sizeof(void*) || (al & (al - 1)) != 0) return EINVAL;
  void* p = __libc_memalign(al, n);
  if (p == nullptr) return ENOMEM;
  *out = p;
  return 0;
}

void* aligned_alloc(size_t al, size_t n)
{
  note_alloc(K_MALLOC, n);
  return __libc_memalign(al, n);
}

void* memalign(size_t al, size_t n)
{
  note_alloc(K_MALLOC, n);
  return __libc_memalign(al, n);
}

void* valloc(size_t n)
{
  note_alloc(K_MALLOC, n);
  return __libc_memalign(static_cast<size_t>(sysconf(_SC_PAGESIZE)), n);
}

void* pvalloc(size_t n)
{
  note_alloc(K_MALLOC, n);
  size_t const pg = static_cast<size_t>(sysconf(_SC_PAGESIZE));
  return __libc_memalign(pg, (n + pg - 1) / pg * pg);
}

// ---- memory maps -------------------------------------------------------------------------------
void* mmap(void* addr, size_t len, int prot, int flags, int fd, off_t off)
{
  note_alloc(K_MMAP, len);
  return reinterpret_cast<void*>(syscall(SYS_mmap, addr, len, prot, flags, fd, off));
}

void* mmap64(void* addr, size_t len, int prot, int flags, int fd, off64_t off)
{
  note_alloc(K_MMAP, len);
  return reinterpret_cast<void*>(syscall(SYS_mmap, addr, len, prot, flags, fd, off));
}

void* mremap(void* old_addr, size_t old_len, size_t new_len, int flags, ...)
{
  note_alloc(K_MMAP, new_len);
  void* new_addr = nullptr;
  if (flags & MREMAP_FIXED)
  {
    va_list ap;
    va_start(ap, flags);
    new_addr = va_arg(ap, void*);
    va_end(ap);
  }
  return reinterpret_cast<void*>(syscall(SYS_mremap, old_addr, old_len, new_len, flags, new_addr));
}
} // extern "C"

// ---- operator new / delete: every replaceable form ---------------------------------------------
void* operator new(size_t n) { return new_impl(n, false); }
void* operator new[](size_t n) { return new_impl(n, false); }
void* operator new(size_t n, std::nothrow_t const&) noexcept { return new_impl(n, true); }
void* operator new[](size_t n, std::nothrow_t const&) noexcept { return new_impl(n, true); }
void* operator new(size_t n, std::align_val_t al) { return new_aligned_impl(n, static_cast<size_t>(al), false); }
void* operator new[](size_t n, std::align_val_t al) { return new_aligned_impl(n, static_cast<size_t>(al), false); }
void* operator new(size_t n, std::align_val_t al, std::nothrow_t const&) noexcept
{
  return new_aligned_impl(n, static_cast<size_t>(al), true);
}
void* operator new[](size_t n, std::align_val_t al, std::nothrow_t const&) noexcept
{
  return new_aligned_impl(n, static_cast<size_t>(al), true);
}

void operator delete(void* p) noexcept { delete_impl(p); }
void operator delete[](void* p) noexcept { delete_impl(p); }
void operator delete(void* p, size_t) noexcept { delete_impl(p); }
void operator delete[](void* p, size_t) noexcept { delete_impl(p); }
void operator delete(void* p, std::nothrow_t const&) noexcept { delete_impl(p); }
void operator delete[](void* p, std::nothrow_t const&) noexcept { delete_impl(p); }
void operator delete(void* p, std::align_val_t) noexcept { delete_impl(p); }
void operator delete[](void* p, std::align_val_t) noexcept { delete_impl(p); }
void operator delete(void* p, size_t, std::align_val_t) noexcept { delete_impl(p); }
void operator delete[](void* p, size_t, std::align_val_t) noexcept { delete_impl(p); }
void operator delete(void* p, std::align_val_t, std::nothrow_t const&) noexcept { delete_impl(p); }
void operator delete[](void* p, std::align_val_t, std::nothrow_t const&) noexcept { delete_impl(p); }
