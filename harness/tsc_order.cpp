// tscorder — C05 (and the delivery clause of C03) on quill's DEFAULT clock source, the TSC. The sim engine virtualises
// clock_gettime and therefore only runs System-clock loggers; rdtsc is an instruction and cannot be virtualised. Here
// the harness thread is the backend (ManualBackendWorker) and 2-4 real worker threads execute generated log operations
// ONE AT A TIME (mailbox hand-shake), so the issue order of all statements is known and their rdtsc timestamps increase
// in that order; between operations the harness polls the backend or lets real time pass (relative to the grace period).
// Precondition of C05, measured instead of assumed: every log call (timestamp taken inside it, record committed before
// it returns) took less than the grace period of wall time; a case in which a call took longer (preemption on a loaded
// machine) is kept for the delivery oracle but not for the order oracle.
// Oracles after the final drain: every statement written exactly once, per-thread order, payload intact, and the
// timestamps handed to the sink are globally non-decreasing in the order of write_log calls.
// Fork per case (the backend and its lazily created RdtscClock are per-process state).
#include "../engine/harness.h"

#include "quill/Backend.h"
#include "quill/Frontend.h"
#include "quill/Logger.h"
#include "quill/sinks/Sink.h"

#include <atomic>
#include <chrono>
#include <condition_variable>
#include <map>
#include <memory>
#include <mutex>
#include <thread>

using namespace verif;

namespace
{
Params g_params;

constexpr quill::MacroMetadata kMd{"tsc.cpp:1", "f", "{}:{}", nullptr, quill::LogLevel::Info, quill::MacroMetadata::Event::Log};

struct Entry
{
  uint64_t ts;
  int w;
  uint32_t seq;
  std::string logger;
};

class RecSink : public quill::Sink
{
public:
  void write_log(quill::MacroMetadata const*, uint64_t ts, std::string_view, std::string_view, std::string const&, std::string_view logger,
                 quill::LogLevel, std::string_view, std::string_view, std::vector<std::pair<std::string, std::string>> const*,
                 std::string_view msg, std::string_view) override
  {
    Entry e{ts, -1, 0, std::string{logger}};
    size_t a = msg.find(':');
    if (a != std::string_view::npos)
    {
      e.w = std::atoi(std::string{msg.substr(0, a)}.c_str());
      e.seq = static_cast<uint32_t>(std::strtoul(std::string{msg.substr(a + 1)}.c_str(), nullptr, 10));
    }
    entries.push_back(e); // only the harness (= backend) thread calls the sink
  }
  void flush_sink() override {}
  std::vector<Entry> entries;
};

struct Worker
{
  std::thread th;
  std::mutex m;
  std::condition_variable cv;
  int cmd{0}; // 0 idle, 1 log, 2 exit, 3 flush_log
  unsigned n{0};
  int logger{0};
  bool done{false};
  uint32_t next_seq{0};
  int64_t max_call_ns{0};
};
} // namespace

namespace verif
{
HarnessInfo harness_info() { return {"tscorder", true, 200, 60000}; }

void harness_init(Params const& p) { g_params = p; }

void run_case(Choices& c, Report& r)
{
  // ---- configuration ----
  static unsigned const kGraceUs[] = {200, 1000, 5000};
  unsigned const grace_us = kGraceUs[c.weighted({2, 3, 1})];
  quill::BackendOptions bo;
  bo.log_timestamp_ordering_grace_period = std::chrono::microseconds{grace_us};
  bo.transit_event_buffer_initial_capacity = 1u << c.pick(4);
  bo.transit_events_soft_limit = size_t{1} << c.pick(5);
  bo.transit_events_hard_limit = bo.transit_events_soft_limit << c.pick(3);
  bo.check_backend_singleton_instance = false;
  // no re-synchronisation of the TSC base inside a case (a case lasts well under a second): the conversion of rdtsc
  // values to wall time is then one monotonic affine map, so "timestamp" means the same thing for every statement
  bo.rdtsc_resync_interval = std::chrono::seconds{100};
  std::vector<std::string> notes;
  bo.error_notifier = [&notes](std::string const& m) { notes.push_back(m); };

  auto sink_sp = quill::Frontend::create_or_get_sink<RecSink>("tsc_rec");
  RecSink* sink = static_cast<RecSink*>(sink_sp.get());
  // two loggers on the default (TSC) clock source sharing the sink
  quill::Logger* lg[2];
  lg[0] = quill::Frontend::create_or_get_logger("tsc_a", sink_sp,
                                                quill::PatternFormatterOptions{"%(message)", "%H:%M:%S.%Qns", quill::Timezone::GmtTime, false});
  lg[1] = quill::Frontend::create_or_get_logger("tsc_b", sink_sp,
                                                quill::PatternFormatterOptions{"%(message)", "%H:%M:%S.%Qns", quill::Timezone::GmtTime, false});

  quill::ManualBackendWorker* mbw = quill::Backend::acquire_manual_backend_worker();
  mbw->init(bo);

  unsigned const nthreads = 2 + c.pick(3);
  std::vector<std::unique_ptr<Worker>> ws;
  for (unsigned t = 0; t < nthreads; ++t)
  {
    ws.emplace_back(new Worker);
    Worker* w = ws.back().get();
    int const wid = static_cast<int>(t) + 1;
    // two thirds of the threads create their queue up front (Frontend::preallocate), so that their first log call is
    // as fast as any other; the others pay for it inside the first call (which then usually exceeds a short grace period)
    bool const prealloc = c.pick(3) != 0;
    w->th = std::thread(
      [w, wid, &lg, prealloc]()
      {
        if (prealloc) quill::Frontend::preallocate();
        for (;;)
        {
          std::unique_lock<std::mutex> lk(w->m);
          w->cv.wait(lk, [w]() { return w->cmd != 0; });
          if (w->cmd == 2) return;
          unsigned n = w->n;
          int li = w->logger;
          bool const is_flush = w->cmd == 3;
          lk.unlock();
          if (is_flush) lg[li]->flush_log();
          for (unsigned k = 0; k < n && !is_flush; ++k)
          {
            auto const t0 = std::chrono::steady_clock::now();
            lg[li]->log_statement<false, false>(quill::LogLevel::None, &kMd, wid, w->next_seq);
            auto const t1 = std::chrono::steady_clock::now();
            int64_t d = std::chrono::duration_cast<std::chrono::nanoseconds>(t1 - t0).count();
            if (d > w->max_call_ns) w->max_call_ns = d;
            ++w->next_seq;
          }
          lk.lock();
          w->cmd = 0;
          w->done = true;
          w->cv.notify_all();
        }
      });
  }

  struct Issued { int w; uint32_t seq; };
  std::vector<Issued> issued;
  std::string ops;
  unsigned polls = 0, logs_before_first_poll_threads = 0;
  bool polled_once = false;
  std::map<int, bool> logged_before_first_poll;

  auto run_log = [&](unsigned t, unsigned n, int li)
  {
    Worker* w = ws[t].get();
    {
      std::lock_guard<std::mutex> lk(w->m);
      w->n = n;
      w->logger = li;
      w->done = false;
      w->cmd = 1;
    }
    w->cv.notify_all();
    {
      std::unique_lock<std::mutex> lk(w->m);
      w->cv.wait(lk, [w]() { return w->done; });
    }
    for (unsigned k = 0; k < n; ++k) issued.push_back(Issued{static_cast<int>(t) + 1, w->next_seq - n + k});
    if (!polled_once) logged_before_first_poll[static_cast<int>(t)] = true;
  };

  // C06 on the TSC clock: flush_log() from a worker while the harness keeps polling; when it returns, every statement
  // issued before it (all of them completed: operations are sequential) must have reached the sink
  std::string flush_error;
  unsigned flushes = 0;
  auto run_flush = [&](unsigned t, int li)
  {
    Worker* w = ws[t].get();
    {
      std::lock_guard<std::mutex> lk(w->m);
      w->n = 0;
      w->logger = li;
      w->done = false;
      w->cmd = 3;
    }
    w->cv.notify_all();
    auto const t0 = std::chrono::steady_clock::now();
    for (;;)
    {
      mbw->poll_one();
      std::lock_guard<std::mutex> lk(w->m);
      if (w->done) break;
      if (std::chrono::steady_clock::now() - t0 > std::chrono::seconds{20}) { flush_error = "flush_log() did not return within 20 s of continuous polling"; break; }
    }
    polled_once = true;
    ++flushes;
    if (flush_error.empty() && sink->entries.size() != issued.size())
      flush_error = "flush_log() of thread " + std::to_string(t + 1) + " returned with " + std::to_string(sink->entries.size()) + " of " +
        std::to_string(issued.size()) + " earlier statements (all of their log calls had completed) written to the sink";
  };

  unsigned const nops = 2 + c.pick(24);
  for (unsigned i = 0; i < nops && flush_error.empty(); ++i)
  {
    switch (c.weighted({6, 3, 2, 2, param_str(g_params, "prop", "C05") == "C06" ? 4u : 1u}))
    {
    case 4:
    {
      unsigned t = c.pick(nthreads);
      int li = static_cast<int>(c.pick(2));
      if (logged_before_first_poll.empty() && !polled_once) logs_before_first_poll_threads = 0;
      if (!polled_once) logs_before_first_poll_threads = static_cast<unsigned>(logged_before_first_poll.size());
      run_flush(t, li);
      ops += "Flush(t" + std::to_string(t + 1) + (li ? ",b) " : ",a) ");
      break;
    }
    case 0:
    {
      unsigned t = c.pick(nthreads);
      unsigned n = 1 + c.pick(3);
      int li = static_cast<int>(c.pick(2));
      run_log(t, n, li);
      ops += "Log(t" + std::to_string(t + 1) + "x" + std::to_string(n) + (li ? ",b) " : ",a) ");
      break;
    }
    case 1:
    {
      unsigned n = 1 + c.pick(3);
      for (unsigned k = 0; k < n; ++k) mbw->poll_one();
      if (!polled_once) logs_before_first_poll_threads = static_cast<unsigned>(logged_before_first_poll.size());
      polled_once = true;
      polls += n;
      ops += "Poll(" + std::to_string(n) + ") ";
      break;
    }
    case 2:
    {
      // let more than the grace period pass: everything logged so far becomes eligible
      std::this_thread::sleep_for(std::chrono::microseconds{grace_us + 50 + c.pick(200)});
      ops += "Sleep(g+) ";
      break;
    }
    default:
    {
      unsigned us = c.pick(3) == 0 ? grace_us / 2 : c.pick(60);
      if (us) std::this_thread::sleep_for(std::chrono::microseconds{us});
      ops += "Sleep(" + std::to_string(us) + "us) ";
      break;
    }
    }
  }
  if (!polled_once) logs_before_first_poll_threads = static_cast<unsigned>(logged_before_first_poll.size());

  if (flush_error.rfind("flush_log() did not return", 0) == 0)
  {
    // a worker is still blocked inside flush_log(): it cannot be joined. Report, and leave the threads and their
    // mailboxes alone (the forked case ends with _exit right after the report)
    r.line("ops: " + ops);
    r.fail(flush_error);
    for (auto& w : ws) { w->th.detach(); (void)w.release(); }
    return;
  }
  // ---- final drain: everything is older than the grace period, then poll until the backend reports empty ----
  for (int round = 0; round < 3; ++round)
  {
    std::this_thread::sleep_for(std::chrono::microseconds{grace_us + 200});
    mbw->poll();
  }
  for (auto& w : ws)
  {
    { std::lock_guard<std::mutex> lk(w->m); w->cmd = 2; }
    w->cv.notify_all();
    w->th.join();
  }
  mbw->poll();

  int64_t max_call_ns = 0;
  for (auto& w : ws) if (w->max_call_ns > max_call_ns) max_call_ns = w->max_call_ns;
  bool const precondition = max_call_ns < static_cast<int64_t>(grace_us) * 1000;

  r.line("clock=TSC grace_us=" + std::to_string(grace_us) + " tbuf=" + std::to_string(bo.transit_event_buffer_initial_capacity) + " soft=" +
         std::to_string(bo.transit_events_soft_limit) + " hard=" + std::to_string(bo.transit_events_hard_limit) + " threads=" + std::to_string(nthreads));
  r.line("ops: " + ops);
  r.line("statements=" + std::to_string(issued.size()) + " polls=" + std::to_string(polls) + " slowest_log_call_ns=" + std::to_string(max_call_ns));
  if (logs_before_first_poll_threads >= 2) r.label("several_threads_logged_before_the_first_backend_pass");
  if (!precondition) r.label("precondition_violated_a_log_call_took_longer_than_grace");
  std::map<int, int> per_thread;
  for (auto const& s : issued) ++per_thread[s.w];
  r.nontrivial = per_thread.size() >= 2 && polls >= 1;

  if (flushes) r.label("flush_log_on_tsc_clock");
  // ---- oracles ----
  if (!notes.empty()) { r.fail("backend error notifier was called: " + notes[0]); return; }
  if (!flush_error.empty()) { r.fail(flush_error); return; }
  // exactly once, per-thread order
  std::map<int, uint32_t> next;
  for (size_t k = 0; k < sink->entries.size(); ++k)
  {
    Entry const& e = sink->entries[k];
    if (e.w < 1 || e.w > static_cast<int>(nthreads)) { r.fail("sink received an unparsable / foreign statement"); return; }
    if (e.seq != next[e.w])
    {
      r.fail("thread " + std::to_string(e.w) + ": statement #" + std::to_string(e.seq) + " written where #" + std::to_string(next[e.w]) +
             " was expected (lost, duplicated or out of thread order)");
      return;
    }
    ++next[e.w];
  }
  for (unsigned t = 0; t < nthreads; ++t)
  {
    if (next[static_cast<int>(t) + 1] != ws[t]->next_seq)
    {
      r.fail("thread " + std::to_string(t + 1) + ": " + std::to_string(ws[t]->next_seq) + " statements logged, " +
             std::to_string(next[static_cast<int>(t) + 1]) + " written after the final drain (lost)");
      return;
    }
  }
  // C05: non-decreasing timestamps in write order
  if (precondition)
  {
    for (size_t k = 1; k < sink->entries.size(); ++k)
    {
      Entry const& a = sink->entries[k - 1];
      Entry const& b = sink->entries[k];
      if (b.ts < a.ts)
      {
        r.fail("statement " + std::to_string(b.w) + ":" + std::to_string(b.seq) + " (timestamp " + std::to_string(b.ts) + ") was written after " +
               std::to_string(a.w) + ":" + std::to_string(a.seq) + " (timestamp " + std::to_string(a.ts) + ", " + std::to_string(a.ts - b.ts) +
               " ns later) although every log call completed within the grace period of " + std::to_string(grace_us) + " us (slowest call " +
               std::to_string(max_call_ns) + " ns)");
        return;
      }
    }
  }
}

bool probe_known_class(std::string const&, std::string&) { return false; }
} // namespace verif
