// C11 `alloc` harness — shapes, part 3: optional / pair / tuple of the listed types, chrono values,
// trivially copyable deferred-format user types (formatter records the thread it runs on) and the
// direct-format user type (documented opt-in: formatted on the caller, not subject to the
// zero-allocation claim, checked the other way round).
#include "alloc_catalog.h"

namespace
{
using va::Env;

template <class C, class G>
C fill_back(Env& e, char const* what, G gen, size_t maxn = 16)
{
  size_t n = e.csize(maxn);
  e.container(what, n);
  C out;
  for (size_t k = 0; k < n; ++k) out.push_back(gen(k));
  return out;
}

void sh_optional_arith(Env& e)
{
  std::optional<int> a0;
  if (e.bit()) a0 = e.i32();
  std::optional<double> a1;
  if (e.bit()) a1 = e.dbl();
  std::optional<bool> a2{e.bit()};
  VA_EMIT("optional_arith {} {} {}", "optional_arith", a0, a1, a2);
}

void sh_optional_string(Env& e)
{
  std::optional<std::string> a0;
  if (e.bit()) a0 = e.top_str();
  std::string s1 = e.top_str();
  std::optional<std::string_view> a1;
  if (e.bit()) a1 = std::string_view{s1};
  std::string s2 = e.top_str();
  std::optional<char const*> a2;
  if (e.bit()) a2 = s2.c_str();
  VA_EMIT("optional_string {} {} {}", "optional_string", a0, a1, a2);
}

void sh_pair(Env& e)
{
  std::pair<int, double> a0{e.i32(), e.dbl()};
  std::pair<std::string, int> a1{e.top_str(), e.i32()};
  std::pair<std::string, std::string> a2{e.top_str(), e.top_str()};
  VA_EMIT("pair {} {} {}", "pair", a0, a1, a2);
}

void sh_pair_cstr(Env& e)
{
  std::string s0 = e.top_str();
  std::string s1 = e.top_str();
  std::pair<char const*, std::string_view> a0{s0.c_str(), std::string_view{s1}};
  std::pair<va::PlainEnum, void const*> a1{va::PE_Seven, static_cast<void const*>(&s0)};
  VA_EMIT("pair_cstr {} {}", "pair_cstr", a0, a1);
}

void sh_tuple(Env& e)
{
  std::tuple<int, double, std::string> a0{e.i32(), e.dbl(), e.top_str()};
  std::string s1 = e.top_str();
  std::string s2 = e.top_str();
  std::tuple<std::string, std::string_view, char const*, uint64_t> a1{e.top_str(), std::string_view{s1}, s2.c_str(), e.u64()};
  std::tuple<bool> a2{e.bit()};
  VA_EMIT("tuple {} {} {}", "tuple", a0, a1, a2);
}

void sh_optional_of_compound(Env& e)
{
  std::optional<std::vector<std::string>> a0;
  if (e.bit()) a0 = fill_back<std::vector<std::string>>(e, "vector<string>", [&](size_t) { return e.elem_str(); });
  std::optional<std::pair<int, std::string>> a1;
  if (e.bit()) a1 = std::make_pair(e.i32(), e.top_str());
  std::optional<std::tuple<double, std::string>> a2;
  if (e.bit()) a2 = std::make_tuple(e.dbl(), e.top_str());
  VA_EMIT("optional_of_compound {} {} {}", "optional_of_compound", a0, a1, a2);
}

void sh_tuple_of_containers(Env& e)
{
  auto v = fill_back<std::vector<int>>(e, "vector<int>", [&](size_t) { return e.i32(); });
  std::map<std::string, int> m;
  size_t n = e.csize(8);
  e.container("map<string,int>", n);
  for (size_t k = 0; k < n; ++k) m.emplace(e.map_key_str(k), e.i32());
  std::optional<double> o;
  if (e.bit()) o = e.dbl();
  std::tuple<std::vector<int>, std::map<std::string, int>, std::optional<double>> a0{std::move(v), std::move(m), o};
  VA_EMIT("tuple_of_containers {}", "tuple_of_containers", a0);
}

void sh_vector_of_compound(Env& e)
{
  auto a0 = fill_back<std::vector<std::optional<int>>>(e, "vector<optional<int>>", [&](size_t) { return e.c.flip() ? std::optional<int>{e.i32()} : std::optional<int>{}; });
  auto a1 = fill_back<std::vector<std::pair<int, std::string>>>(e, "vector<pair<int,string>>", [&](size_t) { return std::make_pair(e.i32(), e.elem_str()); });
  auto a2 = fill_back<std::vector<std::tuple<std::string, double>>>(e, "vector<tuple<string,double>>", [&](size_t) { return std::make_tuple(e.elem_str(), e.dbl()); }, 8);
  VA_EMIT("vector_of_compound {} {} {}", "vector_of_compound", a0, a1, a2);
}

void sh_chrono(Env& e)
{
  std::chrono::nanoseconds a0{e.i64()};
  std::chrono::seconds a1{e.c.range(0, 4000000000ll)};
  std::chrono::milliseconds a2{e.c.range(0, 100000)};
  e.est += 48;
  VA_EMIT("chrono {} {} {}", "chrono", a0, a1, a2);
}

va::Pod make_pod(Env& e)
{
  va::Pod p{};
  p.id = e.i32();
  p.value = e.dbl();
  size_t n = e.c.pick(13); // 12 = no terminating NUL
  for (size_t k = 0; k < n && k < sizeof p.tag; ++k) p.tag[k] = static_cast<char>('a' + k);
  e.est += sizeof(va::Pod) + 16;
  return p;
}

void sh_deferred_pod(Env& e)
{
  va::Pod a0 = make_pod(e);
  VA_EMIT("deferred_pod {}", "deferred_pod", a0);
}

void sh_deferred_pod_mixed(Env& e)
{
  va::Pod a0 = make_pod(e);
  std::string a1 = e.top_str();
  va::Pod a2 = make_pod(e);
  int a3 = e.i32();
  std::string s4 = e.top_str();
  char const* a4 = s4.c_str();
  VA_EMIT("deferred_pod_mixed {} {} {} {} {}", "deferred_pod_mixed", a0, a1, a2, a3, a4);
}

void sh_deferred_no_default(Env& e)
{
  va::PodNoDefault a0{e.u64()};
  int a1 = e.i32();
  e.est += 2 * sizeof(va::PodNoDefault);
  VA_EMIT("deferred_no_default {} {}", "deferred_no_default", a0, a1);
}

void sh_deferred_both(Env& e)
{
  va::PodNoDefault a0{e.u64()};
  va::Pod a1 = make_pod(e);
  auto a2 = fill_back<std::vector<std::string>>(e, "vector<string>", [&](size_t) { return e.elem_str(); });
  e.est += 2 * sizeof(va::PodNoDefault);
  VA_EMIT("deferred_both {} {} {}", "deferred_both", a0, a1, a2);
}

void sh_direct(Env& e)
{
  va::DirectT a0{};
  a0.a = e.i32();
  size_t n = e.c.pick(41);
  for (size_t k = 0; k < n && k < sizeof a0.text; ++k) a0.text[k] = static_cast<char>('A' + k % 26);
  int a1 = e.i32();
  e.est += 160;
  VA_EMIT("direct {} {}", "direct", a0, a1);
}
} // namespace

namespace va
{
void register_shapes_3(std::vector<Shape>& out)
{
  out.push_back({"optional_arith", "ty.optional", false, 0, true, false, false, false, sh_optional_arith});
  out.push_back({"optional_string", "ty.optional", true, 1, true, false, false, false, sh_optional_string});
  out.push_back({"pair", "ty.pair", true, 0, true, false, false, false, sh_pair});
  out.push_back({"pair_cstr", "ty.pair", true, 1, true, false, false, false, sh_pair_cstr});
  out.push_back({"tuple", "ty.tuple", true, 1, true, false, false, false, sh_tuple});
  out.push_back({"optional_of_compound", "ty.optional", true, 0, true, false, false, false, sh_optional_of_compound});
  out.push_back({"tuple_of_containers", "ty.tuple", true, 0, true, false, false, false, sh_tuple_of_containers});
  out.push_back({"vector_of_compound", "ty.container", true, 0, true, false, false, false, sh_vector_of_compound});
  out.push_back({"chrono", "ty.deferred_trivially_copyable", false, 0, true, false, false, false, sh_chrono});
  out.push_back({"deferred_pod", "ty.deferred_trivially_copyable", false, 0, true, true, false, false, sh_deferred_pod});
  out.push_back({"deferred_pod_mixed", "ty.deferred_trivially_copyable", true, 1, true, true, false, false, sh_deferred_pod_mixed});
  out.push_back({"deferred_no_default", "ty.deferred_trivially_copyable", false, 0, true, true, false, false, sh_deferred_no_default});
  out.push_back({"deferred_both", "ty.deferred_trivially_copyable", true, 0, true, true, false, false, sh_deferred_both});
  out.push_back({"direct", "ty.direct_format_optin", false, 1, false, false, true, false, sh_direct});
}
} // namespace va
