// fmtcat catalog 3: sequence containers, std::array and C arrays of non-char element types
#include "fmtcat.h"

namespace fmtcat
{
std::vector<ShapeEntry> shapes_3()
{
  using Str = std::string;
  return {
    FMTCAT_SHAPE_W("vector_int", 4, V<std::vector<int>>),
    FMTCAT_SHAPE("vector_double", V<std::vector<double>>),
    FMTCAT_SHAPE_W("vector_string", 4, V<std::vector<Str>>),
    FMTCAT_SHAPE("vector_string_view", V<std::vector<std::string_view>>),
    FMTCAT_SHAPE("vector_char", V<std::vector<char>>),
    FMTCAT_SHAPE("vector_cstr", V<std::vector<char const*>>),
    FMTCAT_SHAPE("vector_enum", V<std::vector<Level>>),
    FMTCAT_SHAPE("vector_u8", V<std::vector<unsigned char>>),
    FMTCAT_SHAPE("vector_float", V<std::vector<float>>),
    FMTCAT_SHAPE("deque_int", V<std::deque<int>>),
    FMTCAT_SHAPE("deque_string", V<std::deque<Str>>),
    FMTCAT_SHAPE("deque_bool", V<std::deque<bool>>),
    FMTCAT_SHAPE("list_i64", V<std::list<long long>>),
    FMTCAT_SHAPE("list_string", V<std::list<Str>>),
    FMTCAT_SHAPE("forward_list_int", V<std::forward_list<int>>),
    FMTCAT_SHAPE_W("forward_list_string", 4, V<std::forward_list<Str>>),
    FMTCAT_SHAPE("array_int_4", V<std::array<int, 4>>),
    FMTCAT_SHAPE("array_string_3", V<std::array<Str, 3>>),
    FMTCAT_SHAPE("array_double_2", V<std::array<double, 2>>),
    FMTCAT_SHAPE("array_bool_3", V<std::array<bool, 3>>),
    FMTCAT_SHAPE("c_array_int_4", TArr<int, 4>),
    FMTCAT_SHAPE("c_array_string_2", TArr<Str, 2>),
    FMTCAT_SHAPE("c_array_bool_2", TArr<bool, 2>),
    FMTCAT_SHAPE("c_array_enum_2", TArr<Color, 2>),
    FMTCAT_SHAPE("c_array_string_view_3", TArr<std::string_view, 3>),
    FMTCAT_SHAPE_W("mix_vector_cstr_list", 4, V<std::vector<Str>>, CStr, V<std::list<Str>>, V<int>),
    FMTCAT_SHAPE_W("mix_flist_cstr_flist", 4, V<std::forward_list<Str>>, CStr, V<std::forward_list<int>>, CArr<8>),
  };
}
} // namespace fmtcat
