// fmtcat catalog 5: optional, pair, tuple, chrono, filesystem::path, user types (deferred and direct codecs)
#include "fmtcat.h"

namespace fmtcat
{
std::vector<ShapeEntry> shapes_5()
{
  using Str = std::string;
  namespace ch = std::chrono;
  using sysclk = ch::system_clock;
  return {
    FMTCAT_SHAPE("optional_int", V<std::optional<int>>),
    FMTCAT_SHAPE_W("optional_string", 4, V<std::optional<Str>>),
    FMTCAT_SHAPE("optional_double", V<std::optional<double>>),
    FMTCAT_SHAPE_W("pair_int_string", 4, V<std::pair<int, Str>>),
    FMTCAT_SHAPE("pair_string_string", V<std::pair<Str, Str>>),
    FMTCAT_SHAPE("pair_double_bool", V<std::pair<double, bool>>),
    FMTCAT_SHAPE_W("tuple_int_string_double", 4, V<std::tuple<int, Str, double>>),
    FMTCAT_SHAPE("tuple_string", V<std::tuple<Str>>),
    FMTCAT_SHAPE("tuple_scalars", V<std::tuple<int, char, bool, float>>),
    FMTCAT_SHAPE("tuple_cstr_int", V<std::tuple<char const*, int>>),
    FMTCAT_SHAPE("tuple_empty", V<std::tuple<>>),
    FMTCAT_SHAPE("chrono_seconds", V<ch::seconds>),
    FMTCAT_SHAPE("chrono_milliseconds", V<ch::milliseconds>),
    FMTCAT_SHAPE("chrono_nanoseconds", V<ch::nanoseconds>),
    FMTCAT_SHAPE("chrono_hours", V<ch::hours>),
    FMTCAT_SHAPE("chrono_double_seconds", V<ch::duration<double>>),
    FMTCAT_SHAPE("chrono_time_point_ns", V<ch::time_point<sysclk, ch::nanoseconds>>),
    FMTCAT_SHAPE("chrono_time_point_s", V<ch::time_point<sysclk, ch::seconds>>),
    FMTCAT_SHAPE("chrono_time_point_ms", V<ch::time_point<sysclk, ch::milliseconds>>),
    FMTCAT_SHAPE_W("fs_path", 4, V<std::filesystem::path>),
    FMTCAT_SHAPE("user_pod", V<PodUser>),
    FMTCAT_SHAPE_W("user_rich", 4, V<RichUser>),
    FMTCAT_SHAPE_W("user_wide", 4, V<WideUser>),
    FMTCAT_SHAPE_W("direct_user", 4, V<DirectUser>),
    FMTCAT_SHAPE_W("mix_users_string", 4, V<RichUser>, V<Str>, V<PodUser>, V<WideUser>, CStr),
    FMTCAT_SHAPE_W("mix_direct_cstr", 4, V<DirectUser>, CStr, V<DirectUser>, CArr<8>),
    FMTCAT_SHAPE("mix_path_string_chrono", V<std::filesystem::path>, V<Str>, V<ch::milliseconds>, V<std::optional<Str>>),
  };
}
} // namespace fmtcat
