// sim harness: the harness thread IS the quill backend (ManualBackendWorker::poll_one), frontend
// operations run on baton-driven worker threads, time and sleeps are virtual (engine/sim.h).
// One binary per queue flavour (compile-time FrontendOptions): -DSIM_QUEUE_TYPE=BoundedBlocking
// -DSIM_INITIAL_CAP=1024 -DSIM_MAX_CAP=1024. The property is selected with --param prop=Cxx.
//
// Properties decided here: C03 C05 C06 C08 C09 C10 C16 C17 C18 C20 (see DESIGN.md section 4).
#include <algorithm>
#include <array>
#include <atomic>
#include <cstdint>
#include <cstring>
#include <deque>
#include <map>
#include <memory>
#include <set>
#include <sstream>
#include <string>
#include <vector>

#include "../engine/sim.h"

#include "quill/Backend.h"
#include "quill/Frontend.h"
#include "quill/LogMacros.h"
#include "quill/Logger.h"
#include "quill/sinks/FileSink.h"
#include "quill/sinks/Sink.h"

#ifndef SIM_QUEUE_TYPE
  #define SIM_QUEUE_TYPE BoundedBlocking
#endif
#ifndef SIM_INITIAL_CAP
  #define SIM_INITIAL_CAP 1024
#endif
#ifndef SIM_MAX_CAP
  #define SIM_MAX_CAP SIM_INITIAL_CAP
#endif

using namespace verif;
using verif::sim::Worker;
using verif::sim::WState;

struct SimFrontendOptions
{
  static constexpr quill::QueueType queue_type = quill::QueueType::SIM_QUEUE_TYPE;
  static constexpr size_t initial_queue_capacity = SIM_INITIAL_CAP;
  static constexpr uint32_t blocking_queue_retry_interval_ns = 800;
  static constexpr size_t unbounded_queue_max_capacity = SIM_MAX_CAP;
  static constexpr quill::HugePagesPolicy huge_pages_policy = quill::HugePagesPolicy::Never;
};
using SFrontend = quill::FrontendImpl<SimFrontendOptions>;
using SLogger = quill::LoggerImpl<SimFrontendOptions>;

namespace
{
constexpr bool kBounded = (SimFrontendOptions::queue_type == quill::QueueType::BoundedBlocking) ||
  (SimFrontendOptions::queue_type == quill::QueueType::BoundedDropping);
constexpr bool kDropping = (SimFrontendOptions::queue_type == quill::QueueType::BoundedDropping) ||
  (SimFrontendOptions::queue_type == quill::QueueType::UnboundedDropping);
constexpr size_t kCap = kBounded ? SIM_INITIAL_CAP : SIM_MAX_CAP; // the largest buffer a statement may have to fit
constexpr size_t kInitCap = SIM_INITIAL_CAP;
constexpr size_t kHeader = 8 + 3 * sizeof(uintptr_t);            // timestamp + metadata + logger + decoder
constexpr size_t kStmtFixed = kHeader + 2 + 4 + 4;               // + uint16 worker + uint32 seq + string length field

Params g_params;
std::string g_prop = "C03";
bool g_excl_f1 = false;   // sim.unpublished_reader_remainder_stall
bool g_excl_f10 = false;  // sim.first_log_between_cache_refresh_and_ts_now
bool g_excl_f11 = false;  // sim.drops_of_exited_thread_unreported
bool g_excl_f2 = false;   // sim.nonstd_exception_from_formatter
bool g_excl_f3 = false;   // sim.backtrace_index_not_reset
bool g_excl_f9 = false;   // sim.invalid_context_counter_wraps_at_256

// ------------------------------------------------------------------------------------------------------
// journal and sinks
// ------------------------------------------------------------------------------------------------------
struct JEntry
{
  int sink;
  char kind; // 'W' write_log, 'F' flush_sink, 'D' destroyed
  std::string logger;
  std::string tid;
  uint64_t ts;
  int level;
  std::string msg;
  std::string statement;
};

struct World;
World* g_world = nullptr;

struct ThrowPlan
{
  std::set<long> write_calls; // 1-based indices of write_log calls that throw
  std::set<long> flush_calls;
};

class RecSink : public quill::Sink
{
public:
  RecSink(int idx, std::optional<quill::PatternFormatterOptions> ov = std::nullopt) : quill::Sink(std::move(ov)), _idx(idx) {}
  ~RecSink() override;
  void write_log(quill::MacroMetadata const*, uint64_t ts, std::string_view tid, std::string_view, std::string const&,
                 std::string_view logger, quill::LogLevel lvl, std::string_view, std::string_view,
                 std::vector<std::pair<std::string, std::string>> const*, std::string_view msg, std::string_view stmt) override;
  void flush_sink() override;
  int _idx;
  long writes{0}, flushes{0};
  ThrowPlan plan;
};

// ------------------------------------------------------------------------------------------------------
// model
// ------------------------------------------------------------------------------------------------------
enum class OpKind { None, Log, Flush, InitBt, FlushBt, RemoveBlocking, Other };

struct Stmt
{
  int w{0};
  uint32_t seq{0};
  int logger{0};
  int level{0};
  uint32_t padlen{0};
  bool call_done{false};
  bool accepted{false};
  bool threw{false};
  bool backtrace{false};
  uint64_t ts{0};
  uint64_t enq_time{0};
  size_t issue_idx{0};     // index in the global op counter
  size_t done_idx{0};
  size_t encoded{0};
  bool stalled{false};
  bool was_blocked{false};
};

struct FlushRec
{
  int w{0};
  int logger{0};
  size_t issue_idx{0};
  size_t issue_journal_size{0};
  bool returned{false};
  bool refused_once{false};
  std::vector<size_t> must_be_written; // stmt indices that must be written+flushed when it returns
};

struct WInfo
{
  Worker* w{nullptr};
  bool alive{true};
  bool has_logged{false};   // has a thread context
  uint32_t next_seq{0};
  OpKind pending{OpKind::None};
  size_t pending_stmt{0};
  size_t pending_flush{0};
  // results written by the worker thread while it runs the op
  bool res_accepted{false};
  bool res_threw{false};
  long drops_unreported{0};
  long drops_total{0};
  size_t last_capacity_seen{0};
};

struct LoggerInfo
{
  std::string name;
  SLogger* ptr{nullptr};
  std::vector<int> sinks;
  int level{4}; // Info
  bool valid{true};
};

struct World
{
  Choices* c{nullptr};
  Report* r{nullptr};
  quill::ManualBackendWorker* mbw{nullptr};
  quill::BackendOptions bo;
  uint64_t grace_ns{0};
  std::deque<WInfo> workers; // deque: worker lambdas keep pointers to their WInfo
  std::vector<LoggerInfo> loggers;
  std::vector<std::shared_ptr<RecSink>> sinks;
  std::vector<Stmt> stmts;
  std::vector<FlushRec> flushes;
  std::vector<JEntry> journal;
  std::vector<std::string> notes; // error notifier
  size_t op_counter{0};
  // poll / burst state
  bool in_poll{false};
  int burst_budget{0};
  bool idle_seen{false};       // Y5 reached in the current poll: queues and buffers were empty
  long polls{0};
  long yields[6]{0, 0, 0, 0, 0, 0};
  long bursts_at[6]{0, 0, 0, 0, 0, 0};
  bool draining{false};
  // labels
  bool lbl_exit_with_pending{false}, lbl_blocked{false}, lbl_stall{false}, lbl_first_log_in_y1{false};
  long grows_seen{0};
  std::string opslog;

  void log_op(std::string const& s)
  {
    if (opslog.size() < 2400) { opslog += s; opslog += ' '; }
  }
};

RecSink::~RecSink()
{
  if (g_world) g_world->journal.push_back(JEntry{_idx, 'D', {}, {}, 0, 0, {}, {}});
}

void RecSink::write_log(quill::MacroMetadata const*, uint64_t ts, std::string_view tid, std::string_view, std::string const&,
                        std::string_view logger, quill::LogLevel lvl, std::string_view, std::string_view,
                        std::vector<std::pair<std::string, std::string>> const*, std::string_view msg, std::string_view stmt)
{
  ++writes;
  if (plan.write_calls.count(writes)) throw std::runtime_error("injected write_log failure sink " + std::to_string(_idx));
  g_world->journal.push_back(JEntry{_idx, 'W', std::string{logger}, std::string{tid}, ts, static_cast<int>(lvl),
                                    std::string{msg}, std::string{stmt}});
}

void RecSink::flush_sink()
{
  ++flushes;
  if (plan.flush_calls.count(flushes)) throw std::runtime_error("injected flush_sink failure sink " + std::to_string(_idx));
  // collapse runs of flushes (idle polls flush every time)
  if (!g_world->journal.empty() && g_world->journal.back().kind == 'F' && g_world->journal.back().sink == _idx) return;
  g_world->journal.push_back(JEntry{_idx, 'F', {}, {}, 0, 0, {}, {}});
}

// statement metadata: one per level, format "{}:{}:{}" = worker:seq:padding
constexpr quill::MacroMetadata kMd[] = {
  {"sim.cpp:1", "f", "{}:{}:{}", nullptr, quill::LogLevel::TraceL3, quill::MacroMetadata::Event::Log},
  {"sim.cpp:2", "f", "{}:{}:{}", nullptr, quill::LogLevel::TraceL2, quill::MacroMetadata::Event::Log},
  {"sim.cpp:3", "f", "{}:{}:{}", nullptr, quill::LogLevel::TraceL1, quill::MacroMetadata::Event::Log},
  {"sim.cpp:4", "f", "{}:{}:{}", nullptr, quill::LogLevel::Debug, quill::MacroMetadata::Event::Log},
  {"sim.cpp:5", "f", "{}:{}:{}", nullptr, quill::LogLevel::Info, quill::MacroMetadata::Event::Log},
  {"sim.cpp:6", "f", "{}:{}:{}", nullptr, quill::LogLevel::Notice, quill::MacroMetadata::Event::Log},
  {"sim.cpp:7", "f", "{}:{}:{}", nullptr, quill::LogLevel::Warning, quill::MacroMetadata::Event::Log},
  {"sim.cpp:8", "f", "{}:{}:{}", nullptr, quill::LogLevel::Error, quill::MacroMetadata::Event::Log},
  {"sim.cpp:9", "f", "{}:{}:{}", nullptr, quill::LogLevel::Critical, quill::MacroMetadata::Event::Log},
  {"sim.cpp:10", "f", "{}:{}:{}", nullptr, quill::LogLevel::Backtrace, quill::MacroMetadata::Event::Log},
};

std::string make_pad(int w, uint32_t seq, uint32_t len)
{
  std::string p(len, 'a');
  for (uint32_t k = 0; k < len; ++k) p[k] = static_cast<char>('a' + ((w * 7u + seq * 13u + k * 3u) % 26u));
  return p;
}

bool parse_msg(std::string const& m, int& w, uint32_t& seq, std::string& pad)
{
  size_t a = m.find(':');
  if (a == std::string::npos) return false;
  size_t b = m.find(':', a + 1);
  if (b == std::string::npos) return false;
  char* e = nullptr;
  long wl = std::strtol(m.c_str(), &e, 10);
  if (e != m.c_str() + a) return false;
  unsigned long sl = std::strtoul(m.c_str() + a + 1, &e, 10);
  if (e != m.c_str() + b) return false;
  w = static_cast<int>(wl);
  seq = static_cast<uint32_t>(sl);
  pad = m.substr(b + 1);
  return true;
}

// ------------------------------------------------------------------------------------------------------
// operations
// ------------------------------------------------------------------------------------------------------
void fail(World& W, std::string const& m) { W.r->fail(m); }

int alive_count(World& W)
{
  int n = 0;
  for (auto& x : W.workers) if (x.alive) ++n;
  return n;
}

void finish_op(World& W, int wi);

void after_state(World& W, int wi, WState st)
{
  WInfo& wi_ = W.workers[wi];
  if (st == WState::Idle) { finish_op(W, wi); return; }
  if (st == WState::Blocked)
  {
    W.lbl_blocked = true;
    if (wi_.pending == OpKind::Log) W.stmts[wi_.pending_stmt].was_blocked = true;
    if (wi_.pending == OpKind::Flush && wi_.w->sleeps_in_op > 0) { /* spinning on the flag or refused: cannot tell apart here */ }
  }
  if (st == WState::Stalled) W.lbl_stall = true;
}

// C06: evaluated at the instant flush_log() returned
void check_flush_returned(World& W, FlushRec& f)
{
  for (size_t si : f.must_be_written)
  {
    Stmt const& s = W.stmts[si];
    if (!s.accepted) continue;
    for (int sk : W.loggers[s.logger].sinks)
    {
      long last_w = -1, last_f = -1;
      for (size_t k = 0; k < W.journal.size(); ++k)
      {
        JEntry const& e = W.journal[k];
        if (e.sink != sk) continue;
        if (e.kind == 'F') last_f = static_cast<long>(k);
        else if (e.kind == 'W')
        {
          int w;
          uint32_t seq;
          std::string pad;
          if (parse_msg(e.msg, w, seq, pad) && w == s.w && seq == s.seq) last_w = static_cast<long>(k);
        }
      }
      std::string who = (s.w == f.w) ? "its own earlier statement" : "statement of another thread whose call had completed before the flush was invoked";
      if (last_w < 0)
      {
        fail(W, "flush_log() of worker " + std::to_string(f.w) + " returned but " + who + " " + std::to_string(s.w) + ":" +
                  std::to_string(s.seq) + " was not written to sink " + std::to_string(sk));
        return;
      }
      if (last_f < last_w)
      {
        fail(W, "flush_log() of worker " + std::to_string(f.w) + " returned but sink " + std::to_string(sk) +
                  " was not flushed after " + who + " " + std::to_string(s.w) + ":" + std::to_string(s.seq));
        return;
      }
    }
  }
}

void finish_op(World& W, int wi)
{
  WInfo& x = W.workers[wi];
  if (x.pending == OpKind::Log)
  {
    Stmt& s = W.stmts[x.pending_stmt];
    s.call_done = true;
    s.accepted = x.res_accepted;
    s.threw = x.res_threw;
    s.ts = x.w->first_realtime_in_op;
    s.enq_time = sim::core().vclock;
    s.done_idx = W.op_counter;
    x.has_logged = true;
    if (!s.accepted && !s.threw && !s.backtrace) { ++x.drops_unreported; ++x.drops_total; }
  }
  else if (x.pending == OpKind::Flush)
  {
    FlushRec& f = W.flushes[x.pending_flush];
    f.returned = true;
    x.has_logged = true;
    if (g_prop == "C06" || g_prop == "C10") check_flush_returned(W, f);
  }
  x.pending = OpKind::None;
}

// choose a size class; returns pad length so that the encoded statement has the wanted size
uint32_t draw_padlen(World& W, bool allow_never_fits)
{
  Choices& c = *W.c;
  size_t total;
  size_t band = (kCap * 5 + 99) / 100;
  switch (c.weighted({6, 4, 3, 3, 2, 1}))
  {
  case 0: total = kStmtFixed + c.pick(33); break;                                   // small
  case 1: total = kStmtFixed + c.pick(9); W.r->label("size_tiny"); break;           // tiny: below the publish batch
  case 2: total = kInitCap / 8 + c.pick(static_cast<uint32_t>(kInitCap / 2)); break; // medium
  case 3: total = kCap - c.pick(static_cast<uint32_t>((kCap * 6 + 99) / 100 + 1)); W.r->label("size_in_band_below_capacity"); break;
  case 4: total = kCap; W.r->label("size_eq_capacity"); break;
  default:
    if (allow_never_fits) { total = kCap + 1 + c.pick(64); W.r->label("size_never_fits"); }
    else total = kCap / 2 + c.pick(static_cast<uint32_t>(kCap / 4));
    break;
  }
  if (total < kStmtFixed) total = kStmtFixed;
  if (!allow_never_fits && total > kCap) total = kCap;
  if (g_excl_f1 && total + band > kCap && total <= kCap)
  {
    // known finding F1: a request in the band (capacity - 5 %, capacity] may be refused for ever
    W.r->count("excluded.sim.unpublished_reader_remainder_stall");
    total = kCap - band;
  }
  return static_cast<uint32_t>(total - kStmtFixed);
}

int pick_logger(World& W)
{
  std::vector<int> v;
  for (size_t k = 0; k < W.loggers.size(); ++k) if (W.loggers[k].valid) v.push_back(static_cast<int>(k));
  if (v.empty()) return -1;
  return v[W.c->pick(static_cast<uint32_t>(v.size()))];
}

// index of an alive worker chosen by the stream, or -1
int pick_worker(World& W)
{
  std::vector<int> v;
  for (size_t k = 0; k < W.workers.size(); ++k) if (W.workers[k].alive) v.push_back(static_cast<int>(k));
  if (v.empty()) return -1;
  return v[W.c->pick(static_cast<uint32_t>(v.size()))];
}

int op_start_thread(World& W)
{
  if (alive_count(W) >= 5 || W.workers.size() >= 40) return -1;
  WInfo x;
  x.w = sim::start_worker();
  W.workers.push_back(x);
  W.log_op("Start(w" + std::to_string(W.workers.size()) + ")");
  return static_cast<int>(W.workers.size() - 1);
}

bool worker_busy(World& W, int wi)
{
  WState st = W.workers[wi].w->state;
  return st == WState::Blocked || st == WState::Stalled;
}

void op_retry(World& W, int wi)
{
  WInfo& x = W.workers[wi];
  if (!worker_busy(W, wi)) return;
  W.log_op((x.w->state == WState::Stalled ? "Resume(w" : "Retry(w") + std::to_string(wi + 1) + ")");
  WState st = sim::grant(x.w);
  after_state(W, wi, st);
}

void op_log(World& W, int wi, bool in_burst, int ypoint)
{
  Choices& c = *W.c;
  if (wi < 0) { wi = op_start_thread(W); if (wi < 0) return; }
  if (worker_busy(W, wi)) { op_retry(W, wi); return; }
  WInfo& x = W.workers[wi];
  int li = pick_logger(W);
  if (li < 0) return;
  bool first_log = !x.has_logged;
  if (in_burst && ypoint == 1 && first_log)
  {
    if (g_excl_f10)
    {
      // known finding F10: a thread's first log call between the cache refresh and the ts_now read
      W.r->count("excluded.sim.first_log_between_cache_refresh_and_ts_now");
      return;
    }
    W.lbl_first_log_in_y1 = true;
  }
  Stmt s;
  s.w = wi + 1;
  s.seq = x.next_seq++;
  s.logger = li;
  s.level = 4 + static_cast<int>(c.pick(5)); // Info..Critical: all pass the default logger level
  bool never_fits_ok = kDropping && (g_prop == "C08");
  s.padlen = draw_padlen(W, never_fits_ok);
  s.encoded = kStmtFixed + s.padlen;
  s.issue_idx = W.op_counter;
  bool stall = false;
  if (g_prop == "C05" || g_prop == "C06") stall = c.pick(6) == 5;
  s.stalled = stall;
  W.stmts.push_back(s);
  size_t si = W.stmts.size() - 1;
  x.pending = OpKind::Log;
  x.pending_stmt = si;
  x.res_accepted = false;
  x.res_threw = false;
  SLogger* lg = W.loggers[li].ptr;
  quill::MacroMetadata const* md = &kMd[s.level];
  std::string pad = make_pad(s.w, s.seq, s.padlen);
  uint16_t wid = static_cast<uint16_t>(s.w);
  uint32_t seq = s.seq;
  WInfo* xp = &x;
  W.log_op("Log(w" + std::to_string(s.w) + "#" + std::to_string(s.seq) + ",L" + std::to_string(li) + "," +
           std::to_string(s.encoded) + "B" + (stall ? ",stall" : "") + (in_burst ? ",@Y" + std::to_string(ypoint) : "") + ")");
  WState st = sim::run_on(
    x.w,
    [lg, md, wid, seq, pad, xp]()
    {
      try { xp->res_accepted = lg->template log_statement<false, false>(quill::LogLevel::None, md, wid, seq, pad); }
      catch (quill::QuillError const&) { xp->res_threw = true; }
    },
    stall);
  after_state(W, wi, st);
}

void op_flush(World& W, int wi, bool in_burst, int ypoint)
{
  if (wi < 0) { wi = op_start_thread(W); if (wi < 0) return; }
  if (worker_busy(W, wi)) { op_retry(W, wi); return; }
  WInfo& x = W.workers[wi];
  int li = pick_logger(W);
  if (li < 0) return;
  if (in_burst && ypoint == 1 && !x.has_logged && g_excl_f10) { W.r->count("excluded.sim.first_log_between_cache_refresh_and_ts_now"); return; }
  FlushRec f;
  f.w = wi + 1;
  f.logger = li;
  f.issue_idx = W.op_counter;
  f.issue_journal_size = W.journal.size();
  // what must be on the sinks when it returns: every earlier statement of this worker; with ordering enabled also every
  // statement of any other worker whose call completed before now
  for (size_t k = 0; k < W.stmts.size(); ++k)
  {
    Stmt const& s = W.stmts[k];
    if (!s.call_done || !s.accepted || s.backtrace) continue;
    if (s.w == f.w || W.grace_ns > 0) f.must_be_written.push_back(k);
  }
  W.flushes.push_back(f);
  x.pending = OpKind::Flush;
  x.pending_flush = W.flushes.size() - 1;
  SLogger* lg = W.loggers[li].ptr;
  W.log_op("Flush(w" + std::to_string(wi + 1) + ",L" + std::to_string(li) + (in_burst ? ",@Y" + std::to_string(ypoint) : "") + ")");
  WState st = sim::run_on(x.w, [lg]() { lg->flush_log(100); });
  after_state(W, wi, st);
}

void op_exit_thread(World& W, int wi)
{
  if (wi < 0) return;
  if (worker_busy(W, wi)) { op_retry(W, wi); return; }
  WInfo& x = W.workers[wi];
  if (!x.alive) return;
  if (g_excl_f11 && x.drops_unreported > 0)
  {
    // known finding F11: drops of a thread that exits before they were reported
    W.r->count("excluded.sim.drops_of_exited_thread_unreported");
    return;
  }
  // does it still have unwritten statements?
  for (auto const& s : W.stmts)
  {
    if (s.w == wi + 1 && s.accepted)
    {
      bool seen = false;
      for (auto const& e : W.journal)
      {
        int w;
        uint32_t q;
        std::string p;
        if (e.kind == 'W' && parse_msg(e.msg, w, q, p) && w == s.w && q == s.seq) { seen = true; break; }
      }
      if (!seen) { W.lbl_exit_with_pending = true; break; }
    }
  }
  W.log_op("Exit(w" + std::to_string(wi + 1) + ")");
  sim::exit_worker(x.w);
  x.alive = false;
}

void op_tick(World& W)
{
  Choices& c = *W.c;
  uint64_t g = W.grace_ns ? W.grace_ns : 1000;
  uint64_t dt;
  switch (c.pick(6))
  {
  case 0: dt = 1; break;
  case 1: dt = g / 2; break;
  case 2: dt = g - 1; break;
  case 3: dt = g; break;
  case 4: dt = g + 1; break;
  default: dt = 10 * g; break;
  }
  sim::core().vclock += dt;
  W.log_op("Tick(" + std::to_string(dt) + ")");
}

void burst_ops(World& W, int point)
{
  Choices& c = *W.c;
  if (W.burst_budget <= 0) return;
  // 0..3: nothing (what a shrunk stream selects)
  if (c.pick(5) != 4) return;
  unsigned n = 1 + c.pick(3);
  ++W.bursts_at[point];
  for (unsigned k = 0; k < n && W.burst_budget > 0 && !W.r->failed; ++k)
  {
    --W.burst_budget;
    ++W.op_counter;
    switch (c.weighted({6, 3, 2, 2, 2, 2}))
    {
    case 0: op_log(W, pick_worker(W), true, point); break;
    case 1: op_tick(W); break;
    case 2:
      if (g_prop == "C06" || g_prop == "C08" || g_prop == "C10" || g_prop == "C03") op_flush(W, pick_worker(W), true, point);
      else op_log(W, pick_worker(W), true, point);
      break;
    case 3: { int nw = op_start_thread(W); if (nw >= 0) op_log(W, nw, true, point); break; }
    case 4: op_exit_thread(W, pick_worker(W)); break;
    default: { int wi = pick_worker(W); if (wi >= 0) op_retry(W, wi); break; }
    }
  }
}

void sim_yield(int point)
{
  World* W = g_world;
  if (!W || !W->in_poll) return;
  if (point >= 1 && point <= 5) ++W->yields[point];
  if (point == 5) W->idle_seen = true;
  if (W->draining) return;
  burst_ops(*W, point);
}

void op_poll(World& W, bool bursts)
{
  W.in_poll = true;
  W.idle_seen = false;
  W.burst_budget = bursts ? 8 : 0;
  ++W.polls;
  if (bursts) W.log_op("Poll");
  W.mbw->poll_one();
  W.in_poll = false;
}

// ------------------------------------------------------------------------------------------------------
// end of case: drain, then the property's oracle
// ------------------------------------------------------------------------------------------------------
long count_writes(World& W)
{
  long n = 0;
  for (auto const& e : W.journal) if (e.kind == 'W') ++n;
  return n;
}

bool drain(World& W)
{
  W.draining = true;
  size_t const max_rounds = 60 + 4 * W.stmts.size() + 4 * W.flushes.size();
  int idle_rounds_without_progress = 0;
  for (size_t round = 0; round < max_rounds && !W.r->failed; ++round)
  {
    for (size_t k = 0; k < W.workers.size(); ++k)
    {
      if (W.workers[k].alive && worker_busy(W, static_cast<int>(k)))
      {
        WState st = sim::grant(W.workers[k].w);
        after_state(W, static_cast<int>(k), st);
      }
    }
    sim::core().vclock += W.grace_ns + 1;
    long before = count_writes(W);
    op_poll(W, false);
    bool progress = count_writes(W) != before;
    bool any_busy = false;
    for (size_t k = 0; k < W.workers.size(); ++k) if (W.workers[k].alive && worker_busy(W, static_cast<int>(k))) any_busy = true;
    if (W.idle_seen && !progress) ++idle_rounds_without_progress; else idle_rounds_without_progress = 0;
    if (!any_busy && idle_rounds_without_progress >= 3) { W.draining = false; return true; }
    if (any_busy && idle_rounds_without_progress >= 6)
    {
      // a worker is still blocked although the backend has been idle (queues and buffers empty, nothing written)
      // for several rounds with a retry granted each time: the stall state of C06 / C09
      for (size_t k = 0; k < W.workers.size(); ++k)
      {
        if (!W.workers[k].alive || !worker_busy(W, static_cast<int>(k))) continue;
        WInfo& x = W.workers[k];
        std::string what = x.pending == OpKind::Log
          ? "log call of " + std::to_string(W.stmts[x.pending_stmt].encoded) + " B (capacity " + std::to_string(kCap) + ")"
          : x.pending == OpKind::Flush ? std::string{"flush_log()"} : std::string{"control request"};
        fail(W, "STALL: worker " + std::to_string(k + 1) + " is still blocked in its " + what +
                  " while all queues and backend buffers are empty and the backend is idle (retried " +
                  std::to_string(x.w->sleeps_in_op) + " times)");
      }
      W.draining = false;
      return false;
    }
  }
  W.draining = false;
  if (!W.r->failed) { W.r->inconclusive = true; W.r->message = "drain budget exceeded"; }
  return false;
}

void oracle_delivery(World& W)
{
  // per sink: exactly once, per-thread order, integrity, identity
  size_t nsinks = W.sinks.size();
  std::vector<std::map<std::pair<int, uint32_t>, int>> seen(nsinks);
  std::vector<std::map<int, long>> last_seq(nsinks);
  std::map<std::pair<int, uint32_t>, size_t> index;
  for (size_t k = 0; k < W.stmts.size(); ++k) index[{W.stmts[k].w, W.stmts[k].seq}] = k;
  uint64_t last_ts = 0;
  bool precondition = true;
  for (auto const& s : W.stmts)
  {
    if (s.accepted && W.grace_ns > 0 && s.enq_time - s.ts > W.grace_ns) precondition = false;
  }
  if (!precondition) W.r->label("precondition_violated_some_enqueue_later_than_grace");
  for (auto const& e : W.journal)
  {
    if (e.kind != 'W') continue;
    int w;
    uint32_t seq;
    std::string pad;
    if (!parse_msg(e.msg, w, seq, pad)) { fail(W, "sink " + std::to_string(e.sink) + " received an unparsable message \"" + esc(e.msg, 80) + "\""); return; }
    auto it = index.find({w, seq});
    if (it == index.end()) { fail(W, "sink " + std::to_string(e.sink) + " received statement " + std::to_string(w) + ":" + std::to_string(seq) + " that was never issued"); return; }
    Stmt const& s = W.stmts[it->second];
    std::string id = std::to_string(w) + ":" + std::to_string(seq);
    if (!s.accepted) { fail(W, "statement " + id + " was written although its log call returned false / threw (reported dropped AND delivered)"); return; }
    LoggerInfo const& L = W.loggers[s.logger];
    if (std::find(L.sinks.begin(), L.sinks.end(), e.sink) == L.sinks.end()) { fail(W, "statement " + id + " written to sink " + std::to_string(e.sink) + " which its logger does not own"); return; }
    if (++seen[e.sink][{w, seq}] > 1) { fail(W, "statement " + id + " written twice to sink " + std::to_string(e.sink)); return; }
    auto ls = last_seq[e.sink].find(w);
    if (ls != last_seq[e.sink].end() && ls->second >= static_cast<long>(seq))
    {
      fail(W, "sink " + std::to_string(e.sink) + ": statement " + id + " written after " + std::to_string(w) + ":" + std::to_string(ls->second) + " (thread order violated)");
      return;
    }
    last_seq[e.sink][w] = seq;
    if (pad != make_pad(w, seq, s.padlen)) { fail(W, "statement " + id + " payload corrupted (" + std::to_string(pad.size()) + " B, expected " + std::to_string(s.padlen) + " B)"); return; }
    if (e.logger != L.name) { fail(W, "statement " + id + " carries logger name " + e.logger + ", expected " + L.name); return; }
    if (e.tid != std::to_string(W.workers[w - 1].w->tid)) { fail(W, "statement " + id + " carries thread id " + e.tid + ", expected " + std::to_string(W.workers[w - 1].w->tid)); return; }
    if (e.level != s.level) { fail(W, "statement " + id + " carries level " + std::to_string(e.level) + ", expected " + std::to_string(s.level)); return; }
    if (e.ts != s.ts) { fail(W, "statement " + id + " carries timestamp " + std::to_string(e.ts) + ", but its log call read " + std::to_string(s.ts)); return; }
    if (g_prop == "C05" && precondition && W.grace_ns > 0)
    {
      if (e.ts < last_ts)
      {
        fail(W, "timestamp order violated: statement " + id + " (ts " + std::to_string(e.ts) + ") written after a statement with ts " +
                  std::to_string(last_ts) + " although every statement was enqueued within the grace period");
        return;
      }
    }
    if (e.ts > last_ts) last_ts = e.ts;
  }
  for (auto const& s : W.stmts)
  {
    if (!s.accepted) continue;
    for (int sk : W.loggers[s.logger].sinks)
    {
      if (!seen[sk].count({s.w, s.seq}))
      {
        fail(W, "statement " + std::to_string(s.w) + ":" + std::to_string(s.seq) + " (" + std::to_string(s.encoded) +
                  " B) accepted by its log call but never written to sink " + std::to_string(sk) + " (lost)");
        return;
      }
    }
  }
}

void oracle_drops(World& W)
{
  if (!kDropping) return;
  long attempted = 0, accepted = 0, dropped = 0, threw = 0;
  for (auto const& s : W.stmts)
  {
    if (!s.call_done) continue;
    ++attempted;
    if (s.threw) ++threw; else if (s.accepted) ++accepted; else ++dropped;
  }
  if (accepted + dropped + threw != attempted) { fail(W, "delivered + discarded + thrown != attempted"); return; }
  if (kBounded)
  {
    long reported = 0;
    for (auto const& n : W.notes)
    {
      size_t p = n.find("Dropped ");
      if (p == std::string::npos) continue;
      reported += std::strtol(n.c_str() + p + 8, nullptr, 10);
    }
    if (reported != dropped)
    {
      fail(W, "error notifier reported " + std::to_string(reported) + " dropped messages in total, but " + std::to_string(dropped) +
                " log calls returned false");
      return;
    }
  }
}

void oracle_flushes(World& W)
{
  for (auto const& f : W.flushes)
  {
    if (!f.returned) { fail(W, "flush_log() of worker " + std::to_string(f.w) + " never returned although the backend kept running"); return; }
  }
}

void oracle_contexts(World& W)
{
  // after the drain (+ idle polls) the backend retains exactly the contexts of live threads that have logged
  size_t expect = 0;
  for (auto const& x : W.workers) if (x.alive && x.has_logged) ++expect;
  size_t got = 0;
  quill::detail::ThreadContextManager::instance().for_each_thread_context([&got](quill::detail::ThreadContext*) { ++got; });
  if (got != expect)
  {
    fail(W, "after the backend drained, " + std::to_string(got) + " thread contexts are retained but " + std::to_string(expect) +
              " live threads have logged");
  }
}
} // namespace

namespace verif
{
HarnessInfo harness_info() { return {"sim", true, 900, 20000}; }

void harness_init(Params const& p)
{
  g_params = p;
  g_prop = param_str(p, "prop", "C03");
  g_excl_f1 = excluded(p, "sim.unpublished_reader_remainder_stall");
  g_excl_f10 = excluded(p, "sim.first_log_between_cache_refresh_and_ts_now");
  g_excl_f11 = excluded(p, "sim.drops_of_exited_thread_unreported");
  g_excl_f2 = excluded(p, "sim.nonstd_exception_from_formatter");
  g_excl_f3 = excluded(p, "sim.backtrace_index_not_reset");
  g_excl_f9 = excluded(p, "sim.invalid_context_counter_wraps_at_256");
}

void run_case(Choices& c, Report& r)
{
  static World W; // one case per (forked) process
  g_world = &W;
  W.c = &c;
  W.r = &r;
  sim::g_active = true;

  // ---- backend options ----
  quill::BackendOptions bo;
  bo.transit_event_buffer_initial_capacity = 1u << c.pick(4);         // 1..8
  bo.transit_events_soft_limit = size_t{1} << c.pick(5);              // 1..16
  {
    unsigned soft_bits = 0;
    while ((size_t{1} << soft_bits) < bo.transit_events_soft_limit) ++soft_bits;
    bo.transit_events_hard_limit = size_t{1} << (soft_bits + c.pick(6 - soft_bits)); // soft..32
  }
  switch (c.pick(4))
  {
  case 0: bo.log_timestamp_ordering_grace_period = std::chrono::microseconds{1}; break;
  case 1: bo.log_timestamp_ordering_grace_period = std::chrono::microseconds{5}; break;
  case 2: bo.log_timestamp_ordering_grace_period = std::chrono::microseconds{50}; break;
  default: bo.log_timestamp_ordering_grace_period = std::chrono::microseconds{(g_prop == "C05") ? 1 : 0}; break;
  }
  bo.sink_min_flush_interval = std::chrono::milliseconds{c.pick(3) == 2 ? 200 : 0};
  bo.check_backend_singleton_instance = false;
  bo.error_notifier = [](std::string const& m) { g_world->notes.push_back(m); };
  W.bo = bo;
  W.grace_ns = static_cast<uint64_t>(bo.log_timestamp_ordering_grace_period.count()) * 1000ull;

  // ---- sinks and loggers ----
  unsigned nsinks = 1 + c.pick(3);
  for (unsigned k = 0; k < nsinks; ++k) W.sinks.push_back(std::make_shared<RecSink>(static_cast<int>(k)));
  unsigned nloggers = 1 + c.pick(3);
  for (unsigned k = 0; k < nloggers; ++k)
  {
    LoggerInfo L;
    L.name = "lg" + std::to_string(k);
    // any non-empty subset of sinks, in index order
    unsigned mask = 1 + c.pick((1u << nsinks) - 1);
    std::vector<std::shared_ptr<quill::Sink>> sv;
    for (unsigned b = 0; b < nsinks; ++b) if (mask & (1u << b)) { L.sinks.push_back(static_cast<int>(b)); sv.push_back(W.sinks[b]); }
    L.ptr = SFrontend::create_or_get_logger(L.name, std::move(sv),
                                            quill::PatternFormatterOptions{"%(message)", "%H:%M:%S.%Qns", quill::Timezone::GmtTime, false},
                                            quill::ClockSourceType::System);
    W.loggers.push_back(L);
  }
  {
    std::ostringstream cfg;
    cfg << "queue=" << static_cast<int>(SimFrontendOptions::queue_type) << " cap=" << kInitCap << "/" << kCap
        << " tbuf=" << bo.transit_event_buffer_initial_capacity << " soft=" << bo.transit_events_soft_limit
        << " hard=" << bo.transit_events_hard_limit << " grace_us=" << bo.log_timestamp_ordering_grace_period.count()
        << " flush_ms=" << bo.sink_min_flush_interval.count() << " sinks=" << nsinks << " loggers=";
    for (auto const& L : W.loggers) { cfg << "["; for (int s : L.sinks) cfg << s; cfg << "]"; }
    r.line(cfg.str());
  }

  W.mbw = quill::Backend::acquire_manual_backend_worker();
  W.mbw->init(bo);
  quill::detail::verif_yield = &sim_yield;

  // ---- the generated program ----
  unsigned n_ops = 1 + c.pick(120);
  for (unsigned i = 0; i < n_ops && !r.failed; ++i)
  {
    ++W.op_counter;
    size_t kind = c.weighted({5, 8, 2, 2, 2, 3, 1});
    switch (kind)
    {
    case 0: op_poll(W, true); break;
    case 1: op_log(W, pick_worker(W), false, 0); break;
    case 2: op_start_thread(W); break;
    case 3: op_tick(W); break;
    case 4: op_exit_thread(W, pick_worker(W)); break;
    case 5:
      if (g_prop == "C06" || g_prop == "C08" || g_prop == "C03" || g_prop == "C09") op_flush(W, pick_worker(W), false, 0);
      else op_log(W, pick_worker(W), false, 0);
      break;
    default: { int wi = pick_worker(W); if (wi >= 0) op_retry(W, wi); break; }
    }
  }

  // ---- drain and judge ----
  bool drained = !r.failed && drain(W);
  if (drained)
  {
    // two more idle polls so that drop reports and reclamation had their chance
    W.draining = true;
    op_poll(W, false);
    op_poll(W, false);
    W.draining = false;
    oracle_delivery(W);
    if (!r.failed) oracle_flushes(W);
    if (!r.failed && g_prop == "C08") oracle_drops(W);
    if (!r.failed && g_prop == "C20") oracle_contexts(W);
  }

  // ---- classification ----
  r.line("ops: " + W.opslog);
  {
    std::ostringstream o;
    o << "stmts=" << W.stmts.size() << " flushes=" << W.flushes.size() << " writes=" << count_writes(W) << " polls=" << W.polls
      << " yields=" << W.yields[1] << "/" << W.yields[2] << "/" << W.yields[3] << "/" << W.yields[4] << "/" << W.yields[5]
      << " bursts=" << W.bursts_at[1] << "/" << W.bursts_at[2] << "/" << W.bursts_at[3] << "/" << W.bursts_at[4] << "/" << W.bursts_at[5]
      << " notes=" << W.notes.size();
    r.line(o.str());
  }
  std::set<int> logged_threads;
  long drops = 0, accepted = 0, delivered_after_drop = 0;
  std::map<int, bool> dropped_before;
  for (auto const& s : W.stmts)
  {
    if (s.call_done) logged_threads.insert(s.w);
    if (s.call_done && !s.accepted && !s.threw) { ++drops; dropped_before[s.w] = true; }
    if (s.accepted) { ++accepted; if (dropped_before[s.w]) ++delivered_after_drop; }
  }
  for (int p = 1; p <= 5; ++p) if (W.bursts_at[p]) r.label("burst_at_Y" + std::to_string(p));
  if (W.lbl_exit_with_pending) r.label("thread_exited_with_unwritten_statements");
  if (W.lbl_blocked) r.label("worker_blocked_at_least_once");
  if (W.lbl_stall) r.label("stall_in_clock_read");
  if (W.lbl_first_log_in_y1) r.label("first_log_of_a_thread_inside_Y1");
  for (auto const& n : W.notes)
  {
    if (n.find("Allocated a new SPSC queue") != std::string::npos) r.label("queue_grew");
    if (n.find("Dropped") != std::string::npos) r.label("drops_reported");
  }
  if (drops) r.label("statement_dropped");
  bool flush_with_others_pending = false;
  for (auto const& f : W.flushes) if (f.must_be_written.size() > 0) flush_with_others_pending = true;
  if (g_prop == "C08") r.nontrivial = drops >= 1 && delivered_after_drop >= 1;
  else if (g_prop == "C06") r.nontrivial = flush_with_others_pending && logged_threads.size() >= 2;
  else if (g_prop == "C09") r.nontrivial = W.lbl_blocked;
  else r.nontrivial = logged_threads.size() >= 2 && (W.lbl_exit_with_pending || W.lbl_blocked || W.bursts_at[2] || W.bursts_at[3] || W.bursts_at[4]);
}

bool probe_known_class(std::string const&, std::string&) { return false; }
} // namespace verif
