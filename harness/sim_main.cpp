// sim harness: the harness thread IS the quill backend (ManualBackendWorker::poll_one), frontend
// operations run on baton-driven worker threads, time and sleeps are virtual (engine/sim.h).
// One binary per queue flavour (compile-time FrontendOptions): -DSIM_QUEUE_TYPE=BoundedBlocking
// -DSIM_INITIAL_CAP=1024 -DSIM_MAX_CAP=1024. The property is selected with --param prop=Cxx.
//
// Properties decided here: C03 C05 C06 C08 C09 C10 C16 C17 C18 C20 (see DESIGN.md section 4).
#include "sim_oracles.h"

namespace
{
void op_first_log_then_known(World& W, int point);
void op_pair_then_tick(World& W, int point);

void burst_ops(World& W, int point)
{
  Choices& c = *W.c;
  if (W.burst_budget <= 0) return;
  // 0..3: nothing (what a shrunk stream selects)
  if (c.pick(5) != 4) return;
  unsigned n = 1 + c.pick(3);
  ++W.bursts_at[point];
  W.cur_point = point;
  for (unsigned k = 0; k < n && W.burst_budget > 0 && !W.r->failed; ++k)
  {
    --W.burst_budget;
    ++W.op_counter;
    if (is_prop("C18"))
    {
      switch (c.weighted({4, 3, 2, 1}))
      {
      case 0: op_bt_log(W, pick_worker(W), true, point); break;
      case 1: op_bt_plain(W, pick_worker(W), true, point); break;
      case 2: op_tick(W); break;
      default: op_bt_flush(W, pick_worker(W)); break;
      }
      continue;
    }
    if (is_prop("C17"))
    {
      switch (c.weighted({5, 2, 2, 2, 1, 1}))
      {
      case 0: op_log(W, pick_worker(W), true, point); break;
      case 1: op_remove_logger(W, pick_worker(W), false); break;
      case 2: op_exit_thread(W, pick_worker(W)); break;
      case 3: op_drop_sink_ref(W); break;
      case 4: op_remove_logger(W, pick_worker(W), true); break;
      default: { int wi = pick_worker(W); if (wi >= 0) op_retry(W, wi); break; }
      }
      continue;
    }
    if (is_prop("C20"))
    {
      switch (c.weighted({5, 3, 2, 1, 1, kBounded ? 0u : 3u, 1}))
      {
      case 6: op_flush(W, pick_worker(W), true, point); break;
      case 0: op_log(W, pick_worker(W), true, point); break;
      case 1: op_exit_thread(W, pick_worker(W)); break;
      case 2: { int nw = op_start_thread(W); if (nw >= 0) op_log(W, nw, true, point); break; }
      case 3: op_shrink(W, pick_worker(W)); break;
      case 4: op_thread_batch(W); break;
      default: op_shrink_chain_then_exit(W, point); break;
      }
      continue;
    }
    switch (c.weighted({6, 3, 2, 2, 2, 2, (is_prop("C05") || is_prop("C06")) ? 3u : 0u, is_prop("C16") ? 3u : 0u, is_prop("C05") ? 7u : 0u,
                        is_prop("C08") ? 1u : 0u}))
    {
    case 9:
      if (c.pick(2) == 1) op_bt_flush(W, pick_worker(W)); else { int wi = pick_worker(W); if (wi >= 0) op_bt_init(W, wi); }
      W.lbl_bt_control = true;
      break;
    case 8: op_pair_then_tick(W, point); break;
    case 0: op_log(W, pick_worker(W), true, point); break;
    case 1: op_tick(W); break;
    case 2:
      if (is_prop("C05")) op_log(W, pick_worker(W), true, point);
      else op_flush(W, pick_worker(W), true, point);
      break;
    case 3: { int nw = op_start_thread(W); if (nw >= 0) op_log(W, nw, true, point); break; }
    case 4: op_exit_thread(W, pick_worker(W)); break;
    case 5: { int wi = pick_worker(W); if (wi >= 0) op_retry(W, wi); break; }
    case 6: op_first_log_then_known(W, point); break;
    default: op_set_level(W, pick_worker(W)); break;
    }
  }
  W.cur_point = 0;
}

// generator aimed at the "first log of a thread between cache refresh and pass start" window: a NEW thread logs
// for the first time, time passes, a KNOWN thread logs or flushes, time passes (so both are older than the grace period)
void op_first_log_then_known(World& W, int point)
{
  int known = -1;
  for (size_t k = 0; k < W.workers.size(); ++k)
    if (W.workers[k].alive && W.workers[k].has_logged && !worker_busy(W, static_cast<int>(k))) { known = static_cast<int>(k); break; }
  if (known < 0) return;
  int nw = op_start_thread(W);
  if (nw < 0) return;
  op_log(W, nw, true, point, -1, -1, true);
  sim::core().vclock += W.grace_ns + 1 + W.c->pick(3);
  W.log_op("Tick(g+)");
  if (W.c->pick(2) == 1 || is_prop("C06")) op_flush(W, known, true, point); else op_log(W, known, true, point, -1, -1, true);
  sim::core().vclock += W.grace_ns + 1 + W.c->pick(3);
  W.log_op("Tick(g+)");
}

// generator aimed at "enqueues between the backend's reads of individual queues": two (or three) different known threads log
// one after the other, then more than the grace period passes, all inside one yield point of the backend's pass
void op_pair_then_tick(World& W, int point)
{
  std::vector<int> idle;
  for (size_t k = 0; k < W.workers.size(); ++k)
    if (W.workers[k].alive && !worker_busy(W, static_cast<int>(k))) idle.push_back(static_cast<int>(k));
  if (idle.size() < 2) { int nw = op_start_thread(W); if (nw >= 0) idle.push_back(nw); }
  if (idle.size() < 2) return;
  // a generated order over the idle workers (rotation + optional reversal)
  unsigned rot = W.c->pick(static_cast<uint32_t>(idle.size()));
  std::rotate(idle.begin(), idle.begin() + rot, idle.end());
  if (W.c->pick(2) == 1) std::reverse(idle.begin(), idle.end());
  unsigned n = 2 + W.c->pick(2);
  for (unsigned k = 0; k < n && k < idle.size() && !W.r->failed; ++k) op_log(W, idle[k], true, point, -1, -1, true);
  sim::core().vclock += W.grace_ns + W.c->pick(3);
  W.log_op("Tick(g..g+2)");
}

void sim_yield(int point)
{
  World* W = g_world;
  if (!W || !W->in_poll) return;
  if (point >= 1 && point <= 6) ++W->yields[point];
  if (point == 5) { W->idle_seen = true; W->exited_since_idle = 0; }
  if (W->draining) return;
  if (point == 6)
  {
    // Y6 may run under the logger registry lock: only operations that never take it (log through an existing logger,
    // non-blocking removal, thread exit, tick)
    if (!is_prop("C17") || W->burst_budget <= 0 || W->c->pick(3) != 2) return;
    ++W->bursts_at[6];
    W->cur_point = 6;
    unsigned n = 1 + W->c->pick(3);
    for (unsigned k = 0; k < n && W->burst_budget > 0 && !W->r->failed; ++k)
    {
      --W->burst_budget;
      ++W->op_counter;
      switch (W->c->weighted({4, 3, 1, 1}))
      {
      case 0: op_log(*W, pick_worker(*W), true, 6); break;
      case 1: op_remove_logger(*W, pick_worker(*W), false); break;
      case 2: op_tick(*W); break;
      default: op_exit_thread(*W, pick_worker(*W)); break;
      }
    }
    W->cur_point = 0;
    return;
  }
  if (point == 2 && W->force_pair_at_y2_hit > 0 && ++W->y2_hits_in_poll == W->force_pair_at_y2_hit)
  {
    W->force_pair_at_y2_hit = 0;
    W->cur_point = 2;
    ++W->bursts_at[2];
    op_pair_then_tick(*W, 2);
    W->cur_point = 0;
    return;
  }
  burst_ops(*W, point);
}

void op_poll(World& W, bool bursts)
{
  W.in_poll = true;
  W.idle_seen = false;
  W.y2_hits_in_poll = 0;
  W.burst_budget = bursts ? 8 : 0;
  ++W.polls;
  if (bursts) W.log_op("Poll");
  W.mbw->poll_one();
  W.in_poll = false;
}

// ------------------------------------------------------------------------------------------------------
// drain: grant retries, advance time beyond the grace period, poll, until everything is idle
// ------------------------------------------------------------------------------------------------------
bool drain(World& W)
{
  W.draining = true;
  size_t const max_rounds = 60 + 4 * W.stmts.size() + 4 * W.flushes.size();
  int idle_rounds_without_progress = 0;
  int stuck_rounds = 0; // consecutive rounds: not idle, no worker busy, nothing written, no error reported
  for (size_t round = 0; round < max_rounds && !W.r->failed; ++round)
  {
    for (size_t k = 0; k < W.workers.size(); ++k)
    {
      if (W.workers[k].alive && worker_busy(W, static_cast<int>(k)))
      {
        WState st = sim::grant(W.workers[k].w);
        after_state(W, static_cast<int>(k), st);
      }
    }
    sim::core().vclock += W.grace_ns + 1;
    long before = count_writes(W);
    size_t notes_before = W.notes.size();
    op_poll(W, false);
    bool progress = count_writes(W) != before;
    bool any_busy = false;
    for (size_t k = 0; k < W.workers.size(); ++k) if (W.workers[k].alive && worker_busy(W, static_cast<int>(k))) any_busy = true;
    if (W.idle_seen && !progress) ++idle_rounds_without_progress; else idle_rounds_without_progress = 0;
    // Every round advances the virtual clock by more than the grace period, so whatever is queued or buffered is old enough
    // to be written. A backend that still holds statements (it never reaches its idle branch), has no frontend thread to
    // wait for and reports no error, yet writes nothing for 40 rounds in a row, withholds accepted statements for ever.
    // (C03 cases without sink-filter changes only: there every processed statement shows as a write_log call, so "nothing
    // written" means "nothing processed"; filtered or stored backtrace statements are processed without a write)
    bool const every_processed_statement_is_written = is_prop("C03") && !W.lbl_sink_level_changed && !W.lbl_filter_added_late;
    if (every_processed_statement_is_written && !W.idle_seen && !progress && !any_busy && W.notes.size() == notes_before) ++stuck_rounds;
    else stuck_rounds = 0;
    if (stuck_rounds >= 40)
    {
      fail(W, "WITHHELD: the backend holds unwritten statements (it never becomes idle), no thread is blocked, the clock has advanced by " +
                std::to_string(stuck_rounds) + " grace periods and nothing was written or reported: accepted statements are never delivered");
      W.draining = false;
      return false;
    }
    if (!any_busy && idle_rounds_without_progress >= 3) { W.draining = false; return true; }
    if (any_busy && idle_rounds_without_progress >= 6)
    {
      // a worker is still blocked although the backend has been idle (queues and buffers empty, nothing written)
      // for several rounds with a retry granted each time: the stall state of C06 / C09
      for (size_t k = 0; k < W.workers.size(); ++k)
      {
        if (!W.workers[k].alive || !worker_busy(W, static_cast<int>(k))) continue;
        WInfo& x = W.workers[k];
        std::string what = x.pending == OpKind::Log
          ? "log call of " + std::to_string(W.stmts[x.pending_stmt].encoded) + " B (capacity " + std::to_string(kCap) + ")"
          : x.pending == OpKind::Flush ? std::string{"flush_log()"} : std::string{"control request"};
        fail(W, "STALL: worker " + std::to_string(k + 1) + " is still blocked in its " + what +
                  " while all queues and backend buffers are empty and the backend is idle (retried " +
                  std::to_string(x.w->sleeps_in_op) + " times)");
      }
      W.draining = false;
      return false;
    }
    // a backend that keeps reporting errors without writing anything never reaches its idle branch (C10 / F2)
    if (!W.idle_seen && !progress && W.notes.size() > notes_before && round > 30 + 2 * W.stmts.size())
    {
      fail(W, "LIVELOCK: the backend reports an error on every poll (" + std::to_string(W.notes.size()) + " notifications, last: " +
                esc(W.notes.back(), 80) + ") and neither writes anything nor becomes idle: a record is re-read for ever");
      W.draining = false;
      return false;
    }
  }
  W.draining = false;
  if (!W.r->failed) { W.r->inconclusive = true; W.r->message = "drain budget exceeded"; }
  return false;
}

// C16: sink-side settings changed while the program runs. Their effect on statements that are in flight is unspecified,
// so the change is made at a drained point (everything issued so far is written); every LATER statement is subject to it.
// Filter names are drawn so that a new filter sorts before, between or after the attached ones.
void op_sink_settings(World& W)
{
  if (W.in_poll || W.sinks.empty()) return;
  W.log_op("DrainIdle");
  if (!drain(W)) return;
  Choices& c = *W.c;
  int sk = static_cast<int>(c.pick(static_cast<uint32_t>(W.sinks.size())));
  SinkInfo& S = W.sinks[sk];
  if (c.pick(3) == 0)
  {
    int lvl = static_cast<int>(c.pick(10));
    if (lvl == 9) lvl = 0;
    S.raw->set_log_level_filter(static_cast<quill::LogLevel>(lvl));
    S.level_hist.emplace_back(W.op_counter, lvl);
    W.lbl_sink_level_changed = true;
    W.log_op("SetSinkLevel(s" + std::to_string(sk) + "," + kLevelCodes[lvl] + ")");
  }
  else
  {
    static char const kPrefix[] = {'a', 'f', 'g', 'z', '0'};
    uint32_t salt = 1 + c.pick(1000);
    std::string name = std::string{kPrefix[c.pick(5)]} + std::to_string(S.filter_salts.size()) + "_" + std::to_string(W.op_counter);
    S.raw->add_filter(std::make_unique<FnFilter>(name, salt));
    S.filter_salts.push_back(salt);
    S.filter_from.push_back(W.op_counter);
    W.lbl_filter_added_late = true;
    W.log_op("AddFilter(s" + std::to_string(sk) + "," + name + ")");
  }
}

// C09: after the backend is idle, a fitting statement must be accepted (dropping) / must not stall (blocking)
void op_drain_then_log(World& W)
{
  if (W.in_poll) return;
  W.log_op("DrainIdle");
  if (!drain(W)) return;
  int wi = pick_worker(W);
  if (wi < 0) wi = op_start_thread(W);
  if (wi < 0) return;
  size_t before = W.stmts.size();
  op_log(W, wi, false, 0);
  if (kDropping && W.stmts.size() > before)
  {
    Stmt const& s = W.stmts.back();
    if (s.call_done && !s.accepted && !s.threw && s.encoded <= kCap)
    {
      fail(W, "dropping queue rejected a fitting statement of " + std::to_string(s.encoded) + " B (capacity " + std::to_string(kCap) +
                ") although the thread's queue is empty and the backend is idle");
    }
  }
}

void build_world(World& W, Choices& c, Report& r)
{
  // ---- backend options ----
  quill::BackendOptions bo;
  bool tiny_buffers = is_prop("C16") || is_prop("C18");
  bo.transit_event_buffer_initial_capacity = tiny_buffers ? (1u << c.pick(2)) : (1u << c.pick(4)); // 1..2 / 1..8
  bo.transit_events_soft_limit = size_t{1} << c.pick(5);              // 1..16
  {
    unsigned soft_bits = 0;
    while ((size_t{1} << soft_bits) < bo.transit_events_soft_limit) ++soft_bits;
    bo.transit_events_hard_limit = size_t{1} << (soft_bits + c.pick(6 - soft_bits)); // soft..32
  }
  switch (c.pick(4))
  {
  case 0: bo.log_timestamp_ordering_grace_period = std::chrono::microseconds{1}; break;
  case 1: bo.log_timestamp_ordering_grace_period = std::chrono::microseconds{5}; break;
  case 2: bo.log_timestamp_ordering_grace_period = std::chrono::microseconds{50}; break;
  default: bo.log_timestamp_ordering_grace_period = std::chrono::microseconds{(is_prop("C05") || is_prop("C18")) ? 1 : 0}; break;
  }
  bo.sink_min_flush_interval = std::chrono::milliseconds{c.pick(3) == 2 ? 200 : 0};
  bo.check_backend_singleton_instance = false;
  bo.error_notifier = [](std::string const& m) { g_world->notes.push_back(m); };
  W.bo = bo;
  if (is_prop("C05")) W.stalls_enabled = c.pick(3) == 2;
  W.grace_ns = static_cast<uint64_t>(bo.log_timestamp_ordering_grace_period.count()) * 1000ull;

  // ---- sinks and loggers ----
  if (is_prop("C17"))
  {
    unsigned n0 = 1 + c.pick(2);
    for (unsigned k = 0; k < n0; ++k) make_sink(W);
    op_create_logger(W);
    if (c.pick(2) == 1) op_create_logger(W);
  }
  else
  {
    unsigned nsinks = is_prop("C16") ? 2 + c.pick(2) : 1 + c.pick(3);
    for (unsigned k = 0; k < nsinks; ++k)
    {
      bool ov = is_prop("C16") && k == 1;
      int idx = make_sink(W, ov ? std::optional<quill::PatternFormatterOptions>{quill::PatternFormatterOptions{
                                    "OV|%(log_level_short_code)|%(message)", "%H:%M:%S.%Qns", quill::Timezone::GmtTime, false}}
                                : std::nullopt);
      SinkInfo& S = W.sinks[idx];
      if (is_prop("C16"))
      {
        S.level_filter = static_cast<int>(c.pick(10));
        if (S.level_filter == 9) S.level_filter = 0;
        S.raw->set_log_level_filter(static_cast<quill::LogLevel>(S.level_filter));
        unsigned nf = c.pick(3);
        for (unsigned f = 0; f < nf; ++f)
        {
          uint32_t salt = 1 + c.pick(1000);
          S.filter_salts.push_back(salt);
          S.filter_from.push_back(0);
          S.raw->add_filter(std::make_unique<FnFilter>("f" + std::to_string(f), salt));
        }
      }
      if (is_prop("C10"))
      {
        // throw plan: the k-th write_log / flush_sink call throws a std::exception-derived error
        unsigned nt = c.pick(4);
        for (unsigned t = 0; t < nt; ++t)
        {
          if (c.pick(3) == 2) S.raw->plan.flush_calls.insert(1 + c.pick(30));
          else S.raw->plan.write_calls.insert(1 + c.pick(20));
        }
      }
    }
    unsigned nloggers = 1 + c.pick(3);
    for (unsigned k = 0; k < nloggers; ++k)
    {
      LoggerInfo L;
      L.name = "lg" + std::to_string(k);
      unsigned mask = 1 + c.pick((1u << nsinks) - 1);
      if (is_prop("C16") && c.pick(3) != 0) mask = (1u << nsinks) - 1; // usually all sinks: they must be able to disagree
      std::vector<std::shared_ptr<quill::Sink>> sv;
      for (unsigned b = 0; b < nsinks; ++b) if (mask & (1u << b)) { L.sinks.push_back(static_cast<int>(b)); sv.push_back(W.sinks[b].user_ref); }
      if (!is_prop("C16")) L.pat = static_cast<int>(c.pick(3));
      char const* pat = is_prop("C16") ? "%(log_level)|%(log_level_short_code)|%(message)" : kLoggerPatterns[L.pat];
      // C03: a third of the loggers beyond the first run on a user clock that is behind, equal to or ahead of the wall clock
      if (is_prop("C03") && k >= 1 && k < 4 && c.pick(3) == 2)
      {
        static int64_t const kOff[] = {3600ll * 1000000000ll, -86400ll * 1000000000ll, 0, 1000ll * 86400ll * 1000000000ll};
        g_user_clocks[k].offset_ns = kOff[c.pick(4)];
        L.user_clock = true;
        r.label("logger_on_user_clock");
        if (g_user_clocks[k].offset_ns > 0) r.label("user_clock_ahead_of_wall_clock");
        L.ptr = SFrontend::create_or_get_logger(L.name, std::move(sv),
                                                quill::PatternFormatterOptions{pat, "%H:%M:%S.%Qns", quill::Timezone::GmtTime, false},
                                                quill::ClockSourceType::User, &g_user_clocks[k]);
      }
      else
      L.ptr = SFrontend::create_or_get_logger(L.name, std::move(sv),
                                              quill::PatternFormatterOptions{pat, "%H:%M:%S.%Qns", quill::Timezone::GmtTime, false},
                                              quill::ClockSourceType::System);
      if (is_prop("C16"))
      {
        L.level = static_cast<int>(c.pick(10));
        if (L.level == 9) L.level = 10;
        L.ptr->set_log_level(static_cast<quill::LogLevel>(L.level));
      }
      W.loggers.push_back(L);
    }
  }
  std::ostringstream cfg;
  cfg << "prop=" << g_prop << " queue=" << static_cast<int>(SimFrontendOptions::queue_type) << " cap=" << kInitCap << "/" << kCap
      << " tbuf=" << bo.transit_event_buffer_initial_capacity << " soft=" << bo.transit_events_soft_limit
      << " hard=" << bo.transit_events_hard_limit << " grace_us=" << bo.log_timestamp_ordering_grace_period.count()
      << " flush_ms=" << bo.sink_min_flush_interval.count() << " sinks=" << W.sinks.size() << " loggers=";
  for (auto const& L : W.loggers) { cfg << "["; for (int s : L.sinks) cfg << s; cfg << "]"; if (is_prop("C16")) cfg << "@" << kLevelCodes[L.level]; else cfg << "p" << L.pat; if (L.user_clock) cfg << "u"; }
  if (is_prop("C16"))
  {
    cfg << " sinkfilters=";
    for (auto const& S : W.sinks) cfg << kLevelCodes[S.level_filter] << "+" << S.filter_salts.size() << (S.has_override ? "ov " : " ");
  }
  if (is_prop("C10"))
  {
    cfg << " throwplans=";
    for (auto const& S : W.sinks) { cfg << "w{"; for (long k : S.raw->plan.write_calls) cfg << k << ","; cfg << "}f{"; for (long k : S.raw->plan.flush_calls) cfg << k << ","; cfg << "} "; }
  }
  r.line(cfg.str());
}

void top_level_op(World& W, Choices& c)
{
  if (is_prop("C18"))
  {
    switch (c.weighted({4, 6, 4, 3, 2, 2, 1, 1}))
    {
    case 7: if (alive_count(W) >= 1) op_exit_thread(W, pick_worker(W)); break;
    case 0: op_poll(W, true); break;
    case 1: op_bt_log(W, pick_worker(W), false, 0); break;
    case 2: op_bt_plain(W, pick_worker(W), false, 0); break;
    case 3: op_bt_flush(W, pick_worker(W)); break;
    case 4: { int wi = pick_worker(W); if (wi < 0) wi = op_start_thread(W); if (wi >= 0) op_bt_init(W, wi); break; }
    case 5: if (alive_count(W) < 3) op_start_thread(W); break;
    default: op_tick(W); break;
    }
    return;
  }
  if (is_prop("C17"))
  {
    switch (c.weighted({5, 8, 3, 2, 2, 2, 2, 1, 1, 2}))
    {
    case 9: op_remove_then_flush(W); break;
    case 0: op_poll(W, true); break;
    case 1: op_log(W, pick_worker(W), false, 0); break;
    case 2: op_create_logger(W); break;
    case 3: op_remove_logger(W, pick_worker(W), false); break;
    case 4: op_remove_logger(W, pick_worker(W), true); break;
    case 5: if (c.pick(2)) op_drop_sink_ref(W); else make_sink(W); break;
    case 6: op_start_thread(W); break;
    case 7: op_exit_thread(W, pick_worker(W)); break;
    default: op_flush(W, pick_worker(W), false, 0); break;
    }
    return;
  }
  if (is_prop("C20"))
  {
    switch (c.weighted({5, 6, 2, 3, 2, 2, 1, 2, kBounded ? 0u : 1u}))
    {
    case 8: op_shrink_chain_then_pair(W); break; // 2..4 shrinks in a row, then this thread and another one log
    case 7: op_flush(W, pick_worker(W), false, 0); break; // the backend also reclaims right after a Flush event
    case 0: op_poll(W, true); break;
    case 1: op_log(W, pick_worker(W), false, 0); break;
    case 2: op_start_thread(W); break;
    case 3: op_exit_thread(W, pick_worker(W)); break;
    case 4: op_thread_batch(W); break;
    case 5: op_shrink(W, pick_worker(W)); break;
    default: op_tick(W); break;
    }
    return;
  }
  switch (c.weighted({5, 8, 2, 2, 2, 3, 1, is_prop("C09") ? 2u : 0u, is_prop("C16") ? 3u : 0u, is_prop("C05") ? 2u : 0u, is_prop("C16") ? 2u : (is_prop("C03") ? 1u : 0u),
                      is_prop("C08") ? 2u : 0u, (is_prop("C05") && !kBounded) ? 2u : 0u,
                      ((is_prop("C03") || is_prop("C06") || is_prop("C09")) && !kBounded) ? 1u : 0u}))
  {
  case 13:
  {
    // unbounded flavours: the thread re-allocates its queue (once, or twice in a row, which leaves an empty buffer in the chain)
    int wi = pick_worker(W);
    if (wi >= 0 && !worker_busy(W, wi) && W.workers[wi].has_logged)
    {
      op_shrink(W, wi);
      if (!W.r->failed && c.pick(2) == 1) op_shrink(W, wi, 64);
    }
    break;
  }
  case 12: op_shrink_chain_then_pair(W); break;
  case 11:
    // C08: backtrace control requests (init_backtrace / flush_backtrace) are re-submitted by the frontend until the queue
    // takes them: never dropped, never counted as dropped. No backtrace statements are logged, so they produce no output.
    if (c.pick(2) == 1) op_bt_init(W, pick_worker(W)); else op_bt_flush(W, pick_worker(W));
    W.lbl_bt_control = true;
    break;
  case 10: op_sink_settings(W); break;
  case 9:
    // directed: the backend is idle (every queue empty), then during ONE pass, between the reads of two queues, several
    // threads log and more than the grace period passes
    W.log_op("DrainIdle");
    if (drain(W))
    {
      W.force_pair_at_y2_hit = 1 + static_cast<int>(c.pick(static_cast<uint32_t>(std::max(1, alive_count(W)))));
      op_poll(W, true);
      W.force_pair_at_y2_hit = 0;
    }
    break;
  case 0: op_poll(W, true); break;
  case 1: op_log(W, pick_worker(W), false, 0); break;
  case 2: op_start_thread(W); break;
  case 3: op_tick(W); break;
  case 4: op_exit_thread(W, pick_worker(W)); break;
  case 5:
    if (is_prop("C05")) op_log(W, pick_worker(W), false, 0);
    else op_flush(W, pick_worker(W), false, 0);
    break;
  case 6: { int wi = pick_worker(W); if (wi >= 0) op_retry(W, wi); break; }
  case 7: op_drain_then_log(W); break;
  default: op_set_level(W, pick_worker(W)); break;
  }
}

void classify(World& W, Report& r)
{
  r.line("ops: " + W.opslog);
  {
    std::ostringstream o;
    o << "stmts=" << W.stmts.size() << " flushes=" << W.flushes.size() << " writes=" << count_writes(W) << " polls=" << W.polls
      << " yields=" << W.yields[1] << "/" << W.yields[2] << "/" << W.yields[3] << "/" << W.yields[4] << "/" << W.yields[5]
      << " bursts=" << W.bursts_at[1] << "/" << W.bursts_at[2] << "/" << W.bursts_at[3] << "/" << W.bursts_at[4] << "/" << W.bursts_at[5] << "/" << W.bursts_at[6]
      << " notes=" << W.notes.size() << " threads=" << W.workers.size();
    r.line(o.str());
  }
  std::set<int> logged_threads;
  long drops = 0, delivered_after_drop = 0, faulty = 0, later_after_fault = 0;
  std::map<int, bool> dropped_before, fault_before;
  bool dyn = false, stat = false;
  for (auto const& s : W.stmts)
  {
    if (s.call_done) logged_threads.insert(s.w);
    bool macro = s.kind == SKind::MacroStatic || s.kind == SKind::MacroDynamic;
    if (s.call_done && !s.accepted && !s.threw && !macro) { ++drops; dropped_before[s.w] = true; }
    if (s.accepted && dropped_before[s.w]) ++delivered_after_drop;
    if (s.faulty && s.accepted) { ++faulty; fault_before[s.w] = true; }
    else if (s.accepted && fault_before[s.w]) ++later_after_fault;
    if (s.kind == SKind::MacroDynamic && s.accepted) dyn = true;
    if (s.kind == SKind::MacroStatic && s.accepted) stat = true;
  }
  for (int p = 1; p <= 6; ++p) if (W.bursts_at[p]) r.label("burst_at_Y" + std::to_string(p));
  if (W.lbl_exit_with_pending) r.label("thread_exited_with_unwritten_statements");
  if (W.lbl_bt_control) r.label("backtrace_control_requests");
  if (W.lbl_filter_added_late) r.label("sink_filter_added_after_statements");
  if (W.lbl_sink_level_changed) r.label("sink_level_filter_changed_after_statements");
  if (W.lbl_blocked) r.label("worker_blocked_at_least_once");
  if (W.lbl_stall) r.label("stall_in_clock_read");
  if (W.lbl_first_log_in_y1) r.label("first_log_of_a_thread_inside_Y1");
  if (W.lbl_removal_with_queued) r.label("removal_with_statements_queued");
  if (W.lbl_recreated) r.label("logger_name_recreated");
  for (auto const& n : W.notes)
  {
    if (n.find("Allocated a new SPSC queue") != std::string::npos) r.label("queue_grew");
    if (n.find("Dropped") != std::string::npos) r.label("drops_reported");
  }
  if (drops) r.label("statement_dropped");
  if (faulty) r.label("unformattable_statement");
  bool sink_threw = false;
  for (auto const& e : W.journal) if (e.kind == 'X') sink_threw = true;
  if (sink_threw) r.label("sink_write_threw");
  if (g_nonstd_sink_throws) r.label("sink_threw_non_std_exception");
  bool flush_with_others = false;
  for (auto const& f : W.flushes) for (size_t si : f.must_be_written) if (W.stmts[si].w != f.w) flush_with_others = true;
  if (flush_with_others) r.label("flush_with_other_threads_statements");
  bool sinks_disagree = false;
  if (is_prop("C16"))
  {
    for (auto const& s : W.stmts)
    {
      if (!s.accepted) continue;
      int yes = 0, no = 0;
      for (int sk : W.loggers[s.logger].sinks) { if (sink_accepts(W, sk, s, stmt_message(s))) ++yes; else ++no; }
      if (yes && no) sinks_disagree = true;
    }
    if (sinks_disagree) r.label("sinks_disagree_on_a_statement");
    if (dyn && stat) r.label("dynamic_and_static_statements");
  }
  bool bt_mix = std::find(r.labels.begin(), r.labels.end(), "bt_wrapped_and_partial_cycles") != r.labels.end();
  if (is_prop("C08")) r.nontrivial = drops >= 1 && delivered_after_drop >= 1;
  else if (is_prop("C06")) r.nontrivial = flush_with_others && logged_threads.size() >= 2;
  else if (is_prop("C09")) r.nontrivial = W.lbl_blocked || drops > 0;
  else if (is_prop("C10")) r.nontrivial = (faulty >= 1 || sink_threw) && later_after_fault >= 1 && !W.flushes.empty();
  else if (is_prop("C16")) r.nontrivial = dyn && stat && sinks_disagree;
  else if (is_prop("C17")) r.nontrivial = W.lbl_removal_with_queued && W.lbl_recreated;
  else if (is_prop("C18")) r.nontrivial = bt_mix;
  else if (is_prop("C20")) r.nontrivial = W.lbl_exit_with_pending || W.max_exited_between_idles >= 64 || W.lbl_shrink_between;
  else r.nontrivial = logged_threads.size() >= 2 && (W.lbl_exit_with_pending || W.lbl_blocked || W.bursts_at[2] || W.bursts_at[3] || W.bursts_at[4]);
}
} // namespace

namespace verif
{
HarnessInfo harness_info() { return {"sim", true, 900, 30000}; }

void harness_init(Params const& p)
{
  g_params = p;
  g_prop = param_str(p, "prop", "C03");
  g_excl_f1 = excluded(p, "sim.unpublished_reader_remainder_stall");
  g_excl_f10 = excluded(p, "sim.first_log_between_cache_refresh_and_ts_now");
  g_excl_f11 = excluded(p, "sim.drops_of_exited_thread_unreported");
  g_excl_f2 = excluded(p, "sim.nonstd_exception_from_formatter");
  g_bt_throws = param_int(p, "bt_throws", 0) != 0;
  g_excl_f3 = excluded(p, "sim.backtrace_index_not_reset");
  g_excl_f9 = excluded(p, "sim.invalid_context_counter_wraps_at_256");
}

void run_case(Choices& c, Report& r)
{
  static World W; // one case per (forked) process
  g_world = &W;
  W.c = &c;
  W.r = &r;
  sim::g_active = true;

  build_world(W, c, r);

  W.mbw = quill::Backend::acquire_manual_backend_worker();
  W.mbw->init(W.bo);
  quill::detail::verif_yield = &sim_yield;

  // ---- the generated program ----
  unsigned n_ops = 1 + c.pick(120);
  for (unsigned i = 0; i < n_ops && !r.failed && !r.inconclusive; ++i)
  {
    ++W.op_counter;
    top_level_op(W, c);
  }

  // ---- drain and judge ----
  // A quarter of the cases end the way a program ends: the backend's own exit path (Backend::stop() / the manual worker's
  // destructor -> BackendWorker::_exit()) has to deliver whatever is still queued or cached, including statements that
  // are younger than the grace period at that moment. Only taken when no call is in flight (a blocked call has not
  // completed, so nothing is claimed for it, and nobody could ever grant its retries again).
  bool any_busy = false;
  for (size_t k = 0; k < W.workers.size(); ++k) if (W.workers[k].alive && worker_busy(W, static_cast<int>(k))) any_busy = true;
  bool stop_end = !r.failed && !r.inconclusive && c.pick(4) == 3 && !any_busy && !is_prop("C09");
  bool drained = false;
  if (stop_end)
  {
    long unwritten = 0;
    uint64_t youngest = 0;
    for (auto const& st : W.stmts)
      if (st.call_done && st.accepted && !st.faulty && !is_bt_kind(st.kind) && !stmt_written(W, st)) { ++unwritten; youngest = std::max<uint64_t>(youngest, st.ts); }
    switch (c.pick(4))
    {
    case 0: break;
    case 1: sim::core().vclock += 1; break;
    case 2: sim::core().vclock += W.grace_ns / 2; break;
    default: sim::core().vclock += W.grace_ns + 1; break;
    }
    r.label("ended_by_backend_exit_path");
    if (unwritten) r.label("backend_exit_with_unwritten_statements");
    if (unwritten && W.grace_ns > 0 && youngest + W.grace_ns > sim::core().vclock) r.label("backend_exit_with_statements_younger_than_grace");
    W.log_op("StopBackend(" + std::to_string(unwritten) + " unwritten)");
    W.draining = true;
    W.in_poll = false; // no bursts inside the exit path
    W.mbw->~ManualBackendWorker(); // == BackendWorker::_exit(); the forked case ends with _exit(0), the object is not used again
    W.draining = false;
    drained = true;
  }
  else drained = !r.failed && !r.inconclusive && drain(W);
  if (drained)
  {
    if (!stop_end)
    {
      // two more idle polls so that drop reports and reclamation had their chance
      W.draining = true;
      op_poll(W, false);
      op_poll(W, false);
      W.draining = false;
    }
    if (is_prop("C18")) oracle_backtrace(W);
    else oracle_delivery(W);
    if (!r.failed) oracle_flushes(W);
    if (!r.failed && is_prop("C08")) oracle_drops(W);
    if (!r.failed && is_prop("C20")) oracle_contexts(W);
    if (!r.failed && is_prop("C10")) oracle_notes(W);
    if (!r.failed && is_prop("C17")) oracle_sinks(W);
  }
  classify(W, r);
}

bool probe_known_class(std::string const&, std::string&) { return false; }
} // namespace verif
