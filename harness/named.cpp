// C19 — Named args give matching text, ordered key/value pairs, one JSON object per line.
// Domain: templates as token sequences over {literal, "{{", "}}", "{name}", "{name:spec}"} x typed argument
//         signatures x values x first-seen orders of up to 6 templates (the per-template cache) x LOGJ_ call sites.
// Oracle: the positional twin is known by construction and evaluated with fmtquill::format in the harness BEFORE
//         the call (plus an independent 5-line sanitiser); the JSON file is read back and parsed by a strict JSON
//         object parser written here. The LOGJ_ macro table (k = 0..26) is compared exhaustively once per process.
// The harness thread is the backend (ManualBackendWorker): log, then poll until empty.
#include "../engine/harness.h"

#include <algorithm>
#include <array>
#include <atomic>
#include <bitset>
#include <cassert>
#include <cerrno>
#include <chrono>
#include <cinttypes>
#include <climits>
#include <cmath>
#include <condition_variable>
#include <csignal>
#include <cstdarg>
#include <cstddef>
#include <cstdint>
#include <cstdio>
#include <cstdlib>
#include <cstring>
#include <ctime>
#include <deque>
#include <exception>
#include <filesystem>
#include <functional>
#include <initializer_list>
#include <iterator>
#include <limits>
#include <locale>
#include <map>
#include <memory>
#include <mutex>
#include <new>
#include <numeric>
#include <optional>
#include <set>
#include <sstream>
#include <stdexcept>
#include <string>
#include <string_view>
#include <system_error>
#include <thread>
#include <tuple>
#include <type_traits>
#include <typeinfo>
#include <unordered_map>
#include <unordered_set>
#include <utility>
#include <variant>
#include <vector>

#include <fcntl.h>
#include <sys/stat.h>
#include <sys/syscall.h>
#include <sys/types.h>
#include <unistd.h>

// The per-template cache (BackendWorker::_named_args_templates) is private and lives as long as the process. A case
// must be a pure function of its choices, so the cache is emptied at the start of every case; that needs access to
// two private members (ManualBackendWorker::_backend_worker, BackendWorker::_named_args_templates). All std headers
// are included above, so only quill's own access labels are affected. Nothing under /repo is changed.
#define private public
#include "quill/Backend.h"
#include "quill/Frontend.h"
#include "quill/LogMacros.h"
#include "quill/Logger.h"
#include "quill/UserClockSource.h"
#include "quill/sinks/JsonSink.h"
#include "quill/sinks/Sink.h"
#undef private

using namespace verif;

// ASan keeps every distinct allocation/free stack for ever. Below run_case the frames belong to rapidcheck (built
// without frame pointers), so the fast unwinder produces a different junk tail for almost every case and, with the
// many small allocations of this harness, the stack depot grows by ~15 MB/s (measured; the plain build stays at
// 30 MB). Six frames keep the quill/harness part of every allocation stack and bound the depot. A value given in
// the ASAN_OPTIONS environment variable still overrides this default; without ASan the function is never called.
extern "C" char const* __asan_default_options() { return "malloc_context_size=6"; }

namespace
{
// known-finding classes ----------------------------------------------------------------------------
// F4: a "}}" token directly after a placeholder token ("{a}}}", "{a:>4}}}"). Determined by exhaustive
//     enumeration of all token sequences up to length 5 over {lit, "{{", "}}", "{a}", "{b:>4}"}: every failing
//     sequence contains (placeholder, "}}") adjacent, every sequence containing it fails; "{{" directly before a
//     placeholder, "}}" directly before one and "{{" directly after one are all handled correctly.
constexpr char const* kClsF4 = "named.escaped_close_after_placeholder";
// F5: an argument value containing the three bytes "\x01\x02\x03" (QUILL_MAGIC_SEPARATOR)
constexpr char const* kClsF5 = "named.value_contains_separator";
// new: an argument value containing '\n' (allowed through by check_printable_char) is written raw into the JSON
//      line, so one statement occupies two lines of the JSON file
constexpr char const* kClsNl = "named.newline_in_value";

Params g_params;
bool g_excl_f4 = false, g_excl_f5 = false, g_excl_nl = false;
// F24: the JSON object of a LOG_RUNTIME_METADATA statement carries "{}" as its "message" member instead of the original
// template (the backend replaces the statement's metadata by one it makes up from file, line and function)
constexpr char const* kClsF24 = "named.runtime_metadata_json_template";
bool g_excl_f24 = false;

// ---- quill objects (process lifetime) ----
quill::ManualBackendWorker* g_mbw = nullptr;
quill::detail::BackendWorker* g_bw = nullptr;
quill::Logger* g_lg[2] = {nullptr, nullptr};
quill::Logger* g_lg_bt = nullptr; // same sinks, backtrace initialised and never flushed: its statements are stored, not written
quill::Logger* g_lg_err = nullptr; // a logger with a sink of its own that records nothing: target of the failing disturber
long g_expected_format_errors = 0;
// a named-argument statement whose SECOND value cannot be formatted (:d for a string): the first value and a separator
// are produced before the failure. quill reports it and writes an error text; the NEXT named-argument statement must be
// unaffected
constexpr quill::MacroMetadata kFailNamedMd{"named_err.cpp:9", "err_fn", "failing {first} then {second:d} end", nullptr,
                                            quill::LogLevel::Info, quill::MacroMetadata::Event::Log};
struct NullSink final : quill::Sink
{
  void write_log(quill::MacroMetadata const*, uint64_t, std::string_view, std::string_view, std::string const&, std::string_view, quill::LogLevel,
                 std::string_view, std::string_view, std::vector<std::pair<std::string, std::string>> const*, std::string_view,
                 std::string_view) override {}
  void flush_sink() override {}
};
// a named-argument statement at backtrace level: the backend formats it, fills the named args of the (reused) transit
// event slot and moves a COPY into the backtrace storage -- nothing may be left behind in the slot
constexpr quill::MacroMetadata kBtNamedMd{"named_bt.cpp:7", "bt_fn", "bt {host} port {port} try {attempt}", nullptr,
                                          quill::LogLevel::Backtrace, quill::MacroMetadata::Event::Log};
char const* const kLoggerName[2] = {"named_a", "lgB"};
std::shared_ptr<quill::Sink> g_rec_sink, g_json_sink;
std::string g_dir, g_json_path;
int g_json_fd = -1;
std::vector<std::string> g_notifier_msgs;
std::string g_tid;
std::string g_macro_table_error;
std::string g_init_error;

struct Clock final : quill::UserClockSource
{
  uint64_t t{1700000000000000000ull};
  uint64_t now() const override { return t; }
};
Clock g_clock;

struct Rec
{
  quill::MacroMetadata const* md{nullptr};
  uint64_t ts{0};
  std::string tid, logger, level_desc, msg, stmt, fmt, file_name, line;
  bool has_named{false};
  std::vector<std::pair<std::string, std::string>> named;
};
std::vector<Rec> g_recs;

class RecSink final : public quill::Sink
{
public:
  RecSink() = default;

protected:
  void write_log(quill::MacroMetadata const* md, uint64_t ts, std::string_view thread_id, std::string_view /*tn*/,
                 std::string const& /*pid*/, std::string_view logger_name, quill::LogLevel /*lvl*/,
                 std::string_view level_desc, std::string_view /*short*/,
                 std::vector<std::pair<std::string, std::string>> const* named_args, std::string_view log_message,
                 std::string_view log_statement) override
  {
    Rec x;
    x.md = md;
    x.ts = ts;
    x.tid.assign(thread_id);
    x.logger.assign(logger_name);
    x.level_desc.assign(level_desc);
    x.msg.assign(log_message);
    x.stmt.assign(log_statement);
    x.fmt = md->message_format();
    x.file_name.assign(md->file_name());
    x.line = md->line();
    x.has_named = named_args != nullptr;
    if (named_args) x.named = *named_args;
    g_recs.push_back(std::move(x));
  }
  void flush_sink() override {}
};

// ---- independent sanitiser: BackendOptions::check_printable_char's documented default ----
std::string sanitize(std::string const& s)
{
  static char const hex[] = "0123456789ABCDEF";
  std::string o;
  for (char ch : s)
  {
    unsigned char c = static_cast<unsigned char>(ch);
    if ((c >= 0x20 && c <= 0x7e) || c == '\n') o += ch;
    else { o += "\\x"; o += hex[c >> 4]; o += hex[c & 15]; }
  }
  return o;
}

// ---- typed argument catalog ----
enum Ty : uint8_t { T_INT, T_ULL, T_DBL, T_BOOL, T_CHAR, T_STR, T_SV, T_CSTR };
char const* const kTyName[] = {"int", "ull", "double", "bool", "char", "string", "string_view", "cstr"};
bool is_stringish(Ty t) { return t == T_CHAR || t == T_STR || t == T_SV || t == T_CSTR; }

struct Val
{
  Ty ty{T_INT};
  long long i{0};
  unsigned long long u{0};
  double d{0};
  bool b{false};
  char c{'a'};
  std::string s;
};

template <class T> struct TyOf;
template <> struct TyOf<int> { static constexpr Ty ty = T_INT; static int get(Val const& v) { return static_cast<int>(v.i); } };
template <> struct TyOf<unsigned long long> { static constexpr Ty ty = T_ULL; static unsigned long long get(Val const& v) { return v.u; } };
template <> struct TyOf<double> { static constexpr Ty ty = T_DBL; static double get(Val const& v) { return v.d; } };
template <> struct TyOf<bool> { static constexpr Ty ty = T_BOOL; static bool get(Val const& v) { return v.b; } };
template <> struct TyOf<char> { static constexpr Ty ty = T_CHAR; static char get(Val const& v) { return v.c; } };
template <> struct TyOf<std::string> { static constexpr Ty ty = T_STR; static std::string get(Val const& v) { return v.s; } };
template <> struct TyOf<std::string_view> { static constexpr Ty ty = T_SV; static std::string_view get(Val const& v) { return std::string_view{v.s}; } };
template <> struct TyOf<char const*> { static constexpr Ty ty = T_CSTR; static char const* get(Val const& v) { return v.s.c_str(); } };

struct StmtOracle
{
  std::string msg;               // fmtquill::format(twin, args...) at the call site
  std::vector<std::string> vals; // fmtquill::format("{:spec_i}", arg_i)
  bool enqueued{false};
  bool rt_vetoed{false}; // the runtime-metadata form was asked for but falls into the known class F5 (see run_impl)
  std::string harness_error;
};

// LOG_RUNTIME_METADATA form of a statement: file, line and function travel as three more arguments behind separators and
// the level is given at run time (set by the statement loop right before the call, cleared after it)
struct RuntimeForm
{
  bool on{false};
  quill::MacroMetadata const* md{nullptr};
  quill::LogLevel level{quill::LogLevel::Info};
};
RuntimeForm g_rt;
char const* const kRtFile = "rt_named.cpp";
int const kRtLine = 4711;
char const* const kRtFunc = "rt_fn";

using LogFn = void (*)(quill::Logger*, quill::MacroMetadata const*, std::string const&,
                       std::vector<std::string> const&, std::vector<Val> const&, StmtOracle&);

template <class... Ts> struct Sig
{
  template <size_t... Is>
  static void run_impl(quill::Logger* lg, quill::MacroMetadata const* md, std::string const& twin,
                       std::vector<std::string> const& vfmt, std::vector<Val> const& vals, StmtOracle& o,
                       std::index_sequence<Is...>)
  {
    std::tuple<Ts...> args{TyOf<Ts>::get(vals[Is])...};
    try
    {
      o.msg = std::apply([&](auto const&... a) { return fmtquill::format(fmtquill::runtime(twin), a...); }, args);
      o.vals = std::vector<std::string>{fmtquill::format(fmtquill::runtime(vfmt[Is]), std::get<Is>(args))...};
    }
    catch (std::exception const& e)
    {
      o.harness_error = std::string{"harness: call-site formatting threw: "} + e.what();
      return;
    }
    // known finding F5 (the backend splits the formatted text at the 3-byte separator): in the runtime-metadata form the
    // split also hits a separator that only forms in the MESSAGE (adjacent values "\x01" "\x02\x03"); while F5 is excluded
    // such a statement is logged in the ordinary form instead
    if (g_rt.on && g_excl_f5 && o.msg.find("\x01\x02\x03") != std::string::npos) { g_rt.on = false; o.rt_vetoed = true; }
    if (g_rt.on)
      o.enqueued = std::apply(
        [&](auto&... a) { return lg->template log_statement<false, true>(g_rt.level, g_rt.md, a..., kRtFile, kRtLine, kRtFunc); }, args);
    else
      o.enqueued = std::apply(
        [&](auto&... a) { return lg->template log_statement<false, false>(quill::LogLevel::None, md, a...); }, args);
  }
  static void run(quill::Logger* lg, quill::MacroMetadata const* md, std::string const& twin,
                  std::vector<std::string> const& vfmt, std::vector<Val> const& vals, StmtOracle& o)
  {
    run_impl(lg, md, twin, vfmt, vals, o, std::index_sequence_for<Ts...>{});
  }
};

struct SigEntry
{
  std::vector<Ty> types;
  LogFn fn;
};
template <class... Ts> SigEntry mk() { return SigEntry{std::vector<Ty>{TyOf<Ts>::ty...}, &Sig<Ts...>::run}; }

using S = std::string;
using SV = std::string_view;
using CS = char const*;
using ULL = unsigned long long;

std::vector<SigEntry> const& sigs()
{
  static std::vector<SigEntry> const v = {
    mk<>(),                                              // 0
    mk<int>(),                                           // 1
    mk<S>(),                                             // 2
    mk<int, S>(),                                        // 3
    mk<double, CS>(),                                    // 4
    mk<double, ULL>(),                                   // 5  no string-related argument: sanitiser off
    mk<SV, ULL, bool>(),                                 // 6
    mk<char, int, double>(),                             // 7
    mk<S, S, S>(),                                       // 8
    mk<int, double, S, bool>(),                          // 9
    mk<CS, SV, S, char, int>(),                          // 10
    mk<int, int, ULL, double, double, bool>(),           // 11 no string-related argument
    mk<S, int, SV, double, CS, bool, char>(),            // 12
    mk<ULL, S, int, S, double, SV, bool, int>(),         // 13
    mk<int, S, double, char, bool, ULL, CS, SV, int>(),  // 14
    mk<S, int, double, SV, bool, CS, ULL, char, S, int>(), // 15 arity 10
    mk<int, int, int, int, int, int, int, int, int, int>(), // 16 arity 10, no string-related argument
  };
  return v;
}

// specs valid for each type; index 0 is "no spec"
std::vector<std::string> const& specs_for(Ty t)
{
  static std::vector<std::string> const si = {"", ":d", ":>8", ":05", ":x", ":#x", ":+", ":<4", ":^6", ":08b", ":*>5", "::>6"};
  static std::vector<std::string> const su = {"", ":d", ":>22", ":x", ":#X", ":o", ":020", ":<3"};
  static std::vector<std::string> const sd = {"", ":.2f", ":10.3f", ":e", ":g", ":+.1f", ":08.2f", ":.0f", ":>12"};
  static std::vector<std::string> const sb = {"", ":d", ":>6", ":s", ":<7"};
  static std::vector<std::string> const sc = {"", ":c", ":d", ":>3", ":x", ":<2"};
  static std::vector<std::string> const ss = {"", ":>10", ":<6", ":^7", ":.3", ":s", ":*^9", ":8.2", ":.0", ":_<12", "::^7"};
  switch (t)
  {
  case T_INT: return si;
  case T_ULL: return su;
  case T_DBL: return sd;
  case T_BOOL: return sb;
  case T_CHAR: return sc;
  default: return ss;
  }
}

bool rare(Choices& c, uint32_t den) { return c.pick(den) == den - 1; }

constexpr char const kSep[] = "\x01\x02\x03";

struct ValFlags
{
  bool sep_like{false};   // contains some of the separator bytes, but not the separator
  bool sep_full{false};   // contains "\x01\x02\x03"
  bool newline{false};
  bool nonprintable{false};
  bool long_string{false};
  bool empty_string{false};
};

void post_string(std::string& s, Report& r, ValFlags& f)
{
  size_t p;
  if (s.find(kSep) != std::string::npos)
  {
    if (g_excl_f5)
    {
      r.count(std::string{"excluded."} + kClsF5);
      while ((p = s.find(kSep)) != std::string::npos) s.erase(p + 2, 1); // drop the \x03: "\x01\x02" stays
    }
    else f.sep_full = true;
  }
  if (s.find('\n') != std::string::npos)
  {
    if (g_excl_nl)
    {
      r.count(std::string{"excluded."} + kClsNl);
      for (auto& ch : s) if (ch == '\n') ch = ' ';
    }
    else f.newline = true;
  }
  for (char ch : s)
  {
    unsigned char c = static_cast<unsigned char>(ch);
    if (c >= 1 && c <= 3) f.sep_like = true;
    if (!((c >= 0x20 && c <= 0x7e) || c == '\n')) f.nonprintable = true;
  }
  if (s.size() > 100) f.long_string = true;
  if (s.empty()) f.empty_string = true;
}

Val gen_val(Choices& c, Ty ty, Report& r, ValFlags& f)
{
  Val v;
  v.ty = ty;
  switch (ty)
  {
  case T_INT:
  {
    static long long const pool[] = {0, 1, -1, 7, 42, -123456, INT_MAX, INT_MIN, 1000000, 255};
    uint32_t k = c.pick(12);
    v.i = k < 10 ? pool[k] : c.range(INT_MIN, INT_MAX);
    break;
  }
  case T_ULL:
  {
    static unsigned long long const pool[] = {0ull, 1ull, 18446744073709551615ull, 1000000000000ull, 4294967296ull, 65535ull};
    uint32_t k = c.pick(8);
    v.u = k < 6 ? pool[k] : (static_cast<unsigned long long>(c.raw()) << 34) ^ (static_cast<unsigned long long>(c.raw()) << 4) ^ c.raw();
    break;
  }
  case T_DBL:
  {
    static double const pool[] = {0.0, 1.5, -0.0, 3.14159, 1e300, -2.5e-7, HUGE_VAL, -HUGE_VAL, 1e-320, 123456789.125, 0.1, -99.995};
    uint32_t k = c.pick(15);
    if (k < 12) v.d = pool[k];
    else if (k == 12) v.d = std::nan("");
    else v.d = static_cast<double>(c.range(-1000000000, 1000000000)) / static_cast<double>(c.range(1, 4096));
    break;
  }
  case T_BOOL: v.b = c.pick(2) == 1; break;
  case T_CHAR:
  {
    static char const pool[] = {'a', 'Z', ' ', '~', '0', '"', '\\', '\x01', '\x02', '\x03', '\x7f', '\n', '\xe9', ':', '}', '{'};
    uint32_t k = c.pick(20);
    v.c = k < 16 ? pool[k] : static_cast<char>(0x20 + c.pick(95));
    if (v.c == '\n')
    {
      if (g_excl_nl) { r.count(std::string{"excluded."} + kClsNl); v.c = ' '; }
      else f.newline = true;
    }
    {
      unsigned char u = static_cast<unsigned char>(v.c);
      if (u >= 1 && u <= 3) f.sep_like = true;
      if (!((u >= 0x20 && u <= 0x7e) || u == '\n')) f.nonprintable = true;
    }
    break;
  }
  default:
  {
    uint32_t k = c.pick(26);
    switch (k)
    {
    case 0: v.s = ""; break;
    case 1: v.s = "hello"; break;
    case 2: v.s = "with space"; break;
    case 3: v.s = "x"; break;
    case 4:
    {
      size_t n = 120 + c.pick(200);
      for (size_t q = 0; q < n; ++q) v.s += static_cast<char>('a' + (q * 7) % 26);
      break;
    }
    case 5: v.s = "\x01"; break;
    case 6: v.s = "\x01\x02"; break;
    case 7: v.s = "\x02\x03"; break;
    case 8: v.s = "tab\there"; break;
    case 9: v.s = "quote\"q"; break;
    case 10: v.s = "back\\slash"; break;
    case 11: v.s = "caf\xc3\xa9"; break;
    case 12: v.s = "{}"; break;
    case 13: v.s = "{x} }} {{"; break;
    case 14: v.s = "\x7f\x80\xff"; break;
    case 15: v.s = "a\x01\x02\x03" "b"; break;
    case 16: v.s = "\x01\x02\x03"; break;
    case 17: v.s = "l1\nl2"; break;
    case 18: v.s = "\nlead"; break;
    case 19: v.s = std::string("nul\0byte", 8); break;
    case 20: v.s = "trail\n"; break;
    case 21: v.s = "\x03\x01\x02\x01\x02\x02\x03"; break;
    case 22: v.s = "12345"; break;
    case 23:
    {
      size_t n = 1 + c.pick(12);
      for (size_t q = 0; q < n; ++q) v.s += static_cast<char>(0x20 + c.pick(95));
      break;
    }
    default:
    {
      size_t n = 1 + c.pick(6);
      for (size_t q = 0; q < n; ++q)
      {
        // biased towards the separator bytes
        uint32_t b = c.pick(8);
        v.s += b < 3 ? static_cast<char>(1 + b) : static_cast<char>(c.pick(256));
      }
      break;
    }
    }
    if (ty == T_CSTR)
    {
      size_t z = v.s.find('\0');
      if (z != std::string::npos) v.s.resize(z); // what a C string holds
    }
    post_string(v.s, r, f);
    break;
  }
  }
  return v;
}

std::string render_val(Val const& v)
{
  char b[64];
  switch (v.ty)
  {
  case T_INT: return std::to_string(v.i);
  case T_ULL: return std::to_string(v.u) + "ull";
  case T_DBL: std::snprintf(b, sizeof b, "%.17g", v.d); return b;
  case T_BOOL: return v.b ? "true" : "false";
  case T_CHAR: return "'" + esc(std::string(1, v.c)) + "'";
  default: return std::string{kTyName[v.ty]} + " \"" + esc(v.s, 40) + "\"";
  }
}

// ---- template slots: fixed storage, never relocates; content is rewritten only when the backend is drained ----
struct Slot
{
  char fmt[4096];
  char srcloc[160];
  char func[64];
  std::optional<quill::MacroMetadata> md;
  char fmt_rt[4200];
  std::optional<quill::MacroMetadata> md_rt; // the same template as LOG_RUNTIME_METADATA expands it
  // model
  bool used{false};
  unsigned sig{0};
  size_t nph{0};
  std::vector<std::string> names; // per placeholder
  std::vector<std::string> specs; // per placeholder, "" or ":spec"
  std::string tpl, twin;
  std::string file_name, line;
  int level{4};
  bool has_escaped{false}, has_spec{false};
};
Slot g_slots[6];

char const* const kLevelDesc[] = {"TRACE_L3", "TRACE_L2", "TRACE_L1", "DEBUG", "INFO", "NOTICE", "WARNING", "ERROR", "CRITICAL"};
quill::LogLevel const kLevels[] = {quill::LogLevel::TraceL3, quill::LogLevel::TraceL2, quill::LogLevel::TraceL1,
                                   quill::LogLevel::Debug,   quill::LogLevel::Info,    quill::LogLevel::Notice,
                                   quill::LogLevel::Warning, quill::LogLevel::Error,   quill::LogLevel::Critical};

char const* const kLit[] = {" ",      "x",       ", ",    "value=", ": ",  "a:b", "[",         "]",      "%",
                            "100% ",  "  ",      "#tag ", "~",      "|",   "=",   "\n",        "l1\nl2", "\"q\"",
                            "back\\", "end.",    "$(x)",  "%(message)", "\t", "'",  "key: ",   "0"};
constexpr size_t kNLit = sizeof kLit / sizeof *kLit;

char const* const kNames[] = {"a",       "b",     "x",  "name", "value",   "user_id", "A",  "Zz9_", "k1",
                              "very_long_placeholder_name_0123456789_abcdefghijklmnopqrstuvwxyz", "timestamp",
                              "message", "line",  "d",  "s",    "log_level"};
constexpr size_t kNNames = sizeof kNames / sizeof *kNames;

char const* const kSrc[] = {"file.cpp", "/abs/path/to/main.cpp", "dir/sub/x.h", "a.cc", "../rel/named_test.cpp",
                            "/very/long/path/with.dots/and-dashes/some_translation_unit.cxx"};
char const* const kSrcFile[] = {"file.cpp", "main.cpp", "x.h", "a.cc", "named_test.cpp", "some_translation_unit.cxx"};

struct TplFeat
{
  bool ph_after_open{false}, ph_after_close{false}, close_after_ph{false}, open_after_ph{false};
  bool back_to_back{false}, ph_at_start{false}, ph_at_end{false}, newline{false}, dup_names{false};
};

void gen_template(Choices& c, Slot& s, Report& r, TplFeat& f)
{
  auto const& cat = sigs();
  s.sig = c.pick(static_cast<uint32_t>(cat.size()));
  auto const& types = cat[s.sig].types;
  size_t const arity = types.size();
  size_t extra = 0;
  if (arity > 0 && rare(c, 5)) extra = c.pick(static_cast<uint32_t>(arity)); // 0..arity-1: at least one placeholder stays
  s.nph = arity - extra;
  s.level = static_cast<int>((4 + c.pick(9)) % 9); // choice 0 = INFO
  unsigned src = c.pick(6);
  unsigned line = 1 + c.pick(99999);
  std::snprintf(s.srcloc, sizeof s.srcloc, "%s:%u", kSrc[src], line);
  s.file_name = kSrcFile[src];
  s.line = std::to_string(line);
  std::snprintf(s.func, sizeof s.func, "fn_%u", c.pick(4));

  s.names.clear();
  s.specs.clear();
  s.tpl.clear();
  s.twin.clear();
  s.has_escaped = s.has_spec = false;

  enum { K_NONE, K_LIT, K_OPEN, K_CLOSE, K_PH } prev = K_NONE;
  bool const allow_newline = s.nph > 0; // zero-placeholder statements take the plain multi-line path (C12's subject)

  auto gap = [&]()
  {
    size_t n = c.weighted({3, 4, 2, 1});
    for (size_t g = 0; g < n && s.tpl.size() < 3000; ++g)
    {
      size_t kind = c.weighted({5, 2, 2});
      if (kind == 0)
      {
        std::string lit;
        uint32_t k = c.pick(static_cast<uint32_t>(kNLit + 3));
        if (k < kNLit) lit = kLit[k];
        else
        {
          size_t m = 1 + c.pick(8);
          for (size_t q = 0; q < m; ++q)
          {
            char ch = static_cast<char>(0x20 + c.pick(95));
            if (ch == '{' || ch == '}') ch = '_';
            lit += ch;
          }
        }
        if (!allow_newline) for (auto& ch : lit) if (ch == '\n') ch = ' ';
        if (lit.find('\n') != std::string::npos) f.newline = true;
        s.tpl += lit;
        s.twin += lit;
        prev = K_LIT;
      }
      else if (kind == 1)
      {
        if (prev == K_PH) f.open_after_ph = true;
        s.tpl += "{{";
        s.twin += "{{";
        s.has_escaped = true;
        prev = K_OPEN;
      }
      else
      {
        if (prev == K_PH)
        {
          if (g_excl_f4)
          {
            // known finding F4: excluded by construction (a literal blank separates the two), counted
            r.count(std::string{"excluded."} + kClsF4);
            s.tpl += " ";
            s.twin += " ";
          }
          else f.close_after_ph = true;
        }
        s.tpl += "}}";
        s.twin += "}}";
        s.has_escaped = true;
        prev = K_CLOSE;
      }
    }
  };

  for (size_t p = 0; p < s.nph; ++p)
  {
    gap();
    std::string name;
    if (c.weighted({3, 1}) == 0) name = kNames[c.pick(static_cast<uint32_t>(kNNames))];
    else
    {
      static char const alpha[] = "abcdefghijklmnopqrstuvwxyzABCDEFGHIJKLMNOPQRSTUVWXYZ";
      static char const alnum[] = "abcdefghijklmnopqrstuvwxyzABCDEFGHIJKLMNOPQRSTUVWXYZ0123456789_";
      name += alpha[c.pick(52)];
      size_t m = c.pick(8);
      for (size_t q = 0; q < m; ++q) name += alnum[c.pick(63)];
    }
    for (auto const& n : s.names) if (n == name) f.dup_names = true;
    auto const& sp = specs_for(types[p]);
    uint32_t si = c.pick(static_cast<uint32_t>(2 * sp.size()));
    std::string spec = si < sp.size() ? sp[si] : std::string{};
    if (!spec.empty()) s.has_spec = true;
    if (prev == K_OPEN) f.ph_after_open = true;
    if (prev == K_CLOSE) f.ph_after_close = true;
    if (prev == K_PH) f.back_to_back = true;
    if (prev == K_NONE) f.ph_at_start = true;
    s.tpl += "{" + name + spec + "}";
    s.twin += "{" + spec + "}";
    s.names.push_back(name);
    s.specs.push_back(spec);
    prev = K_PH;
  }
  gap();
  if (prev == K_PH) f.ph_at_end = true;

  std::memcpy(s.fmt, s.tpl.c_str(), s.tpl.size() + 1);
  s.md.emplace(s.srcloc, s.func, s.fmt, nullptr, kLevels[s.level], quill::MacroMetadata::Event::Log);
  {
    std::string const rt = s.tpl + QUILL_MAGIC_SEPARATOR "{}" QUILL_MAGIC_SEPARATOR "{}" QUILL_MAGIC_SEPARATOR "{}";
    std::memcpy(s.fmt_rt, rt.c_str(), rt.size() + 1);
    s.md_rt.emplace("[placeholder]", "[placeholder]", s.fmt_rt, nullptr, quill::LogLevel::Dynamic,
                    quill::MacroMetadata::Event::LogWithRuntimeMetadata);
  }
  s.used = true;
}

// A second call site with the SAME template text as a slot that is in use, but a different number of arguments (its
// signature starts with the same types, so every spec stays valid): the backend caches per template STRING, and what it
// caches must not depend on the argument count of the first statement it saw.
bool clone_template(Choices& c, Slot& s, unsigned self)
{
  auto const& cat = sigs();
  std::vector<std::pair<unsigned, unsigned>> cand; // (other slot, signature)
  for (unsigned o = 0; o < 6; ++o)
  {
    if (o == self || !g_slots[o].used || g_slots[o].nph == 0) continue;
    Slot const& src = g_slots[o];
    auto const& ot = cat[src.sig].types;
    for (unsigned t = 0; t < cat.size(); ++t)
    {
      auto const& tt = cat[t].types;
      if (t == src.sig || tt.size() < src.nph || tt.size() == ot.size()) continue;
      bool same = true;
      for (size_t k = 0; k < src.nph; ++k) if (tt[k] != ot[k]) same = false;
      if (same) cand.emplace_back(o, t);
    }
  }
  if (cand.empty()) return false;
  auto const pick = cand[c.pick(static_cast<uint32_t>(cand.size()))];
  Slot const& src = g_slots[pick.first];
  s.sig = pick.second;
  s.nph = src.nph;
  s.names = src.names;
  s.specs = src.specs;
  s.tpl = src.tpl;
  s.twin = src.twin;
  s.has_escaped = src.has_escaped;
  s.has_spec = src.has_spec;
  s.level = static_cast<int>((4 + c.pick(9)) % 9);
  unsigned const line = 1 + c.pick(999);
  std::snprintf(s.srcloc, sizeof s.srcloc, "clone.cpp:%u", line);
  s.file_name = "clone.cpp";
  s.line = std::to_string(line);
  std::snprintf(s.func, sizeof s.func, "fn_clone");
  std::memcpy(s.fmt, s.tpl.c_str(), s.tpl.size() + 1);
  s.md.emplace(s.srcloc, s.func, s.fmt, nullptr, kLevels[s.level], quill::MacroMetadata::Event::Log);
  {
    std::string const rt = s.tpl + QUILL_MAGIC_SEPARATOR "{}" QUILL_MAGIC_SEPARATOR "{}" QUILL_MAGIC_SEPARATOR "{}";
    std::memcpy(s.fmt_rt, rt.c_str(), rt.size() + 1);
    s.md_rt.emplace("[placeholder]", "[placeholder]", s.fmt_rt, nullptr, quill::LogLevel::Dynamic,
                    quill::MacroMetadata::Event::LogWithRuntimeMetadata);
  }
  s.used = true;
  return true;
}

// ---- expectation of one statement ----
struct Expect
{
  std::string tpl;
  std::string msg; // sanitised when any argument is string related
  bool named{false};
  std::vector<std::pair<std::string, std::string>> pairs;
  std::string file_name, line, level_desc;
  uint64_t ts{0};
  int logger{0};
  quill::MacroMetadata const* md{nullptr}; // nullptr for LOGJ call sites (the macro owns it)
  bool runtime{false}; // logged in the LOG_RUNTIME_METADATA form: the backend substitutes a metadata object of its own
  std::string what; // short rendering for messages
};

// ---- strict JSON object parser (string keys, string values; any JSON whitespace between tokens) ----
bool json_string(std::string const& s, size_t& p, std::string& out)
{
  if (p >= s.size() || s[p] != '"') return false;
  ++p;
  out.clear();
  while (p < s.size())
  {
    unsigned char ch = static_cast<unsigned char>(s[p]);
    if (ch == '"') { ++p; return true; }
    if (ch < 0x20) return false;
    if (ch == '\\')
    {
      if (p + 1 >= s.size()) return false;
      char e = s[p + 1];
      p += 2;
      switch (e)
      {
      case '"': out += '"'; break;
      case '\\': out += '\\'; break;
      case '/': out += '/'; break;
      case 'b': out += '\b'; break;
      case 'f': out += '\f'; break;
      case 'n': out += '\n'; break;
      case 'r': out += '\r'; break;
      case 't': out += '\t'; break;
      case 'u':
      {
        if (p + 4 > s.size()) return false;
        unsigned v = 0;
        for (int k = 0; k < 4; ++k)
        {
          char h = s[p + k];
          v <<= 4;
          if (h >= '0' && h <= '9') v |= static_cast<unsigned>(h - '0');
          else if (h >= 'a' && h <= 'f') v |= static_cast<unsigned>(h - 'a' + 10);
          else if (h >= 'A' && h <= 'F') v |= static_cast<unsigned>(h - 'A' + 10);
          else return false;
        }
        p += 4;
        if (v < 0x80) out += static_cast<char>(v);
        else if (v < 0x800) { out += static_cast<char>(0xC0 | (v >> 6)); out += static_cast<char>(0x80 | (v & 0x3F)); }
        else { out += static_cast<char>(0xE0 | (v >> 12)); out += static_cast<char>(0x80 | ((v >> 6) & 0x3F)); out += static_cast<char>(0x80 | (v & 0x3F)); }
        break;
      }
      default: return false;
      }
      continue;
    }
    out += static_cast<char>(ch);
    ++p;
  }
  return false;
}
void json_ws(std::string const& s, size_t& p)
{
  while (p < s.size() && (s[p] == ' ' || s[p] == '\t' || s[p] == '\r' || s[p] == '\n')) ++p;
}
bool json_object(std::string const& s, std::vector<std::pair<std::string, std::string>>& out)
{
  size_t p = 0;
  out.clear();
  json_ws(s, p);
  if (p >= s.size() || s[p] != '{') return false;
  ++p;
  json_ws(s, p);
  if (p < s.size() && s[p] == '}') { ++p; json_ws(s, p); return p == s.size(); }
  while (true)
  {
    std::string k, v;
    json_ws(s, p);
    if (!json_string(s, p, k)) return false;
    json_ws(s, p);
    if (p >= s.size() || s[p] != ':') return false;
    ++p;
    json_ws(s, p);
    if (!json_string(s, p, v)) return false; // every value quill writes is a string
    out.emplace_back(std::move(k), std::move(v));
    json_ws(s, p);
    if (p >= s.size()) return false;
    if (s[p] == ',') { ++p; continue; }
    if (s[p] == '}') { ++p; break; }
    return false;
  }
  json_ws(s, p);
  return p == s.size();
}
bool json_plain(std::string const& s)
{
  for (char ch : s)
  {
    unsigned char c = static_cast<unsigned char>(ch);
    if (c < 0x20 || c > 0x7e || c == '"' || c == '\\') return false;
  }
  return true;
}

// ---- backend driving ----
void drain() { g_mbw->poll(); }
void drain_and_flush()
{
  g_mbw->poll();
  g_mbw->poll_one(); // idle pass: flushes the sinks (sink_min_flush_interval = 0)
}
std::string read_json_file_and_truncate()
{
  std::string out;
  struct stat st{};
  if (g_json_fd < 0 || fstat(g_json_fd, &st) != 0) return out;
  out.resize(static_cast<size_t>(st.st_size));
  size_t got = 0;
  while (got < out.size())
  {
    ssize_t n = pread(g_json_fd, &out[got], out.size() - got, static_cast<off_t>(got));
    if (n <= 0) break;
    got += static_cast<size_t>(n);
  }
  out.resize(got);
  if (ftruncate(g_json_fd, 0) != 0) { /* nothing sensible to do */ }
  return out;
}
void reset_case_state()
{
  // a fixed, well-formed named-argument statement through the null-sink logger first: whatever backend-side scratch state
  // the LAST statement of the previous case may have left behind is absorbed here, so that a case is a pure function of
  // its own choices (state left by a statement of THIS case is still seen by the statements after it)
  if (g_lg_err)
  {
    static constexpr quill::MacroMetadata kPrologueMd{"named_err.cpp:3", "err_fn", "prologue {p} {q}", nullptr, quill::LogLevel::Info,
                                                      quill::MacroMetadata::Event::Log};
    g_lg_err->log_statement<false, false>(quill::LogLevel::None, &kPrologueMd, 1, 2);
  }
  drain_and_flush();
  (void)read_json_file_and_truncate();
  g_recs.clear();
  g_notifier_msgs.clear();
  g_expected_format_errors = 0;
  g_bw->_named_args_templates.clear();
  // fresh TransitEvent objects for every case (what a new thread would get): nothing a previous case left in a
  // reused TransitEvent can influence this one, so a failing case replays from a fresh process
  for (quill::detail::ThreadContext* tc : g_bw->_active_thread_contexts_cache)
    if (tc->_transit_event_buffer && tc->_transit_event_buffer->empty())
      tc->_transit_event_buffer =
        std::make_shared<quill::detail::TransitEventBuffer>(g_bw->_options.transit_event_buffer_initial_capacity);
  for (auto& s : g_slots) s.used = false;
}

void cleanup_at_exit()
{
  if (g_json_fd >= 0) close(g_json_fd);
  if (!g_json_path.empty()) unlink(g_json_path.c_str());
  if (!g_dir.empty()) rmdir(g_dir.c_str());
}

// ---- LOGJ_ macro table, exhaustively: k identifiers -> text + " {n1}, {n2}, ..." ----
#define NM_IDS_1 alpha
#define NM_IDS_2 NM_IDS_1, b1
#define NM_IDS_3 NM_IDS_2, user_id
#define NM_IDS_4 NM_IDS_3, x_
#define NM_IDS_5 NM_IDS_4, Camel
#define NM_IDS_6 NM_IDS_5, v6
#define NM_IDS_7 NM_IDS_6, seven
#define NM_IDS_8 NM_IDS_7, h
#define NM_IDS_9 NM_IDS_8, i9
#define NM_IDS_10 NM_IDS_9, ten_
#define NM_IDS_11 NM_IDS_10, k11
#define NM_IDS_12 NM_IDS_11, l
#define NM_IDS_13 NM_IDS_12, m13
#define NM_IDS_14 NM_IDS_13, n_14
#define NM_IDS_15 NM_IDS_14, o
#define NM_IDS_16 NM_IDS_15, p16
#define NM_IDS_17 NM_IDS_16, q
#define NM_IDS_18 NM_IDS_17, r18
#define NM_IDS_19 NM_IDS_18, s
#define NM_IDS_20 NM_IDS_19, t20
#define NM_IDS_21 NM_IDS_20, u
#define NM_IDS_22 NM_IDS_21, v22
#define NM_IDS_23 NM_IDS_22, w
#define NM_IDS_24 NM_IDS_23, x24
#define NM_IDS_25 NM_IDS_24, y
#define NM_IDS_26 NM_IDS_25, z26
#define NM_GEN(...) QUILL_GENERATE_NAMED_FORMAT_STRING(__VA_ARGS__)

char const* const kMacroTable[27] = {
  NM_GEN("T"),           NM_GEN("T", NM_IDS_1),  NM_GEN("T", NM_IDS_2),  NM_GEN("T", NM_IDS_3),  NM_GEN("T", NM_IDS_4),
  NM_GEN("T", NM_IDS_5), NM_GEN("T", NM_IDS_6),  NM_GEN("T", NM_IDS_7),  NM_GEN("T", NM_IDS_8),  NM_GEN("T", NM_IDS_9),
  NM_GEN("T", NM_IDS_10), NM_GEN("T", NM_IDS_11), NM_GEN("T", NM_IDS_12), NM_GEN("T", NM_IDS_13), NM_GEN("T", NM_IDS_14),
  NM_GEN("T", NM_IDS_15), NM_GEN("T", NM_IDS_16), NM_GEN("T", NM_IDS_17), NM_GEN("T", NM_IDS_18), NM_GEN("T", NM_IDS_19),
  NM_GEN("T", NM_IDS_20), NM_GEN("T", NM_IDS_21), NM_GEN("T", NM_IDS_22), NM_GEN("T", NM_IDS_23), NM_GEN("T", NM_IDS_24),
  NM_GEN("T", NM_IDS_25), NM_GEN("T", NM_IDS_26)};
char const* const kMacroIds[26] = {"alpha", "b1", "user_id", "x_", "Camel", "v6", "seven", "h", "i9", "ten_", "k11", "l", "m13",
                                   "n_14", "o", "p16", "q", "r18", "s", "t20", "u", "v22", "w", "x24", "y", "z26"};

std::string logj_template(std::string const& text, std::vector<std::string> const& ids, bool twin)
{
  std::string o = text;
  for (size_t k = 0; k < ids.size(); ++k)
  {
    o += k == 0 ? " " : ", ";
    o += twin ? std::string{"{}"} : "{" + ids[k] + "}";
  }
  return o;
}

void check_macro_table()
{
  for (size_t k = 0; k <= 26; ++k)
  {
    std::vector<std::string> ids(kMacroIds, kMacroIds + k);
    std::string exp = logj_template("T", ids, false);
    if (exp != kMacroTable[k])
    {
      g_macro_table_error = "QUILL_GENERATE_NAMED_FORMAT_STRING with " + std::to_string(k) +
        " identifiers expands to \"" + esc(kMacroTable[k], 600) + "\", expected \"" + esc(exp, 600) + "\"";
      return;
    }
    if (k > 0 && !quill::MacroMetadata::_contains_named_args(kMacroTable[k]))
    {
      g_macro_table_error = "LOGJ template for " + std::to_string(k) + " identifiers is not detected as named: \"" +
        esc(kMacroTable[k], 600) + "\"";
      return;
    }
  }
}

std::string basename_of(char const* path)
{
  std::string p{path};
  size_t k = p.find_last_of('/');
  return k == std::string::npos ? p : p.substr(k + 1);
}

// ---- LOGJ_ call sites with plain identifiers (each macro invocation on ONE source line) ----
constexpr unsigned kNLogjSites = 6;
void logj_site(unsigned site, Choices& c, Report& r, quill::Logger* lg, Expect& e, ValFlags& vf, std::string& rendering)
{
  std::vector<std::string> ids;
  std::vector<std::string> vals;
  std::string text, msg;
  int line = 0;
  bool any_string = false;
  switch (site)
  {
  case 0:
  {
    int count = TyOf<int>::get(gen_val(c, T_INT, r, vf));
    text = "json event"; ids = {"count"};
    msg = fmtquill::format("json event {}", count);
    vals = {fmtquill::format("{}", count)};
    rendering = "count=" + std::to_string(count);
    line = __LINE__; LOGJ_INFO(lg, "json event", count);
    e.level_desc = "INFO";
    break;
  }
  case 1:
  {
    Val vn = gen_val(c, T_STR, r, vf);
    std::string name = vn.s;
    int count = TyOf<int>::get(gen_val(c, T_INT, r, vf));
    double ratio = gen_val(c, T_DBL, r, vf).d;
    text = "k={{v}}"; ids = {"name", "count", "ratio"};
    msg = fmtquill::format("k={{v}} {}, {}, {}", name, count, ratio);
    vals = {fmtquill::format("{}", name), fmtquill::format("{}", count), fmtquill::format("{}", ratio)};
    any_string = true;
    rendering = "name=\"" + esc(name, 40) + "\" count=" + std::to_string(count) + " ratio=" + fmtquill::format("{}", ratio);
    line = __LINE__; LOGJ_WARNING(lg, "k={{v}}", name, count, ratio);
    e.level_desc = "WARNING";
    break;
  }
  case 2:
  {
    Val vs = gen_val(c, T_SV, r, vf);
    std::string_view sv{vs.s};
    bool flag = gen_val(c, T_BOOL, r, vf).b;
    text = ""; ids = {"sv", "flag"};
    msg = fmtquill::format(" {}, {}", sv, flag);
    vals = {fmtquill::format("{}", sv), fmtquill::format("{}", flag)};
    any_string = true;
    rendering = "sv=\"" + esc(vs.s, 40) + "\" flag=" + (flag ? "true" : "false");
    line = __LINE__; LOGJ_DEBUG(lg, "", sv, flag);
    e.level_desc = "DEBUG";
    break;
  }
  case 3:
  {
    int a0 = TyOf<int>::get(gen_val(c, T_INT, r, vf)), a1 = a0 ^ 1, a2 = ~a0, a3 = 3, a4 = -4, a5 = 5, a6 = 6, a7 = 7, a8 = 8, a9 = a0;
    text = "ten"; ids = {"a0", "a1", "a2", "a3", "a4", "a5", "a6", "a7", "a8", "a9"};
    msg = fmtquill::format("ten {}, {}, {}, {}, {}, {}, {}, {}, {}, {}", a0, a1, a2, a3, a4, a5, a6, a7, a8, a9);
    for (int x : {a0, a1, a2, a3, a4, a5, a6, a7, a8, a9}) vals.push_back(std::to_string(x));
    rendering = "a0=" + std::to_string(a0);
    line = __LINE__; LOGJ_ERROR(lg, "ten", a0, a1, a2, a3, a4, a5, a6, a7, a8, a9);
    e.level_desc = "ERROR";
    break;
  }
  case 4:
  {
    text = "no args at all";
    msg = "no args at all";
    rendering = "-";
    line = __LINE__; LOGJ_INFO(lg, "no args at all");
    e.level_desc = "INFO";
    break;
  }
  default:
  {
    Val vc = gen_val(c, T_CSTR, r, vf);
    char const* cstr = vc.s.c_str();
    char ch = gen_val(c, T_CHAR, r, vf).c;
    unsigned long long big = gen_val(c, T_ULL, r, vf).u;
    text = "mixed: done"; ids = {"cstr", "ch", "big"};
    msg = fmtquill::format("mixed: done {}, {}, {}", cstr, ch, big);
    vals = {fmtquill::format("{}", cstr), fmtquill::format("{}", ch), fmtquill::format("{}", big)};
    any_string = true;
    rendering = "cstr=\"" + esc(vc.s, 40) + "\" ch='" + esc(std::string(1, ch)) + "' big=" + std::to_string(big);
    line = __LINE__; LOGJ_CRITICAL(lg, "mixed: done", cstr, ch, big);
    e.level_desc = "CRITICAL";
    break;
  }
  }
  e.tpl = logj_template(text, ids, false);
  e.msg = any_string ? sanitize(msg) : msg;
  e.named = !ids.empty();
  for (size_t k = 0; k < ids.size(); ++k) e.pairs.emplace_back(ids[k], any_string ? sanitize(vals[k]) : vals[k]);
  static std::string const file = basename_of(__FILE__);
  e.file_name = file;
  e.line = std::to_string(line);
  e.md = nullptr;
}

std::string show_pairs(std::vector<std::pair<std::string, std::string>> const& v)
{
  std::string o = "[";
  for (size_t k = 0; k < v.size(); ++k)
  {
    if (k) o += ", ";
    o += "(\"" + esc(v[k].first, 60) + "\", \"" + esc(v[k].second, 60) + "\")";
  }
  return o + "]";
}

// compares what the two sinks saw with the expectations; returns the first complaint or ""
std::string compare_all(std::vector<Expect> const& exps, std::string const& json, Report& r, bool& any_json_parsed)
{
  {
    // the failing disturbers are reported and nothing else is
    long expected_seen = 0;
    for (auto it = g_notifier_msgs.begin(); it != g_notifier_msgs.end();)
    {
      if (it->find("failing {first} then {second:d} end") != std::string::npos) { ++expected_seen; it = g_notifier_msgs.erase(it); }
      else ++it;
    }
    if (expected_seen < g_expected_format_errors)
      return std::to_string(g_expected_format_errors) + " statements that cannot be formatted were logged, the error notifier reported " +
        std::to_string(expected_seen) + " of them";
  }
  if (!g_notifier_msgs.empty())
    return "backend error notifier called " + std::to_string(g_notifier_msgs.size()) + "x, first: " + esc(g_notifier_msgs[0], 300);
  if (g_recs.size() != exps.size())
    return "recording sink saw " + std::to_string(g_recs.size()) + " write_log calls for " + std::to_string(exps.size()) + " statements";

  for (size_t k = 0; k < exps.size(); ++k)
  {
    Expect const& e = exps[k];
    Rec const& x = g_recs[k];
    std::string const at = "statement #" + std::to_string(k) + " " + e.what + ": ";
    // message text: equal to the call-site formatting; quill documents that ONE trailing '\n' of the message is
    // dropped before it reaches the sinks (the pattern adds its own), so that form is accepted too
    bool msg_ok = x.msg == e.msg;
    if (!msg_ok && !e.msg.empty() && e.msg.back() == '\n' && x.msg == e.msg.substr(0, e.msg.size() - 1))
    {
      msg_ok = true;
      r.label("message_ends_with_newline");
    }
    if (!msg_ok) return at + "message is \"" + esc(x.msg, 300) + "\", call-site formatting gives \"" + esc(e.msg, 300) + "\"";
    // (the runtime-metadata form reaches the sinks with a metadata object the backend made up: its format is not claimed)
    if (!e.runtime && x.fmt != e.tpl) return at + "metadata message_format is \"" + esc(x.fmt, 300) + "\"";
    if (e.md && x.md != e.md) return at + "sink saw a different MacroMetadata object";
    if (e.named)
    {
      if (!x.has_named) return at + "named_args is null, expected " + show_pairs(e.pairs);
      if (x.named != e.pairs)
      {
        size_t d = 0;
        while (d < x.named.size() && d < e.pairs.size() && x.named[d] == e.pairs[d]) ++d;
        return at + "named_args differ at index " + std::to_string(d) + ": got " + show_pairs(x.named) + " expected " + show_pairs(e.pairs);
      }
    }
    else if (x.has_named && !x.named.empty())
      return at + "no named placeholder, but named_args is " + show_pairs(x.named);
    if (x.ts != e.ts) return at + "timestamp " + std::to_string(x.ts) + " != " + std::to_string(e.ts);
    if (x.logger != kLoggerName[e.logger]) return at + "logger name \"" + esc(x.logger) + "\"";
    if (x.level_desc != e.level_desc) return at + "level \"" + esc(x.level_desc) + "\" expected " + e.level_desc;
    if (x.tid != g_tid) return at + "thread id \"" + esc(x.tid) + "\" expected " + g_tid;
    if (x.file_name != e.file_name || x.line != e.line)
      return at + "source location " + esc(x.file_name) + ":" + esc(x.line) + " expected " + e.file_name + ":" + e.line;
    if (e.logger == 1)
    {
      // logger B: pattern "%(message)" -> the statement is the message plus the pattern's newline
      if (x.stmt != x.msg + "\n") return at + "log_statement \"" + esc(x.stmt, 200) + "\" is not message + newline";
    }
    else if (x.stmt.find(x.msg) == std::string::npos)
      return at + "log_statement \"" + esc(x.stmt, 200) + "\" does not contain the message";
  }

  // ---- the JSON file: exactly one line per statement ----
  std::vector<std::string> lines;
  {
    size_t start = 0;
    while (start < json.size())
    {
      size_t nl = json.find('\n', start);
      if (nl == std::string::npos)
        return "JSON file does not end with a newline; tail: \"" + esc(json.substr(start), 200) + "\"";
      lines.emplace_back(json, start, nl - start);
      start = nl + 1;
    }
  }
  if (lines.size() != exps.size())
  {
    std::string first_odd;
    for (auto const& l : lines)
      if (l.empty() || l[0] != '{' || l.back() != '}') { first_odd = l; break; }
    return "JSON file has " + std::to_string(lines.size()) + " lines for " + std::to_string(exps.size()) +
      " statements; first line that is not an object: \"" + esc(first_odd, 200) + "\"";
  }
  for (size_t k = 0; k < exps.size(); ++k)
  {
    Expect const& e = exps[k];
    std::string const& l = lines[k];
    std::string const at = "statement #" + std::to_string(k) + " " + e.what + ": JSON line ";
    if (l.size() < 2 || l[0] != '{' || l.back() != '}') return at + "is not an object: \"" + esc(l, 300) + "\"";
    std::string jtpl = e.tpl;
    for (auto& ch : jtpl) if (ch == '\n') ch = ' ';
    bool plain = json_plain(jtpl);
    for (auto const& p : e.pairs) plain = plain && json_plain(p.first) && json_plain(p.second);
    if (!plain) { r.count("json_lines_needing_escapes"); continue; }
    std::vector<std::pair<std::string, std::string>> obj;
    if (!json_object(l, obj)) return at + "does not parse as JSON although nothing needs escaping: \"" + esc(l, 400) + "\"";
    any_json_parsed = true;
    r.count("json_lines_parsed");
    std::vector<std::pair<std::string, std::string>> fixed = {
      {"timestamp", std::to_string(e.ts)}, {"file_name", e.file_name}, {"line", e.line},  {"thread_id", g_tid},
      {"logger", kLoggerName[e.logger]},   {"log_level", e.level_desc}, {"message", jtpl}};
    if (obj.size() != fixed.size() + e.pairs.size())
      return at + "has " + std::to_string(obj.size()) + " members, expected " + std::to_string(fixed.size() + e.pairs.size()) + ": \"" + esc(l, 400) + "\"";
    for (auto const& f : fixed)
    {
      bool found = false;
      for (size_t q = 0; q < fixed.size(); ++q)
        if (obj[q].first == f.first)
        {
          found = true;
          if (e.runtime && f.first == "message" && g_excl_f24) { r.count(std::string{"excluded."} + kClsF24); break; } // known finding F24
          if (obj[q].second != f.second)
            return at + "member \"" + f.first + "\" is \"" + esc(obj[q].second, 200) + "\", expected \"" + esc(f.second, 200) + "\"";
          break;
        }
      if (!found) return at + "lacks member \"" + f.first + "\" among the leading members: \"" + esc(l, 400) + "\"";
    }
    for (size_t q = 0; q < e.pairs.size(); ++q)
      if (obj[fixed.size() + q] != e.pairs[q])
        return at + "pair #" + std::to_string(q) + " is (\"" + esc(obj[fixed.size() + q].first, 80) + "\", \"" +
          esc(obj[fixed.size() + q].second, 80) + "\"), expected (\"" + esc(e.pairs[q].first, 80) + "\", \"" +
          esc(e.pairs[q].second, 80) + "\")";
  }
  return {};
}

// logs one fixed statement with a generated-slot-like setup; used by the probes
struct ProbeResult
{
  std::vector<Rec> recs;
  std::string json;
};
template <class... Ts>
ProbeResult probe_log(char const* tpl, Ts... args)
{
  reset_case_state();
  Slot& s = g_slots[0];
  std::snprintf(s.fmt, sizeof s.fmt, "%s", tpl);
  std::snprintf(s.srcloc, sizeof s.srcloc, "probe.cpp:1");
  std::snprintf(s.func, sizeof s.func, "probe");
  s.md.emplace(s.srcloc, s.func, s.fmt, nullptr, quill::LogLevel::Info, quill::MacroMetadata::Event::Log);
  g_lg[1]->log_statement<false, false>(quill::LogLevel::None, &*s.md, args...);
  drain_and_flush();
  ProbeResult p;
  p.recs = g_recs;
  p.json = read_json_file_and_truncate();
  g_recs.clear();
  g_notifier_msgs.clear();
  g_bw->_named_args_templates.clear();
  return p;
}
} // namespace

namespace verif
{
HarnessInfo harness_info() { return {"named", false, 600, 0}; }

void harness_init(Params const& p)
{
  g_params = p;
  g_excl_f4 = excluded(p, kClsF4);
  g_excl_f5 = excluded(p, kClsF5);
  g_excl_nl = excluded(p, kClsNl);
  g_excl_f24 = excluded(p, kClsF24);

  check_macro_table();

  g_tid = std::to_string(static_cast<long>(syscall(SYS_gettid)));
  g_dir = "/dev/shm/verif-named-" + std::to_string(static_cast<long>(getpid()));
  mkdir(g_dir.c_str(), 0700);
  g_json_path = g_dir + "/out.json";

  try
  {
    g_mbw = quill::Backend::acquire_manual_backend_worker();
    quill::BackendOptions bo;
    bo.error_notifier = [](std::string const& m) { g_notifier_msgs.push_back(m); };
    bo.log_timestamp_ordering_grace_period = std::chrono::microseconds{0};
    bo.sink_min_flush_interval = std::chrono::milliseconds{0};
    bo.transit_event_buffer_initial_capacity = 4; // legal (power of two): TransitEvent objects are reused every few statements
    g_mbw->init(bo);
    g_bw = g_mbw->_backend_worker;

    g_rec_sink = quill::Frontend::create_or_get_sink<RecSink>("named_rec");
    quill::FileSinkConfig fc;
    fc.set_open_mode('a'); // O_APPEND: the harness truncates the file between cases
    g_json_sink = quill::Frontend::create_or_get_sink<quill::JsonFileSink>(g_json_path, fc, quill::FileEventNotifier{});
    g_lg[0] = quill::Frontend::create_or_get_logger(kLoggerName[0], {g_rec_sink, g_json_sink},
                                                    quill::PatternFormatterOptions{}, quill::ClockSourceType::User, &g_clock);
    g_lg[1] = quill::Frontend::create_or_get_logger(
      kLoggerName[1], {g_rec_sink, g_json_sink},
      quill::PatternFormatterOptions{"%(message)", "%H:%M:%S.%Qns", quill::Timezone::GmtTime, false},
      quill::ClockSourceType::User, &g_clock);
    g_lg[0]->set_log_level(quill::LogLevel::TraceL3);
    g_lg[1]->set_log_level(quill::LogLevel::TraceL3);
    g_lg_bt = quill::Frontend::create_or_get_logger("named_bt", {g_rec_sink, g_json_sink}, quill::PatternFormatterOptions{},
                                                    quill::ClockSourceType::User, &g_clock);
    g_lg_bt->init_backtrace(2, quill::LogLevel::None); // never flushed automatically
    g_lg_err = quill::Frontend::create_or_get_logger("named_err", quill::Frontend::create_or_get_sink<NullSink>("named_null"),
                                                     quill::PatternFormatterOptions{}, quill::ClockSourceType::User, &g_clock);
    g_json_fd = open(g_json_path.c_str(), O_RDWR);
    if (g_json_fd < 0) g_init_error = "cannot open " + g_json_path + " for reading back";
  }
  catch (std::exception const& e)
  {
    g_init_error = std::string{"harness_init failed: "} + e.what();
  }
  std::atexit(cleanup_at_exit);
}

void run_case(Choices& c, Report& r)
{
  if (!g_init_error.empty()) { r.inconclusive = true; r.message = g_init_error; r.line(g_init_error); return; }
  if (!g_macro_table_error.empty())
  {
    r.line("LOGJ macro table check");
    r.fail(g_macro_table_error);
    return;
  }
  r.count("logj_macro_table_27_expansions_checked");
  reset_case_state();

  unsigned const nS = 1 + c.pick(20);
  unsigned const nT = 1 + c.pick(6);
  std::vector<Expect> exps;
  std::vector<std::string> seen_order;      // template text per statement
  bool nontrivial_shape = false, reused_after_other = false;
  bool any_escaped = false, any_spec = false, any_extra = false, any_zero = false, any_ten = false, any_logj = false, any_runtime = false, any_clone = false;
  bool any_rewrite = false, any_no_string = false, any_polled_mid = false, any_batch = false;
  TplFeat tf;
  ValFlags vf;
  std::string harness_error;
  size_t pending = 0;
  uint64_t content_hash = 1469598103934665603ull; // all statements, also those not rendered line by line

  for (unsigned k = 0; k < nS && harness_error.empty(); ++k)
  {
    if (c.pick(6) == 5)
    {
      // disturber: produces no output, but travels through a transit event slot that a later statement reuses
      g_clock.t = 1000000000000000000ull + static_cast<uint64_t>(c.range(0, 2999999999999999999ll));
      g_lg_bt->log_statement<false, false>(quill::LogLevel::None, &kBtNamedMd, std::string{"db-1"}, 5432, 3u);
      r.label("named_backtrace_statement_between");
      if (k < 10) r.line("   (named-argument LOG_BACKTRACE through logger named_bt: stored, never written)");
      ++pending;
    }
    if (c.pick(8) == 7)
    {
      // disturber: a named-argument statement that fails to format part-way (reported once through the notifier)
      g_clock.t = 1000000000000000000ull + static_cast<uint64_t>(c.range(0, 2999999999999999999ll));
      g_lg_err->log_statement<false, false>(quill::LogLevel::None, &kFailNamedMd, std::string{"b.csv"}, std::string{"7001"});
      ++g_expected_format_errors;
      r.label("failing_named_statement_between");
      if (k < 10) r.line("   (named-argument statement whose second value cannot be formatted, through logger named_err)");
      ++pending;
    }
    size_t kind = c.weighted({12, 1, 1}); // 0 generated template, 1 LOGJ_ call site, 2 rewrite a slot in place first
    Expect e;
    e.logger = static_cast<int>(c.pick(2));
    g_clock.t = 1000000000000000000ull + static_cast<uint64_t>(c.range(0, 2999999999999999999ll));
    e.ts = g_clock.t;
    std::string rendering;

    if (kind == 1)
    {
      unsigned site = c.pick(kNLogjSites);
      logj_site(site, c, r, g_lg[e.logger], e, vf, rendering);
      e.what = "(LOGJ site " + std::to_string(site) + ")";
      any_logj = true;
      if (e.pairs.size() == 10) any_ten = true;
      if (e.pairs.empty()) any_zero = true;
      if (k < 10)
        r.line("#" + std::to_string(k) + " " + kLoggerName[e.logger] + " LOGJ site " + std::to_string(site) + " tpl=\"" +
               esc(e.tpl, 80) + "\" " + rendering);
    }
    else
    {
      unsigned si = c.pick(nT);
      Slot& s = g_slots[si];
      if (kind == 2 && s.used)
      {
        // the storage of a call site's metadata is reused for a different template once the backend holds no
        // reference to it any more (drained): the cache is documented as keyed by the format string
        drain();
        pending = 0;
        s.used = false;
        any_rewrite = true;
      }
      if (!s.used)
      {
        bool cloned = false;
        if (rare(c, 4)) cloned = clone_template(c, s, si);
        if (cloned) { any_clone = true; }
        else gen_template(c, s, r, tf);
      }
      auto const& entry = sigs()[s.sig];
      size_t const arity = entry.types.size();
      std::vector<Val> vals;
      bool any_string = false;
      for (size_t a = 0; a < arity; ++a)
      {
        vals.push_back(gen_val(c, entry.types[a], r, vf));
        if (is_stringish(entry.types[a])) any_string = true;
      }
      std::vector<std::string> vfmt;
      for (size_t a = 0; a < arity; ++a) vfmt.push_back(a < s.nph ? "{" + s.specs[a] + "}" : std::string{"{}"});
      StmtOracle o;
      // a fifth of the statements with named placeholders take the LOG_RUNTIME_METADATA form (positional ones are C12's)
      // (only with exactly one argument per placeholder: the macro appends "{}" fields for file, line and function, so a
      // surplus argument would be taken for the file name -- a limitation of the macro, not claimed by C19)
      bool runtime_form = s.nph > 0 && arity == s.nph && rare(c, 5);
      int const rt_level = runtime_form ? static_cast<int>(c.pick(9)) : 0;
      if (runtime_form) { g_rt.on = true; g_rt.md = &*s.md_rt; g_rt.level = kLevels[rt_level]; }
      entry.fn(g_lg[e.logger], &*s.md, s.twin, vfmt, vals, o);
      g_rt.on = false;
      if (o.rt_vetoed) { runtime_form = false; r.count(std::string{"excluded."} + kClsF5); }
      // file and function travel as C strings: a statement in this form always has string arguments, so the configured
      // sanitisation of non-printable characters applies to it
      if (runtime_form) any_string = true;
      if (!o.harness_error.empty()) { harness_error = o.harness_error + " twin=\"" + esc(s.twin) + "\""; break; }
      if (!o.enqueued) { harness_error = "harness: log_statement returned false on an unbounded blocking queue"; break; }

      e.tpl = s.tpl;
      e.msg = any_string ? sanitize(o.msg) : o.msg;
      e.named = s.nph > 0;
      if (e.named)
        for (size_t a = 0; a < arity; ++a)
          e.pairs.emplace_back(a < s.nph ? s.names[a] : "_" + std::to_string(a), any_string ? sanitize(o.vals[a]) : o.vals[a]);
      e.file_name = s.file_name;
      e.line = s.line;
      e.level_desc = kLevelDesc[s.level];
      e.md = &*s.md;
      e.what = "(template \"" + esc(s.tpl, 120) + "\")";
      if (runtime_form)
      {
        e.runtime = true;
        e.md = nullptr;
        e.file_name = kRtFile;
        e.line = std::to_string(kRtLine);
        e.level_desc = kLevelDesc[rt_level];
        e.what = "(LOG_RUNTIME_METADATA form, template \"" + esc(s.tpl, 120) + "\")";
        any_runtime = true;
      }

      if (s.has_escaped) any_escaped = true;
      if (s.has_spec) any_spec = true;
      if (arity > s.nph) any_extra = true;
      if (s.nph == 0) any_zero = true;
      if (s.nph == 10) any_ten = true;
      if (!any_string && arity > 0) any_no_string = true;
      if (s.nph >= 2 && (s.has_escaped || s.has_spec)) nontrivial_shape = true;

      std::string args;
      for (size_t a = 0; a < vals.size(); ++a) { if (a) args += ", "; args += render_val(vals[a]); }
      if (args.size() > 120) args = args.substr(0, 120) + "...";
      if (k < 10)
        r.line("#" + std::to_string(k) + " " + kLoggerName[e.logger] + " slot" + std::to_string(si) + " " + e.level_desc + " " +
             s.srcloc + " tpl=\"" + esc(s.tpl, 100) + "\" args=(" + args + ")");
    }

    // cached template reused after a different one
    {
      bool seen = false, other_since = false;
      for (size_t q = 0; q < seen_order.size(); ++q)
      {
        if (seen_order[q] == e.tpl) { seen = true; other_since = false; }
        else if (seen) other_since = true;
      }
      if (seen && other_since) reused_after_other = true;
      seen_order.push_back(e.tpl);
    }
    content_hash = fnv1a(e.tpl, fnv1a(e.msg, content_hash));
    exps.push_back(std::move(e));
    ++pending;
    if (rare(c, 3)) { drain(); if (k + 1 < nS) any_polled_mid = true; pending = 0; }
    else if (pending >= 2) any_batch = true;
  }

  {
    char hb[32];
    std::snprintf(hb, sizeof hb, "%016llx", static_cast<unsigned long long>(content_hash));
    r.line(std::to_string(exps.size()) + " statements, " + std::to_string(nT) + " template slots, content hash " + hb);
  }
  drain_and_flush();
  std::string const json = read_json_file_and_truncate();

  bool any_json_parsed = false;
  if (!harness_error.empty())
  {
    // cannot happen with the specs of the catalog; reported loudly rather than hidden
    r.fail(harness_error);
  }
  else
  {
    std::string bad = compare_all(exps, json, r, any_json_parsed);
    if (!bad.empty()) r.fail(bad);
  }
  g_recs.clear();

  std::set<std::string> distinct(seen_order.begin(), seen_order.end());
  r.count("statements", static_cast<long>(exps.size()));
  r.count("distinct_templates", static_cast<long>(distinct.size()));
  r.nontrivial = nontrivial_shape || reused_after_other;

  if (reused_after_other) r.label("template_reused_after_other");
  if (any_escaped) r.label("escaped_brace");
  if (any_spec) r.label("has_spec");
  if (any_extra) r.label("extra_args_beyond_placeholders");
  if (vf.sep_like) r.label("separator_like_bytes");
  if (vf.sep_full) r.label("value_contains_full_separator");
  if (vf.newline) r.label("newline_in_value");
  if (vf.nonprintable) r.label("nonprintable_value_bytes");
  if (vf.long_string) r.label("long_string_value");
  if (vf.empty_string) r.label("empty_string_value");
  if (any_zero) r.label("zero_placeholders");
  if (any_ten) r.label("ten_placeholders");
  if (any_json_parsed) r.label("json_checked");
  if (any_logj) r.label("logj_macro_call_site");
  if (any_runtime) r.label("runtime_metadata_form_with_named_args");
  if (any_clone) r.label("same_template_text_with_another_argument_count");
  if (any_rewrite) r.label("metadata_storage_rewritten_after_drain");
  if (any_no_string) r.label("no_string_argument_sanitiser_off");
  if (any_polled_mid) r.label("drained_between_statements");
  if (any_batch) r.label("several_statements_per_drain");
  if (tf.ph_after_open) r.label("placeholder_directly_after_{{");
  if (tf.ph_after_close) r.label("placeholder_directly_after_}}");
  if (tf.close_after_ph) r.label("}}_directly_after_placeholder");
  if (tf.open_after_ph) r.label("{{_directly_after_placeholder");
  if (tf.back_to_back) r.label("placeholders_back_to_back");
  if (tf.ph_at_start) r.label("placeholder_at_start");
  if (tf.ph_at_end) r.label("placeholder_at_end");
  if (tf.newline) r.label("newline_in_template");
  if (tf.dup_names) r.label("duplicate_placeholder_names");
  if (distinct.size() >= 4) r.label("four_or_more_templates");
}

bool probe_known_class(std::string const& cls, std::string& what)
{
  if (!g_init_error.empty()) return false;
  if (cls == kClsF4)
  {
    ProbeResult p = probe_log("x {a}}} y", 7);
    std::string msg = p.recs.size() == 1 ? p.recs[0].msg : "<" + std::to_string(p.recs.size()) + " records>";
    std::string key = (p.recs.size() == 1 && p.recs[0].named.size() == 1) ? p.recs[0].named[0].first : "<none>";
    if (msg != "x 7} y" || key != "a")
    {
      what = "template \"x {a}}} y\" with 7: message \"" + esc(msg) + "\" (expected \"x 7} y\"), key \"" + esc(key) +
        "\" (expected \"a\"): \"}}\" directly after a placeholder is taken into the placeholder";
      return true;
    }
    ProbeResult q = probe_log("{v:>4}}}", 7);
    std::string val = (q.recs.size() == 1 && q.recs[0].named.size() == 1) ? q.recs[0].named[0].second : "<none>";
    if (val != "   7")
    {
      what = "template \"{v:>4}}}\" with 7: value \"" + esc(val) + "\" (expected \"   7\")";
      return true;
    }
    return false;
  }
  if (cls == kClsF5)
  {
    ProbeResult p = probe_log("{a} {b}", std::string{"p\x01\x02\x03q"}, 5);
    std::vector<std::pair<std::string, std::string>> exp = {{"a", "p\\x01\\x02\\x03q"}, {"b", "5"}};
    if (p.recs.size() != 1 || p.recs[0].named != exp)
    {
      what = "template \"{a} {b}\" with (\"p\\x01\\x02\\x03q\", 5): named_args " +
        (p.recs.size() == 1 ? show_pairs(p.recs[0].named) : std::string{"<missing>"}) + ", expected " + show_pairs(exp) +
        ": a value containing the magic separator is split";
      return true;
    }
    return false;
  }
  if (cls == kClsF24)
  {
    reset_case_state();
    Slot& s = g_slots[0];
    std::string const rt = std::string{"user {name} id {id}"} + QUILL_MAGIC_SEPARATOR "{}" QUILL_MAGIC_SEPARATOR "{}" QUILL_MAGIC_SEPARATOR "{}";
    std::memcpy(s.fmt_rt, rt.c_str(), rt.size() + 1);
    s.md_rt.emplace("[placeholder]", "[placeholder]", s.fmt_rt, nullptr, quill::LogLevel::Dynamic,
                    quill::MacroMetadata::Event::LogWithRuntimeMetadata);
    g_lg[1]->log_statement<false, true>(quill::LogLevel::Info, &*s.md_rt, std::string{"bob"}, 7, "probe.cpp", 12, "probe_fn");
    drain_and_flush();
    std::string const json = read_json_file_and_truncate();
    g_recs.clear();
    g_notifier_msgs.clear();
    g_bw->_named_args_templates.clear();
    if (json.find("\"message\":\"user {name} id {id}\"") == std::string::npos)
    {
      what = "LOG_RUNTIME_METADATA(..., \"user {name} id {id}\", \"bob\", 7): the JSON object does not carry the original message template: " + esc(json, 300);
      return true;
    }
    return false;
  }
  if (cls == kClsNl)
  {
    ProbeResult p = probe_log("{a}", std::string{"l1\nl2"});
    size_t lines = static_cast<size_t>(std::count(p.json.begin(), p.json.end(), '\n'));
    if (lines != 1)
    {
      what = "template \"{a}\" with \"l1\\nl2\": the JSON sink wrote " + std::to_string(lines) +
        " lines for one statement (the newline of the value is written raw): \"" + esc(p.json, 200) + "\"";
      return true;
    }
    return false;
  }
  return false;
}
} // namespace verif
