// sim harness, part 2: the operations (included by sim_main.cpp only)
#pragma once
#include <set>

#include "sim_world.h"

namespace
{
int alive_count(World& W)
{
  int n = 0;
  for (auto& x : W.workers) if (x.alive) ++n;
  return n;
}

bool worker_busy(World& W, int wi)
{
  WState st = W.workers[wi].w->state;
  return st == WState::Blocked || st == WState::Stalled;
}

void check_flush_returned(World& W, FlushRec& f);
void finish_op(World& W, int wi);

void after_state(World& W, int wi, WState st)
{
  WInfo& x = W.workers[wi];
  if (st == WState::Idle) { finish_op(W, wi); return; }
  if (st == WState::Blocked)
  {
    W.lbl_blocked = true;
    if (x.pending == OpKind::Log) W.stmts[x.pending_stmt].was_blocked = true;
  }
  if (st == WState::Stalled) W.lbl_stall = true;
}

bool drain(World& W); // sim_main.cpp

void finish_op(World& W, int wi)
{
  WInfo& x = W.workers[wi];
  if (x.pending == OpKind::Log)
  {
    Stmt& s = W.stmts[x.pending_stmt];
    s.call_done = true;
    s.accepted = x.res_accepted;
    s.threw = x.res_threw;
    // a statement that fits the queue's real capacity (its maximum for unbounded queues) is accepted, blocks or is dropped --
    // an error is only documented for a statement that can never fit
    if (s.threw && s.encoded <= kCap)
      fail(W, "log call of " + std::to_string(s.encoded) + " B threw a QuillError although the queue's capacity is " + std::to_string(kCap) +
                " B (configured " + std::to_string(kInitCap) + " B): a fitting statement must be accepted, wait or be dropped");
    // "a producer is never left waiting while its queue is empty and the backend is idle": a blocked call re-attempts the
    // reservation every FrontendOptions::blocking_queue_retry_interval_ns (documented); a sleep that has grown far beyond it
    // (an unbounded back-off) keeps the producer asleep after the backend has made room
    if (!kDropping && x.w->max_sleep_ns_in_op > 100ull * SimFrontendOptions::blocking_queue_retry_interval_ns)
      fail(W, "a blocked log call asked to sleep " + std::to_string(x.w->max_sleep_ns_in_op) + " ns before its next attempt (after " +
                std::to_string(x.w->sleeps_in_op) + " attempts); the documented retry interval is " +
                std::to_string(SimFrontendOptions::blocking_queue_retry_interval_ns) + " ns: the producer stays asleep although the backend has made room");
    s.ts = W.loggers[s.logger].user_clock ? x.w->first_user_ts_in_op : x.w->first_realtime_in_op;
    s.enq_time = sim::core().vclock;
    if (s.kind == SKind::MacroStatic || s.kind == SKind::MacroDynamic)
    {
      // C16: the macro evaluated its arguments iff bump() ran
      bool ran = x.counter == x.next_seq + 1;
      bool skipped = x.counter == x.next_seq;
      if (!ran && !skipped) fail(W, "argument evaluated more than once");
      s.evaluated = ran;
      s.accepted = ran; // blocking flavours: evaluated == enqueued
      if (ran) { s.seq = x.next_seq; x.next_seq = x.counter; }
      LoggerInfo const& L = W.loggers[s.logger];
      bool expect = s.level >= L.level;
      if (ran != expect)
      {
        fail(W, std::string{"statement at level "} + kLevelNames[s.level] + (s.kind == SKind::MacroDynamic ? " (dynamic)" : " (static)") +
                  " with logger level " + kLevelNames[L.level] + ": arguments were " + (ran ? "" : "NOT ") + "evaluated / enqueued, expected the opposite");
      }
      if (!ran) s.ts = 0;
    }
    if (s.kind == SKind::MacroStatic || s.kind == SKind::MacroDynamic) { if (s.evaluated) x.has_logged = true; }
    else x.has_logged = true;
    if (!s.accepted && !s.threw && (s.kind == SKind::Normal || is_bt_kind(s.kind) || s.kind == SKind::Named || s.kind == SKind::Dynamic || s.kind == SKind::RuntimeMeta || s.kind == SKind::RtBadSpec)) ++x.drops_unreported;
    if (s.immediate && s.accepted)
    {
      // log_statement<immediate_flush> called flush_log() after the enqueue: when it returns, this statement and everything
      // that flush_log() covers (see op_flush) is written and flushed
      FlushRec f;
      f.w = s.w;
      f.logger = s.logger;
      f.issue_idx = s.issue_idx;
      f.must_be_written = x.imm_must;
      f.must_be_written.push_back(x.pending_stmt);
      f.returned = true;
      W.flushes.push_back(f);
      if (is_prop("C06") || is_prop("C10") || is_prop("C03")) check_flush_returned(W, W.flushes.back());
    }
    x.imm_must.clear();
  }
  else if (x.pending == OpKind::Flush)
  {
    FlushRec& f = W.flushes[x.pending_flush];
    f.returned = true;
    x.has_logged = true;
    if (is_prop("C06") || is_prop("C10") || is_prop("C03") || is_prop("C17")) check_flush_returned(W, f);
  }
  else if (x.pending == OpKind::InitBt || x.pending == OpKind::FlushBt)
  {
    x.has_logged = true;
  }
  else if (x.pending == OpKind::RemoveBlocking)
  {
    x.has_logged = true;
    LoggerInfo& L = W.loggers[x.pending_logger];
    L.removed = true;
    // when remove_logger_blocking returns the removal has completed
    bool newer = false;
    for (auto const& l : W.loggers) if (&l != &L && l.name == L.name && l.valid) newer = true;
    if (!newer && SFrontend::get_logger(L.name) != nullptr) fail(W, "remove_logger_blocking(" + L.name + ") returned but get_logger still finds the logger");
    size_t not_removed = 0;
    for (auto const& l : W.loggers) if (!l.removed) ++not_removed;
    size_t n = SFrontend::get_number_of_loggers();
    if (n > not_removed) fail(W, "remove_logger_blocking(" + L.name + ") returned but get_number_of_loggers() is " + std::to_string(n) + ", at most " + std::to_string(not_removed) + " loggers can still exist");
  }
  x.pending = OpKind::None;
}

// The cross-thread clause of flush_log() is stated for system / TSC clocks. A case that has a logger on a user clock (C03
// only) makes no cross-thread claim at all: a statement stamped ahead of the wall clock sits at the front of its thread's
// buffer until everything older is written, and holds back the system-clock statements queued behind it.
bool any_user_clock(World& W)
{
  for (auto const& l : W.loggers) if (l.user_clock) return true;
  return false;
}
bool sink_accepts(World& W, int sk, Stmt const& s, std::string const& msg); // sim_oracles.h
std::string stmt_message(Stmt const& s);                                    // sim_oracles.h

// C06: evaluated at the instant flush_log() returned
void check_flush_returned(World& W, FlushRec& f)
{
  for (size_t si : f.must_be_written)
  {
    Stmt const& s = W.stmts[si];
    if (!s.accepted || s.faulty) continue;
    // C17: statements logged through a logger whose removal has been requested are the delivery oracle's business (the sinks
    // of an invalidated logger are no longer flushed by the backend; they are closed when the logger goes); what is asked here
    // is that the sinks of the SURVIVING loggers keep working while a removal is pending
    if (is_prop("C17") && !W.loggers[s.logger].valid) continue;
    for (int sk : W.loggers[s.logger].sinks)
    {
      // a statement that the sink's own level filter / filters reject (changed at a drained point) is not owed to that sink
      if ((W.lbl_sink_level_changed || W.lbl_filter_added_late) && !sink_accepts(W, sk, s, stmt_message(s))) continue;
      long last_w = -1, last_f = -1;
      bool sink_threw = false;
      for (size_t k = 0; k < W.journal.size(); ++k)
      {
        JEntry const& e = W.journal[k];
        if (e.sink != sk) continue;
        if (e.kind == 'F') last_f = static_cast<long>(k);
        else if (e.kind == 'W' || e.kind == 'X')
        {
          int w;
          uint32_t seq;
          std::string pad;
          if (parse_msg(e.msg, w, seq, pad) && w == s.w && seq == s.seq) { last_w = static_cast<long>(k); if (e.kind == 'X') sink_threw = true; }
        }
      }
      if (is_prop("C10"))
      {
        // fault injection: a throwing write_log may remove this statement from this sink and the sinks after it in the
        // logger's sink order; a sink with an injected flush failure may stay unflushed. Every OTHER sink must still be
        // written and flushed when flush_log() returns.
        bool excused = sink_threw || !W.sinks[sk].raw->plan.flush_calls.empty();
        LoggerInfo const& L = W.loggers[s.logger];
        for (int prev : L.sinks)
        {
          if (prev == sk) break;
          for (auto const& e : W.journal)
          {
            int w2;
            uint32_t q2;
            std::string p2;
            if (e.kind == 'X' && e.sink == prev && parse_msg(e.msg, w2, q2, p2) && w2 == s.w && q2 == s.seq) excused = true;
          }
        }
        if (excused) continue;
      }
      std::string who = (s.w == f.w) ? "its own earlier statement" : "statement of another thread whose call had completed before the flush was invoked";
      if (last_w < 0)
      {
        fail(W, "flush_log() of worker " + std::to_string(f.w) + " returned but " + who + " " + std::to_string(s.w) + ":" +
                  std::to_string(s.seq) + " was not written to sink " + std::to_string(sk));
        return;
      }
      if (last_f < last_w)
      {
        fail(W, "flush_log() of worker " + std::to_string(f.w) + " returned but sink " + std::to_string(sk) +
                  " was not flushed after " + who + " " + std::to_string(s.w) + ":" + std::to_string(s.seq));
        return;
      }
    }
  }
}

// choose a size class; returns pad length so that the encoded statement has the wanted size
uint32_t draw_padlen(World& W, bool allow_never_fits, bool small_only = false)
{
  Choices& c = *W.c;
  size_t total;
  size_t band = (kCap * 5 + 99) / 100;
  if (small_only) return c.pick(12);
  switch (c.weighted({6, 4, 3, 3, 2, 1}))
  {
  case 0: total = kStmtFixed + c.pick(33); break;                                   // small
  case 1: total = kStmtFixed + c.pick(9); W.r->label("size_tiny"); break;           // tiny: below the publish batch
  case 2: total = kInitCap / 8 + c.pick(static_cast<uint32_t>(kInitCap / 2)); break; // medium
  case 3: total = kCap - c.pick(static_cast<uint32_t>((kCap * 6 + 99) / 100 + 1)); W.r->label("size_in_band_below_capacity"); break;
  case 4: total = kCap; W.r->label("size_eq_capacity"); break;
  default:
    if (allow_never_fits) { total = kCap + 1 + c.pick(64); W.r->label("size_never_fits"); }
    else total = kCap / 2 + c.pick(static_cast<uint32_t>(kCap / 4));
    break;
  }
  if (total < kStmtFixed) total = kStmtFixed;
  if (!allow_never_fits && total > kCap) total = kCap;
  if (g_excl_f1 && total + band > kCap && total <= kCap)
  {
    // known finding F1: a request in the band (capacity - 5 %, capacity] may be refused for ever
    W.r->count("excluded.sim.unpublished_reader_remainder_stall");
    total = kCap - band;
  }
  return static_cast<uint32_t>(total - kStmtFixed);
}

int pick_logger(World& W)
{
  std::vector<int> v;
  for (size_t k = 0; k < W.loggers.size(); ++k) if (W.loggers[k].valid) v.push_back(static_cast<int>(k));
  if (v.empty()) return -1;
  return v[W.c->pick(static_cast<uint32_t>(v.size()))];
}

int pick_worker(World& W)
{
  std::vector<int> v;
  for (size_t k = 0; k < W.workers.size(); ++k) if (W.workers[k].alive) v.push_back(static_cast<int>(k));
  if (v.empty()) return -1;
  return v[W.c->pick(static_cast<uint32_t>(v.size()))];
}

int op_start_thread(World& W, bool unlimited = false)
{
  if (!unlimited && (alive_count(W) >= 5 || W.workers.size() >= 40)) return -1;
  WInfo x;
  x.w = sim::start_worker();
  W.workers.push_back(x);
  if (!unlimited) W.log_op("Start(w" + std::to_string(W.workers.size()) + ")");
  return static_cast<int>(W.workers.size() - 1);
}

void op_retry(World& W, int wi)
{
  WInfo& x = W.workers[wi];
  if (!worker_busy(W, wi)) return;
  // Y6 may run under the logger registry lock: completing a blocking removal makes the harness query the registry
  if (W.cur_point == 6 && x.pending == OpKind::RemoveBlocking) return;
  if (W.cur_point == 1 && !x.has_logged)
  {
    // the worker's FIRST log call (or flush) would complete inside Y1: same window as a first log issued there
    if (g_excl_f10) { W.r->count("excluded.sim.first_log_between_cache_refresh_and_ts_now"); return; }
    W.lbl_first_log_in_y1 = true;
  }
  W.log_op((x.w->state == WState::Stalled ? "Resume(w" : "Retry(w") + std::to_string(wi + 1) + ")");
  WState st = sim::grant(x.w);
  after_state(W, wi, st);
}

uint32_t bump(uint32_t* c) { return (*c)++; }

// C16: the real macros, one call site per static level (arguments must not be evaluated when the level is filtered)
void macro_log(SLogger* lg, int level, bool dynamic, uint16_t wid, uint32_t* counter, std::string const& pad)
{
  if (dynamic)
  {
    LOG_DYNAMIC(lg, static_cast<quill::LogLevel>(level), "{}:{}:{}", wid, bump(counter), pad);
    return;
  }
  switch (level)
  {
  case 0: LOG_TRACE_L3(lg, "{}:{}:{}", wid, bump(counter), pad); break;
  case 1: LOG_TRACE_L2(lg, "{}:{}:{}", wid, bump(counter), pad); break;
  case 2: LOG_TRACE_L1(lg, "{}:{}:{}", wid, bump(counter), pad); break;
  case 3: LOG_DEBUG(lg, "{}:{}:{}", wid, bump(counter), pad); break;
  case 4: LOG_INFO(lg, "{}:{}:{}", wid, bump(counter), pad); break;
  case 5: LOG_NOTICE(lg, "{}:{}:{}", wid, bump(counter), pad); break;
  case 6: LOG_WARNING(lg, "{}:{}:{}", wid, bump(counter), pad); break;
  case 7: LOG_ERROR(lg, "{}:{}:{}", wid, bump(counter), pad); break;
  default: LOG_CRITICAL(lg, "{}:{}:{}", wid, bump(counter), pad); break;
  }
}

// the central logging op. kind_override < 0: drawn per property.
void op_log(World& W, int wi, bool in_burst, int ypoint, int logger_override = -1, int kind_override = -1, bool small = false)
{
  Choices& c = *W.c;
  if (wi < 0) { wi = op_start_thread(W); if (wi < 0) return; }
  if (worker_busy(W, wi)) { op_retry(W, wi); return; }
  WInfo& x = W.workers[wi];
  int li = logger_override >= 0 ? logger_override : pick_logger(W);
  if (li < 0 || !W.loggers[li].valid) return;
  bool first_log = !x.has_logged;
  if (in_burst && ypoint == 1 && first_log)
  {
    if (g_excl_f10)
    {
      // known finding F10: a thread's first log call between the cache refresh and the ts_now read
      W.r->count("excluded.sim.first_log_between_cache_refresh_and_ts_now");
      return;
    }
    W.lbl_first_log_in_y1 = true;
  }
  Stmt s;
  s.w = wi + 1;
  s.logger = li;
  s.level = 4 + static_cast<int>(c.pick(5)); // Info..Critical: all pass the default logger level
  s.kind = SKind::Normal;
  s.in_y1 = in_burst && ypoint == 1;
  bool dynamic = false;
  if (kind_override >= 0) s.kind = static_cast<SKind>(kind_override);
  else if (is_prop("C10"))
  {
    switch (c.weighted({6, 1, 1, 2, 1, 3, 1, 1, 1, 1}))
    {
    case 9: s.kind = SKind::RtBadSpec; break;   // LOG_RUNTIME_METADATA that cannot be formatted
    case 8: s.kind = SKind::RuntimeMeta; break; // healthy LOG_RUNTIME_METADATA between the faulty statements
    case 7: s.kind = SKind::NamedBadSpec; break;
    case 0: break;
    case 5: s.kind = SKind::Named; break;
    case 6: s.kind = SKind::NamedBtNoInit; break;
    case 1: s.kind = SKind::BadTemplate; break;
    case 2: s.kind = SKind::BadSpec; break;
    case 3:
      s.kind = SKind::Bomb;
      s.bomb_kind = static_cast<int>(c.pick(5));
      if (s.bomb_kind >= 2 && g_excl_f2)
      {
        // known finding F2: a formatter throwing something that is not derived from std::exception
        W.r->count("excluded.sim.nonstd_exception_from_formatter");
        s.bomb_kind = 1;
      }
      break;
    default: s.kind = SKind::BtNoInit; break;
    }
  }
  else if (is_prop("C16"))
  {
    s.level = static_cast<int>(c.pick(9));
    dynamic = c.pick(3) == 2;
    s.kind = dynamic ? SKind::MacroDynamic : SKind::MacroStatic;
  }
  else
  {
    // every other property: a tenth of the statements carry named arguments, a tenth a run-time level (the backend keeps
    // both in per-slot state of the transit buffer, which is reused, moved on expansion and cleared per statement)
    switch (c.weighted({8, 1, 1, 1}))
    {
    case 1: s.kind = SKind::Named; break;
    case 2: s.kind = SKind::Dynamic; break;
    case 3: s.kind = SKind::RuntimeMeta; break; // LOG_RUNTIME_METADATA: an ordinary statement with its own event type
    default: break;
    }
  }
  if (is_bt_kind(s.kind) || s.kind == SKind::BtNoInit || s.kind == SKind::NamedBtNoInit) s.level = 9;
  if (s.kind == SKind::Named) s.level = 4;
  if (s.kind == SKind::BadTemplate || s.kind == SKind::BadSpec || s.kind == SKind::NamedBadSpec || s.kind == SKind::RtBadSpec || s.kind == SKind::BtNoInit || s.kind == SKind::NamedBtNoInit ||
      (s.kind == SKind::Bomb && s.bomb_kind != 0))
  {
    s.faulty = true;
    ++W.injected_faults;
  }
  if (s.kind == SKind::BadTemplate || s.kind == SKind::BadSpec || s.kind == SKind::NamedBadSpec || s.kind == SKind::RtBadSpec || s.kind == SKind::Bomb) s.level = 4;
  bool is_macro = (s.kind == SKind::MacroStatic || s.kind == SKind::MacroDynamic);
  if (!is_macro) s.seq = x.next_seq++;
  bool never_fits_ok = kDropping && is_prop("C08");
  // C05 asserts order only when EVERY statement of the case met the deadline: keep blocking (full queue) rare there
  bool mostly_small = is_prop("C05") && c.pick(12) != 11;
  s.padlen = draw_padlen(W, never_fits_ok, small || mostly_small || is_prop("C16") || is_prop("C18") || is_prop("C17"));
  if (s.kind == SKind::Bomb)
  {
    // the deferred-format argument is larger than the two integers it replaces (object + alignment slack)
    s.padlen = s.padlen > 32 ? s.padlen - 32 : 0;
  }
  if (s.kind == SKind::Dynamic && s.padlen > 0) --s.padlen; // the run-time level travels as one more byte: keep the drawn total
  // runtime metadata: "rt.cpp" (7 B as a C string), line (4 B), "fn" (3 B) and the run-time level (1 B) travel as well
  constexpr uint32_t kRtExtra = 7 + 4 + 3 + 1;
  bool const rt_kind = s.kind == SKind::RuntimeMeta || s.kind == SKind::RtBadSpec;
  if (rt_kind) s.padlen = s.padlen > kRtExtra ? s.padlen - kRtExtra : 0;
  s.encoded = kStmtFixed + s.padlen + (s.kind == SKind::Bomb ? 32 : 0) + (s.kind == SKind::Dynamic ? 1 : 0) + (rt_kind ? kRtExtra : 0);
  s.issue_idx = W.op_counter;
  // C06 / C03: one statement in ten is logged with the immediate-flush flavour of the log call (QUILL_IMMEDIATE_FLUSH)
  if (s.kind == SKind::Normal && kind_override < 0 && (is_prop("C06") || is_prop("C03")) && c.pick(10) == 9)
  {
    s.immediate = true;
    x.imm_must.clear();
    for (size_t k = 0; k < W.stmts.size(); ++k)
    {
      Stmt const& e = W.stmts[k];
      if (!e.call_done || !e.accepted || e.faulty || is_bt_kind(e.kind)) continue;
      if (e.w == s.w || (W.grace_ns > 0 && !any_user_clock(W))) x.imm_must.push_back(k);
    }
    W.r->label("immediate_flush_log_call");
  }
  bool const immediate = s.immediate;
  bool stall = false;
  if ((is_prop("C05") || is_prop("C06")) && !small && W.stalls_enabled) stall = c.pick(6) == 5;
  s.stalled = stall;
  W.stmts.push_back(s);
  size_t si = W.stmts.size() - 1;
  x.pending = OpKind::Log;
  x.pending_stmt = si;
  x.res_accepted = false;
  x.res_threw = false;
  SLogger* lg = W.loggers[li].ptr;
  std::string pad = make_pad(s.w, is_macro ? x.next_seq : s.seq, s.padlen);
  uint16_t wid = static_cast<uint16_t>(s.w);
  uint32_t seq = s.seq;
  WInfo* xp = &x;
  SKind kind = s.kind;
  int level = s.level;
  int bomb_kind = s.bomb_kind;
  {
    std::string d = "Log(w" + std::to_string(s.w) + "#" + std::to_string(is_macro ? x.next_seq : s.seq) + ",L" + std::to_string(li) + "," +
      std::to_string(s.encoded) + "B";
    if (kind == SKind::Backtrace) d += ",bt";
    if (kind == SKind::NamedBacktrace) d += ",bt-named";
    if (kind == SKind::BadTemplate) d += ",badtemplate";
    if (kind == SKind::BadSpec) d += ",badspec";
    if (kind == SKind::NamedBadSpec) d += ",named-badspec";
    if (kind == SKind::Bomb) d += ",bomb" + std::to_string(bomb_kind);
    if (kind == SKind::BtNoInit) d += ",bt-noinit";
    if (kind == SKind::Named) d += ",named";
    if (kind == SKind::NamedBtNoInit) d += ",named-bt-noinit";
    if (kind == SKind::Dynamic) d += ",dyn";
    if (kind == SKind::RuntimeMeta) d += ",runtime-metadata";
    if (kind == SKind::RtBadSpec) d += ",runtime-metadata-badspec";
    if (immediate) d += ",immediate-flush";
    if (is_macro) d += std::string{","} + (dynamic ? "dyn:" : "") + kLevelCodes[level];
    else if (is_prop("C18")) d += std::string{","} + kLevelCodes[level];
    if (stall) d += ",stall";
    if (in_burst) d += ",@Y" + std::to_string(ypoint);
    W.log_op(d + ")");
  }
  WState st = sim::run_on(
    x.w,
    [lg, wid, seq, pad, xp, kind, level, bomb_kind, immediate]()
    {
      try
      {
        switch (kind)
        {
        case SKind::Normal:
        case SKind::Backtrace:
        case SKind::BtNoInit:
          if (immediate)
          {
            if constexpr (kDropping)
            {
              char const* cpad = pad.c_str();
              xp->res_accepted = lg->template log_statement<true, false>(quill::LogLevel::None, &kMd[level], wid, seq, cpad);
            }
            else xp->res_accepted = lg->template log_statement<true, false>(quill::LogLevel::None, &kMd[level], wid, seq, pad);
          }
          else if constexpr (kDropping)
          {
            char const* cpad = pad.c_str();
            xp->res_accepted = lg->template log_statement<false, false>(quill::LogLevel::None, &kMd[level], wid, seq, cpad);
          }
          else
          {
            xp->res_accepted = lg->template log_statement<false, false>(quill::LogLevel::None, &kMd[level], wid, seq, pad);
          }
          break;
        case SKind::Named:
        case SKind::NamedBtNoInit:
        case SKind::NamedBacktrace:
        {
          quill::MacroMetadata const* md = (kind == SKind::Named) ? &kMdNamed : &kMdNamedBt;
          if constexpr (kDropping)
          {
            char const* cpad = pad.c_str();
            xp->res_accepted = lg->template log_statement<false, false>(quill::LogLevel::None, md, wid, seq, cpad);
          }
          else
          {
            xp->res_accepted = lg->template log_statement<false, false>(quill::LogLevel::None, md, wid, seq, pad);
          }
          break;
        }
        case SKind::RuntimeMeta:
          if constexpr (kDropping)
          {
            char const* cpad = pad.c_str();
            xp->res_accepted = lg->template log_statement<false, true>(static_cast<quill::LogLevel>(level), &kMdRuntime, wid, seq, cpad, "rt.cpp", 77, "fn");
          }
          else
          {
            xp->res_accepted = lg->template log_statement<false, true>(static_cast<quill::LogLevel>(level), &kMdRuntime, wid, seq, pad, "rt.cpp", 77, "fn");
          }
          break;
        case SKind::RtBadSpec:
          if constexpr (kDropping)
          {
            char const* cpad = pad.c_str();
            xp->res_accepted = lg->template log_statement<false, true>(static_cast<quill::LogLevel>(level), &kMdRuntimeBad, wid, seq, cpad, "rt.cpp", 77, "fn");
          }
          else
          {
            xp->res_accepted = lg->template log_statement<false, true>(static_cast<quill::LogLevel>(level), &kMdRuntimeBad, wid, seq, pad, "rt.cpp", 77, "fn");
          }
          break;
        case SKind::Dynamic:
          if constexpr (kDropping)
          {
            char const* cpad = pad.c_str();
            xp->res_accepted = lg->template log_statement<false, true>(static_cast<quill::LogLevel>(level), &kMdDyn, wid, seq, cpad);
          }
          else
          {
            xp->res_accepted = lg->template log_statement<false, true>(static_cast<quill::LogLevel>(level), &kMdDyn, wid, seq, pad);
          }
          break;
        case SKind::BadTemplate:
          xp->res_accepted = lg->template log_statement<false, false>(quill::LogLevel::None, &kMdBadTemplate, wid, seq, pad);
          break;
        case SKind::BadSpec:
          xp->res_accepted = lg->template log_statement<false, false>(quill::LogLevel::None, &kMdBadSpec, wid, seq, pad);
          break;
        case SKind::NamedBadSpec:
          xp->res_accepted = lg->template log_statement<false, false>(quill::LogLevel::None, &kMdNamedBadSpec, wid, seq, pad);
          break;
        case SKind::Bomb:
          xp->res_accepted = lg->template log_statement<false, false>(quill::LogLevel::None, &kMdBomb, Bomb{bomb_kind, wid, seq}, pad);
          break;
        case SKind::MacroStatic: macro_log(lg, level, false, wid, &xp->counter, pad); break;
        case SKind::MacroDynamic: macro_log(lg, level, true, wid, &xp->counter, pad); break;
        }
      }
      catch (quill::QuillError const&) { xp->res_threw = true; }
    },
    stall);
  after_state(W, wi, st);
}

void op_flush(World& W, int wi, bool in_burst, int ypoint, int logger_override = -1)
{
  if (wi < 0) { wi = op_start_thread(W); if (wi < 0) return; }
  if (worker_busy(W, wi)) { op_retry(W, wi); return; }
  WInfo& x = W.workers[wi];
  int li = logger_override >= 0 ? logger_override : pick_logger(W);
  if (li < 0 || !W.loggers[li].valid) return;
  if (in_burst && ypoint == 1 && !x.has_logged)
  {
    if (g_excl_f10) { W.r->count("excluded.sim.first_log_between_cache_refresh_and_ts_now"); return; }
    W.lbl_first_log_in_y1 = true;
  }
  FlushRec f;
  f.w = wi + 1;
  f.logger = li;
  f.issue_idx = W.op_counter;
  // what must be on the sinks when it returns: every earlier statement of this worker; with ordering enabled also every
  // statement of any other worker whose call completed before now
  for (size_t k = 0; k < W.stmts.size(); ++k)
  {
    Stmt const& s = W.stmts[k];
    if (!s.call_done || !s.accepted || s.faulty || is_bt_kind(s.kind)) continue;
    // (the cross-thread clause is stated for system / TSC clocks: a statement stamped by a user clock is not owed to the
    // flush of another thread)
    if (s.w == f.w || (W.grace_ns > 0 && !any_user_clock(W))) f.must_be_written.push_back(k);
  }
  W.flushes.push_back(f);
  x.pending = OpKind::Flush;
  x.pending_flush = W.flushes.size() - 1;
  SLogger* lg = W.loggers[li].ptr;
  W.log_op("Flush(w" + std::to_string(wi + 1) + ",L" + std::to_string(li) + (in_burst ? ",@Y" + std::to_string(ypoint) : "") + ")");
  WState st = sim::run_on(x.w, [lg]() { lg->flush_log(100); });
  after_state(W, wi, st);
}

bool stmt_written(World& W, Stmt const& s)
{
  for (auto const& e : W.journal)
  {
    int w;
    uint32_t q;
    std::string p;
    if (e.kind == 'W' && parse_msg(e.msg, w, q, p) && w == s.w && q == s.seq) return true;
  }
  return false;
}

void op_exit_thread(World& W, int wi, bool quiet = false)
{
  if (wi < 0) return;
  if (worker_busy(W, wi)) { op_retry(W, wi); return; }
  WInfo& x = W.workers[wi];
  if (!x.alive) return;
  if (g_excl_f11 && kDropping && x.drops_unreported > 0)
  {
    // known finding F11: drops of a thread that exits before they were reported
    W.r->count("excluded.sim.drops_of_exited_thread_unreported");
    return;
  }
  if (g_excl_f9 && x.has_logged && W.exited_since_idle >= 255)
  {
    // known finding F9: 256 exits between two clean-ups wrap the 8-bit counter
    W.r->count("excluded.sim.invalid_context_counter_wraps_at_256");
    return;
  }
  if (!quiet)
  {
    for (auto const& s : W.stmts)
    {
      if (s.w == wi + 1 && s.accepted && !s.faulty && !is_bt_kind(s.kind) && !stmt_written(W, s)) { W.lbl_exit_with_pending = true; break; }
    }
    W.log_op("Exit(w" + std::to_string(wi + 1) + ")");
  }
  sim::exit_worker(x.w);
  x.alive = false;
  if (x.bt_logger >= 0)
  {
    // C18: the logger this thread used for backtrace traffic can be taken over by another thread; what the exited thread
    // stored stays in the logger's ring and must be replayed with the exited thread's id
    W.loggers[x.bt_logger].bt_owner = -1;
    if (W.loggers[x.bt_logger].bt_stored_since_flush > 0) W.r->label("thread_exited_with_stored_backtrace");
    x.bt_logger = -1;
  }
  if (x.has_logged)
  {
    ++W.exited_since_idle;
    if (W.exited_since_idle > W.max_exited_between_idles) W.max_exited_between_idles = W.exited_since_idle;
  }
}

void op_tick(World& W)
{
  Choices& c = *W.c;
  uint64_t g = W.grace_ns ? W.grace_ns : 1000;
  uint64_t dt;
  switch (c.pick(6))
  {
  case 0: dt = 1; break;
  case 1: dt = g / 2; break;
  case 2: dt = g - 1; break;
  case 3: dt = g; break;
  case 4: dt = g + 1; break;
  default: dt = 10 * g; break;
  }
  sim::core().vclock += dt;
  W.log_op("Tick(" + std::to_string(dt) + ")");
}

// ---- C18 backtrace ops: each logger is used for backtrace traffic by exactly one worker, so the per-logger event order is
// that worker's program order whatever the interleaving ----
int bt_logger_for(World& W, int wi)
{
  WInfo& x = W.workers[wi];
  if (x.bt_logger >= 0) return x.bt_logger;
  for (size_t k = 0; k < W.loggers.size(); ++k)
  {
    if (W.loggers[k].bt_owner < 0) { W.loggers[k].bt_owner = wi; x.bt_logger = static_cast<int>(k); return x.bt_logger; }
  }
  return -1;
}

void op_bt_init(World& W, int wi)
{
  Choices& c = *W.c;
  if (wi < 0) { wi = op_start_thread(W); if (wi < 0) return; }
  if (worker_busy(W, wi)) { op_retry(W, wi); return; }
  int li = bt_logger_for(W, wi);
  if (li < 0) return;
  LoggerInfo& L = W.loggers[li];
  WInfo& x = W.workers[wi];
  uint32_t cap = (c.pick(3) == 2) ? 1 + c.pick(9) : 1 + c.pick(3); // small rings wrap often
  int lvl;
  switch (c.pick(5))
  {
  case 0: lvl = 10; break; // None: explicit flush only
  case 1: lvl = 7; break;  // Error
  case 2: lvl = 8; break;
  case 3: lvl = 6; break;
  default: lvl = 4 + static_cast<int>(c.pick(5)); break;
  }
  if (L.bt_init)
  {
    // re-initialisation: same capacity anywhere; a different capacity only right after a flush (store empty, both readings
    // of "re-initialise" agree); the flush level is read by the backend at processing time, so it only changes at drained
    // points: half of the re-initialisations outside a poll drain first and may then set ANY level (also back to None)
    bool drained_first = false;
    if (!W.in_poll && c.pick(2) == 1)
    {
      W.log_op("DrainIdle");
      if (!drain(W)) return;
      drained_first = true;
    }
    if (!drained_first) lvl = L.bt_flush_level;
    else if (lvl != L.bt_flush_level) W.r->label(lvl == 10 ? "bt_reinit_flush_level_back_to_none" : "bt_reinit_changes_flush_level");
    if (L.bt_stored_since_flush != 0) cap = L.bt_cap;
  }
  L.bt_init = true;
  L.bt_cap = cap;
  L.bt_flush_level = lvl;
  L.bt_events.push_back(BtEvent{'I', 0, cap, lvl});
  x.pending = OpKind::InitBt;
  SLogger* lg = L.ptr;
  W.log_op("InitBt(w" + std::to_string(wi + 1) + ",L" + std::to_string(li) + ",cap" + std::to_string(cap) + ",flush@" + kLevelCodes[lvl] + ")");
  WState st = sim::run_on(x.w, [lg, cap, lvl]() { lg->init_backtrace(cap, static_cast<quill::LogLevel>(lvl)); });
  after_state(W, wi, st);
}

void op_bt_log(World& W, int wi, bool in_burst, int ypoint)
{
  if (wi < 0) return;
  if (worker_busy(W, wi)) { op_retry(W, wi); return; }
  int li = bt_logger_for(W, wi);
  if (li < 0) return;
  LoggerInfo& L = W.loggers[li];
  if (!L.bt_init) { op_bt_init(W, wi); return; }
  if (g_excl_f3 && L.bt_stored_since_flush >= static_cast<long>(L.bt_cap))
  {
    // known finding F3: after a flush of a WRAPPED ring the index is stale; excluded by never wrapping
    W.r->count("excluded.sim.backtrace_index_not_reset");
    return;
  }
  size_t before = W.stmts.size();
  bool named_bt = W.c->pick(4) == 3; // the stored event owns its named args: they must come back with the replay
  if (named_bt) W.r->label("named_backtrace_statement");
  if (g_bt_throws && !L.sinks.empty() && W.c->pick(5) == 4)
  {
    // C10 x C18: one sink of the logger throws when THIS backtrace statement is written (i.e. during a replay, if it is
    // still in the ring then). Only that statement may be missing, on that sink and the logger's sinks after it.
    int sk = L.sinks[W.c->pick(static_cast<uint32_t>(L.sinks.size()))];
    W.sinks[sk].raw->plan.throw_ids.insert(std::to_string(wi + 1) + ":" + std::to_string(W.workers[wi].next_seq));
    W.r->label("sink_throws_during_backtrace_replay_planned");
    W.log_op("ThrowOn(s" + std::to_string(sk) + "," + std::to_string(wi + 1) + ":" + std::to_string(W.workers[wi].next_seq) + ")");
  }
  op_log(W, wi, in_burst, ypoint, li, static_cast<int>(named_bt ? SKind::NamedBacktrace : SKind::Backtrace), true);
  if (W.stmts.size() > before)
  {
    L.bt_events.push_back(BtEvent{'B', W.stmts.size() - 1, 0, 0});
    ++L.bt_stored_since_flush;
  }
}

void op_bt_plain(World& W, int wi, bool in_burst, int ypoint)
{
  if (wi < 0) return;
  if (worker_busy(W, wi)) { op_retry(W, wi); return; }
  int li = bt_logger_for(W, wi);
  if (li < 0) return;
  LoggerInfo& L = W.loggers[li];
  size_t before = W.stmts.size();
  bool dyn = W.c->pick(3) == 2; // level supplied at run time (LOG_DYNAMIC): the effective level decides the flush
  op_log(W, wi, in_burst, ypoint, li, static_cast<int>(dyn ? SKind::Dynamic : SKind::Normal), true);
  if (W.stmts.size() > before)
  {
    Stmt& s = W.stmts.back();
    if (dyn) W.r->label("dynamic_level_statement");
    L.bt_events.push_back(BtEvent{'S', W.stmts.size() - 1, 0, 0});
    if (L.bt_init && s.level >= L.bt_flush_level) L.bt_stored_since_flush = 0;
  }
}

void op_bt_flush(World& W, int wi)
{
  if (wi < 0) return;
  if (worker_busy(W, wi)) { op_retry(W, wi); return; }
  int li = bt_logger_for(W, wi);
  if (li < 0) return;
  LoggerInfo& L = W.loggers[li];
  WInfo& x = W.workers[wi];
  L.bt_events.push_back(BtEvent{'F', 0, 0, 0});
  if (L.bt_init) L.bt_stored_since_flush = 0;
  x.pending = OpKind::FlushBt;
  SLogger* lg = L.ptr;
  W.log_op("FlushBt(w" + std::to_string(wi + 1) + ",L" + std::to_string(li) + ")");
  WState st = sim::run_on(x.w, [lg]() { lg->flush_backtrace(); });
  after_state(W, wi, st);
}

// ---- C16: level changes (frontend side: immediate) ----
void op_set_level(World& W, int wi)
{
  if (wi < 0) return;
  if (worker_busy(W, wi)) { op_retry(W, wi); return; }
  int li = pick_logger(W);
  if (li < 0) return;
  int lvl = static_cast<int>(W.c->pick(10));
  if (lvl == 9) lvl = 10; // Backtrace is rejected by set_log_level: use None
  LoggerInfo& L = W.loggers[li];
  L.level = lvl;
  SLogger* lg = L.ptr;
  W.log_op("SetLevel(L" + std::to_string(li) + "," + kLevelCodes[lvl] + ")");
  WState st = sim::run_on(W.workers[wi].w, [lg, lvl]() { lg->set_log_level(static_cast<quill::LogLevel>(lvl)); });
  after_state(W, wi, st);
}

// ---- C17: logger / sink life cycle ----
// create_or_get_sink by NAME. Outside C17 every sink gets a fresh name; in C17 names come from a small pool, so a name is
// looked up again while its sink lives (must be the same object: idempotent) and re-created after the sink died.
int make_sink(World& W, std::optional<quill::PatternFormatterOptions> ov = std::nullopt)
{
  int idx = static_cast<int>(W.sinks.size());
  std::string name = "sink" + std::to_string(idx);
  if (is_prop("C17"))
  {
    static char const* pool[] = {"sA", "sB", "sC", "sD"};
    name = pool[W.c->pick(4)];
  }
  auto it = W.sink_by_name.find(name);
  if (it != W.sink_by_name.end() && !W.sinks[it->second].destroyed)
  {
    // the sink of that name is alive (a logger or the user still owns it): lookup and creation must return it
    SinkInfo& cur = W.sinks[it->second];
    std::shared_ptr<quill::Sink> sp = SFrontend::create_or_get_sink<RecSink>(name, 9999, ov);
    if (sp.get() != cur.raw)
    {
      fail(W, "create_or_get_sink(\"" + name + "\") returned a different object although the sink of that name is still alive (not idempotent)");
      return it->second;
    }
    try
    {
      if (SFrontend::get_sink(name).get() != cur.raw) fail(W, "get_sink(\"" + name + "\") returned a different object than create_or_get_sink");
    }
    catch (quill::QuillError const& e)
    {
      fail(W, "get_sink(\"" + name + "\") throws although the sink of that name is alive: " + std::string{e.what()});
    }
    if (!cur.user_ref) cur.user_ref = std::static_pointer_cast<RecSink>(sp); // the user holds it again
    W.log_op("GetSink(" + name + "=" + std::to_string(it->second) + ")");
    return it->second;
  }
  SinkInfo si;
  si.name = name;
  std::shared_ptr<quill::Sink> sp = SFrontend::create_or_get_sink<RecSink>(si.name, idx, ov);
  si.user_ref = std::static_pointer_cast<RecSink>(sp);
  si.raw = si.user_ref.get();
  si.has_override = ov.has_value();
  if (si.raw->_idx != idx)
  {
    fail(W, "create_or_get_sink(\"" + name + "\") returned an older object although no sink of that name was alive");
    return it != W.sink_by_name.end() ? it->second : 0;
  }
  if (it != W.sink_by_name.end()) W.r->label("sink_name_recreated");
  W.sinks.push_back(si);
  W.sink_by_name[name] = idx;
  try
  {
    if (SFrontend::get_sink(name).get() != si.raw) fail(W, "get_sink(\"" + name + "\") does not return the sink that create_or_get_sink just created");
  }
  catch (quill::QuillError const& e)
  {
    fail(W, "get_sink(\"" + name + "\") throws right after create_or_get_sink created it: " + std::string{e.what()});
  }
  if (is_prop("C17")) W.log_op("NewSink(" + name + "=" + std::to_string(idx) + ")");
  return idx;
}

bool logger_in_use(World& W, int li)
{
  for (auto const& x : W.workers)
    if (x.alive && x.pending != OpKind::None && ((x.pending == OpKind::Log && W.stmts[x.pending_stmt].logger == li) ||
                                                  (x.pending == OpKind::Flush && W.flushes[x.pending_flush].logger == li) ||
                                                  x.pending_logger == li))
      return true;
  return false;
}

void op_create_logger(World& W)
{
  Choices& c = *W.c;
  static char const* names[] = {"A", "B", "C"};
  std::string name = names[c.pick(3)];
  int existing = -1;
  for (size_t k = 0; k < W.loggers.size(); ++k) if (W.loggers[k].name == name && !W.loggers[k].removed) existing = static_cast<int>(k);
  if (existing >= 0)
  {
    LoggerInfo& L = W.loggers[existing];
    if (!L.valid)
    {
      // a blocking removal in progress: re-create only after remove_logger_blocking returned (documented)
      for (auto const& x : W.workers) if (x.alive && x.pending == OpKind::RemoveBlocking && x.pending_logger == existing) return;
      // removal requested but not known to be complete: has the count dropped?
      size_t valid_n = 0;
      for (auto const& l : W.loggers) if (l.valid) ++valid_n;
      if (SFrontend::get_number_of_loggers() == valid_n) { for (auto& l : W.loggers) if (!l.valid) l.removed = true; }
      else return; // documented precondition: do not re-create before the removal completed
    }
    else
    {
      // idempotent lookup / creation
      SLogger* again = SFrontend::create_or_get_logger(name, SFrontend::get_sink(W.sinks[L.sinks[0]].name));
      if (again != L.ptr) fail(W, "create_or_get_logger(" + name + ") returned a different object while the logger lives");
      if (SFrontend::get_logger(name) != L.ptr) fail(W, "get_logger(" + name + ") does not return the live logger");
      // the other registry views: get_all_loggers() = exactly the loggers whose removal was not requested; get_valid_logger()
      // is one of them (or nullptr when there is none)
      {
        std::set<SLogger*> model;
        for (auto const& l : W.loggers) if (l.valid) model.insert(l.ptr);
        std::vector<SLogger*> all = SFrontend::get_all_loggers();
        std::set<SLogger*> got(all.begin(), all.end());
        if (got != model || all.size() != got.size())
          fail(W, "get_all_loggers() returns " + std::to_string(all.size()) + " loggers, the registry model has " + std::to_string(model.size()) +
                    " valid ones (a removed logger is listed, a live one is missing, or one is listed twice)");
        SLogger* v = SFrontend::get_valid_logger();
        if (model.empty() ? v != nullptr : model.count(v) == 0) fail(W, "get_valid_logger() does not return one of the valid loggers");
        W.r->label("registry_views_checked");
      }
      return;
    }
  }
  // a quarter of the creations copy the configuration of a live logger (create_or_get_logger(name, source_logger)):
  // the new logger must write to the source's sinks with the source's pattern
  {
    std::vector<int> live;
    for (size_t k = 0; k < W.loggers.size(); ++k) if (W.loggers[k].valid && !W.loggers[k].removed) live.push_back(static_cast<int>(k));
    if (!live.empty() && c.pick(4) == 3)
    {
      LoggerInfo const& S = W.loggers[live[c.pick(static_cast<uint32_t>(live.size()))]];
      LoggerInfo L;
      L.name = name;
      L.sinks = S.sinks;
      L.pat = S.pat;
      bool recreated = false;
      for (auto const& l : W.loggers) if (l.name == name) recreated = true;
      L.ptr = SFrontend::create_or_get_logger(name, S.ptr);
      std::string src = S.name;
      W.loggers.push_back(L);
      if (recreated) W.lbl_recreated = true;
      W.r->label("logger_created_from_source_logger");
      W.log_op("Create(" + name + "=L" + std::to_string(W.loggers.size() - 1) + ",like " + src + ")");
      return;
    }
  }
  // sinks: a subset of sinks the user still references, or a fresh one
  std::vector<int> chosen;
  for (size_t k = 0; k < W.sinks.size(); ++k)
    if (W.sinks[k].user_ref && c.pick(2) == 1 && chosen.size() < 3) chosen.push_back(static_cast<int>(k));
  if (chosen.empty() || (c.pick(3) == 2 && W.sinks.size() < 24))
  {
    int k = make_sink(W);
    if (W.r->failed) return;
    if (std::find(chosen.begin(), chosen.end(), k) == chosen.end()) chosen.push_back(k);
  }
  std::vector<std::shared_ptr<quill::Sink>> sv;
  for (int k : chosen) sv.push_back(W.sinks[k].user_ref);
  LoggerInfo L;
  L.name = name;
  L.sinks = chosen;
  bool recreated = false;
  for (auto const& l : W.loggers) if (l.name == name) recreated = true;
  L.pat = static_cast<int>(c.pick(3)); // a re-created name may come back with another pattern
  L.ptr = SFrontend::create_or_get_logger(name, std::move(sv),
                                          quill::PatternFormatterOptions{kLoggerPatterns[L.pat], "%H:%M:%S.%Qns", quill::Timezone::GmtTime, false},
                                          quill::ClockSourceType::System);
  W.loggers.push_back(L);
  if (recreated) W.lbl_recreated = true;
  std::string d = "Create(" + name + "=L" + std::to_string(W.loggers.size() - 1) + ",[";
  for (int k : chosen) d += std::to_string(k);
  W.log_op(d + "],p" + std::to_string(L.pat) + ")");
}

void op_remove_logger(World& W, int wi, bool blocking)
{
  if (wi < 0) { wi = op_start_thread(W); if (wi < 0) return; }
  if (worker_busy(W, wi)) { op_retry(W, wi); return; }
  int li = pick_logger(W);
  if (li < 0 || logger_in_use(W, li)) return;
  LoggerInfo& L = W.loggers[li];
  WInfo& x = W.workers[wi];
  for (auto const& s : W.stmts)
    if (s.logger == li && s.accepted && !stmt_written(W, s)) { W.lbl_removal_with_queued = true; break; }
  L.valid = false;
  SLogger* lg = L.ptr;
  W.log_op(std::string{blocking ? "RemoveBlocking(w" : "Remove(w"} + std::to_string(wi + 1) + ",L" + std::to_string(li) + ")");
  if (blocking)
  {
    x.pending = OpKind::RemoveBlocking;
    x.pending_logger = li;
    WState st = sim::run_on(x.w, [lg]() { SFrontend::remove_logger_blocking(lg, 100); });
    after_state(W, wi, st);
    if (x.pending == OpKind::None) x.pending_logger = -1;
  }
  else
  {
    x.pending = OpKind::Other;
    WState st = sim::run_on(x.w, [lg]() { SFrontend::remove_logger(lg); });
    after_state(W, wi, st);
  }
}

// C17: a removal that is still pending (the backend completes it in its next idle pass) while the same thread logs through
// another logger and flushes: the sinks of the surviving loggers "keep working" -- written and flushed when flush_log() returns
void op_remove_then_flush(World& W)
{
  if (W.in_poll) return;
  int valid = 0;
  for (auto const& l : W.loggers) if (l.valid) ++valid;
  if (valid < 2) return;
  int wi = pick_worker(W);
  if (wi < 0) wi = op_start_thread(W);
  if (wi < 0 || worker_busy(W, wi)) return;
  op_remove_logger(W, wi, false);
  if (W.r->failed || worker_busy(W, wi)) return;
  op_log(W, wi, false, 0, -1, -1, true);
  if (W.r->failed || worker_busy(W, wi)) return;
  W.r->label("flush_while_a_removal_is_pending");
  op_flush(W, wi, false, 0, -1);
}

void op_drop_sink_ref(World& W)
{
  std::vector<int> v;
  for (size_t k = 0; k < W.sinks.size(); ++k) if (W.sinks[k].user_ref) v.push_back(static_cast<int>(k));
  if (v.empty()) return;
  int k = v[W.c->pick(static_cast<uint32_t>(v.size()))];
  W.log_op("DropSinkRef(" + std::to_string(k) + ")");
  W.sinks[k].user_ref.reset();
}

// ---- C20 ----
void op_thread_batch(World& W)
{
  Choices& c = *W.c;
  static int const sizes[] = {1, 2, 3, 5, 8, 12, 63, 64, 65, 127, 128, 129, 255, 256, 257, 511, 512, 513};
  long big = param_int(g_params, "big_batches", 0);
  int k = sizes[c.pick(big ? 18 : 15)];
  if (c.pick(3) != 0 && k > 12) k = 1 + static_cast<int>(c.pick(12)); // large batches are expensive: a third of the draws
  // parameter huge_batches=1 (a thorough-tier job): once per case a batch around the 16-bit boundary of a reclamation counter
  static bool huge_done = false; // one forked child per case
  if (param_int(g_params, "huge_batches", 0) && !huge_done && c.pick(3) == 0)
  {
    huge_done = true;
    k = 65535 + static_cast<int>(c.pick(3));
    W.r->label("batch_ge_65535");
  }
  if (g_excl_f9 && W.exited_since_idle + k >= 256)
  {
    W.r->count("excluded.sim.invalid_context_counter_wraps_at_256");
    k = static_cast<int>(std::max<long>(0, 255 - W.exited_since_idle));
    if (k == 0) return;
  }
  int li = pick_logger(W);
  if (li < 0) return;
  unsigned per = c.pick(4); // statements per thread 0..3
  W.log_op("Batch(" + std::to_string(k) + "x" + std::to_string(per) + ")");
  if (k >= 64) W.r->label("batch_ge_64");
  if (k >= 255) W.r->label("batch_ge_255");
  for (int i = 0; i < k && !W.r->failed; ++i)
  {
    int wi = op_start_thread(W, true);
    for (unsigned j = 0; j < per; ++j)
    {
      op_log(W, wi, false, 0, li, static_cast<int>(SKind::Normal), true);
      if (worker_busy(W, wi)) break;
    }
    if (worker_busy(W, wi)) continue; // blocked on a full queue: stays alive, the drain resumes it
    op_exit_thread(W, wi, true);
  }
}

size_t worker_queue_capacity(World& W, int wi)
{
  WInfo& x = W.workers[wi];
  WInfo* xp = &x;
  sim::run_on(x.w, [xp]() { xp->res_capacity = SFrontend::get_thread_local_queue_capacity(); });
  return x.res_capacity;
}

void op_shrink(World& W, int wi, size_t forced_target = 0)
{
  if (kBounded) return;
  if (wi < 0) return;
  if (worker_busy(W, wi)) { op_retry(W, wi); return; }
  WInfo& x = W.workers[wi];
  if (!x.has_logged) return;
  Choices& c = *W.c;
  size_t target;
  if (forced_target) target = forced_target;
  else switch (c.pick(4))
  {
  case 0: target = kInitCap; break;
  case 1: target = kInitCap * 2; break;
  case 2: target = kCap / 2; break;
  default: target = 64 + c.pick(static_cast<uint32_t>(kCap)); break;
  }
  WInfo* xp = &x;
  size_t before = 0;
  sim::run_on(x.w, [xp]() { xp->res_capacity = SFrontend::get_thread_local_queue_capacity(); });
  before = x.res_capacity;
  x.pending = OpKind::Other;
  W.log_op("Shrink(w" + std::to_string(wi + 1) + "," + std::to_string(before) + "->" + std::to_string(target) + ")");
  WState st = sim::run_on(x.w, [xp, target]() { SFrontend::shrink_thread_local_queue(target); xp->res_capacity = SFrontend::get_thread_local_queue_capacity(); });
  after_state(W, wi, st);
  size_t after = x.res_capacity;
  size_t want = before;
  if (target <= before / 2) want = quill::detail::next_power_of_two(target);
  if (after != want)
  {
    fail(W, "shrink_thread_local_queue(" + std::to_string(target) + ") with capacity " + std::to_string(before) + ": capacity reported afterwards is " +
              std::to_string(after) + ", expected " + std::to_string(want));
  }
  if (after < before) { W.r->label("queue_shrunk"); W.lbl_shrink_between = true; }
}

// generator aimed at chains of buffers: two shrink requests back to back (no statement in between), then a statement, then
// the thread exits — all inside one yield point of the backend's pass
void op_shrink_chain_then_exit(World& W, int point)
{
  if (kBounded) return;
  int wi = -1;
  for (size_t k = 0; k < W.workers.size(); ++k)
    if (W.workers[k].alive && W.workers[k].has_logged && !worker_busy(W, static_cast<int>(k))) { wi = static_cast<int>(k); if (W.c->pick(2)) break; }
  if (wi < 0) return;
  size_t cap0 = worker_queue_capacity(W, wi);
  if (cap0 < 4 * 64) return;
  W.r->label("shrink_chain");
  {
    unsigned const links = 2 + W.c->pick(3); // 2..4 re-allocations in a row
    size_t cap = cap0;
    for (unsigned k = 0; k < links && cap / 2 >= 64; ++k)
    {
      cap /= 2;
      op_shrink(W, wi, cap);
      if (W.r->failed) return;
      if (k >= 2) W.r->label("three_or_more_shrinks_in_a_row");
    }
  }
  unsigned n = 1 + W.c->pick(2);
  for (unsigned k = 0; k < n; ++k) op_log(W, wi, true, point, -1, static_cast<int>(SKind::Normal), true);
  if (W.c->pick(3) != 0) op_exit_thread(W, wi);
}

// C05 on unbounded queues: a thread re-allocates its queue twice with nothing in between (two shrink requests, or a shrink
// to a tiny buffer followed by a statement that does not fit it), so that an EMPTY buffer sits between the one the
// backend is on and the one holding the thread's next statement; then that thread logs, then another thread logs a
// little later, then more than the grace period passes. Both statements are older than the grace period at the next
// pass and were enqueued on time: they must be written in timestamp order.
void op_shrink_chain_then_pair(World& W)
{
  if (kBounded || W.in_poll) return;
  int a = -1, b = -1;
  for (size_t k = 0; k < W.workers.size(); ++k)
  {
    if (!W.workers[k].alive || worker_busy(W, static_cast<int>(k))) continue;
    if (a < 0 && W.workers[k].has_logged && worker_queue_capacity(W, static_cast<int>(k)) >= 4 * 64) a = static_cast<int>(k);
    else if (b < 0) b = static_cast<int>(k);
  }
  if (a < 0) return;
  if (b < 0) b = op_start_thread(W);
  if (b < 0 || b == a) return;
  size_t cap0 = worker_queue_capacity(W, a);
  W.r->label("shrink_chain_then_two_threads_log");
  if (W.c->pick(2) == 0)
  {
    // 2..4 re-allocations in a row with nothing logged in between: a chain of never-used buffers
    unsigned const links = 2 + W.c->pick(3);
    size_t cap = cap0;
    for (unsigned k = 0; k < links && cap / 2 >= 64; ++k)
    {
      cap /= 2;
      op_shrink(W, a, cap);
      if (W.r->failed) return;
      if (k >= 2) W.r->label("three_or_more_shrinks_in_a_row");
    }
  }
  else op_shrink(W, a, 64); // the next statement does not fit 64 bytes: the queue grows at once, the 64-byte buffer stays empty
  if (W.r->failed) return;
  op_log(W, a, false, 0, -1, static_cast<int>(SKind::Normal), false);
  sim::core().vclock += W.c->pick(3);
  op_log(W, b, false, 0, -1, static_cast<int>(SKind::Normal), true);
  sim::core().vclock += W.grace_ns + 1 + W.c->pick(3);
  W.log_op("Tick(g+)");
}
} // namespace
