// C07 — Stopping, exiting or dying by a handled signal loses no completed statement.
//
// Engine `crashkid`: the case is a generated *child program* (threads, statements with payload sizes, clock source,
// backend options, signal-handler options). Its termination points are ENUMERATED: for each chosen termination kind
// the child (/verif/build/crash_child, see crash_child.cpp) is executed once per statement boundary 0..n of the
// faulted thread. The oracle looks at the child from OUTSIDE only: wait status and file content after waitpid.
// A sub-mode runs in-process Start / Log / Stop / Start ... cycles inside the exec'd child (never in the driver).
//
// Build (no sanitizers; the harness itself never includes quill):
//   g++ -std=gnu++17 -g -O1 -DQUILL_VERIF -I/repo/include -I/verif -c ../harness/crashkid.cpp -o crashkid.o
//   g++ crashkid.o rc_driver.plain.o -lrapidcheck -lpthread -o crashkid
//
// Params: child=<path of crash_child>  all_kinds=1 (all 10 kinds instead of a generated subset of 2-3)
//         mode=mix|crash|cycles (default mix: ~1 case in 5 is a cycles case)   jobs=<parallel children, default #cpus>
//         hang_s=<seconds before a child counts as hung, default 20>            keep=1 (keep scratch of failures)
#include "../engine/harness.h"

#include <algorithm>
#include <cerrno>
#include <csignal>
#include <ctime>
#include <dirent.h>
#include <fcntl.h>
#include <fstream>
#include <set>
#include <sstream>
#include <sys/stat.h>
#include <sys/types.h>
#include <sys/wait.h>
#include <unistd.h>

using namespace verif;

namespace
{
Params g_params;
std::string g_child = "/verif/build/crash_child";
bool g_all_kinds = false;
std::string g_mode = "mix";
long g_jobs = 8;
double g_hang_s = 20.0;
bool g_keep = false;
long g_dir_counter = 0;

// ------------------------------------------------------------------------------------------------
// statement identity (duplicated verbatim from crash_child.cpp: the oracle recomputes every line)
// ------------------------------------------------------------------------------------------------
std::string make_payload(unsigned tid, unsigned seq, unsigned size)
{
  static char const alpha[] =
    "ABCDEFGHIJKLMNOPQRSTUVWXYZabcdefghijklmnopqrstuvwxyz0123456789 .,;-_+*/=()[]<>{}!?#%&@^~|'\"\\$`";
  uint32_t x = tid * 2654435761u ^ seq * 40503u ^ size * 97u ^ 0x9e3779b9u;
  std::string s(size, ' ');
  for (unsigned i = 0; i < size; ++i)
  {
    x = x * 1664525u + 1013904223u;
    s[i] = alpha[(x >> 16) % (sizeof alpha - 1)];
  }
  return s;
}

std::string checksum_hex(std::string const& s)
{
  uint32_t h = 2166136261u;
  for (unsigned char c : s) { h ^= c; h *= 16777619u; }
  char b[16];
  std::snprintf(b, sizeof b, "%08x", h);
  return b;
}

std::string expected_line(unsigned tid, unsigned seq, unsigned size)
{
  std::string const p = make_payload(tid, seq, size);
  return std::to_string(tid) + ":" + std::to_string(seq) + ":" + checksum_hex(p) + ":" + p;
}

// ------------------------------------------------------------------------------------------------
// termination kinds
// ------------------------------------------------------------------------------------------------
enum Kind { K_RETURN, K_EXIT_MAIN, K_EXIT_THREAD, K_STOP, K_SEGV, K_ABRT, K_FPE, K_ILL, K_INT, K_TERM, K_COUNT };
char const* const kKindName[K_COUNT] = {"return", "exit_main", "exit_thread", "stop", "sigsegv",
                                        "sigabrt", "sigfpe", "sigill", "sigint", "sigterm"};
int const kKindSignal[K_COUNT] = {0, 0, 0, 0, SIGSEGV, SIGABRT, SIGFPE, SIGILL, SIGINT, SIGTERM};
bool is_signal(int k) { return kKindSignal[k] != 0; }
bool is_fatal(int k) { return k >= K_SEGV && k <= K_ILL; }

// ------------------------------------------------------------------------------------------------
// file helpers
// ------------------------------------------------------------------------------------------------
double now_s()
{
  timespec ts{};
  clock_gettime(CLOCK_MONOTONIC, &ts);
  return static_cast<double>(ts.tv_sec) + static_cast<double>(ts.tv_nsec) * 1e-9;
}

bool read_file(std::string const& path, std::string& out)
{
  out.clear();
  int fd = ::open(path.c_str(), O_RDONLY);
  if (fd < 0) return false;
  char buf[65536];
  ssize_t r;
  while ((r = ::read(fd, buf, sizeof buf)) > 0) out.append(buf, static_cast<size_t>(r));
  ::close(fd);
  return true;
}

void write_text(std::string const& path, std::string const& s)
{
  int fd = ::open(path.c_str(), O_WRONLY | O_CREAT | O_TRUNC, 0644);
  if (fd < 0) return;
  size_t off = 0;
  while (off < s.size())
  {
    ssize_t w = ::write(fd, s.data() + off, s.size() - off);
    if (w <= 0) break;
    off += static_cast<size_t>(w);
  }
  ::close(fd);
}

std::vector<std::string> list_dir(std::string const& dir)
{
  std::vector<std::string> v;
  if (DIR* d = opendir(dir.c_str()))
  {
    while (dirent* e = readdir(d))
    {
      std::string n = e->d_name;
      if (n != "." && n != "..") v.push_back(n);
    }
    closedir(d);
  }
  std::sort(v.begin(), v.end());
  return v;
}

void remove_dir(std::string const& dir)
{
  for (auto const& n : list_dir(dir)) ::unlink((dir + "/" + n).c_str());
  ::rmdir(dir.c_str());
}

std::string top_dir() { return "/dev/shm/verif-crash-" + std::to_string(getpid()); }

std::string tail_of(std::string const& s, size_t n) { return s.size() <= n ? s : "..." + s.substr(s.size() - n); }

// ------------------------------------------------------------------------------------------------
// running children
// ------------------------------------------------------------------------------------------------
struct ChildRun
{
  std::string spec_body; // everything except the dir line
  std::string dir;
  pid_t pid{-1};
  int status{0};
  bool started{false};
  bool finished{false};
  bool hung{false};
  double t_start{0}, t_end{0}, elapsed{0};
};

void launch(ChildRun& c)
{
  c.dir = top_dir() + "/" + std::to_string(++g_dir_counter);
  ::mkdir(top_dir().c_str(), 0755);
  remove_dir(c.dir); // leftovers of a dead driver with the same pid
  ::mkdir(c.dir.c_str(), 0755);
  std::string const spec_path = c.dir + "/spec.txt";
  write_text(spec_path, "dir " + c.dir + "\n" + c.spec_body);
  c.t_start = now_s();
  c.started = true;
  c.finished = false;
  c.hung = false;
  fflush(stdout);
  fflush(stderr);
  pid_t pid = fork();
  if (pid == 0)
  {
    int nul = ::open("/dev/null", O_RDONLY);
    if (nul >= 0) dup2(nul, 0);
    int efd = ::open((c.dir + "/stderr.txt").c_str(), O_WRONLY | O_CREAT | O_TRUNC, 0644);
    if (efd >= 0) { dup2(efd, 1); dup2(efd, 2); }
    for (int fd = 3; fd < 64; ++fd) ::close(fd);
    // the child must see default dispositions and an empty mask whatever the driver does
    for (int s : {SIGSEGV, SIGABRT, SIGFPE, SIGILL, SIGINT, SIGTERM, SIGALRM, SIGPIPE}) ::signal(s, SIG_DFL);
    sigset_t none;
    sigemptyset(&none);
    sigprocmask(SIG_SETMASK, &none, nullptr);
    execl(g_child.c_str(), g_child.c_str(), spec_path.c_str(), static_cast<char*>(nullptr));
    _exit(91);
  }
  c.pid = pid;
  if (pid < 0) { c.finished = true; c.status = 0x7f00 | 92; }
}

// poll one running child; true when it has ended (or was killed as hung)
bool poll_child(ChildRun& c)
{
  if (c.finished) return true;
  int st = 0;
  pid_t w = waitpid(c.pid, &st, WNOHANG);
  if (w == c.pid)
  {
    c.status = st;
    c.finished = true;
    c.t_end = now_s();
    c.elapsed = c.t_end - c.t_start;
    return true;
  }
  if (now_s() - c.t_start > g_hang_s)
  {
    ::kill(c.pid, SIGKILL);
    waitpid(c.pid, &st, 0);
    c.status = st;
    c.finished = true;
    c.hung = true;
    c.elapsed = now_s() - c.t_start;
    return true;
  }
  return false;
}

void run_all(std::vector<ChildRun>& runs)
{
  size_t next = 0;
  std::vector<size_t> active;
  while (next < runs.size() || !active.empty())
  {
    while (next < runs.size() && static_cast<long>(active.size()) < g_jobs)
    {
      launch(runs[next]);
      active.push_back(next++);
    }
    bool any = false;
    for (size_t k = 0; k < active.size();)
    {
      if (poll_child(runs[active[k]])) { active.erase(active.begin() + static_cast<long>(k)); any = true; }
      else ++k;
    }
    if (!any)
    {
      timespec req{0, 300000};
      nanosleep(&req, nullptr);
    }
  }
}

void run_alone(ChildRun& c)
{
  launch(c);
  while (!poll_child(c))
  {
    timespec req{0, 300000};
    nanosleep(&req, nullptr);
  }
}

std::string status_text(int st)
{
  if (WIFEXITED(st)) return "exit status " + std::to_string(WEXITSTATUS(st));
  if (WIFSIGNALED(st)) return std::string{"killed by signal "} + std::to_string(WTERMSIG(st)) + " (" + strsignal(WTERMSIG(st)) + ")";
  return "wait status " + std::to_string(st);
}

// ------------------------------------------------------------------------------------------------
// file oracle
// ------------------------------------------------------------------------------------------------
struct Expect
{
  std::map<unsigned, std::vector<std::string>> per_thread; // statements whose log call completed, in call order
  std::set<unsigned> must_complete;                        // threads of which every completed statement must be there
  bool allow_partial_tail{false};                          // process was killed: the last line may be cut
  bool want_received{false}, want_terminated{false};
  unsigned notice_after{0}; // the handler's notice comes after this thread's statements
  std::string n_received, n_terminated;
};

// empty string = fine
std::string check_content(std::string const& content, Expect const& ex, char const* what)
{
  std::map<unsigned, size_t> next;
  for (auto const& kv : ex.per_thread) next[kv.first] = 0;
  long pos_received = -1, pos_terminated = -1, pos_last_actor = -1;
  long lineno = 0;
  size_t p = 0;
  std::string const W = std::string{what} + ": ";
  while (p < content.size())
  {
    size_t q = content.find('\n', p);
    if (q == std::string::npos)
    {
      if (ex.allow_partial_tail) break;
      return W + "the file does not end with a complete line; tail \"" + esc(content.substr(p), 80) + "\"";
    }
    std::string const line = content.substr(p, q - p);
    p = q + 1;
    ++lineno;
    if (!ex.n_received.empty() && line == ex.n_received)
    {
      if (!ex.want_received) return W + "unexpected handler notice \"" + line + "\"";
      if (pos_received >= 0) return W + "handler notice \"" + line + "\" appears twice";
      pos_received = lineno;
      continue;
    }
    if (!ex.n_terminated.empty() && line == ex.n_terminated)
    {
      if (!ex.want_terminated) return W + "unexpected handler notice \"" + line + "\"";
      if (pos_terminated >= 0) return W + "handler notice \"" + line + "\" appears twice";
      pos_terminated = lineno;
      continue;
    }
    // "<tid>:<seq>:..."
    char* end = nullptr;
    unsigned long tid = std::strtoul(line.c_str(), &end, 10);
    auto it = (end && *end == ':' && end != line.c_str()) ? ex.per_thread.find(static_cast<unsigned>(tid)) : ex.per_thread.end();
    if (it == ex.per_thread.end())
      return W + "line " + std::to_string(lineno) + " is neither a statement of the program nor a handler notice: \"" + esc(line, 120) + "\"";
    std::vector<std::string> const& seqv = it->second;
    size_t& nx = next[it->first];
    bool const strict = ex.must_complete.count(it->first) != 0;
    size_t found = seqv.size();
    for (size_t j = nx; j < seqv.size(); ++j)
    {
      if (seqv[j] == line) { found = j; break; }
      if (strict) break;
    }
    if (found == seqv.size())
    {
      // classify for the message
      size_t any = seqv.size();
      for (size_t j = 0; j < seqv.size(); ++j) if (seqv[j] == line) { any = j; break; }
      if (any != seqv.size())
        return W + "line " + std::to_string(lineno) + ": statement " + std::to_string(tid) + ":" + std::to_string(any) +
          " is duplicated or out of order (expected statement " + std::to_string(nx) + " of that thread next)";
      return W + "line " + std::to_string(lineno) + " is not a completed statement of thread " + std::to_string(tid) +
        " (corrupt, cut, or never logged; " + std::to_string(seqv.size()) + " completed): \"" + esc(line, 120) + "\"";
    }
    nx = found + 1;
    if (it->first == ex.notice_after) pos_last_actor = lineno;
  }
  for (unsigned t : ex.must_complete)
  {
    auto it = ex.per_thread.find(t);
    if (it == ex.per_thread.end()) continue;
    if (next[t] != it->second.size())
      return W + "statement " + std::to_string(t) + ":" + std::to_string(next[t]) + " is missing although its log call had completed (" +
        std::to_string(next[t]) + " of " + std::to_string(it->second.size()) + " completed statements of thread " +
        std::to_string(t) + " present, " + std::to_string(lineno) + " lines in the file)";
  }
  if (ex.want_received)
  {
    if (pos_received < 0) return W + "the handler's notice \"" + ex.n_received + "\" is missing";
    if (pos_received < pos_last_actor) return W + "the handler's notice precedes a statement of the signalled thread";
  }
  if (ex.want_terminated)
  {
    if (pos_terminated < 0) return W + "the handler's notice \"" + ex.n_terminated + "\" is missing";
    if (pos_terminated < pos_received) return W + "\"terminated unexpectedly\" precedes \"Received signal\"";
  }
  return {};
}

// ------------------------------------------------------------------------------------------------
// generated program
// ------------------------------------------------------------------------------------------------
struct ThreadGen
{
  unsigned n{1};
  unsigned pre{1};     // statements completed at the event when this thread is not the enumerated one
  bool exits{false};
  std::vector<unsigned> sizes;
};

struct BackendGen
{
  int mode{0}; // 0 default, 1 busy (slow sink), 2 sleepy (long sleep_duration), 3 drained (idle, everything written)
  long sleep_us{-1}, slow_us{0}, grace_us{1}, flush_ms{200};
};

unsigned gen_size(Choices& c)
{
  switch (c.weighted({4, 3, 2, 1}))
  {
  case 0: return static_cast<unsigned>(c.range(0, 16));
  case 1: return static_cast<unsigned>(c.range(17, 200));
  case 2: return static_cast<unsigned>(c.range(201, 2000));
  default: return static_cast<unsigned>(c.range(2001, 8192));
  }
}

BackendGen gen_backend(Choices& c)
{
  BackendGen b;
  b.mode = static_cast<int>(c.weighted({2, 5, 2, 1}));
  if (b.mode == 1)
  {
    static long const slow[] = {300, 100, 1000};
    static long const slp[] = {-1, 0, 100};
    b.slow_us = slow[c.pick(3)];
    b.sleep_us = slp[c.pick(3)];
  }
  else if (b.mode == 2)
  {
    static long const slp[] = {5000, 1000, 20000};
    b.sleep_us = slp[c.pick(3)];
  }
  static long const grace[] = {1, 0, 1000, 20000};
  b.grace_us = grace[c.weighted({3, 1, 2, 3})]; // a long grace period keeps the last statements "too young" when the stop arrives
  b.flush_ms = c.flip(2, 3) ? 200 : 0;
  return b;
}

std::string backend_kv(BackendGen const& b)
{
  std::string s;
  if (b.sleep_us >= 0) s += " sleep_us=" + std::to_string(b.sleep_us);
  s += " slow_us=" + std::to_string(b.slow_us) + " grace_us=" + std::to_string(b.grace_us) +
    " flush_ms=" + std::to_string(b.flush_ms);
  return s;
}

std::string sizes_csv(std::vector<unsigned> const& v)
{
  std::string s;
  for (size_t i = 0; i < v.size(); ++i) { if (i) s += ","; s += std::to_string(v[i]); }
  return s;
}

struct Common
{
  bool tsc{false}, small_queue{false};
  std::string level{"info"};
  long wbuf{-1};
};

void gen_common(Choices& c, Common& k)
{
  k.tsc = c.pick(4) == 1;
  k.small_queue = c.pick(4) == 1;
  static char const* const lv[] = {"info", "debug", "trace"};
  k.level = lv[c.weighted({4, 1, 1})];
  static long const wb[] = {-1, 0, 4096};
  k.wbuf = wb[c.weighted({4, 1, 1})];
}

std::string common_text(Common const& k)
{
  std::string s = std::string{"clock "} + (k.tsc ? "tsc" : "system") + "\nqueue " + (k.small_queue ? "small" : "default") +
    "\nlevel " + k.level + "\n";
  if (k.wbuf >= 0) s += "wbuf " + std::to_string(k.wbuf) + "\n";
  return s;
}

std::string shown(std::string const& dir, std::string const& body) { (void)dir; return "dir <DIR>\n" + body; }

void cleanup(ChildRun const& c, bool failed)
{
  if (c.dir.empty()) return;
  if (failed && g_keep) { std::fprintf(stderr, "crashkid: keeping %s\n", c.dir.c_str()); return; }
  remove_dir(c.dir);
}

// ------------------------------------------------------------------------------------------------
// crash mode
// ------------------------------------------------------------------------------------------------
struct Point
{
  int kind;
  unsigned enumerated; // thread whose boundary is enumerated
  unsigned actor;
  unsigned boundary;
  std::vector<unsigned> pre;
  bool handler;
  unsigned timeout;
};

// verdict of one child; empty = pass. `unwritten` receives whether something was still unwritten at the event.
// `slow`: the child took so long after the event that the handler's alarm may have played a part.
std::string judge_crash(ChildRun const& c, Point const& pt, std::vector<ThreadGen> const& th, bool& unwritten, bool& slow)
{
  unwritten = false;
  slow = c.hung;
  if (c.hung) return "the child did not terminate within " + std::to_string(static_cast<int>(g_hang_s)) + " s (killed by the harness)";
  std::string err;
  read_file(c.dir + "/stderr.txt", err);
  std::string const errinfo = err.empty() ? std::string{} : " [child stderr: " + esc(tail_of(err, 300), 400) + "]";

  if (WIFEXITED(c.status))
  {
    int const code = WEXITSTATUS(c.status);
    if (code == 77) return "raise() returned to the program: the handler did not end the process" + errinfo;
    if (code == 78) return "the signal sent to the thread was not acted upon within 10 s" + errinfo;
    if (code == 79) return "with the backend running and no termination requested, the queued statements were not written within 10 s" + errinfo;
    if (code == 90 || code == 91 || code == 92) return "HARNESS: child could not run (exit " + std::to_string(code) + ")" + errinfo;
  }

  // what the program had completed when the event was fired
  std::string rep;
  if (!read_file(c.dir + "/report.txt", rep))
    return "the child ended (" + status_text(c.status) + ") before reaching its termination event" + errinfo;
  std::vector<unsigned> completed;
  long written = -1;
  double t_event = -1.0;
  bool stop_returned = false, running_after_stop = true;
  {
    std::istringstream is(rep);
    std::string ln;
    while (std::getline(is, ln))
    {
      std::istringstream ls(ln);
      std::string key;
      ls >> key;
      if (key == "completed") { unsigned v; while (ls >> v) completed.push_back(v); }
      else if (key == "written") ls >> written;
      else if (key == "t_event") ls >> t_event;
      else if (key == "stop_returned") { stop_returned = true; running_after_stop = ln.find("running=0") == std::string::npos; }
    }
  }
  if (completed.size() != th.size()) return "HARNESS: malformed report \"" + esc(rep, 200) + "\"";
  long total = 0;
  for (size_t t = 0; t < th.size(); ++t)
  {
    if (completed[t] != pt.pre[t])
      return "HARNESS: thread " + std::to_string(t) + " completed " + std::to_string(completed[t]) + " statements, the spec says " +
        std::to_string(pt.pre[t]);
    total += completed[t];
  }
  unwritten = written >= 0 && written < total;

  // wait status
  int const sig = kKindSignal[pt.kind];
  if (is_signal(pt.kind) && t_event >= 0.0)
  {
    // SignalHandlerOptions::timeout_seconds arms an alarm that re-raises the signal "in case anything else goes
    // wrong"; a process that ends only when that period is over was not terminated by the handler itself.
    double const latency = c.t_end - t_event;
    if (latency > static_cast<double>(pt.timeout) - 0.5)
    {
      slow = true;
      char b[32];
      std::snprintf(b, sizeof b, "%.2f", latency);
      return std::string{"the process ended "} + b + " s after the signal (" + status_text(c.status) + "), i.e. only when the handler's alarm (timeout_seconds=" +
        std::to_string(pt.timeout) + ") went off: the handler itself did not terminate it" + errinfo;
    }
  }
  if (is_fatal(pt.kind))
  {
    if (!(WIFSIGNALED(c.status) && WTERMSIG(c.status) == sig))
      return std::string{"expected the process to die from the original signal "} + std::to_string(sig) + ", saw " +
        status_text(c.status) + errinfo;
  }
  else if (!(WIFEXITED(c.status) && WEXITSTATUS(c.status) == 0))
  {
    return "expected exit status 0, saw " + status_text(c.status) + errinfo;
  }

  // file content
  Expect ex;
  for (unsigned t = 0; t < th.size(); ++t)
  {
    auto& v = ex.per_thread[t];
    for (unsigned i = 0; i < completed[t]; ++i) v.push_back(expected_line(t, i, th[t].sizes[i]));
  }
  if (is_signal(pt.kind))
  {
    std::string const desc = std::string{strsignal(sig)} + " (signum: " + std::to_string(sig) + ")";
    ex.n_received = "Received signal: " + desc;
    ex.n_terminated = "Program terminated unexpectedly due to signal: " + desc;
    ex.want_received = true;
    ex.want_terminated = is_fatal(pt.kind);
    ex.notice_after = pt.actor;
  }
  if (is_fatal(pt.kind))
  {
    ex.must_complete.insert(pt.actor);
    ex.allow_partial_tail = true;
  }
  else
  {
    for (unsigned t = 0; t < th.size(); ++t) ex.must_complete.insert(t);
  }
  std::string content;
  if (!read_file(c.dir + "/log.txt", content)) return "the log file does not exist" + errinfo;
  std::string m = check_content(content, ex, "log file after the process ended");
  if (!m.empty()) return m + errinfo;

  if (pt.kind == K_STOP)
  {
    if (!stop_returned) return "Backend::stop() did not return (no stop_returned mark) although the process exited" + errinfo;
    if (running_after_stop) return "Backend::is_running() is still true after stop() returned";
    std::string snap;
    if (!read_file(c.dir + "/snap.txt", snap)) return "HARNESS: no snapshot after stop()";
    m = check_content(snap, ex, "file content at the instant stop() returned");
    if (!m.empty()) return m + errinfo;
  }
  for (auto const& n : list_dir(c.dir))
  {
    if (n.compare(0, 4, "core") == 0) return "core file " + n + " left behind";
  }
  return {};
}

void run_crash_case(Choices& c, Report& r)
{
  // Draw order: structure first (kinds, threads, statement counts), details later, payload sizes last, so that a
  // short choice vector still gives a varied program and an exhausted one the simplest details.
  // ---- kinds ----
  std::vector<int> kinds;
  if (g_all_kinds)
  {
    for (int k = 0; k < K_COUNT; ++k) kinds.push_back(k);
  }
  else
  {
    int const a = static_cast<int>(c.pick(4));          // one of return / exit_main / exit_thread / stop
    int const b = K_SEGV + static_cast<int>(c.pick(6)); // one handled signal
    kinds.push_back(a);
    kinds.push_back(b);
    if (!c.flip())
    {
      std::vector<int> rest;
      for (int k = 0; k < K_COUNT; ++k) if (k != a && k != b) rest.push_back(k);
      kinds.push_back(rest[c.pick(static_cast<uint32_t>(rest.size()))]);
    }
    std::sort(kinds.begin(), kinds.end());
  }

  // ---- threads ----
  unsigned const T = 1 + c.pick(4);
  std::vector<ThreadGen> th(T);
  for (unsigned t = 0; t < T; ++t) th[t].n = 1 + c.pick(12);
  unsigned const F = c.pick(T);                     // faulted thread for signals and stop
  unsigned const W = T > 1 ? 1 + c.pick(T - 1) : T; // exit(0)-from-a-worker actor (T: auxiliary non-logging worker)
  // raise(sig) | pthread_kill from a thread that never logs | process-directed kill() while every thread except the
  // faulted one blocks the signals (Backend.h, note iii) | a real fault (null store, 1/0, ud2, abort())
  static char const* const dl[] = {"raise", "pthread_kill", "kill", "fault"};
  std::string const delivery = dl[c.pick(4)];

  // ---- program options ----
  BackendGen be = gen_backend(c);
  Common com;
  gen_common(c, com);
  bool const gen_handler = !c.flip(1, 3);
  static unsigned const tmo[] = {4, 6, 10};
  unsigned const timeout = tmo[c.pick(3)];
  static char const* const hl[] = {"none", "named", "missing"};
  std::string const hlogger = hl[c.pick(3)];
  bool const per_thread_loggers = !c.flip(2, 3);
  // the signal clause holds whatever wait_for_queues_to_empty_before_exit says (the handler flushes); stop/exit need it on
  bool const signals_without_exit_wait = c.flip(1, 3);
  // a quarter of the programs: a second thread raises the same signal shortly after the faulted one (delivery=raise only);
  // the handler is entered twice, the first entry does the work -- the verdict about the faulted thread's statements is the same
  static long const kSecondMs[] = {0, 1, 5, 30};
  long const second_ms = c.flip(1, 4) ? kSecondMs[c.pick(4)] : -1;

  for (unsigned t = 0; t < T; ++t)
  {
    th[t].exits = (t != 0) && !c.flip();
    th[t].pre = c.flip(2, 3) ? th[t].n : c.pick(th[t].n + 1);
  }
  for (unsigned t = 0; t < T; ++t)
    for (unsigned i = 0; i < th[t].n; ++i) th[t].sizes.push_back(gen_size(c));

  // ---- rendering ----
  std::string prog = "mode crash\n" + common_text(com) + "backend" + backend_kv(be) + "\n";
  prog += std::string{"loggers "} + (per_thread_loggers ? "per_thread" : "shared") + "\n";
  r.line("crash program: T=" + std::to_string(T) + " clock=" + (com.tsc ? "tsc" : "system") + " queue=" +
         (com.small_queue ? "small" : "default") + " level=" + com.level + " wbuf=" + std::to_string(com.wbuf) +
         " backend{mode=" + std::to_string(be.mode) + backend_kv(be) + (be.mode == 3 ? " drain" : "") + "} handler{" +
         (gen_handler ? "on" : "only-for-signals") + " timeout=" + std::to_string(timeout) + " logger=" + hlogger + "} loggers=" +
         (per_thread_loggers ? "per_thread" : "shared") + " delivery=" + delivery +
         (signals_without_exit_wait ? " signals:wait_for_queues_to_empty_before_exit=false" : ""));
  if (signals_without_exit_wait) r.label("signal_without_exit_wait_option");
  if (second_ms >= 0 && delivery == "raise" && T > 1) { r.label("same_signal_raised_by_a_second_thread"); r.line("  second delivery of the signal by a parked thread after " + std::to_string(second_ms) + " ms"); }
  for (unsigned t = 0; t < T; ++t)
    r.line("  thread " + std::to_string(t) + ": n=" + std::to_string(th[t].n) + " pre=" + std::to_string(th[t].pre) +
           (th[t].exits ? " exits" : " parks") + " sizes=" + sizes_csv(th[t].sizes));

  // ---- enumerate the termination points ----
  std::vector<Point> points;
  for (int k : kinds)
  {
    unsigned en, actor;
    if (k == K_RETURN || k == K_EXIT_MAIN) en = actor = 0;
    else if (k == K_EXIT_THREAD) { actor = W; en = (W < T) ? W : 0; }
    else en = actor = F;
    for (unsigned b = 0; b <= th[en].n; ++b)
    {
      Point p;
      p.kind = k;
      p.enumerated = en;
      p.actor = actor;
      p.boundary = b;
      for (unsigned t = 0; t < T; ++t) p.pre.push_back(t == en ? b : th[t].pre);
      p.handler = is_signal(k) ? true : gen_handler;
      p.timeout = timeout;
      points.push_back(p);
    }
    r.line(std::string{"  kind "} + kKindName[k] + ": actor=" + std::to_string(actor) + " boundaries 0.." +
           std::to_string(th[en].n) + " of thread " + std::to_string(en));
    r.label(std::string{"kind_"} + kKindName[k]);
  }

  std::vector<ChildRun> runs(points.size());
  bool any_exited_thread = false;
  for (size_t i = 0; i < points.size(); ++i)
  {
    Point const& p = points[i];
    std::string s = prog;
    s += std::string{"handler "} + (p.handler ? "1" : "0") + " timeout=" + std::to_string(p.timeout) + " logger=" + hlogger + "\n";
    for (unsigned t = 0; t < T; ++t)
    {
      s += "thread n=" + std::to_string(th[t].n) + " pre=" + std::to_string(p.pre[t]) + " exits=" + (th[t].exits ? "1" : "0") +
        " sizes=" + sizes_csv(th[t].sizes) + "\n";
      if (t != p.actor && th[t].exits && p.pre[t] == th[t].n) any_exited_thread = true;
    }
    if (is_signal(p.kind) && signals_without_exit_wait) s += "exitwait 0\n";
    s += std::string{"event kind="} + kKindName[p.kind] + " actor=" + std::to_string(p.actor) + " delivery=" + delivery +
      " drain=" + (be.mode == 3 ? "1" : "0") + " prealloc=" + ((is_signal(p.kind) && p.boundary == 0) ? "1" : "0") +
      ((is_signal(p.kind) && second_ms >= 0 && delivery == "raise") ? " second=" + std::to_string(second_ms) : std::string{}) + "\n";
    runs[i].spec_body = s;
  }

  run_all(runs);

  // ---- judge, in enumeration order (deterministic verdict whatever the completion order was) ----
  long n_unwritten = 0;
  for (size_t i = 0; i < points.size(); ++i)
  {
    bool unwritten = false, slow = false;
    std::string m = judge_crash(runs[i], points[i], th, unwritten, slow);
    r.count("children");
    if (!m.empty() && (slow || runs[i].elapsed > static_cast<double>(points[i].timeout) - 0.5))
    {
      // the handler's alarm (or the hang limit) may have fired only because the machine was busy: decide alone
      cleanup(runs[i], false);
      r.count("reruns_after_slow_child");
      r.count("children");
      run_alone(runs[i]);
      m = judge_crash(runs[i], points[i], th, unwritten, slow);
    }
    if (unwritten) ++n_unwritten;
    if (m.compare(0, 8, "HARNESS:") == 0)
    {
      // fork/exec/scratch trouble: says nothing about quill
      r.count("harness_trouble");
      if (!r.inconclusive && !r.failed) { r.inconclusive = true; r.message = m; }
      cleanup(runs[i], false);
      continue;
    }
    if (!m.empty())
    {
      r.fail(std::string{"kind "} + kKindName[points[i].kind] + ", boundary " + std::to_string(points[i].boundary) + " of thread " +
             std::to_string(points[i].enumerated) + ": " + m + "\n--- spec ---\n" + shown(runs[i].dir, runs[i].spec_body));
    }
    cleanup(runs[i], !m.empty());
  }
  ::rmdir(top_dir().c_str());

  r.count("points", static_cast<long>(points.size()));
  r.count("children_unwritten_at_event", n_unwritten);
  r.nontrivial = n_unwritten > 0;
  if (com.tsc) r.label("clock_tsc");
  if (be.mode == 1) r.label("busy_backend");
  if (be.mode == 2) r.label("sleepy_backend");
  if (be.mode == 3) r.label("drained_backend");
  if (T > 1) r.label("multi_thread");
  if (any_exited_thread) r.label("threads_already_exited");
  if (com.small_queue) r.label("queue_small");
  if (be.grace_us >= 1000) r.label("long_grace");
  for (int k : kinds) if (is_signal(k)) { r.label("delivery_" + delivery); break; }
}

// ------------------------------------------------------------------------------------------------
// cycles mode
// ------------------------------------------------------------------------------------------------
struct BurstGen
{
  int who; // 0 main, 1..L live, -1 ephemeral
  bool big{false};
  bool flush{false}; // flush_log() right after the burst, while other threads of the cycle may still log and exit
  std::vector<unsigned> sizes;
};

struct CycleGen
{
  BackendGen be;
  bool handler{false}, fresh{false}, remove{false};
  unsigned stopper{0};
  std::vector<BurstGen> bursts;
};

void run_cycles_case(Choices& c, Report& r)
{
  Common com;
  gen_common(c, com);
  unsigned const L = c.pick(3);
  unsigned const ncycles = 1 + c.pick(5);
  std::vector<CycleGen> cy(ncycles);
  bool any_eph = false, any_big = false, any_flush = false;
  for (auto& k : cy)
  {
    k.be = gen_backend(c);
    k.handler = !c.flip(2, 3);
    k.fresh = !c.flip();
    k.remove = k.fresh && !c.flip();
    k.stopper = c.pick(L + 1);
    unsigned const nb = 1 + c.pick(4);
    long total = 0;
    for (unsigned b = 0; b < nb; ++b)
    {
      BurstGen g;
      unsigned const w = c.pick(L + 2);
      g.who = (w == L + 1) ? -1 : static_cast<int>(w);
      if (g.who < 0) any_eph = true;
      if (c.pick(8) == 7)
      {
        // a big burst of tiny statements: thousands queued when Stop is issued
        unsigned const n = static_cast<unsigned>(c.range(200, 3000));
        for (unsigned i = 0; i < n; ++i) g.sizes.push_back(i % 23);
        g.big = true;
        any_big = true;
      }
      else
      {
        unsigned const n = 1 + c.pick(12);
        for (unsigned i = 0; i < n; ++i) g.sizes.push_back(gen_size(c));
      }
      g.flush = c.pick(4) == 3;
      if (g.flush) any_flush = true;
      total += static_cast<long>(g.sizes.size());
      k.bursts.push_back(g);
    }
    // keep the slow sink's total delay per cycle below ~0.3 s
    if (k.be.slow_us * total > 300000) k.be.slow_us = std::max<long>(1, 300000 / total);
  }

  // ---- spec + expectation ----
  std::string body = "mode cycles\n" + common_text(com) + "live " + std::to_string(L) + "\n";
  std::map<unsigned, unsigned> next_seq;
  std::map<unsigned, std::vector<std::string>> app_lines; // cumulative content of app.log per thread
  std::vector<Expect> expect(ncycles);
  r.line("cycles program: live=" + std::to_string(L) + " clock=" + (com.tsc ? "tsc" : "system") + " queue=" +
         (com.small_queue ? "small" : "default") + " level=" + com.level + " wbuf=" + std::to_string(com.wbuf));
  for (unsigned ci = 0; ci < ncycles; ++ci)
  {
    CycleGen const& k = cy[ci];
    body += "cycle" + backend_kv(k.be) + " handler=" + (k.handler ? "1" : "0") + " logger=" + (k.fresh ? "fresh" : "reuse") +
      " remove=" + (k.remove ? "1" : "0") + " stopper=" + std::to_string(k.stopper) + " drain=" + (k.be.mode == 3 ? "1" : "0") + "\n";
    std::string rl = "  cycle " + std::to_string(ci) + ": backend{mode=" + std::to_string(k.be.mode) + backend_kv(k.be) + "} handler=" +
      (k.handler ? "1" : "0") + (k.fresh ? (k.remove ? " fresh+remove" : " fresh") : " reuse") + " stopper=" +
      std::to_string(k.stopper) + " bursts:";
    std::map<unsigned, std::vector<std::string>> cyc_lines;
    unsigned e_idx = 0;
    for (BurstGen const& g : k.bursts)
    {
      unsigned tid;
      if (g.who < 0) tid = 100u * (ci + 1u) + e_idx++;
      else tid = static_cast<unsigned>(g.who);
      body += std::string{"burst tid="} + (g.who < 0 ? "e" : std::to_string(g.who)) + " sizes=" +
        (g.big ? "mod23x" + std::to_string(g.sizes.size()) : sizes_csv(g.sizes)) + (g.flush ? " flush=1" : "") + "\n";
      rl += " " + (g.who < 0 ? "e" + std::to_string(tid) : "t" + std::to_string(tid)) + "x" + std::to_string(g.sizes.size());
      if (g.sizes.size() <= 12) rl += "[" + sizes_csv(g.sizes) + "]";
      if (g.flush) rl += "+flush";
      auto& dst = k.fresh ? cyc_lines[tid] : app_lines[tid];
      for (unsigned sz : g.sizes)
      {
        unsigned const seq = next_seq[tid]++;
        dst.push_back(expected_line(tid, seq, sz));
      }
    }
    r.line(rl);
    Expect& ex = expect[ci];
    ex.per_thread = k.fresh ? cyc_lines : app_lines;
    for (auto const& kv : ex.per_thread) ex.must_complete.insert(kv.first);
  }

  ChildRun run;
  run.spec_body = body;
  run_alone(run);
  r.count("children");
  r.count("points", static_cast<long>(ncycles));
  r.count("cycles_run", static_cast<long>(ncycles));

  std::string m;
  std::string err;
  read_file(run.dir + "/stderr.txt", err);
  std::string const errinfo = err.empty() ? std::string{} : " [child stderr: " + esc(tail_of(err, 300), 400) + "]";
  std::string rep;
  read_file(run.dir + "/report.txt", rep);
  long n_pending = 0;
  if (run.hung)
  {
    m = "the start/stop program did not finish within " + std::to_string(static_cast<int>(g_hang_s)) + " s; progress: \"" +
      esc(rep, 300) + "\"" + errinfo;
  }
  else if (!(WIFEXITED(run.status) && WEXITSTATUS(run.status) == 0))
  {
    int const code = WIFEXITED(run.status) ? WEXITSTATUS(run.status) : -1;
    if (code == 79) m = "with the backend running, the queued statements were not written within 10 s; progress: \"" + esc(rep, 300) + "\"" + errinfo;
    else if (code == 90 || code == 91 || code == 92) m = "HARNESS: child could not run (exit " + std::to_string(code) + ")" + errinfo;
    else m = "expected exit status 0, saw " + status_text(run.status) + "; progress: \"" + esc(rep, 300) + "\"" + errinfo;
  }
  else
  {
    std::vector<std::string> lines;
    {
      std::istringstream is(rep);
      std::string ln;
      while (std::getline(is, ln)) lines.push_back(ln);
    }
    if (lines.size() != ncycles + 1 || lines.back() != "done") m = "HARNESS: malformed report \"" + esc(rep, 300) + "\"";
    for (unsigned ci = 0; ci < ncycles && m.empty(); ++ci)
    {
      std::string const& ln = lines[ci];
      std::string const cyc = "cycle " + std::to_string(ci) + ": ";
      if (ln.find("started=1") == std::string::npos) m = cyc + "Backend::is_running() false after start()";
      else if (ln.find("running_after_stop=0") == std::string::npos) m = cyc + "Backend::is_running() still true after stop() returned";
      size_t pp = ln.find("pending=");
      if (pp != std::string::npos && std::strtol(ln.c_str() + pp + 8, nullptr, 10) > 0) ++n_pending;
      if (!m.empty()) break;
      std::string snap;
      if (!read_file(run.dir + "/snap" + std::to_string(ci) + ".txt", snap)) { m = cyc + "the log file did not exist when stop() returned"; break; }
      m = check_content(snap, expect[ci], (cyc + "file content at the instant stop() returned").c_str());
      if (!m.empty()) break;
      if (cy[ci].fresh)
      {
        std::string fin;
        if (!read_file(run.dir + "/cyc" + std::to_string(ci) + ".log", fin)) { m = cyc + "log file missing at process end"; break; }
        m = check_content(fin, expect[ci], (cyc + "log file after the process ended").c_str());
      }
    }
    if (m.empty() && !app_lines.empty())
    {
      // the reused logger's file after the process ended = everything ever logged through it
      Expect ex;
      ex.per_thread = app_lines;
      for (auto const& kv : app_lines) ex.must_complete.insert(kv.first);
      std::string fin;
      bool any_reuse = false;
      for (auto const& k : cy) if (!k.fresh) any_reuse = true;
      if (any_reuse)
      {
        if (!read_file(run.dir + "/app.log", fin)) m = "app.log missing at process end";
        else m = check_content(fin, ex, "app.log after the process ended");
      }
    }
    if (!m.empty()) m += errinfo;
  }
  if (m.compare(0, 8, "HARNESS:") == 0)
  {
    r.count("harness_trouble");
    r.inconclusive = true;
    r.message = m;
    m.clear();
  }
  if (!m.empty()) r.fail(m + "\n--- spec ---\n" + shown(run.dir, run.spec_body));
  cleanup(run, !m.empty());
  ::rmdir(top_dir().c_str());

  r.count("cycles_pending_at_stop", n_pending);
  r.nontrivial = n_pending > 0;
  r.label("cycles");
  if (ncycles > 1) r.label("cycles_restart");
  if (com.tsc) r.label("clock_tsc");
  if (com.small_queue) r.label("queue_small");
  if (any_eph) r.label("threads_already_exited");
  if (L > 0) r.label("multi_thread");
  if (any_big) r.label("cycles_big_burst");
  if (any_flush) r.label("cycles_flush_log_while_others_log_and_exit");
  for (auto const& k : cy)
  {
    if (k.be.mode == 1) r.label("busy_backend");
    if (k.be.mode == 2) r.label("sleepy_backend");
    if (k.be.mode == 3) r.label("drained_backend");
    if (k.remove) r.label("cycles_remove_logger");
    if (k.stopper != 0) r.label("cycles_stop_from_worker");
  }
}
} // namespace

namespace verif
{
HarnessInfo harness_info() { return {"crashkid", false, 240, 0}; }

void harness_init(Params const& p)
{
  g_params = p;
  g_child = param_str(p, "child", "/verif/build/crash_child");
  g_all_kinds = param_flag(p, "all_kinds");
  g_mode = param_str(p, "mode", "mix");
  long ncpu = sysconf(_SC_NPROCESSORS_ONLN);
  if (ncpu < 1) ncpu = 1;
  if (ncpu > 16) ncpu = 16;
  g_jobs = param_int(p, "jobs", ncpu);
  if (g_jobs < 1) g_jobs = 1;
  g_hang_s = static_cast<double>(param_int(p, "hang_s", 20));
  g_keep = param_flag(p, "keep");
  setenv("LC_ALL", "C", 1); // strsignal texts: the same in the driver and in the children
  // scratch dirs of drivers that were killed in mid-case
  for (auto const& n : list_dir("/dev/shm"))
  {
    if (n.compare(0, 12, "verif-crash-") != 0) continue;
    long const pid = std::strtol(n.c_str() + 12, nullptr, 10);
    if (pid <= 0 || pid == getpid() || ::kill(static_cast<pid_t>(pid), 0) == 0 || errno != ESRCH) continue;
    std::string const top = "/dev/shm/" + n;
    for (auto const& sub : list_dir(top)) remove_dir(top + "/" + sub);
    ::rmdir(top.c_str());
  }
  if (::access(g_child.c_str(), X_OK) != 0)
  {
    std::fprintf(stderr, "crashkid: child program %s is not executable (build crash_child.cpp first, or --param child=<path>)\n",
                 g_child.c_str());
    std::exit(2);
  }
}

void run_case(Choices& c, Report& r)
{
  bool cycles;
  if (g_mode == "cycles") cycles = true;
  else if (g_mode == "crash") cycles = false;
  else cycles = c.pick(5) == 4;
  if (cycles) run_cycles_case(c, r);
  else run_crash_case(c, r);
}

bool probe_known_class(std::string const&, std::string&) { return false; }
} // namespace verif
