// C13 — Rendered time equals strftime of the instant plus exact fractional digits.
// Domain: strftime patterns x zones x instant sequences aimed at cache boundaries.
// Oracle: libc localtime_r/gmtime_r + strftime per call (independent of the caching code under test).
#include "../engine/harness.h"

#include "quill/backend/TimestampFormatter.h"

#include <ctime>
#include <fstream>
#include <sstream>

using namespace verif;

namespace
{
Params g_params;
std::vector<std::string> g_zones;        // all zones of zone.tab (sorted) + UTC
std::vector<std::string> g_hot_zones;    // curated: DST, odd offsets, southern hemisphere, odd transitions
std::map<std::string, int> g_offq_cache; // zone -> has a 2001..2100 UTC-offset transition off the quarter hour
bool g_excl_composite = false;
bool g_excl_offquarter = false;
bool g_excl_dup_frac = false;

constexpr int64_t T_2001 = 978307200;   // 2001-01-01T00:00:00Z
constexpr int64_t T_2101 = 4133980800;  // 2101-01-01T00:00:00Z
constexpr int64_t T_1E9 = 1000000000;   // first ten-digit epoch

void set_tz(std::string const& z)
{
  setenv("TZ", z.c_str(), 1);
  tzset();
}

long gmtoff_at(int64_t t)
{
  time_t tt = static_cast<time_t>(t);
  tm x{};
  localtime_r(&tt, &x);
  return x.tm_gmtoff;
}

// next UTC-offset transition strictly after t (within horizon), by daily scan + bisection. 0 if none.
int64_t next_transition(int64_t t, int64_t horizon_days = 400)
{
  long off0 = gmtoff_at(t);
  int64_t lo = t, hi = t;
  for (int64_t d = 1; d <= horizon_days; ++d)
  {
    hi = t + d * 86400;
    if (gmtoff_at(hi) != off0) break;
    lo = hi;
    if (d == horizon_days) return 0;
  }
  // invariant: off(lo) == off0, off(hi) != off0 (may skip a pair of transitions inside one day: fine)
  while (hi - lo > 1)
  {
    int64_t mid = lo + (hi - lo) / 2;
    if (gmtoff_at(mid) == off0) lo = mid; else hi = mid;
  }
  return hi;
}

// does the currently set zone have a 2001..2100 transition that is not on a 900 s boundary?
bool zone_has_offquarter_transition(std::string const& z)
{
  auto it = g_offq_cache.find(z);
  if (it != g_offq_cache.end()) return it->second != 0;
  bool found = false;
  int64_t t = T_2001;
  while (t < T_2101)
  {
    int64_t n = next_transition(t, 36600);
    if (n == 0 || n >= T_2101) break;
    if (n % 900 != 0) { found = true; break; }
    t = n;
  }
  g_offq_cache[z] = found ? 1 : 0;
  return found;
}

struct Tok
{
  std::string text;
  bool time_bearing_composite{false};
};

// conversions whose output is tracked by the formatter or constant between recalculation points
char const* const kConv[] = {"%a", "%A", "%b", "%B", "%C", "%d", "%D", "%e", "%F", "%g", "%G", "%h", "%H", "%I",
                             "%j", "%k", "%l", "%m", "%M", "%n", "%p", "%P", "%r", "%R", "%S", "%t", "%T", "%u",
                             "%U", "%V", "%w", "%W", "%y", "%Y", "%z", "%Z", "%x",
                             "%EC", "%Ex", "%Ey", "%EY", "%Od", "%Oe", "%Om", "%Ou", "%OU", "%OV", "%Ow", "%OW", "%Oy"};
// the time-of-day conversions get extra weight: they are what the cache rewrites
char const* const kTimeConv[] = {"%H", "%M", "%S", "%I", "%k", "%l", "%r", "%R", "%T", "%p", "%P", "%Z", "%z"};
// F6 class: time-bearing composite / alternative conversions that the formatter treats as constant text
char const* const kComposite[] = {"%c", "%Ec", "%OH", "%OI", "%OM", "%OS"};
// literals that can follow anything (do not start with a letter that could extend a preceding "%%")
char const* const kLit[] = {" ", "-", ":", "/", ".", ",", "[", "]", "_", "|", " - ", "T", "Z", "at ", "UTC", "h", "m",
                            "s", "Hello", "%%", "%% ", "100%% ", "0", "12", "#"};

std::string strftime_ref(std::string const& fmt, tm const& x)
{
  if (fmt.empty()) return {};
  std::string f = fmt + "\x01"; // sentinel so that an empty expansion is distinguishable from failure
  std::vector<char> buf(256);
  while (true)
  {
    size_t n = strftime(buf.data(), buf.size(), f.c_str(), &x);
    if (n != 0) return std::string(buf.data(), n - 1);
    buf.resize(buf.size() * 2);
    if (buf.size() > (1u << 20)) return "<strftime failed>";
  }
}

std::string expected_render(std::string const& p1, std::string const& p2, int frac_kind, bool gmt, int64_t ns,
                            bool& s_ambiguous, bool has_s)
{
  int64_t secs = ns / 1000000000;
  uint32_t frac = static_cast<uint32_t>(ns - secs * 1000000000);
  time_t tt = static_cast<time_t>(secs);
  tm x{};
  if (gmt) gmtime_r(&tt, &x); else localtime_r(&tt, &x);
  if (has_s)
  {
    tm y = x;
    time_t back = mktime(&y);
    if (back != tt) s_ambiguous = true; // libc's own %s would not print this instant: no claim
  }
  std::string out = strftime_ref(p1, x);
  char b[16];
  if (frac_kind == 1) { std::snprintf(b, sizeof b, "%03u", frac / 1000000); out += b; }
  else if (frac_kind == 2) { std::snprintf(b, sizeof b, "%06u", frac / 1000); out += b; }
  else if (frac_kind == 3) { std::snprintf(b, sizeof b, "%09u", frac); out += b; }
  out += strftime_ref(p2, x);
  return out;
}

std::string fmt_instant(int64_t ns)
{
  time_t tt = static_cast<time_t>(ns / 1000000000);
  tm x{};
  gmtime_r(&tt, &x);
  char b[64];
  strftime(b, sizeof b, "%Y-%m-%dT%H:%M:%S", &x);
  char c[96];
  std::snprintf(c, sizeof c, "%s.%09lldZ", b, static_cast<long long>(ns % 1000000000));
  return c;
}

bool starts_with_any(std::string const& s, char const* set)
{
  return !s.empty() && std::strchr(set, s[0]) != nullptr;
}
} // namespace

namespace verif
{
HarnessInfo harness_info() { return {"tsfmt", false, 260, 0}; }

void harness_init(Params const& p)
{
  g_params = p;
  g_excl_composite = excluded(p, "tsfmt.composite_time_conversion");
  g_excl_offquarter = excluded(p, "tsfmt.offquarter_zone_transition");
  g_excl_dup_frac = excluded(p, "tsfmt.duplicate_same_fractional_specifier");
  std::ifstream f("/usr/share/zoneinfo/zone.tab");
  std::string ln;
  while (std::getline(f, ln))
  {
    if (ln.empty() || ln[0] == '#') continue;
    std::istringstream is(ln);
    std::string cc, coord, tz;
    if (is >> cc >> coord >> tz) g_zones.push_back(tz);
  }
  std::sort(g_zones.begin(), g_zones.end());
  g_zones.push_back("UTC");
  if (g_zones.size() < 10) { g_zones = {"UTC", "Europe/London", "America/New_York"}; }
  char const* hot[] = {"UTC", "Europe/London", "Europe/Berlin", "America/New_York", "America/Los_Angeles",
                       "America/St_Johns", "Australia/Lord_Howe", "Australia/Adelaide", "Australia/Sydney",
                       "Pacific/Chatham", "Asia/Kathmandu", "Asia/Kolkata", "Asia/Tehran", "America/Sao_Paulo",
                       "America/Santiago", "Pacific/Auckland", "Africa/Casablanca", "Asia/Gaza", "Asia/Hebron",
                       "Pacific/Apia", "America/Caracas", "Asia/Pyongyang", "Europe/Dublin", "America/Havana",
                       "Atlantic/Azores", "Antarctica/Troll", "Pacific/Kiritimati", "Pacific/Marquesas"};
  for (auto h : hot)
  {
    std::string path = std::string{"/usr/share/zoneinfo/"} + h;
    std::ifstream z(path);
    if (z) g_hot_zones.push_back(h);
  }
  if (g_hot_zones.empty()) g_hot_zones.push_back("UTC");
}

void run_case(Choices& c, Report& r)
{
  // ---- zone and mode ----
  bool gmt_mode = c.flip(1, 3);
  std::string zone = c.flip(2, 3) ? c.of(g_hot_zones) : c.of(g_zones);
  set_tz(zone);
  if (!gmt_mode && g_excl_offquarter && zone_has_offquarter_transition(zone))
  {
    // known finding F7: excluded by construction, counted
    r.count("excluded.tsfmt.offquarter_zone_transition");
    zone = "Europe/London";
    set_tz(zone);
  }
  bool const zone_is_utc = (zone == "UTC");

  // ---- invalid patterns must be rejected ----
  if (c.pick(25) == 1)
  {
    std::string pat;
    int kind = static_cast<int>(c.pick(3));
    char const* fr[] = {"%Qms", "%Qus", "%Qns"};
    if (kind == 0)
    {
      unsigned a = c.pick(3), b = c.pick(3);
      if (a == b && g_excl_dup_frac)
      {
        // known finding F14 (the same specifier twice is not rejected): excluded by construction, counted
        r.count("excluded.tsfmt.duplicate_same_fractional_specifier");
        b = (a + 1) % 3;
      }
      pat = std::string{"%H:%M:%S."} + fr[a] + " " + fr[b];
    }
    else if (kind == 1) pat = std::string{"%Y "} + (c.pick(2) == 1 ? "%EX" : "%X");
    else pat = std::string{fr[c.pick(3)]} + "%d" + fr[c.pick(3)] + "%X";
    r.line("invalid pattern \"" + pat + "\" must throw");
    r.label("invalid_pattern");
    bool threw = false;
    try { quill::detail::TimestampFormatter tf{pat, gmt_mode ? quill::Timezone::GmtTime : quill::Timezone::LocalTime}; }
    catch (quill::QuillError const&) { threw = true; }
    if (!threw) r.fail("invalid pattern accepted: " + pat);
    r.nontrivial = false;
    return;
  }

  // ---- pattern ----
  bool const s_allowed = (!gmt_mode) || zone_is_utc;
  unsigned ntok = 1 + c.pick(9);
  int frac_kind = static_cast<int>(c.pick(4)); // 0 none, 1 ms, 2 us, 3 ns
  unsigned frac_pos = c.pick(ntok + 1);
  std::string p1, p2;
  bool has_s = false, has_composite = false, has_time = false;
  std::string* cur = &p1;
  bool prev_pct = false; // previous token ended with a literal "%%"
  for (unsigned k = 0; k <= ntok; ++k)
  {
    if (k == frac_pos && frac_kind != 0)
    {
      if (prev_pct) { *cur += " "; prev_pct = false; } // "%%" directly before Q is outside the domain
      cur = &p2;
    }
    if (k == ntok) break;
    std::string t;
    size_t kind = c.weighted({5, 4, 3, 1, 1});
    if (kind == 0) t = kTimeConv[c.pick(sizeof kTimeConv / sizeof *kTimeConv)];
    else if (kind == 1) t = kConv[c.pick(sizeof kConv / sizeof *kConv)];
    else if (kind == 2) t = kLit[c.pick(sizeof kLit / sizeof *kLit)];
    else if (kind == 3)
    {
      if (s_allowed) { t = "%s"; has_s = true; } else t = "%S";
    }
    else
    {
      if (g_excl_composite) { r.count("excluded.tsfmt.composite_time_conversion"); t = "%H.%M"; }
      else { t = kComposite[c.pick(sizeof kComposite / sizeof *kComposite)]; has_composite = true; }
    }
    // "%%" directly followed by a letter the scanner would take for a conversion is outside the domain
    if (prev_pct && starts_with_any(t, "HMSIklsQrRTXcEO")) *cur += " ";
    if (t[0] == '%' && t != "%%" && t.rfind("%% ", 0) != 0 && t.rfind("100", 0) != 0)
    {
      if (std::strchr("HMSIklsrRTpPZzc", t.back())) has_time = true;
    }
    *cur += t;
    prev_pct = t.size() >= 2 && t.compare(t.size() - 2, 2, "%%") == 0;
  }
  if (frac_kind == 0) { /* all in p1 */ }
  std::string const pat = p1 + (frac_kind == 1 ? "%Qms" : frac_kind == 2 ? "%Qus" : frac_kind == 3 ? "%Qns" : "") + p2;
  // a literal "%%" at the very end of p1 directly before the fractional specifier was separated above

  // the oracle's view of the pattern: what strftime is documented to do for the original text
  // (%r/%R/%T are standard strftime conversions; nothing to rewrite)
  r.line(std::string{"zone="} + zone + (gmt_mode ? " mode=GMT" : " mode=Local") + " pattern=\"" + esc(pat) + "\"");

  // ---- instants ----
  unsigned n_inst = 1 + c.pick(30);
  int64_t lo = has_s ? T_1E9 : T_2001;
  int64_t t_s = c.flip(1, 4) ? c.range(lo, 1325376000 /* 2012 */) : c.range(lo, T_2101 - 400 * 86400);
  if (!gmt_mode && c.flip(1, 4))
  {
    // start shortly before the zone's next UTC-offset transition, so the cache is warm when it is crossed
    int64_t n = next_transition(t_s);
    if (n)
    {
      t_s = n - c.range(0, 1000);
      if (t_s < lo) t_s = lo;
      r.label("start_near_zone_transition");
    }
  }
  int64_t sub_ns = c.range(0, 999999999);
  std::vector<int64_t> inst;
  bool went_back = false, back_then_forward = false, straddle = false;
  int64_t prev = -1;
  for (unsigned k = 0; k < n_inst; ++k)
  {
    if (k > 0)
    {
      size_t step = c.weighted({4, 3, 3, 3, 2, 2, 2, 3, 2, 2, 6, 4, 2});
      switch (step)
      {
      case 11:
      {
        // "the same job, half a day / a day / a day and a half later, a little earlier or later": revisits a minute of the
        // day after one or several cache rebuilds
        static int64_t const off[] = {-3600, -1800, -60, -1, 1, 60, 1800, 3600};
        t_s += static_cast<int64_t>(1 + c.pick(3)) * 43200 + off[c.pick(8)];
        r.label("step_same_time_of_day_later");
        break;
      }
      case 12: t_s += 1800; break;
      case 0: t_s += 1; break;
      case 1: t_s += 0; break;
      case 2: t_s += 59; break;
      case 3: t_s += 60; break;
      case 4: t_s += 3600; break;
      case 5: t_s += 43200; break;
      case 6: t_s += 86400; break;
      case 7: t_s += c.range(1, 200000); break;
      case 8: t_s -= 1; break;
      case 9: t_s -= c.range(1, 200000); break;
      default:
      {
        // jump to just before / at / just after the next boundary of some kind
        int64_t b = t_s;
        switch (c.pick(7))
        {
        case 0: b = (t_s / 60 + 1) * 60; break;
        case 1: b = (t_s / 3600 + 1) * 3600; break;
        case 2: b = (t_s / 900 + 1) * 900; break;
        case 3: b = (t_s / 43200 + 1) * 43200; break; // UTC noon / midnight
        case 4: b = (t_s / 86400 + 1) * 86400; break;
        case 5:
        {
          // local midnight / noon
          long off = gmtoff_at(t_s);
          b = ((t_s + off) / 43200 + 1) * 43200 - off;
          break;
        }
        default:
        {
          int64_t n = next_transition(t_s);
          b = n ? n : (t_s / 3600 + 1) * 3600;
          if (n) r.label("jump_to_zone_transition");
          break;
        }
        }
        t_s = b + static_cast<int64_t>(c.pick(3)) - 1;
        break;
      }
      }
      if (t_s < lo) t_s = lo;
      if (t_s >= T_2101) t_s = T_2101 - 1;
      sub_ns = c.flip(1, 3) ? c.range(0, 999999999) : (c.flip() ? 0 : 999999999);
    }
    int64_t ns = t_s * 1000000000 + sub_ns;
    inst.push_back(ns);
    if (prev >= 0)
    {
      if (t_s < prev) went_back = true;
      else if (t_s > prev)
      {
        if (went_back) back_then_forward = true;
        if (t_s / 60 != prev / 60) straddle = true;
      }
    }
    prev = t_s;
  }

  // ---- run the formatter over the whole sequence with one instance ----
  std::string first_bad;
  try
  {
    quill::detail::TimestampFormatter tf{pat, gmt_mode ? quill::Timezone::GmtTime : quill::Timezone::LocalTime};
    for (size_t k = 0; k < inst.size(); ++k)
    {
      bool amb = false;
      std::string exp = expected_render(p1, p2, frac_kind, gmt_mode, inst[k], amb, has_s);
      auto sv = tf.format_timestamp(std::chrono::nanoseconds{inst[k]});
      std::string got{sv.data(), sv.size()};
      if (k < 6) r.line("  t[" + std::to_string(k) + "]=" + fmt_instant(inst[k]) + " -> \"" + esc(got) + "\"");
      if (amb) { r.count("libc_percent_s_ambiguous"); continue; }
      if (got != exp && first_bad.empty())
      {
        first_bad = "instant #" + std::to_string(k) + " " + fmt_instant(inst[k]) + " zone " + zone +
          (gmt_mode ? " GMT" : " Local") + " pattern \"" + esc(pat) + "\": got \"" + esc(got) + "\" expected \"" +
          esc(exp) + "\"";
      }
    }
  }
  catch (std::exception const& e)
  {
    first_bad = std::string{"valid pattern \""} + esc(pat) + "\" threw: " + e.what();
  }
  if (inst.size() > 6) r.line("  ... " + std::to_string(inst.size()) + " instants");

  if (!first_bad.empty()) r.fail(first_bad);

  r.nontrivial = has_time && (straddle || back_then_forward);
  if (straddle) r.label("straddles_minute_or_more");
  if (back_then_forward) r.label("back_then_forward");
  if (has_s) r.label("has_%s");
  if (has_composite) r.label("has_composite_time_conversion");
  if (frac_kind) r.label("fractional");
  if (!gmt_mode) r.label("local_mode"); else r.label("gmt_mode");
}

bool probe_known_class(std::string const& cls, std::string& what)
{
  if (cls == "tsfmt.composite_time_conversion")
  {
    set_tz("UTC");
    char const* pats[] = {"%c", "%Ec", "%OH:%OM:%OS"};
    for (auto p : pats)
    {
      quill::detail::TimestampFormatter tf{p, quill::Timezone::GmtTime};
      int64_t t0 = 1700000000;
      (void)tf.format_timestamp(std::chrono::seconds{t0});
      auto sv = tf.format_timestamp(std::chrono::seconds{t0 + 61});
      time_t tt = t0 + 61;
      tm x{};
      gmtime_r(&tt, &x);
      std::string exp = strftime_ref(p, x);
      if (std::string{sv.data(), sv.size()} != exp)
      {
        what = std::string{"pattern \""} + p + "\" renders stale time: got \"" + std::string{sv.data(), sv.size()} +
          "\" for an instant 61 s after the first one, strftime gives \"" + exp + "\"";
        return true;
      }
    }
    return false;
  }
  if (cls == "tsfmt.duplicate_same_fractional_specifier")
  {
    try
    {
      quill::detail::TimestampFormatter tf{"%H:%M:%S.%Qms %Qms", quill::Timezone::GmtTime};
      auto sv = tf.format_timestamp(std::chrono::seconds{1700000000});
      what = "pattern \"%H:%M:%S.%Qms %Qms\" (the same fractional specifier twice) is accepted and renders \"" +
        std::string{sv.data(), sv.size()} + "\"";
      return true;
    }
    catch (quill::QuillError const&) { return false; }
  }
  if (cls == "tsfmt.offquarter_zone_transition")
  {
    std::ifstream z("/usr/share/zoneinfo/America/St_Johns");
    if (!z) return false;
    set_tz("America/St_Johns");
    int64_t t = 1167609600; // 2007-01-01
    for (int k = 0; k < 4; ++k)
    {
      int64_t n = next_transition(t);
      if (!n) break;
      if (n % 900 != 0)
      {
        quill::detail::TimestampFormatter tf{"%H:%M", quill::Timezone::LocalTime};
        (void)tf.format_timestamp(std::chrono::seconds{n - 30});
        auto sv = tf.format_timestamp(std::chrono::seconds{n + 30});
        time_t tt = n + 30;
        tm x{};
        localtime_r(&tt, &x);
        std::string exp = strftime_ref("%H:%M", x);
        std::string got{sv.data(), sv.size()};
        if (got != exp)
        {
          what = "TZ=America/St_Johns, \"%H:%M\" local: 30 s after the UTC-offset transition at epoch " +
            std::to_string(n) + " got \"" + got + "\", strftime gives \"" + exp + "\"";
          return true;
        }
      }
      t = n;
    }
    return false;
  }
  return false;
}
} // namespace verif
