// fmtcat catalog 4: ordered associative containers
#include "fmtcat.h"

namespace fmtcat
{
std::vector<ShapeEntry> shapes_4()
{
  using Str = std::string;
  return {
    FMTCAT_SHAPE("set_int", V<std::set<int>>),
    FMTCAT_SHAPE_W("set_string", 4, V<std::set<Str>>),
    FMTCAT_SHAPE("set_double", V<std::set<double>>),
    FMTCAT_SHAPE("set_enum", V<std::set<Level>>),
    FMTCAT_SHAPE("set_char", V<std::set<char>>),
    FMTCAT_SHAPE("map_int_double", V<std::map<int, double>>),
    FMTCAT_SHAPE("multimap_string_string", V<std::multimap<Str, Str>>),
    FMTCAT_SHAPE("set_int_greater", V<std::set<int, std::greater<int>>>),
    FMTCAT_SHAPE("multiset_int", V<std::multiset<int>>),
    FMTCAT_SHAPE("multiset_string", V<std::multiset<Str>>),
    FMTCAT_SHAPE("map_int_int", V<std::map<int, int>>),
    FMTCAT_SHAPE_W("map_string_int", 4, V<std::map<Str, int>>),
    FMTCAT_SHAPE("map_int_string", V<std::map<int, Str>>),
    FMTCAT_SHAPE("map_string_string", V<std::map<Str, Str>>),
    FMTCAT_SHAPE("map_string_int_greater", V<std::map<Str, int, std::greater<>>>),
    FMTCAT_SHAPE("map_enum_string", V<std::map<Level, Str>>),
    FMTCAT_SHAPE("multimap_int_string", V<std::multimap<int, Str>>),
    FMTCAT_SHAPE("multimap_string_int", V<std::multimap<Str, int>>),
  };
}
} // namespace fmtcat
