// C11 — A steady-state log call neither allocates nor formats on the calling thread.
//
// Harness `alloc` (built -O2 WITHOUT sanitizers, asserts on, linked with alloc_interpose.cpp):
//   domain : case = caller thread mode (main thread | fresh worker after preallocate() | fresh worker
//            after one fixed warm-up log call | fresh worker whose first generated statement is its
//            first log call) x logger clock source (tsc/system/user) x 1..8 statements, each
//            statement = (one of 58 shapes of a typed catalog written with the REAL macros, one of
//            35 macros covering every family, values from the choice stream: string lengths
//            0..2000, container sizes 0..16, numbers). At most twelve cached lengths per statement.
//   oracle : replaced operator new/delete + malloc family + mmap family count the calls made by the
//            CALLING thread between arm and disarm around the macro: must be 0 for every in-domain
//            statement; user formatters (deferred-format types, enum) record gettid(): never the
//            caller, always the backend (= the tid observed inside a user Sink); the direct-format
//            type (documented opt-in) is checked the other way round: formatted on the caller only.
//   negative controls (labelled, never failing unless --param negctl_strict=1): a statement with 13
//            C strings (first one on a thread allocates once), a thread's very first log call.
//   known finding class alloc.map_pair_temporary_copy (std::map/multimap/unordered_map/
//            unordered_multimap whose key or mapped value owns heap memory): excluded by
//            construction with --param exclude=alloc.map_pair_temporary_copy, probed by --probe.
//   params : exclude=<classes>  negctl_strict=1  symbolize=1 (addr2line of the first allocating stack)
//   The real backend thread runs; the harness flushes before a statement whenever the estimate of
//   what is still queued could make the 128 KiB queue buffer grow (a backend error notification,
//   e.g. a queue reallocation notice, fails the case as a harness sizing error).
//   -DVERIF_ALLOC_BOUNDED builds the same harness for a BoundedBlocking 128 KiB FrontendOptions.
// Files: alloc_catalog.h (environment, generators, EMIT macro), alloc_catalog.cpp (this: harness +
// arithmetic/enum/pointer/string shapes), alloc_catalog_2.cpp (containers), alloc_catalog_3.cpp
// (optional/pair/tuple/chrono/user types), alloc_interpose.cpp + alloc_interpose.h (interposers).
// Build (4 TUs, each < 40 s):
//   g++ -std=gnu++17 -g -O2 -DQUILL_VERIF -I/repo/include -I/verif -c harness/alloc_catalog.cpp (and _2, _3, alloc_interpose)
//   g++ alloc_catalog.o alloc_catalog_2.o alloc_catalog_3.o alloc_interpose.o build/rc_driver.plain.o -lrapidcheck -lpthread -o alloc
#include "alloc_catalog.h"

#include <mutex>
#include <thread>

#include <dlfcn.h>
#include <sys/mman.h>

using namespace verif;

namespace va
{
std::atomic<uint32_t> g_backend_tid{0};
FmtRec g_rec_deferred;
FmtRec g_rec_direct;
FmtRec g_rec_enum;

namespace
{
FamInfo const kFam[F_COUNT] = {
  {"LOG_INFO", "fam.LOG", false},
  {"LOG_TRACE_L3", "fam.LOG", false},
  {"LOG_TRACE_L2", "fam.LOG", false},
  {"LOG_TRACE_L1", "fam.LOG", false},
  {"LOG_DEBUG", "fam.LOG", false},
  {"LOG_NOTICE", "fam.LOG", false},
  {"LOG_WARNING", "fam.LOG", false},
  {"LOG_ERROR", "fam.LOG", false},
  {"LOG_CRITICAL", "fam.LOG", false},
  {"LOGV_INFO", "fam.LOGV", false},
  {"LOGV_DEBUG", "fam.LOGV", false},
  {"LOGV_ERROR", "fam.LOGV", false},
  {"LOGJ_INFO", "fam.LOGJ", false},
  {"LOGJ_TRACE_L1", "fam.LOGJ", false},
  {"LOGJ_WARNING", "fam.LOGJ", false},
  {"LOG_INFO_TAGS", "fam.TAGS", false},
  {"LOG_DEBUG_TAGS", "fam.TAGS", false},
  {"LOGV_NOTICE_TAGS", "fam.TAGS", false},
  {"LOGJ_INFO_TAGS", "fam.TAGS", false},
  {"LOG_INFO_LIMIT", "fam.LIMIT", false},
  {"LOG_WARNING_LIMIT", "fam.LIMIT", false},
  {"LOGV_INFO_LIMIT", "fam.LIMIT", false},
  {"LOGJ_ERROR_LIMIT", "fam.LIMIT", false},
  {"LOG_INFO_LIMIT_EVERY_N", "fam.LIMIT_EVERY_N", false},
  {"LOGV_DEBUG_LIMIT_EVERY_N", "fam.LIMIT_EVERY_N", false},
  {"LOGJ_INFO_LIMIT_EVERY_N", "fam.LIMIT_EVERY_N", false},
  {"LOG_DYNAMIC", "fam.DYNAMIC", false},
  {"LOGV_DYNAMIC", "fam.DYNAMIC", false},
  {"LOGJ_DYNAMIC", "fam.DYNAMIC", false},
  {"LOG_DYNAMIC_TAGS", "fam.DYNAMIC", false},
  {"LOG_BACKTRACE", "fam.BACKTRACE", true},
  {"LOGV_BACKTRACE", "fam.BACKTRACE", true},
  {"LOGJ_BACKTRACE", "fam.BACKTRACE", true},
  {"LOG_BACKTRACE_TAGS", "fam.BACKTRACE", true},
  {"LOG_RUNTIME_METADATA", "fam.RUNTIME_METADATA", false},
};
} // namespace

FamInfo const& fam_info(int fam) { return kFam[fam]; }

void Env::pre_emit()
{
  if (since_flush == nullptr) return;
  if (*since_flush + est > kQueueBudget)
  {
    lg->flush_log();
    *since_flush = 0;
  }
  *since_flush += est;
}
} // namespace va

// =================================================================================================
// shapes, part 1: no arguments, arithmetic, enums, pointers, strings and C strings
// =================================================================================================
namespace
{
using va::Env;

char const* cstr_or_null(Env& e, std::string const& s)
{
  if (e.c.pick(10) == 9)
  {
    e.desc += "(null)";
    return nullptr;
  }
  return s.c_str();
}

void sh_none(Env& e) { VA_EMIT("plain message without arguments", "plain message without arguments"); }

void sh_ints(Env& e)
{
  int a0 = e.i32();
  unsigned a1 = static_cast<unsigned>(e.i64());
  long long a2 = e.i64();
  VA_EMIT("ints {} {} {}", "ints", a0, a1, a2);
}

void sh_small_ints(Env& e)
{
  bool a0 = e.bit();
  char a1 = static_cast<char>('a' + e.c.pick(26));
  signed char a2 = static_cast<signed char>(e.i64());
  unsigned char a3 = static_cast<unsigned char>(e.i64());
  short a4 = static_cast<short>(e.i64());
  unsigned short a5 = static_cast<unsigned short>(e.i64());
  VA_EMIT("small {} {} {} {} {} {}", "small", a0, a1, a2, a3, a4, a5);
}

void sh_floats(Env& e)
{
  float a0 = static_cast<float>(e.dbl());
  double a1 = e.dbl();
  long double a2 = static_cast<long double>(e.dbl()) * 3.0L;
  VA_EMIT("floats {} {} {}", "floats", a0, a1, a2);
}

void sh_many_arith(Env& e)
{
  int8_t a0 = static_cast<int8_t>(e.i64());
  uint8_t a1 = static_cast<uint8_t>(e.i64());
  int16_t a2 = static_cast<int16_t>(e.i64());
  uint16_t a3 = static_cast<uint16_t>(e.i64());
  int32_t a4 = e.i32();
  uint32_t a5 = static_cast<uint32_t>(e.i64());
  int64_t a6 = e.i64();
  uint64_t a7 = e.u64();
  size_t a8 = static_cast<size_t>(e.u64());
  double a9 = e.dbl();
  long a10 = static_cast<long>(e.i64());
  unsigned long a11 = static_cast<unsigned long>(e.u64());
  VA_EMIT("many {} {} {} {} {} {} {} {} {} {} {} {}", "many", a0, a1, a2, a3, a4, a5, a6, a7, a8, a9, a10, a11);
}

void sh_enum_plain(Env& e)
{
  va::PlainEnum const vals[] = {va::PE_Zero, va::PE_Seven, va::PE_Big};
  va::PlainEnum a0 = vals[e.c.pick(3)];
  int a1 = e.i32();
  VA_EMIT("enum_plain {} {}", "enum_plain", a0, a1);
}

void sh_enum_formatter(Env& e)
{
  va::Color const vals[] = {va::Color::Red, va::Color::Green, va::Color::Blue, va::Color::Other};
  va::Color a0 = vals[e.c.pick(4)];
  va::Color a1 = vals[e.c.pick(4)];
  VA_EMIT("enum_formatter {} {}", "enum_formatter", a0, a1);
}

void sh_enum_format_as(Env& e)
{
  va::Mode const vals[] = {va::Mode::Idle, va::Mode::Off, va::Mode::On};
  va::Mode a0 = vals[e.c.pick(3)];
  std::string a1 = e.top_str();
  VA_EMIT("enum_format_as {} {}", "enum_format_as", a0, a1);
}

void sh_pointers(Env& e)
{
  static int const anchor = 0;
  void const* a0 = e.c.flip() ? static_cast<void const*>(&anchor) : nullptr;
  void const* a1 = reinterpret_cast<void const*>(static_cast<uintptr_t>(e.u64()));
  int a2 = e.i32();
  VA_EMIT("pointers {} {} {}", "pointers", a0, a1, a2);
}

void sh_string(Env& e)
{
  std::string a0 = e.top_str();
  VA_EMIT("string {}", "string", a0);
}

void sh_string_view(Env& e)
{
  std::string s0 = e.top_str();
  size_t off = s0.empty() ? 0 : e.c.pick(static_cast<uint32_t>(s0.size()));
  std::string_view a0{s0.data() + off, s0.size() - off};
  std::string_view a1{};
  VA_EMIT("string_view {} {}", "string_view", a0, a1);
}

void sh_cstr(Env& e)
{
  std::string s0 = e.top_str();
  char const* a0 = cstr_or_null(e, s0);
  VA_EMIT("cstr {}", "cstr", a0);
}

void sh_cstr_mutable(Env& e)
{
  std::string s0 = e.top_str();
  char* a0 = s0.data();
  int a1 = e.i32();
  VA_EMIT("cstr_mutable {} {}", "cstr_mutable", a0, a1);
}

void sh_char_array(Env& e)
{
  char a0[48];
  char a1[8];
  size_t n0 = static_cast<size_t>(e.c.range(0, 48)); // 48 = array without a terminating NUL
  size_t n1 = static_cast<size_t>(e.c.range(0, 8));
  std::memset(a0, 0, sizeof a0);
  std::memset(a1, 0, sizeof a1);
  for (size_t k = 0; k < n0; ++k) a0[k] = static_cast<char>('A' + k % 26);
  for (size_t k = 0; k < n1; ++k) a1[k] = static_cast<char>('a' + k % 26);
  e.desc += " arr" + std::to_string(n0) + "/48 arr" + std::to_string(n1) + "/8";
  e.est += 96;
  VA_EMIT("char_array {} {}", "char_array", a0, a1);
}

void sh_literal(Env& e)
{
  auto& a0 = "a string literal argument"; // char const (&)[26]: what a literal argument deduces to
  int a1 = e.i32();
  auto& a2 = "";
  VA_EMIT("literal {} {} {}", "literal", a0, a1, a2);
}

void sh_strings_and_ints(Env& e)
{
  std::string a0 = e.top_str();
  int a1 = e.i32();
  std::string a2 = e.top_str();
  double a3 = e.dbl();
  std::string a4 = e.top_str();
  VA_EMIT("strings_and_ints {} {} {} {} {}", "strings_and_ints", a0, a1, a2, a3, a4);
}

void sh_mixed_strings(Env& e)
{
  std::string a0 = e.top_str();
  std::string s1 = e.top_str();
  std::string_view a1{s1};
  std::string s2 = e.top_str();
  char const* a2 = cstr_or_null(e, s2);
  char a3[16] = "fixed";
  auto& a4 = "lit";
  uint64_t a5 = e.u64();
  VA_EMIT("mixed_strings {} {} {} {} {} {}", "mixed_strings", a0, a1, a2, a3, a4, a5);
}

// EXACTLY twelve variable-length C strings: the inline capacity of the size cache
void sh_cstr_12(Env& e)
{
  std::string s[12];
  for (auto& x : s) x = e.top_str();
  char const *a0 = s[0].c_str(), *a1 = s[1].c_str(), *a2 = s[2].c_str(), *a3 = s[3].c_str(), *a4 = s[4].c_str(),
             *a5 = s[5].c_str(), *a6 = s[6].c_str(), *a7 = s[7].c_str(), *a8 = s[8].c_str(), *a9 = s[9].c_str(),
             *a10 = s[10].c_str(), *a11 = s[11].c_str();
  e.cached = 12;
  VA_EMIT("cstr_12 {} {} {} {} {} {} {} {} {} {} {} {}", "cstr_12", a0, a1, a2, a3, a4, a5, a6, a7, a8, a9, a10, a11);
}

// twelve cached lengths of mixed origin: 5 char const*, 4 char arrays, 2 literals, 1 char*
void sh_cached_12_mixed(Env& e)
{
  std::string s[6];
  for (auto& x : s) x = e.top_str();
  char const *a0 = s[0].c_str(), *a1 = s[1].c_str(), *a2 = s[2].c_str(), *a3 = s[3].c_str(), *a4 = s[4].c_str();
  char* a5 = s[5].data();
  char a6[4] = {'a', 'b', 'c', 'd'}; // no NUL
  char a7[32] = "seven";
  char a8[1] = {0};
  char a9[100] = "nine";
  auto& a10 = "lit-a";
  auto& a11 = "lit-b";
  int a12 = e.i32();
  e.cached = 12;
  VA_EMIT("cached_12_mixed {} {} {} {} {} {} {} {} {} {} {} {} {}", "cached_12_mixed", a0, a1, a2, a3, a4, a5, a6, a7,
          a8, a9, a10, a11, a12);
}

// twelve C strings plus arguments that do not use the size cache
void sh_cstr_12_plus_strings(Env& e)
{
  std::string s[12];
  for (auto& x : s) x = e.top_str();
  char const *a0 = s[0].c_str(), *a1 = s[1].c_str(), *a2 = s[2].c_str(), *a3 = s[3].c_str(), *a4 = s[4].c_str(),
             *a5 = s[5].c_str(), *a6 = s[6].c_str(), *a7 = s[7].c_str(), *a8 = s[8].c_str(), *a9 = s[9].c_str(),
             *a10 = s[10].c_str(), *a11 = s[11].c_str();
  std::string a12 = e.top_str();
  std::string s13 = e.top_str();
  std::string_view a13{s13};
  int64_t a14 = e.i64();
  e.cached = 12;
  VA_EMIT("cstr_12_plus {} {} {} {} {} {} {} {} {} {} {} {} {} {} {}", "cstr_12_plus", a0, a1, a2, a3, a4, a5, a6, a7,
          a8, a9, a10, a11, a12, a13, a14);
}

// NEGATIVE CONTROL, outside the property: thirteen C strings overflow the inline size cache, the
// first such statement of a thread is expected to allocate (once)
void sh_cstr_13_negctl(Env& e)
{
  std::string s[13];
  for (auto& x : s) x = e.top_str();
  char const *a0 = s[0].c_str(), *a1 = s[1].c_str(), *a2 = s[2].c_str(), *a3 = s[3].c_str(), *a4 = s[4].c_str(),
             *a5 = s[5].c_str(), *a6 = s[6].c_str(), *a7 = s[7].c_str(), *a8 = s[8].c_str(), *a9 = s[9].c_str(),
             *a10 = s[10].c_str(), *a11 = s[11].c_str(), *a12 = s[12].c_str();
  VA_EMIT("cstr_13 {} {} {} {} {} {} {} {} {} {} {} {} {}", "cstr_13", a0, a1, a2, a3, a4, a5, a6, a7, a8, a9, a10,
          a11, a12);
}
} // namespace

namespace va
{
void register_shapes_1(std::vector<Shape>& out)
{
  //            name                    type family   nontriv cached in_dom deferred direct enum_fmt fn
  out.push_back({"none", "ty.none", false, 0, true, false, false, false, sh_none});
  out.push_back({"ints", "ty.arithmetic", false, 0, true, false, false, false, sh_ints});
  out.push_back({"small_ints", "ty.arithmetic", false, 0, true, false, false, false, sh_small_ints});
  out.push_back({"floats", "ty.arithmetic", false, 0, true, false, false, false, sh_floats});
  out.push_back({"many_arith", "ty.arithmetic", false, 0, true, false, false, false, sh_many_arith});
  out.push_back({"enum_plain", "ty.enum", false, 0, true, false, false, false, sh_enum_plain});
  out.push_back({"enum_formatter", "ty.enum", false, 0, true, false, false, true, sh_enum_formatter});
  out.push_back({"enum_format_as", "ty.enum", true, 0, true, false, false, false, sh_enum_format_as});
  out.push_back({"pointers", "ty.pointer", false, 0, true, false, false, false, sh_pointers});
  out.push_back({"string", "ty.string", true, 0, true, false, false, false, sh_string});
  out.push_back({"string_view", "ty.string", true, 0, true, false, false, false, sh_string_view});
  out.push_back({"cstr", "ty.cstring", true, 1, true, false, false, false, sh_cstr});
  out.push_back({"cstr_mutable", "ty.cstring", true, 1, true, false, false, false, sh_cstr_mutable});
  out.push_back({"char_array", "ty.cstring", true, 2, true, false, false, false, sh_char_array});
  out.push_back({"literal", "ty.cstring", true, 2, true, false, false, false, sh_literal});
  out.push_back({"strings_and_ints", "ty.string", true, 0, true, false, false, false, sh_strings_and_ints});
  out.push_back({"mixed_strings", "ty.cstring", true, 3, true, false, false, false, sh_mixed_strings});
  out.push_back({"cstr_12", "ty.cstring", true, 12, true, false, false, false, sh_cstr_12});
  out.push_back({"cached_12_mixed", "ty.cstring", true, 12, true, false, false, false, sh_cached_12_mixed});
  out.push_back({"cstr_12_plus_strings", "ty.cstring", true, 12, true, false, false, false, sh_cstr_12_plus_strings});
  out.push_back({"cstr_13_negctl", "ty.negctl_13_cstrings", true, 13, false, false, false, false, sh_cstr_13_negctl});
}
} // namespace va

// =================================================================================================
// harness
// =================================================================================================
namespace
{
using va::LoggerT;
using va::Shape;

class RecSink final : public quill::Sink
{
public:
  void write_log(quill::MacroMetadata const*, uint64_t, std::string_view, std::string_view, std::string const&,
                 std::string_view, quill::LogLevel, std::string_view, std::string_view,
                 std::vector<std::pair<std::string, std::string>> const*, std::string_view log_message,
                 std::string_view) override
  {
    tid.store(va::sys_gettid(), std::memory_order_relaxed);
    bytes.fetch_add(log_message.size(), std::memory_order_relaxed);
    written.fetch_add(1, std::memory_order_release);
  }
  void flush_sink() override {}

  std::atomic<uint64_t> written{0};
  std::atomic<uint64_t> bytes{0};
  std::atomic<uint32_t> tid{0};
};

class SysUserClock final : public quill::UserClockSource
{
public:
  uint64_t now() const override
  {
    return static_cast<uint64_t>(
      std::chrono::duration_cast<std::chrono::nanoseconds>(std::chrono::system_clock::now().time_since_epoch()).count());
  }
};

Params g_params;
std::vector<Shape> g_shapes;
LoggerT* g_loggers[3] = {nullptr, nullptr, nullptr};
char const* const kLoggerKind[3] = {"clock=tsc", "clock=system", "clock=user"};
RecSink* g_sink = nullptr;
SysUserClock g_user_clock;
std::string g_selftest_error;
bool g_negctl_strict = false;
bool g_symbolize = false;
bool g_excl_map_copy = false;
char const* const kClassMapCopy = "alloc.map_pair_temporary_copy";
int g_idx_cstr12 = -1;
int g_idx_cstr13 = -1;

std::mutex g_notify_mx;
std::atomic<uint64_t> g_notify_count{0};
std::string g_notify_last;

quill::LogLevel const kDynLevels[] = {quill::LogLevel::Info,    quill::LogLevel::TraceL3, quill::LogLevel::TraceL2,
                                      quill::LogLevel::TraceL1, quill::LogLevel::Debug,   quill::LogLevel::Notice,
                                      quill::LogLevel::Warning, quill::LogLevel::Error,   quill::LogLevel::Critical};
char const* const kRtFiles[] = {"alloc_catalog.cpp", "a.cpp", "/some/long/directory/name/with/many/components/file_name.hpp", ""};
char const* const kRtFuncs[] = {"fn", "ns::Klass::method(int, std::string const&)", ""};
uint32_t const kRtLines[] = {1, 42, 65535, 4000000000u};

__attribute__((noinline)) void* opaque(void* p)
{
  asm volatile("" : "+r"(p) : : "memory");
  return p;
}

// the interposers must see every kind of allocation made by this executable (independent of quill)
std::string interposer_selftest()
{
  verif_alloc_thread_init();
  {
    verif_alloc_arm();
    VerifAllocCounts c = verif_alloc_disarm();
    if (c.total() != 0 || c.n_free != 0) return "empty armed region counted something";
  }
  {
    verif_alloc_arm();
    void* p = opaque(std::malloc(33));
    VerifAllocCounts c = verif_alloc_disarm();
    std::free(p);
    if (c.n_malloc != 1 || c.n_new != 0 || c.n_mmap != 0) return "malloc not counted exactly once";
    if (c.nframes < 2) return "no stack captured for the counted malloc";
  }
  {
    verif_alloc_arm();
    void* p = opaque(std::calloc(3, 7));
    p = opaque(std::realloc(p, 100));
    void* q = nullptr;
    int rc = posix_memalign(&q, 64, 100);
    void* a = opaque(aligned_alloc(64, 128));
    VerifAllocCounts c = verif_alloc_disarm();
    std::free(p);
    if (rc == 0) std::free(q);
    std::free(a);
    if (c.n_malloc != 4) return "calloc/realloc/posix_memalign/aligned_alloc not counted (saw " + std::to_string(c.n_malloc) + " of 4)";
  }
  {
    verif_alloc_arm();
    void* p = opaque(::operator new(24));
    void* q = opaque(::operator new[](24, std::align_val_t{64}));
    void* n = opaque(::operator new(8, std::nothrow));
    VerifAllocCounts c = verif_alloc_disarm();
    ::operator delete(p);
    ::operator delete[](q, std::align_val_t{64});
    ::operator delete(n);
    if (c.n_new != 3 || c.n_malloc != 0) return "operator new variants not counted (saw " + std::to_string(c.n_new) + " of 3)";
  }
  {
    verif_alloc_arm();
    std::string* s = new std::string(100, 'x');
    opaque(s);
    std::vector<int> v(1000, 1);
    opaque(v.data());
    VerifAllocCounts c = verif_alloc_disarm();
    delete s;
    if (c.n_new < 3) return "std::string / std::vector allocations not counted";
  }
  {
    verif_alloc_arm();
    void* m = ::mmap(nullptr, 8192, PROT_READ | PROT_WRITE, MAP_PRIVATE | MAP_ANONYMOUS, -1, 0);
    VerifAllocCounts c = verif_alloc_disarm();
    if (m == MAP_FAILED) return "mmap through the interposer failed";
    static_cast<char*>(m)[100] = 1;
    ::munmap(m, 8192);
    if (c.n_mmap != 1) return "mmap not counted";
  }
  {
    // allocations of ANOTHER thread must not be attributed to the armed thread
    std::atomic<int> stage{0};
    std::thread t(
      [&stage]
      {
        verif_alloc_thread_init();
        while (stage.load() != 1) std::this_thread::yield();
        void* p = opaque(std::malloc(10));
        std::free(p);
        stage.store(2);
      });
    verif_alloc_arm();
    stage.store(1);
    while (stage.load() != 2) std::this_thread::yield();
    VerifAllocCounts c = verif_alloc_disarm();
    t.join();
    if (c.total() != 0) return "an allocation of another thread was attributed to the armed thread";
  }
  if (verif_alloc_seen_total() == 0) return "interposers saw no allocation at all";
  return {};
}

std::string describe_counts(VerifAllocCounts const& c)
{
  std::string s = "new=" + std::to_string(c.n_new) + " malloc-family=" + std::to_string(c.n_malloc) +
    " mmap=" + std::to_string(c.n_mmap) + " (bytes requested " + std::to_string(c.bytes) + ", frees " +
    std::to_string(c.n_free) + ")";
  if (c.nframes > 0)
  {
    // return addresses of the first counted call as offsets into the executable:
    //   addr2line -Cfipe <binary> <offsets>
    s += " first-alloc-stack:";
    std::string offs;
    for (int k = 0; k < c.nframes && k < 14; ++k)
    {
      Dl_info di{};
      char b[40];
      if (dladdr(c.frames[k], &di) && di.dli_fbase != nullptr && di.dli_fname != nullptr &&
          std::strstr(di.dli_fname, ".so") == nullptr)
      {
        std::snprintf(b, sizeof b, " +0x%zx",
                      static_cast<size_t>(static_cast<char*>(c.frames[k]) - static_cast<char*>(di.dli_fbase)));
        offs += b;
      }
      else
      {
        std::snprintf(b, sizeof b, " [lib]");
      }
      s += b;
    }
    if (g_symbolize && !offs.empty())
    {
      char exe[512];
      ssize_t n = ::readlink("/proc/self/exe", exe, sizeof exe - 1);
      if (n > 0)
      {
        exe[n] = 0;
        std::string cmd = std::string{"addr2line -Cfipe "} + exe + offs + " 2>/dev/null";
        if (FILE* f = ::popen(cmd.c_str(), "r"))
        {
          char ln[600];
          s += "\n";
          while (std::fgets(ln, sizeof ln, f)) s += std::string{"      "} + ln;
          ::pclose(f);
        }
      }
    }
  }
  return s;
}

int pick_family(Choices& c)
{
  using namespace va;
  switch (c.weighted({4, 2, 2, 2, 2, 2, 2, 2, 2}))
  {
  case 0: return F_LOG_INFO + static_cast<int>(c.pick(9));
  case 1: return F_LOGV_INFO + static_cast<int>(c.pick(3));
  case 2: return F_LOGJ_INFO + static_cast<int>(c.pick(3));
  case 3: return F_LOG_INFO_TAGS + static_cast<int>(c.pick(4));
  case 4: return F_LOG_INFO_LIMIT + static_cast<int>(c.pick(4));
  case 5: return F_LOG_INFO_LIMIT_EVERY_N + static_cast<int>(c.pick(3));
  case 6: return F_LOG_DYNAMIC + static_cast<int>(c.pick(4));
  case 7: return F_LOG_BACKTRACE + static_cast<int>(c.pick(4));
  default: return F_LOG_RUNTIME_METADATA;
  }
}

struct CaseState
{
  int mode{0};            // 0 main thread, 1 worker after preallocate(), 2 worker after a fixed first log call,
                          // 3 worker whose first generated statement IS its first log call (that one
                          //   statement creates the thread's context: outside the claim, a negative control)
  LoggerT* lg{nullptr};
  uint32_t caller_tid{0};
  size_t since_flush{0};
  std::vector<uint8_t> seen; // shapes executed on this thread in this case
  bool grew_size_cache{false}; // the 13-C-string control ran on this thread
  uint64_t expect_sink{0};   // statements that must reach the sink
  uint64_t n_deferred{0};
  uint64_t n_enum_fmt{0};
  uint64_t n_direct{0};
  unsigned n_statements{0};
};

void run_statements(Choices& c, Report& r, CaseState& st)
{
  using namespace va;
  st.caller_tid = sys_gettid();
  st.seen.assign(g_shapes.size(), 0);
  unsigned const n = 1 + c.pick(8);
  int prev_shape = -1;
  bool first_armed = true;

  for (unsigned k = 0; k < n; ++k)
  {
    // an exhausted choice stream would only add copies of the simplest statement
    if (k > 0 && c.exhausted()) break;
    // ---- choose shape and macro family ----
    int si;
    bool const repeat = (k > 0) && (c.pick(4) == 3);
    if (repeat) si = prev_shape; else si = static_cast<int>(c.pick(static_cast<uint32_t>(g_shapes.size())));
    if (si == g_idx_cstr13 && st.mode == 0)
    {
      // the control would permanently grow the main thread's size cache and make later cases depend
      // on the order of cases: on the main thread use the in-domain 12-string shape instead
      r.count("negctl.remapped_on_main_thread");
      si = g_idx_cstr12;
    }
    prev_shape = si;
    Shape const& sh = g_shapes[static_cast<size_t>(si)];
    int fam = pick_family(c);
    if (fam == F_LOG_RUNTIME_METADATA && sh.in_domain && sh.max_cached + 2 > 12)
    {
      // LOG_RUNTIME_METADATA passes file and function as two more C-string arguments: together
      // with this shape that would exceed twelve cached lengths (outside the property's domain)
      r.count("runtime_metadata_remapped_to_dynamic");
      fam = F_LOG_DYNAMIC;
    }
    FamInfo const& fi = fam_info(fam);

    Env e{c};
    e.lg = st.lg;
    e.fam = fam;
    e.since_flush = &st.since_flush;
    e.excl_map_copy = g_excl_map_copy;
    if (fam >= F_LOG_DYNAMIC && fam <= F_LOG_DYNAMIC_TAGS) e.dyn_level = kDynLevels[c.pick(9)];
    if (fam == F_LOG_RUNTIME_METADATA)
    {
      e.dyn_level = kDynLevels[c.pick(9)];
      e.rt_file = kRtFiles[c.pick(4)];
      e.rt_func = kRtFuncs[c.pick(3)];
      e.rt_line = kRtLines[c.pick(4)];
      e.est += 160;
    }

    uint64_t const def_off0 = g_rec_deferred.off_backend.load();
    uint64_t const enum_off0 = g_rec_enum.off_backend.load();
    uint64_t const dir_off0 = g_rec_direct.off_backend.load();

    // ---- build the values, arm, run the macro, disarm (all inside the shape function) ----
    sh.fn(e);

    ++st.n_statements;
    if (e.excluded_map_copy_hits) r.count(std::string{"excluded."} + kClassMapCopy);
    if (e.map_copy_class) r.label("in_class.map_pair_temporary_copy");
    bool const first_use = !st.seen[static_cast<size_t>(si)];
    st.seen[static_cast<size_t>(si)] = 1;
    if (e.desc.size() > 150) e.desc = e.desc.substr(0, 150) + "...";
    bool const is_first_call = (st.mode == 3 && k == 0);
    r.line("  #" + std::to_string(k) + " " + fi.macro + " " + sh.name + ":" + e.desc +
           (is_first_call ? "  [the thread's first log call: outside the zero-allocation claim]"
                          : sh.in_domain ? "" : "  [outside the zero-allocation claim]"));
    r.label(fi.group);
    r.label(sh.tfam);
    r.count(std::string{"macro."} + fi.macro);
    r.count(std::string{"shape."} + sh.name);
    if (first_use) r.label("shape_first_use_on_thread"); else r.label("shape_repeated_on_thread");
    if (first_armed && st.mode == 1) r.label("after_preallocate");
    if (first_armed && st.mode == 2) r.label("first_call_on_thread");
    if (k == 1 && st.mode == 3) r.label("after_generated_first_call");
    first_armed = false;

    if (!e.emitted)
    {
      r.fail(std::string{"harness error: shape "} + sh.name + " did not emit a statement");
      return;
    }
    if (!fi.backtrace) ++st.expect_sink;

    // ---- allocation oracle ----
    uint32_t const total = e.cnt.total();
    if (is_first_call)
    {
      // creates the thread context (queue mmap + bookkeeping): expected to allocate
      r.label("negctl_first_call_on_thread");
      r.count(total != 0 ? "negctl.first_call.allocated" : "negctl.first_call.SILENT");
      if (total == 0 && g_negctl_strict)
        r.fail("negative control: a thread's very first log call made no allocation call (interposers blind?)");
      if (si == g_idx_cstr13) st.grew_size_cache = true;
    }
    else if (sh.in_domain)
    {
      if (sh.nontrivial) r.nontrivial = true;
      if (e.cached == 12) r.label("exactly_12_cstrings");
      if (total != 0)
      {
        r.fail(std::string{"statement #"} + std::to_string(k) + " (" + fi.macro + ", shape " + sh.name + "," + e.desc +
               ") allocated on the calling thread: " + describe_counts(e.cnt) + "; expected 0 allocation calls (thread mode " +
               (st.mode == 0 ? "main" : st.mode == 1 ? "worker after preallocate()" : st.mode == 2 ? "worker after first log call" : "worker after a generated first log call") +
               (st.grew_size_cache ? ", after the 13-C-string control" : "") + ")" +
               (e.map_copy_class ? std::string{" [statement is in known-finding class "} + kClassMapCopy + "]" : std::string{}));
      }
    }
    else if (si == g_idx_cstr13)
    {
      r.label("negctl_13_cstrings");
      if (!st.grew_size_cache)
      {
        r.count(total != 0 ? "negctl.13_cstrings.first_on_thread.allocated" : "negctl.13_cstrings.first_on_thread.SILENT");
        r.count("negctl.13_cstrings.first_on_thread.alloc_calls", total);
        if (total == 0 && g_negctl_strict)
          r.fail("negative control: the first 13-C-string statement of a thread did not allocate (interposers blind, or the size cache inline capacity is no longer 12)");
      }
      else
      {
        r.count(total != 0 ? "negctl.13_cstrings.repeat.allocated" : "negctl.13_cstrings.repeat.silent");
      }
      st.grew_size_cache = true;
    }
    else
    {
      // direct-format type: documented to format (and possibly allocate) on the caller
      r.count(total != 0 ? "direct_format.allocated_on_caller" : "direct_format.no_allocation");
    }

    // ---- formatter-thread oracle, synchronous part ----
    if (g_rec_deferred.off_backend.load() != def_off0)
    {
      r.fail(std::string{"formatter of a deferred-format user type ran on tid "} +
             std::to_string(g_rec_deferred.last_off_tid.load()) + " during statement #" + std::to_string(k) + " (" +
             fi.macro + ", shape " + sh.name + "); caller tid " + std::to_string(st.caller_tid) + ", backend tid " +
             std::to_string(g_backend_tid.load()) + ": formatting must run on the backend only");
    }
    if (g_rec_enum.off_backend.load() != enum_off0)
    {
      r.fail(std::string{"user formatter of an enum argument ran on tid "} + std::to_string(g_rec_enum.last_off_tid.load()) +
             " during statement #" + std::to_string(k) + " (" + fi.macro + ", shape " + sh.name + "); backend tid " +
             std::to_string(g_backend_tid.load()));
    }
    if (sh.deferred_user) { ++st.n_deferred; r.label("deferred_user_type"); }
    if (sh.enum_fmt) ++st.n_enum_fmt;
    if (sh.direct_user)
    {
      ++st.n_direct;
      r.label("direct_format_type");
      if (g_rec_direct.off_backend.load() == dir_off0 || g_rec_direct.last_off_tid.load() != st.caller_tid)
      {
        r.fail(std::string{"direct-format type was not formatted on the calling thread during statement #"} +
               std::to_string(k) + " (" + fi.macro + "): formatter calls off the backend before/after " +
               std::to_string(dir_off0) + "/" + std::to_string(g_rec_direct.off_backend.load()) + ", last tid " +
               std::to_string(g_rec_direct.last_off_tid.load()) + ", caller " + std::to_string(st.caller_tid));
      }
    }
    else if (g_rec_direct.off_backend.load() != dir_off0)
    {
      r.fail("harness error: direct-format formatter ran for a shape without a direct-format argument");
    }
    if (r.failed) break;
  }
  // ---- boundary of "fits in the thread's current queue buffer": after a flush (queue drained) a statement whose encoded
  // size is exactly the queue capacity, or a few bytes less, fits and must neither allocate nor grow the queue ----
  if (!r.failed && st.mode != 3 && c.pick(5) == 4)
  {
    st.lg->flush_log();
    st.since_flush = 0;
    size_t const cap = FrontendT::get_thread_local_queue_capacity();
    static uint32_t const deltas[] = {0, 0, 1, 2, 7, 8, 64, 4096};
    uint32_t const delta = deltas[c.pick(8)];
    size_t const fixed = 8 + 3 * sizeof(uintptr_t) + sizeof(uint32_t); // header + string length field
    if (cap > fixed + delta + 16)
    {
      std::string big(cap - fixed - delta, 'x');
      std::string_view const sv{big};
      uint64_t const written0 = g_sink->written.load(std::memory_order_acquire);
      verif_alloc_arm();
      LOG_INFO(st.lg, "{}", sv);
      VerifAllocCounts const cnt = verif_alloc_disarm();
      // let the backend consume it before the (unarmed) flush request is enqueued: right behind a statement that fills the
      // buffer the 40-byte flush record would legitimately make an unbounded queue grow
      for (int spin = 0; spin < 2000000 && g_sink->written.load(std::memory_order_acquire) == written0; ++spin) std::this_thread::yield();
      ++st.expect_sink;
      ++st.n_statements;
      size_t const cap_after = FrontendT::get_thread_local_queue_capacity();
      r.label(delta == 0 ? "exact_fit_of_queue_capacity" : "near_fit_of_queue_capacity");
      r.line("  boundary: string_view of " + std::to_string(big.size()) + " chars = encoded " + std::to_string(cap - delta) +
             " B into an empty queue of " + std::to_string(cap) + " B");
      if (cnt.total() != 0 || cap_after != cap)
      {
        r.fail("a statement of encoded size " + std::to_string(cap - delta) + " B logged into the drained queue of " + std::to_string(cap) +
               " B (it fits the current buffer) allocated on the calling thread: " + describe_counts(cnt) + "; queue capacity " +
               std::to_string(cap) + " -> " + std::to_string(cap_after));
      }
      st.lg->flush_log();
    }
  }
  // everything this thread enqueued is processed before the thread goes away / the case ends
  st.lg->flush_log();
}
} // namespace

namespace verif
{
HarnessInfo harness_info() { return {"alloc", false, 400, 0}; }

void harness_init(Params const& p)
{
  g_params = p;
  g_negctl_strict = param_flag(p, "negctl_strict");
  g_symbolize = param_flag(p, "symbolize");
  g_excl_map_copy = excluded(p, kClassMapCopy);

  g_selftest_error = interposer_selftest();

  quill::BackendOptions bo;
  bo.sleep_duration = std::chrono::nanoseconds{500};
  {
    // parameter hard_limit=<n>: a small (legal) BackendOptions::transit_events_hard_limit / soft limit. How much the backend
    // reads per pass must not change what the logging thread can reuse: a drained queue is a drained queue
    long const hl = param_int(p, "hard_limit", 0);
    if (hl > 0)
    {
      bo.transit_events_hard_limit = static_cast<size_t>(hl);
      bo.transit_events_soft_limit = static_cast<size_t>(hl);
      bo.transit_event_buffer_initial_capacity = static_cast<uint32_t>(hl < 2 ? 2 : hl);
    }
  }
  bo.error_notifier = [](std::string const& m)
  {
    std::lock_guard<std::mutex> lk{g_notify_mx};
    g_notify_last = m;
    g_notify_count.fetch_add(1);
  };
  quill::Backend::start(bo);

  auto sink = va::FrontendT::create_or_get_sink<RecSink>("alloc_rec_sink");
  g_sink = static_cast<RecSink*>(sink.get());
  quill::PatternFormatterOptions pfo{"%(message)"};
  g_loggers[0] = va::FrontendT::create_or_get_logger("alloc_tsc", sink, pfo, quill::ClockSourceType::Tsc);
  g_loggers[1] = va::FrontendT::create_or_get_logger("alloc_sys", sink, pfo, quill::ClockSourceType::System);
  g_loggers[2] = va::FrontendT::create_or_get_logger("alloc_user", sink, pfo, quill::ClockSourceType::User, &g_user_clock);

  // the main thread's first log calls (the property speaks about what comes after them)
  for (LoggerT* lg : g_loggers)
  {
    lg->set_log_level(quill::LogLevel::TraceL3);
    lg->init_backtrace(8, quill::LogLevel::None); // never flushed: LOG_BACKTRACE statements stay in the ring
    LOG_INFO(lg, "alloc harness init {}", 1);
    lg->flush_log();
  }
  va::g_backend_tid.store(g_sink->tid.load());
  if (g_selftest_error.empty())
  {
    if (va::g_backend_tid.load() == 0 || va::g_backend_tid.load() == va::sys_gettid())
      g_selftest_error = "the recording sink did not run on a separate backend thread";
    else if (va::g_backend_tid.load() != quill::Backend::get_thread_id())
      g_selftest_error = "tid seen inside the sink (" + std::to_string(va::g_backend_tid.load()) +
        ") differs from Backend::get_thread_id() (" + std::to_string(quill::Backend::get_thread_id()) + ")";
  }

  va::register_shapes_1(g_shapes);
  va::register_shapes_2(g_shapes);
  va::register_shapes_3(g_shapes);
  for (size_t k = 0; k < g_shapes.size(); ++k)
  {
    if (std::strcmp(g_shapes[k].name, "cstr_12") == 0) g_idx_cstr12 = static_cast<int>(k);
    if (std::strcmp(g_shapes[k].name, "cstr_13_negctl") == 0) g_idx_cstr13 = static_cast<int>(k);
  }
  if (g_selftest_error.empty() && (g_idx_cstr12 < 0 || g_idx_cstr13 < 0)) g_selftest_error = "catalog lacks the 12/13 C-string shapes";
}

void run_case(Choices& c, Report& r)
{
  if (!g_selftest_error.empty())
  {
    r.fail("harness self-test failed: " + g_selftest_error);
    return;
  }
  using namespace va;

  CaseState st;
  st.mode = static_cast<int>(c.weighted({3, 2, 2, 1}));
  unsigned const lk = c.pick(3);
  st.lg = g_loggers[lk];

  uint64_t const sink0 = g_sink->written.load(std::memory_order_acquire);
  uint64_t const notify0 = g_notify_count.load();
  uint64_t const def_on0 = g_rec_deferred.on_backend.load();
  uint64_t const enum_on0 = g_rec_enum.on_backend.load();
  uint64_t const dir_on0 = g_rec_direct.on_backend.load();

  r.line(std::string{"thread="} + (st.mode == 0 ? "main" : st.mode == 1 ? "worker+preallocate" : st.mode == 2 ? "worker+first_call" : "worker+generated_first_call") + " " +
         kLoggerKind[lk]);
  r.label(st.mode == 0 ? "main_thread" : "worker_thread");
  r.label(kLoggerKind[lk]);

  uint64_t warmup = 0;
  if (st.mode == 0)
  {
    run_statements(c, r, st);
  }
  else
  {
    if (st.mode == 2) warmup = 1;
    std::thread t(
      [&c, &r, &st]
      {
        verif_alloc_thread_init();
        if (st.mode == 1) FrontendT::preallocate();
        else if (st.mode == 2)
        {
          // the thread's first log call creates its context (expected to allocate: not armed)
          LOG_INFO(st.lg, "first call on this thread {}", 0);
        }
        run_statements(c, r, st);
      });
    t.join();
  }
  if (r.failed) return;

  // ---- after the flush: delivery sanity, backend error notifier, formatter thread ----
  uint64_t const got = g_sink->written.load(std::memory_order_acquire) - sink0;
  if (got != st.expect_sink + warmup)
  {
    r.fail("sanity (not C11 itself): " + std::to_string(st.expect_sink + warmup) + " statements were logged with non-backtrace macros but " +
           std::to_string(got) + " reached the sink after flush_log(): an armed macro did not enqueue what the harness thinks it did");
  }
  if (g_notify_count.load() != notify0)
  {
    std::lock_guard<std::mutex> lk2{g_notify_mx};
    r.fail("backend error notifier fired during the case (harness sizing error if it reports a queue reallocation): " + esc(g_notify_last, 300));
  }
  if (g_rec_deferred.on_backend.load() - def_on0 < st.n_deferred)
  {
    r.fail("deferred-format formatter ran " + std::to_string(g_rec_deferred.on_backend.load() - def_on0) +
           " times on the backend thread for " + std::to_string(st.n_deferred) + " statements with a deferred-format argument");
  }
  if (g_rec_enum.on_backend.load() - enum_on0 < st.n_enum_fmt)
  {
    r.fail("enum formatter ran " + std::to_string(g_rec_enum.on_backend.load() - enum_on0) + " times on the backend thread for " +
           std::to_string(st.n_enum_fmt) + " statements with such an argument");
  }
  if (g_rec_direct.on_backend.load() != dir_on0)
  {
    r.fail("formatter of the direct-format type ran on the backend thread: direct formatting must happen at the call site only");
  }
}

bool probe_known_class(std::string const& cls, std::string& what)
{
  if (cls == kClassMapCopy)
  {
    if (!g_selftest_error.empty())
    {
      what = "harness self-test failed: " + g_selftest_error;
      return true;
    }
    // steady state on the main thread; one entry whose key does not fit the small-string buffer
    va::LoggerT* lg = g_loggers[0];
    std::map<std::string, int> m;
    m.emplace(std::string(32, 'k'), 1);
    std::unordered_map<int, std::string> um;
    um.emplace(1, std::string(32, 'v'));
    LOG_INFO(lg, "probe warm-up {} {}", m, um);
    lg->flush_log();
    verif_alloc_arm();
    LOG_INFO(lg, "probe {}", m);
    VerifAllocCounts c1 = verif_alloc_disarm();
    verif_alloc_arm();
    LOG_INFO(lg, "probe {}", um);
    VerifAllocCounts c2 = verif_alloc_disarm();
    lg->flush_log();
    if (c1.total() != 0 || c2.total() != 0)
    {
      what = "LOG_INFO(logger, \"{}\", m) in steady state with std::map<std::string,int> m{{<32-char key>, 1}} made " +
        std::to_string(c1.total()) + " allocation calls on the caller (" + std::to_string(c1.bytes) +
        " bytes), std::unordered_map<int,std::string> with a 32-char value made " + std::to_string(c2.total()) +
        ": Codec<map>/Codec<unordered_map> pass each pair<const Key,T> element to Codec<pair<Key,T>>, which copies key and value into a temporary pair in both the size pass and the encode pass";
      return true;
    }
    return false;
  }
  return false;
}
} // namespace verif
