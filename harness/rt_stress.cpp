// rtstress — real-thread second opinion for C03 / C06 / C08: the REAL backend thread (Backend::start)
// and 1-4 real frontend threads run generated programs concurrently under the OS scheduler. The sim
// engine serialises operations (one sequentially consistent interleaving, preemption only at yield
// points); races INSIDE a backend or frontend function (e.g. a non-atomic read-then-reset of a
// counter that the producer increments) are only reachable with real concurrency. Oracles are
// schedule independent: exactly-once / per-thread order / integrity at quiescence, drop accounting,
// flush_log() returning only after the caller's own earlier statements reached the sink.
// One binary per queue flavour (-DRT_QUEUE_TYPE=..., -DRT_CAP=..., -DRT_MAX=...). Fork per case.
#include "../engine/harness.h"

#include "quill/Backend.h"
#include "quill/Frontend.h"
#include "quill/Logger.h"
#include "quill/filters/Filter.h"
#include "quill/sinks/Sink.h"

#include <algorithm>
#include <atomic>
#include <chrono>
#include <map>
#include <mutex>
#include <thread>

#ifndef RT_QUEUE_TYPE
  #define RT_QUEUE_TYPE BoundedDropping
#endif
#ifndef RT_CAP
  #define RT_CAP 4096
#endif
#ifndef RT_MAX
  #define RT_MAX RT_CAP
#endif

using namespace verif;

struct RtFrontendOptions
{
  static constexpr quill::QueueType queue_type = quill::QueueType::RT_QUEUE_TYPE;
  static constexpr size_t initial_queue_capacity = RT_CAP;
  static constexpr uint32_t blocking_queue_retry_interval_ns = 200;
  static constexpr size_t unbounded_queue_max_capacity = RT_MAX;
  static constexpr quill::HugePagesPolicy huge_pages_policy = quill::HugePagesPolicy::Never;
};
using RFrontend = quill::FrontendImpl<RtFrontendOptions>;
using RLogger = quill::LoggerImpl<RtFrontendOptions>;

namespace
{
constexpr bool kDropping = (RtFrontendOptions::queue_type == quill::QueueType::BoundedDropping) ||
  (RtFrontendOptions::queue_type == quill::QueueType::UnboundedDropping);
constexpr bool kBounded = (RtFrontendOptions::queue_type == quill::QueueType::BoundedDropping) ||
  (RtFrontendOptions::queue_type == quill::QueueType::BoundedBlocking);
constexpr size_t kFixed = 8 + 3 * sizeof(uintptr_t) + 2 + 4 + (kDropping ? 1 : 4); // dropping flavours log the padding as a C string (size cache)

Params g_params;
std::string g_prop = "C03";

constexpr quill::MacroMetadata kMd{"rt.cpp:1", "f", "{}:{}:{}", nullptr, quill::LogLevel::Info, quill::MacroMetadata::Event::Log};

struct Entry
{
  int w;
  uint32_t seq;
  uint32_t len;
  bool ok;
};

class RecSink : public quill::Sink
{
public:
  void write_log(quill::MacroMetadata const*, uint64_t, std::string_view, std::string_view, std::string const&, std::string_view,
                 quill::LogLevel, std::string_view, std::string_view, std::vector<std::pair<std::string, std::string>> const*,
                 std::string_view msg, std::string_view) override
  {
    Entry e{0, 0, 0, false};
    // "w:seq:pad"
    size_t a = msg.find(':'), b = a == std::string_view::npos ? a : msg.find(':', a + 1);
    if (b != std::string_view::npos)
    {
      e.w = std::atoi(std::string{msg.substr(0, a)}.c_str());
      e.seq = static_cast<uint32_t>(std::strtoul(std::string{msg.substr(a + 1, b - a - 1)}.c_str(), nullptr, 10));
      e.len = static_cast<uint32_t>(msg.size() - b - 1);
      e.ok = true;
      for (size_t k = b + 1; k < msg.size(); ++k)
        if (msg[k] != static_cast<char>('a' + ((e.w * 7u + e.seq * 13u + (k - b - 1) * 3u) % 26u))) { e.ok = false; break; }
    }
    std::lock_guard<std::mutex> lk(m);
    entries.push_back(e);
    if (e.ok && e.w >= 1 && e.w <= 8) last_seq_plus1[e.w] = e.seq + 1;
  }
  void flush_sink() override { flushes.fetch_add(1, std::memory_order_relaxed); }
  std::mutex m;
  std::vector<Entry> entries;
  uint32_t last_seq_plus1[9]{};
  std::atomic<long> flushes{0};
};

struct Step
{
  uint8_t kind;   // 0 burst, 1 flush, 2 pause
  uint32_t count; // burst: statements
  uint32_t size_class;
};

struct ThreadPlan
{
  std::vector<Step> steps;
};

struct ThreadResult
{
  std::vector<uint8_t> accepted; // per seq
  std::string error;
};

std::string make_pad(int w, uint32_t seq, uint32_t len)
{
  std::string p(len, 'a');
  for (uint32_t k = 0; k < len; ++k) p[k] = static_cast<char>('a' + ((w * 7u + seq * 13u + k * 3u) % 26u));
  return p;
}
} // namespace

namespace verif
{
HarnessInfo harness_info() { return {"rtstress", true, 400, 120000}; }

void harness_init(Params const& p)
{
  g_params = p;
  g_prop = param_str(p, "prop", "C03");
}

// ---- C16 under real concurrency: filters attached to a sink WHILE other threads attach filters to the same sink and the
// backend evaluates statements. Every worker repeats: attach a filter that rejects exactly its next statement (add_filter
// has returned before the log call starts), log that statement; every fourth statement gets no filter of its own and
// must arrive. Oracle at quiescence: a statement is on the sink iff no attached filter rejects it.
class TagFilter : public quill::Filter
{
public:
  TagFilter(std::string name, std::string tag) : quill::Filter(std::move(name)), _tag(std::move(tag)) {}
  bool filter(quill::MacroMetadata const*, uint64_t, std::string_view, std::string_view, std::string_view, quill::LogLevel,
              std::string_view msg, std::string_view) noexcept override
  {
    return !(msg.size() >= _tag.size() && msg.compare(0, _tag.size(), _tag) == 0);
  }
  std::string _tag;
};

void run_filter_race(Choices& c, Report& r)
{
  quill::BackendOptions bo;
  bo.sleep_duration = std::chrono::nanoseconds{c.pick(2) ? 0 : 100};
  bo.transit_event_buffer_initial_capacity = 1u << c.pick(5);
  bo.check_backend_singleton_instance = false;
  unsigned const nthreads = 2 + c.pick(3);
  unsigned const rounds = 100 + c.pick(300);
  unsigned const pre_filters = c.pick(400); // more attached filters = longer critical sections inside add_filter
  auto sink_sp = RFrontend::create_or_get_sink<RecSink>("rec16");
  RecSink* sink = static_cast<RecSink*>(sink_sp.get());
  for (unsigned k = 0; k < pre_filters; ++k) sink->add_filter(std::make_unique<TagFilter>("pre" + std::to_string(k), "never:" + std::to_string(k) + ":"));
  RLogger* lg = RFrontend::create_or_get_logger("rt16", sink_sp,
                                                quill::PatternFormatterOptions{"%(message)", "%H:%M:%S.%Qns", quill::Timezone::GmtTime, false});
  quill::Backend::start(bo);
  std::vector<std::thread> ths;
  std::atomic<unsigned> go{0};
  for (unsigned t = 0; t < nthreads; ++t)
  {
    ths.emplace_back(
      [&, t]()
      {
        int const w = static_cast<int>(t) + 1;
        go.fetch_add(1);
        while (go.load() < nthreads) {}
        for (uint32_t seq = 0; seq < rounds; ++seq)
        {
          bool const filtered = (seq % 4u) != 3u;
          if (filtered)
            sink->add_filter(std::make_unique<TagFilter>("f" + std::to_string(w) + "_" + std::to_string(seq),
                                                         std::to_string(w) + ":" + std::to_string(seq) + ":"));
          std::string pad = make_pad(w, seq, 5);
          lg->template log_statement<false, false>(quill::LogLevel::None, &kMd, static_cast<uint16_t>(w), seq, pad);
        }
      });
  }
  for (auto& t : ths) t.join();
  lg->flush_log(100);
  quill::Backend::stop();
  r.line("C16 filter race: threads=" + std::to_string(nthreads) + " rounds=" + std::to_string(rounds) + " pre_filters=" + std::to_string(pre_filters) +
         " sleep_ns=" + std::to_string(bo.sleep_duration.count()));
  r.label("filters_attached_concurrently");
  r.nontrivial = true;
  std::map<std::pair<int, uint32_t>, int> seen;
  for (auto const& e : sink->entries)
  {
    if (!e.ok) { r.fail("sink received a corrupted / unparsable statement"); return; }
    ++seen[{e.w, e.seq}];
  }
  for (unsigned t = 0; t < nthreads; ++t)
  {
    int const w = static_cast<int>(t) + 1;
    for (uint32_t seq = 0; seq < rounds; ++seq)
    {
      bool const filtered = (seq % 4u) != 3u;
      int n = seen.count({w, seq}) ? seen[{w, seq}] : 0;
      if (filtered && n != 0)
      {
        r.fail("statement " + std::to_string(w) + ":" + std::to_string(seq) + " reached the sink although a filter that rejects it was attached to the sink (add_filter had returned) before it was logged");
        return;
      }
      if (!filtered && n != 1)
      {
        r.fail("statement " + std::to_string(w) + ":" + std::to_string(seq) + " which no filter rejects was written " + std::to_string(n) + " times");
        return;
      }
    }
  }
}

void run_case(Choices& c, Report& r)
{
  if (g_prop == "C16") { run_filter_race(c, r); return; }
  // ---- configuration ----
  quill::BackendOptions bo;
  bo.sleep_duration = std::chrono::nanoseconds{c.pick(3) == 0 ? 0 : (c.pick(2) ? 100 : 2000)};
  bo.transit_event_buffer_initial_capacity = 1u << c.pick(5);
  bo.transit_events_soft_limit = size_t{1} << c.pick(6);
  bo.transit_events_hard_limit = bo.transit_events_soft_limit << c.pick(3);
  bo.log_timestamp_ordering_grace_period = std::chrono::microseconds{c.pick(3) == 2 ? 0 : 1};
  bo.sink_min_flush_interval = std::chrono::milliseconds{0};
  bo.check_backend_singleton_instance = false;
  static std::mutex notes_m;
  static std::vector<std::string> notes;
  bo.error_notifier = [](std::string const& m) { std::lock_guard<std::mutex> lk(notes_m); notes.push_back(m); };

  unsigned nthreads = 1 + c.pick(4);
  std::vector<ThreadPlan> plans(nthreads);
  long total = 0;
  for (auto& pl : plans)
  {
    unsigned nsteps = 2 + c.pick(10);
    for (unsigned k = 0; k < nsteps; ++k)
    {
      Step s{};
      switch (c.weighted({6, 2, 1, (g_prop == "C06" || g_prop == "C03" || g_prop == "C20") ? 6u : 2u, g_prop == "C17" ? 8u : 1u}))
      {
      case 4: s.kind = 4; s.count = 1 + c.pick(3); total += s.count; break; // logger cycle: create, log a few, remove
      case 3: s.kind = 3; s.count = 2 + c.pick(14); total += s.count; break; // churn: short-lived threads logging for the first time
      case 0:
        s.kind = 0;
        s.count = 1u << (4 + c.pick(kDropping ? 13 : 9)); // 16 .. 65536 (dropping: cheap) / 16 .. 4096 (blocking: every statement is written)
        s.size_class = kDropping ? (c.pick(2) ? 3 : c.pick(4)) : c.pick(4);
        total += s.count;
        break;
      case 1: s.kind = 1; break;
      case 2: s.kind = 2; s.count = 1 + c.pick(200); break;
      default: break;
      }
      pl.steps.push_back(s);
    }
  }
  // C17: rounds in which ALL threads create-or-get the SAME new logger name at (nearly) the same moment. Every thread has
  // one step per round, at generated positions of its plan; a bounded spin barrier lines the calls up.
  unsigned nshared = (g_prop == "C17" && nthreads >= 2) ? c.pick(5) : 0;
  for (auto& pl : plans)
  {
    std::vector<size_t> pos;
    for (unsigned k = 0; k < nshared; ++k) pos.push_back(c.pick(static_cast<uint32_t>(pl.steps.size() + 1)));
    std::sort(pos.begin(), pos.end());
    for (unsigned k = 0; k < nshared; ++k)
    {
      Step s{};
      s.kind = 5;
      s.count = k; // round number
      pl.steps.insert(pl.steps.begin() + static_cast<long>(pos[k] + k), s);
    }
    total += nshared;
  }
  if (nshared) r.label("same_name_created_by_all_threads_at_once");
  r.line("queue=" + std::to_string(static_cast<int>(RtFrontendOptions::queue_type)) + " cap=" + std::to_string(RT_CAP) + "/" +
         std::to_string(RT_MAX) + " sleep_ns=" + std::to_string(bo.sleep_duration.count()) + " tbuf=" +
         std::to_string(bo.transit_event_buffer_initial_capacity) + " soft=" + std::to_string(bo.transit_events_soft_limit) + " hard=" +
         std::to_string(bo.transit_events_hard_limit) + " threads=" + std::to_string(nthreads) + " statements=" + std::to_string(total));

  // registry-lock jitter: a helper thread that periodically holds the thread-context registry lock for a short while through
  // the public for_each_thread_context() (models contention / preemption of a lock holder; widens every window around it)
  unsigned hold_ns = 0;
  switch (c.pick(4)) { case 1: hold_ns = 3000; break; case 2: hold_ns = 30000; break; case 3: hold_ns = 300000; break; default: break; }
  r.line("lock_jitter_ns=" + std::to_string(hold_ns));
  if (hold_ns) r.label("registry_lock_jitter");
  std::mutex churn_m;
  std::map<int, std::vector<uint8_t>> churn_res;
  std::atomic<int> next_churn_id{10};

  auto sink_sp = RFrontend::create_or_get_sink<RecSink>("rec");
  RecSink* sink = static_cast<RecSink*>(sink_sp.get());
  RLogger* lg = RFrontend::create_or_get_logger("rt", sink_sp,
                                                quill::PatternFormatterOptions{"%(message)", "%H:%M:%S.%Qns", quill::Timezone::GmtTime, false});
  quill::Backend::start(bo);

  std::vector<ThreadResult> res(nthreads);
  // shared-name rounds: arrival counters of the two barriers and the pointer every thread was handed
  std::vector<std::atomic<unsigned>> bar_a(nshared), bar_b(nshared);
  for (auto& a : bar_a) a = 0;
  for (auto& b : bar_b) b = 0;
  std::vector<std::vector<RLogger*>> shared_got(nshared, std::vector<RLogger*>(nthreads, nullptr));
  auto wait_all = [nthreads](std::atomic<unsigned>& a) -> bool
  {
    a.fetch_add(1, std::memory_order_acq_rel);
    auto const t0 = std::chrono::steady_clock::now();
    while (a.load(std::memory_order_acquire) < nthreads)
    {
      if (std::chrono::steady_clock::now() - t0 > std::chrono::milliseconds{2000}) return false;
    }
    return true;
  };
  std::vector<std::thread> ths;
  std::atomic<long> flush_checks{0};
  std::atomic<bool> jitter_done{false};
  std::thread jitter;
  if (hold_ns)
  {
    jitter = std::thread(
      [&]()
      {
        while (!jitter_done.load(std::memory_order_relaxed))
        {
          bool first = true;
          quill::detail::ThreadContextManager::instance().for_each_thread_context(
            [&](quill::detail::ThreadContext*)
            {
              if (!first) return;
              first = false;
              auto const t0 = std::chrono::steady_clock::now();
              while (std::chrono::steady_clock::now() - t0 < std::chrono::nanoseconds{hold_ns}) {}
            });
          bool first_l = true;
          quill::detail::LoggerManager::instance().for_each_logger(
            [&](quill::detail::LoggerBase*)
            {
              if (first_l)
              {
                first_l = false;
                auto const t0 = std::chrono::steady_clock::now();
                while (std::chrono::steady_clock::now() - t0 < std::chrono::nanoseconds{hold_ns}) {}
              }
              return false;
            });
          for (int k = 0; k < 20; ++k) std::this_thread::yield();
        }
      });
  }
  for (unsigned t = 0; t < nthreads; ++t)
  {
    ths.emplace_back(
      [&, t]()
      {
        int const w = static_cast<int>(t) + 1;
        ThreadResult& R = res[t];
        uint32_t seq = 0;
        uint32_t last_accepted_plus1 = 0;
        for (auto const& s : plans[t].steps)
        {
          if (s.kind == 0)
          {
            for (uint32_t i = 0; i < s.count; ++i)
            {
              uint32_t len;
              switch (s.size_class)
              {
              case 0: len = (seq * 7u) % 24u; break;
              case 1: len = (seq * 31u) % 200u; break;
              case 2: len = static_cast<uint32_t>((RT_CAP / 2) - kFixed - ((seq * 13u) % 64u)); break;
              default:
                // long runs of statements that can never fit (dropped while the queue is EMPTY and the backend idle:
                // the backend collects the drop counter concurrently with the producer incrementing it), then small ones
                len = ((seq / 256u) % 4u != 3u) ? static_cast<uint32_t>(RT_MAX) : (seq * 3u) % 48u;
                break;
              }
              if (!kDropping && len + kFixed > RT_CAP) len = static_cast<uint32_t>(RT_CAP - kFixed); // blocking: must fit (documented)
              if (!kBounded && !kDropping && len + kFixed > RT_MAX) len = 16;
              std::string pad = make_pad(w, seq, len);
              bool ok = false;
              try
              {
                if constexpr (kDropping)
                {
                  char const* cpad = pad.c_str();
                  ok = lg->template log_statement<false, false>(quill::LogLevel::None, &kMd, static_cast<uint16_t>(w), seq, cpad);
                }
                else ok = lg->template log_statement<false, false>(quill::LogLevel::None, &kMd, static_cast<uint16_t>(w), seq, pad);
              }
              catch (quill::QuillError const&) { ok = false; R.accepted.push_back(2); ++seq; continue; }
              R.accepted.push_back(ok ? 1 : 0);
              if (ok) last_accepted_plus1 = seq + 1;
              ++seq;
              // a registry look-up from a thread that takes no registry lock of its own around it: races with the other
              // threads' logger cycles and with the backend erasing removed loggers
              if ((seq & 15u) == 0 && RFrontend::get_logger("rt") != lg && R.error.empty())
                R.error = "get_logger(\"rt\") does not return the long-lived logger";
            }
          }
          else if (s.kind == 4)
          {
            // a private logger sharing the sink: log through it, then remove it (never used again: documented precondition)
            std::string name = "cyc_" + std::to_string(w) + "_" + std::to_string(seq);
            RLogger* tmp = RFrontend::create_or_get_logger(name, sink_sp,
                                                           quill::PatternFormatterOptions{"%(message)", "%H:%M:%S.%Qns", quill::Timezone::GmtTime, false});
            for (uint32_t i = 0; i < s.count; ++i)
            {
              std::string pad = make_pad(w, seq, 7);
              bool ok = false;
              try { ok = tmp->template log_statement<false, false>(quill::LogLevel::None, &kMd, static_cast<uint16_t>(w), seq, pad); }
              catch (quill::QuillError const&) { ok = false; }
              R.accepted.push_back(ok ? 1 : 0);
              if (ok) last_accepted_plus1 = seq + 1;
              ++seq;
            }
            // registry look-ups race with other threads' create/remove and with the backend's clean-up of removed loggers
            if (RFrontend::get_logger(name) != tmp && R.error.empty())
              R.error = "get_logger(\"" + name + "\") does not return the logger create_or_get_logger() just returned";
            if (RFrontend::get_logger("rt") != lg && R.error.empty()) R.error = "get_logger(\"rt\") does not return the long-lived logger";
            RFrontend::remove_logger(tmp);
            if (RFrontend::get_logger(name) != nullptr && R.error.empty())
              R.error = "get_logger(\"" + name + "\") still returns the logger after remove_logger() returned";
            if (RFrontend::get_number_of_loggers() < 1 && R.error.empty()) R.error = "get_number_of_loggers() == 0 while logger \"rt\" is alive";
          }
          else if (s.kind == 5)
          {
            unsigned const round = s.count;
            std::string name = "shared_r" + std::to_string(round);
            wait_all(bar_a[round]); // line the calls up (bounded: a late thread simply creates-or-gets later)
            RLogger* got = RFrontend::create_or_get_logger(name, sink_sp,
                                                           quill::PatternFormatterOptions{"%(message)", "%H:%M:%S.%Qns", quill::Timezone::GmtTime, false});
            shared_got[round][t] = got;
            std::string pad = make_pad(w, seq, 9);
            bool ok = false;
            try { ok = got->template log_statement<false, false>(quill::LogLevel::None, &kMd, static_cast<uint16_t>(w), seq, pad); }
            catch (quill::QuillError const&) { ok = false; }
            R.accepted.push_back(ok ? 1 : 0);
            if (ok) last_accepted_plus1 = seq + 1;
            ++seq;
            // removed by one thread, and only when every thread is done with it (documented precondition)
            if (wait_all(bar_b[round]) && t == 0) RFrontend::remove_logger(got);
          }
          else if (s.kind == 3)
          {
            for (uint32_t i = 0; i < s.count; ++i)
            {
              int const cid = next_churn_id.fetch_add(1);
              std::thread(
                [&, cid]()
                {
                  std::string pad = make_pad(cid, 0, 5);
                  bool ok = false;
                  try { ok = lg->template log_statement<false, false>(quill::LogLevel::None, &kMd, static_cast<uint16_t>(cid), 0u, pad); }
                  catch (quill::QuillError const&) {}
                  std::lock_guard<std::mutex> lk(churn_m);
                  churn_res[cid] = std::vector<uint8_t>{static_cast<uint8_t>(ok ? 1 : 0)};
                })
                .join();
            }
          }
          else if (s.kind == 1)
          {
            lg->flush_log(100);
            // C06: own earlier accepted statements are on the sink now
            uint32_t seen;
            {
              std::lock_guard<std::mutex> lk(sink->m);
              seen = sink->last_seq_plus1[w];
            }
            flush_checks.fetch_add(1, std::memory_order_relaxed);
            if (seen < last_accepted_plus1 && R.error.empty())
            {
              R.error = "flush_log() of thread " + std::to_string(w) + " returned but its own accepted statement #" +
                std::to_string(last_accepted_plus1 - 1) + " is not on the sink (last written #" + std::to_string(seen ? seen - 1 : 0) + ")";
            }
          }
          else
          {
            for (uint32_t i = 0; i < s.count; ++i) std::this_thread::yield();
          }
        }
      });
  }
  for (auto& t : ths) t.join();
  jitter_done = true;
  if (jitter.joinable()) jitter.join();
  quill::Backend::stop();

  // ---- oracles at quiescence ----
  for (auto const& R : res) if (!R.error.empty()) { r.fail(R.error); break; }
  for (unsigned round = 0; round < nshared && !r.failed; ++round)
  {
    for (unsigned t = 1; t < nthreads; ++t)
    {
      if (shared_got[round][t] != shared_got[round][0])
      {
        r.fail("create_or_get_logger(\"shared_r" + std::to_string(round) + "\") called by " + std::to_string(nthreads) +
               " threads at once handed thread 1 and thread " + std::to_string(t + 1) + " DIFFERENT loggers (creation by name is not idempotent)");
        break;
      }
    }
  }
  std::map<int, std::vector<uint8_t>> accmap = churn_res;
  for (unsigned t = 0; t < nthreads; ++t) accmap[static_cast<int>(t) + 1] = res[t].accepted;
  std::map<int, uint32_t> next;
  long delivered = 0, dropped = 0, attempted = 0, threw = 0;
  for (auto const& kv : accmap)
    for (auto a : kv.second) { ++attempted; if (a == 0) ++dropped; else if (a == 2) ++threw; }
  if (!churn_res.empty()) r.label("thread_churn");
  {
    std::lock_guard<std::mutex> lk(sink->m);
    for (auto const& e : sink->entries)
    {
      if (r.failed) break;
      if (!e.ok || !accmap.count(e.w)) { r.fail("sink received a corrupted / unparsable statement"); break; }
      auto const& acc = accmap[e.w];
      if (e.seq >= acc.size()) { r.fail("sink received statement " + std::to_string(e.w) + ":" + std::to_string(e.seq) + " that was never issued"); break; }
      if (acc[e.seq] != 1) { r.fail("statement " + std::to_string(e.w) + ":" + std::to_string(e.seq) + " was written although its log call returned false (reported dropped AND delivered)"); break; }
      // exactly once, in order: the next accepted seq of this thread
      uint32_t& n = next[e.w];
      while (n < acc.size() && acc[n] != 1) ++n;
      if (e.seq != n)
      {
        r.fail("thread " + std::to_string(e.w) + ": statement #" + std::to_string(e.seq) + " written where #" + std::to_string(n) +
               " was expected (lost, duplicated or reordered)");
        break;
      }
      ++n;
      ++delivered;
    }
  }
  if (!r.failed)
  {
    for (auto const& kv : accmap)
    {
      uint32_t n = next[kv.first];
      auto const& acc = kv.second;
      while (n < acc.size() && acc[n] != 1) ++n;
      if (n < acc.size()) { r.fail("thread " + std::to_string(kv.first) + ": accepted statement #" + std::to_string(n) + " never written after Backend::stop() (lost)"); break; }
    }
  }
  // C20: every frontend thread has been joined and the backend has drained and stopped: no thread context may be retained
  if (!r.failed)
  {
    size_t retained = 0;
    quill::detail::ThreadContextManager::instance().for_each_thread_context([&retained](quill::detail::ThreadContext*) { ++retained; });
    if (retained != 0)
    {
      r.fail("after all " + std::to_string(accmap.size()) + " logging threads were joined and Backend::stop() returned, " +
             std::to_string(retained) + " thread contexts are still retained");
    }
  }
  long reported = 0;
  {
    std::lock_guard<std::mutex> lk(notes_m);
    for (auto const& n : notes)
    {
      size_t p = n.find("Dropped ");
      if (p != std::string::npos) reported += std::strtol(n.c_str() + p + 8, nullptr, 10);
    }
  }
  if (!r.failed && kDropping && kBounded && reported != dropped)
  {
    r.fail("error notifier reported " + std::to_string(reported) + " dropped messages in total, but " + std::to_string(dropped) +
           " log calls returned false");
  }
  r.line("attempted=" + std::to_string(attempted) + " delivered=" + std::to_string(delivered) + " dropped=" + std::to_string(dropped) +
         " threw=" + std::to_string(threw) + " reported=" + std::to_string(reported) + " flush_checks=" + std::to_string(flush_checks.load()));
  if (dropped) r.label("drops");
  if (flush_checks.load()) r.label("flush_checked");
  if (nthreads >= 2) r.label("multi_thread");
  r.count("statements", attempted);
  r.nontrivial = attempted >= 1000 && (kDropping ? (dropped > 0 && delivered > 0) : nthreads >= 2);
}

bool probe_known_class(std::string const&, std::string&) { return false; }
} // namespace verif
