// C01 / C02 (and the queue-level clause of C09): the two SPSC queues under a randomised C++11
// memory-model simulation. std::atomic inside the two queue headers is retargeted to verif::wmm::atomic
// (no source hook); producer and consumer are coroutines preempted at every atomic access; every
// load may return any store the C++11 rules allow. Oracles: reference FIFO of committed records
// (position dependent payload), space/contiguity invariants in 64-bit shadow arithmetic,
// happens-before race detector over payload bytes, ASan/UBSan + quill asserts (fork per case).
#include <algorithm>
#include <atomic>
#include <cassert>
#include <cerrno>
#include <cstddef>
#include <cstdint>
#include <cstring>
#include <deque>
#include <limits>
#include <string>
#include <sys/mman.h>
#include <sys/syscall.h>
#include <unistd.h>

#include "../engine/wmm.h"

#include "quill/core/Attributes.h"
#include "quill/core/Common.h"
#include "quill/core/MathUtilities.h"
#include "quill/core/QuillError.h"

namespace std
{
template <class T>
using verif_atomic = ::verif::wmm::atomic<T>;
}
#define atomic verif_atomic
#include "quill/core/BoundedSPSCQueue.h"
#include "quill/core/UnboundedSPSCQueue.h"
#undef atomic

using namespace verif;
using verif::wmm::E;

// storage of a retired node is unmapped: forget its payload shadow (addresses get reused)
static long g_munmaps = 0; // one per retired node (its storage); lets the harness count how many nodes a read call retired
extern "C" int munmap(void* addr, size_t len)
{
  ++g_munmaps;
  wmm::shadow().clear_range(reinterpret_cast<uintptr_t>(addr), len);
  return static_cast<int>(syscall(SYS_munmap, addr, len));
}

namespace
{
Params g_params;
std::string g_prop = "C01";
bool g_excl_f1 = false;   // wmm.unpublished_reader_remainder
bool g_excl_f12 = false;  // wmm.nonpow2_max_unreachable

struct Rec
{
  uint32_t seq;
  uint32_t n;
  uint32_t node; // unbounded: node index the record was written to
};

inline unsigned char pat(uint32_t seq, uint32_t k)
{
  uint32_t x = seq * 2654435761u + k * 40503u + 17u;
  x ^= x >> 13;
  return static_cast<unsigned char>(x * 31u + (x >> 7));
}

struct Model
{
  std::deque<Rec> fifo;          // committed, not yet consumed
  std::deque<Rec> uncommitted;   // finish_write done, commit_write not yet
  uint64_t W{0}, R{0};           // bytes finished by the producer / consumer (per current node for unbounded)
  bool producer_done{false};
  uint32_t next_seq{0};
  long consumed{0};
};

// write a record's payload in chunks with preemption points between them
void write_payload(std::byte* p, Rec const& r, Choices& c)
{
  uint32_t off = 0;
  while (off < r.n)
  {
    uint32_t len = r.n - off;
    if (len > 1 && c.pick(3) == 2) len = 1 + c.pick(len - 1);
    wmm::data_write(p + off, len, "record payload");
    for (uint32_t k = 0; k < len; ++k) reinterpret_cast<unsigned char*>(p)[off + k] = pat(r.seq, off + k);
    off += len;
    if (off < r.n) E().preempt();
  }
}

bool read_payload(std::byte const* p, Rec const& r, Choices& c, std::string& why)
{
  uint32_t off = 0;
  while (off < r.n)
  {
    uint32_t len = r.n - off;
    if (len > 1 && c.pick(3) == 2) len = 1 + c.pick(len - 1);
    wmm::data_read(p + off, len, "record payload");
    for (uint32_t k = 0; k < len; ++k)
    {
      unsigned char got = reinterpret_cast<unsigned char const*>(p)[off + k];
      if (got != pat(r.seq, off + k))
      {
        why = "record seq " + std::to_string(r.seq) + " (" + std::to_string(r.n) + " B): byte " +
          std::to_string(off + k) + " is 0x" + std::to_string(got) + " expected 0x" + std::to_string(pat(r.seq, off + k)) +
          " (lost / duplicated / reordered / torn / stale record)";
        return false;
      }
    }
    off += len;
    if (off < r.n) E().preempt();
  }
  return true;
}

uint32_t draw_size(Choices& c, uint64_t cap, uint64_t hard_max, Report& r)
{
  // classes relative to the capacity; class 0 (what a shrunk stream picks) is a small record
  uint64_t n = 1;
  switch (c.weighted({5, 3, 3, 3, 2, 2, 1}))
  {
  case 0: n = 1 + c.pick(static_cast<uint32_t>(std::max<uint64_t>(1, cap / 8))); break;
  case 1: n = 1 + c.pick(8); break;                                                  // tiny
  case 2: n = cap / 4 + c.pick(static_cast<uint32_t>(cap / 4 + 1)); break;           // medium
  case 3: n = cap - c.pick(static_cast<uint32_t>(std::max<uint64_t>(1, cap / 16 + 2))); r.label("size_near_capacity"); break;
  case 4: n = cap; r.label("size_eq_capacity"); break;
  case 5: n = cap / 2 + c.pick(static_cast<uint32_t>(cap / 2 + 1)); break;
  default: n = cap + 1 + c.pick(2); r.label("size_over_capacity"); break;
  }
  if (n < 1) n = 1;
  if (n > hard_max) n = hard_max;
  return static_cast<uint32_t>(n);
}

// =====================================================================================================
// bounded queue
// =====================================================================================================
template <typename T>
void run_bounded(Choices& c, Report& r, bool quiescence)
{
  using Q = quill::detail::BoundedSPSCQueueImpl<T>;
  uint64_t const tmax = static_cast<uint64_t>(quill::detail::max_power_of_two<T>());
  uint64_t const cap_limit = std::min<uint64_t>(tmax, 4096);
  // requested capacity: power of two or not (the constructor rounds up)
  uint64_t req;
  {
    unsigned lo_bits = 4, hi_bits = 0;
    while ((1ull << (hi_bits + 1)) <= cap_limit) ++hi_bits;
    uint64_t pw = 1ull << (lo_bits + c.pick(hi_bits - lo_bits + 1));
    req = c.flip(1, 4) ? std::max<uint64_t>(9, pw - c.pick(static_cast<uint32_t>(pw / 2 - 1))) : pw;
  }
  unsigned percent;
  switch (c.pick(8))
  {
  case 0: percent = 5; break;
  case 1: percent = 0; break;
  case 2: percent = 1; break;
  case 3: percent = 10; break;
  case 4: percent = 25; break;
  case 5: percent = 50; break;
  case 6: percent = 100; break;
  default: percent = c.pick(101); break;
  }
  E().reset(&c);
  wmm::shadow().clear();
  Q q{static_cast<T>(req), quill::HugePagesPolicy::Never, static_cast<T>(percent)};
  uint64_t const cap = static_cast<uint64_t>(q.capacity());
  if (cap < req || (cap & (cap - 1)) != 0) { r.fail("capacity() is not the next power of two of the request"); return; }
  unsigned n_rec = 1 + c.pick(60);
  r.line("bounded<" + std::to_string(sizeof(T) * 8) + "> req=" + std::to_string(req) + " cap=" + std::to_string(cap) +
         " percent=" + std::to_string(percent) + " records=" + std::to_string(n_rec));

  Model m;
  std::byte* base = nullptr;
  long refused = 0, granted = 0, wraps = 0, gave_up = 0, alternations = 0;
  int last_actor = -1;
  bool consumer_idle_committed = true; // the consumer has nothing further to release
  std::string sizes;

  auto producer = [&]()
  {
    unsigned batch_left = 0; // records finished but not yet committed
    for (unsigned i = 0; i < n_rec && E().error.empty(); ++i)
    {
      uint32_t n = draw_size(c, cap, std::min<uint64_t>(cap + 2, std::numeric_limits<T>::max()), r);
      if (sizes.size() < 300) sizes += std::to_string(n) + " ";
      int consecutive_refusals = 0, idle_refusals = 0;
      std::byte* p = nullptr;
      while (E().error.empty())
      {
        if (last_actor != 0) { ++alternations; last_actor = 0; }
        p = q.prepare_write(static_cast<T>(n));
        if (p) break;
        ++refused;
        ++consecutive_refusals;
        if (n > cap) { r.label("oversize_refused"); break; }
        // pending (uncommitted) records must become visible before we wait, as quill always commits
        if (batch_left) { q.commit_write(); for (auto& u : m.uncommitted) m.fifo.push_back(u); m.uncommitted.clear(); batch_left = 0; }
        bool nothing_left_to_release = m.fifo.empty() && consumer_idle_committed;
        // only refusals while the consumer has nothing left to release count (a stale load of the reader position is
        // legal at most three times in a row; refusals before the consumer caught up say nothing)
        if (nothing_left_to_release) ++idle_refusals; else idle_refusals = 0;
        if (nothing_left_to_release && idle_refusals >= 5)
        {
          // every committed byte was consumed and committed by the consumer, yet the request is still
          // refused: the unpublished-reader-remainder stall (property C09, not C01)
          ++gave_up;
          r.label("stalled_on_unpublished_remainder");
          if (g_prop == "C09" && !g_excl_f1)
          {
            E().fail("C09: producer refused " + std::to_string(idle_refusals) + " times for " + std::to_string(n) +
                     " B <= capacity " + std::to_string(cap) + " while the queue is empty and the consumer has committed everything it read");
            return;
          }
          if (g_prop == "C09") r.count("excluded.wmm.unpublished_reader_remainder");
          break;
        }
        if (!E().block() && consecutive_refusals >= 5) { ++gave_up; break; }
      }
      if (!p)
      {
        if (n > cap) continue;
        continue; // gave up (see above)
      }
      if (n > cap) { E().fail("reservation of " + std::to_string(n) + " B granted although capacity is " + std::to_string(cap)); return; }
      ++granted;
      if (!base) base = p - (m.W % cap);
      // (b) space and contiguity, in 64-bit shadow arithmetic
      if (n > cap - (m.W - m.R))
      {
        E().fail("reservation of " + std::to_string(n) + " B granted with only " + std::to_string(cap - (m.W - m.R)) +
                 " B free (writer " + std::to_string(m.W) + ", reader finished " + std::to_string(m.R) + ", capacity " +
                 std::to_string(cap) + "): unreleased bytes would be overwritten");
        return;
      }
      if (p != base + (m.W % cap))
      {
        E().fail("reservation pointer is not storage + (writer position mod capacity)");
        return;
      }
      if ((m.W % cap) + n > 2 * cap) { E().fail("reservation exceeds the 2x capacity storage"); return; }
      if ((m.W % cap) + n == cap) r.label("record_ends_exactly_at_capacity");
      if ((m.W / cap) != ((m.W + n) / cap)) ++wraps;
      Rec rec{m.next_seq++, n, 0};
      write_payload(p, rec, c);
      if (!E().error.empty()) return;
      // finish / commit: usually together, sometimes batched
      bool together = c.pick(4) != 3;
      if (together && batch_left == 0)
      {
        q.finish_and_commit_write(static_cast<T>(n));
        m.W += n;
        m.fifo.push_back(rec);
      }
      else
      {
        q.finish_write(static_cast<T>(n));
        m.W += n;
        m.uncommitted.push_back(rec);
        ++batch_left;
        r.label("batched_commit");
        if (together || batch_left >= 3)
        {
          q.commit_write();
          for (auto& u : m.uncommitted) m.fifo.push_back(u);
          m.uncommitted.clear();
          batch_left = 0;
        }
      }
    }
    if (batch_left && E().error.empty())
    {
      q.commit_write();
      for (auto& u : m.uncommitted) m.fifo.push_back(u);
      m.uncommitted.clear();
    }
    m.producer_done = true;
  };

  auto consumer = [&]()
  {
    unsigned pending = 0;
    unsigned batch = 1 + c.pick(4);
    int empties_after_done = 0;
    while (E().error.empty())
    {
      if (last_actor != 1) { ++alternations; last_actor = 1; }
      if (m.producer_done && !m.fifo.empty() && c.pick(4) == 3)
      {
        // see the unbounded harness: with every store of the finished producer visible, empty() must not hide a record
        bool const was = E().force_newest;
        E().force_newest = true;
        bool const e = q.empty();
        E().force_newest = was;
        if (e)
        {
          E().fail("empty() returns true although committed record seq " + std::to_string(m.fifo.front().seq) +
                   " is unread and every store of the finished producer is visible");
          return;
        }
      }
      std::byte* p = (c.pick(5) == 4) ? (q.empty() ? nullptr : q.prepare_read()) : q.prepare_read();
      if (!p)
      {
        if (pending) { q.commit_read(); pending = 0; }
        consumer_idle_committed = true;
        if (m.producer_done)
        {
          if (m.fifo.empty()) break;
          if (++empties_after_done > 8)
          {
            E().fail("committed record seq " + std::to_string(m.fifo.front().seq) + " never becomes visible to the consumer (lost)");
            return;
          }
          continue;
        }
        E().block();
        continue;
      }
      empties_after_done = 0;
      consumer_idle_committed = false;
      if (m.fifo.empty())
      {
        E().fail("consumer sees a record although every committed record was already consumed (visible before commit / duplicated)");
        return;
      }
      Rec rec = m.fifo.front();
      if (base && p != base + (m.R % cap)) { E().fail("read pointer is not storage + (reader position mod capacity)"); return; }
      std::string why;
      if (!read_payload(p, rec, c, why)) { E().fail(why); return; }
      if (!E().error.empty()) return;
      q.finish_read(static_cast<T>(rec.n));
      m.fifo.pop_front();
      m.R += rec.n;
      ++m.consumed;
      ++pending;
      if (pending >= batch) { q.commit_read(); pending = 0; batch = 1 + c.pick(4); consumer_idle_committed = m.fifo.empty(); }
    }
  };

  E().start(0, producer);
  E().start(1, consumer);
  E().run();
  r.line("sizes: " + sizes);
  r.line("granted=" + std::to_string(granted) + " refused=" + std::to_string(refused) + " wraps=" + std::to_string(wraps) +
         " preemptions=" + std::to_string(E().preemptions) + " stale_loads=" + std::to_string(E().stale_loads));
  if (!E().error.empty()) { r.fail(E().error); return; }
  if (!m.fifo.empty() || !m.uncommitted.empty()) { r.fail("records left unconsumed at the end of the case"); return; }

  // ---- quiescence clause of C09: after the consumer drained and committed as the backend does, a request
  // of any size up to the capacity must be granted (newest-value loads) ----
  if (quiescence)
  {
    E().force_newest = true;
    while (std::byte* p = q.prepare_read())
    {
      (void)p;
      r.fail("queue not empty after the consumer finished");
      return;
    }
    q.commit_read();
    uint64_t band = (cap * percent + 99) / 100; // documented publish-batch threshold, rounded up
    uint64_t n = (c.pick(4) == 3) ? 1 + c.pick(static_cast<uint32_t>(cap)) : cap - c.pick(static_cast<uint32_t>(std::min<uint64_t>(cap - 1, band + 2)));
    if (n < 1) n = 1;
    if (n > cap) n = cap;
    bool in_band = n + band > cap && band > 0;
    if (in_band) r.label("quiescent_request_in_band");
    if (in_band && g_excl_f1)
    {
      r.count("excluded.wmm.unpublished_reader_remainder");
      n = cap - band;
      if (n < 1) n = 1;
    }
    std::byte* p = q.prepare_write(static_cast<T>(n));
    r.line("quiescent request n=" + std::to_string(n) + (p ? " granted" : " REFUSED"));
    if (!p)
    {
      r.fail("C09: queue empty, consumer drained and committed, yet prepare_write(" + std::to_string(n) + ") <= capacity " +
             std::to_string(cap) + " is refused (producer would wait for ever)");
      return;
    }
  }

  if (wraps) r.label("ring_wrapped");
  if (refused) r.label("reservation_refused");
  if (E().stale_loads) r.label("stale_load_taken");
  if (m.W > std::numeric_limits<T>::max()) r.label("integer_counter_wrapped");
  if (sizeof(T) == 1) r.label("uint8"); else if (sizeof(T) == 2) r.label("uint16"); else r.label("size_t");
  r.nontrivial = wraps >= 1 && refused >= 1 && alternations >= 4;
}

// =====================================================================================================
// unbounded queue
// =====================================================================================================
void run_unbounded(Choices& c, Report& r, bool quiescence)
{
  using Q = quill::detail::UnboundedSPSCQueue;
  uint64_t init_req;
  {
    uint64_t pw = 1ull << (4 + c.pick(7)); // 16 .. 1024
    init_req = c.flip(1, 4) ? std::max<uint64_t>(9, pw - c.pick(static_cast<uint32_t>(pw / 2 - 1))) : pw;
  }
  uint64_t init_cap = quill::detail::next_power_of_two<size_t>(init_req);
  uint64_t max_cap;
  {
    uint64_t mult = 1ull << c.pick(5); // 1..16
    max_cap = init_cap * mult;
    if (c.flip(1, 4))
    {
      uint64_t np = max_cap + max_cap / 2 - c.pick(static_cast<uint32_t>(max_cap / 4 + 1));
      if (np < init_cap) np = init_cap;
      if ((np & (np - 1)) != 0)
      {
        if (quiescence && g_excl_f12) r.count("excluded.wmm.nonpow2_max_unreachable");
        else { max_cap = np; r.label("max_not_power_of_two"); }
      }
    }
  }
  E().reset(&c);
  wmm::shadow().clear();
  Q* qp = new Q{static_cast<size_t>(init_req), static_cast<size_t>(max_cap)};
  Q& q = *qp;
  unsigned n_ops = 1 + c.pick(50);
  r.line("unbounded init_req=" + std::to_string(init_req) + " init_cap=" + std::to_string(init_cap) + " max=" +
         std::to_string(max_cap) + " ops=" + std::to_string(n_ops));

  struct Node { uint64_t cap; uint64_t W{0}; uint64_t R{0}; std::byte* base{nullptr}; };
  std::deque<Node> nodes; // deque: references stay valid while the producer appends
  nodes.push_back(Node{init_cap});
  size_t pnode = 0, cnode = 0;
  Model m;
  long refused = 0, grows = 0, shrinks = 0, switches_seen = 0, threw = 0, multi_doubling = 0, gave_up = 0, cap_reached = 0;
  bool shrink_then_grow = false, last_was_shrink = false, chain_ge_3 = false;
  bool consumer_idle_committed = true;
  std::string opslog;
  uint64_t largest_reachable = init_cap;
  while (largest_reachable * 2 <= max_cap) largest_reachable *= 2;

  auto producer = [&]()
  {
    for (unsigned i = 0; i < n_ops && E().error.empty(); ++i)
    {
      uint64_t pcap = nodes[pnode].cap;
      if (q.producer_capacity() != pcap) { E().fail("producer_capacity() differs from the model"); return; }
      if (c.pick(8) == 7)
      {
        // shrink request (producer side); generator precondition: nothing finished-but-uncommitted (quill always commits)
        uint64_t target;
        switch (c.pick(5))
        {
        case 0: target = pcap / 2; break;
        case 1: target = pcap / 4; break;
        case 2: target = pcap; break;          // no-op
        case 3: target = 16 + c.pick(static_cast<uint32_t>(pcap)); break;
        default: target = pcap * 2; break;     // no-op
        }
        if (target < 16) target = 16;
        q.shrink(static_cast<size_t>(target));
        if (opslog.size() < 400) opslog += "shrink(" + std::to_string(target) + ") ";
        uint64_t after = q.producer_capacity();
        if (target <= pcap / 2)
        {
          uint64_t want = quill::detail::next_power_of_two<size_t>(static_cast<size_t>(target));
          if (after != want) { E().fail("shrink(" + std::to_string(target) + ") from " + std::to_string(pcap) + ": capacity is " + std::to_string(after) + ", expected " + std::to_string(want)); return; }
          nodes.push_back(Node{after});
          pnode = nodes.size() - 1;
          ++shrinks;
          last_was_shrink = true;
          // further halvings in a row with nothing written in between: a chain of several never-used buffers that the
          // consumer has to walk in one read (0..3 more)
          unsigned const more = c.pick(4);
          for (unsigned m = 0; m < more; ++m)
          {
            uint64_t const cur = nodes[pnode].cap;
            if (cur / 2 < 16) break;
            q.shrink(static_cast<size_t>(cur / 2));
            if (opslog.size() < 400) opslog += "shrink(" + std::to_string(cur / 2) + ") ";
            if (q.producer_capacity() != cur / 2) { E().fail("shrink(" + std::to_string(cur / 2) + ") from " + std::to_string(cur) + ": capacity is " + std::to_string(q.producer_capacity())); return; }
            nodes.push_back(Node{cur / 2});
            pnode = nodes.size() - 1;
            ++shrinks;
            if (m >= 1) chain_ge_3 = true;
          }
        }
        else if (after != pcap) { E().fail("shrink to more than half the capacity must be ignored"); return; }
        continue;
      }
      // a record
      uint32_t n;
      switch (c.weighted({6, 2, 2, 1, 1}))
      {
      case 0: n = draw_size(c, pcap, max_cap + 8, r); break;
      case 1: n = static_cast<uint32_t>(pcap + 1 + c.pick(static_cast<uint32_t>(pcap))); break;          // forces a doubling
      case 2: n = static_cast<uint32_t>(2 * pcap + 1 + c.pick(static_cast<uint32_t>(2 * pcap))); break;  // multi doubling
      case 3: n = static_cast<uint32_t>(max_cap - c.pick(static_cast<uint32_t>(max_cap / 16 + 1))); break;
      default: n = static_cast<uint32_t>(max_cap + 1 + c.pick(8)); break;                               // must throw
      }
      if (n < 1) n = 1;
      if (opslog.size() < 400) opslog += std::to_string(n) + " ";
      int consecutive_refusals = 0, idle_refusals = 0;
      std::byte* p = nullptr;
      bool skip = false;
      while (E().error.empty())
      {
        pcap = nodes[pnode].cap;
        uint64_t needed = pcap * 2;
        unsigned doublings = 1;
        while (needed < n) { needed *= 2; ++doublings; }
        bool did_throw = false;
        try { p = q.prepare_write(n); }
        catch (quill::QuillError const&) { did_throw = true; }
        if (n > max_cap)
        {
          // may legitimately fit the current node only if n <= pcap, impossible here since pcap <= max
          if (!did_throw) { E().fail("record of " + std::to_string(n) + " B larger than the maximum capacity " + std::to_string(max_cap) + " was not rejected with an error"); return; }
          ++threw;
          r.label("throw_over_max");
          if (q.producer_capacity() != pcap) { E().fail("rejected oversize record changed the queue"); return; }
          skip = true;
          break;
        }
        if (did_throw) { E().fail("record of " + std::to_string(n) + " B <= maximum capacity " + std::to_string(max_cap) + " was rejected with an error"); return; }
        uint64_t after = q.producer_capacity();
        if (after > max_cap) { E().fail("queue grew to " + std::to_string(after) + " B beyond the configured maximum " + std::to_string(max_cap)); return; }
        if (p)
        {
          if (after != pcap)
          {
            // grew
            if (after != needed) { E().fail("grew from " + std::to_string(pcap) + " to " + std::to_string(after) + " for a record of " + std::to_string(n) + ", expected " + std::to_string(needed)); return; }
            nodes.push_back(Node{after});
            pnode = nodes.size() - 1;
            ++grows;
            if (doublings > 1) { ++multi_doubling; r.label("multi_doubling"); }
            if (last_was_shrink || shrinks) shrink_then_grow = true;
          }
          break;
        }
        // refused
        ++refused;
        ++consecutive_refusals;
        if (after != pcap) { E().fail("refused reservation changed the capacity"); return; }
        if (needed <= max_cap)
        {
          E().fail("reservation of " + std::to_string(n) + " B refused although growing to " + std::to_string(needed) +
                   " B stays within the maximum " + std::to_string(max_cap));
          return;
        }
        ++cap_reached;
        r.label("cap_reached");
        if (n > pcap)
        {
          // can never fit the largest reachable node: refused for ever (finding F12 when n <= max); C09's concern
          r.label("fits_max_but_not_largest_reachable_node");
          skip = true;
          break;
        }
        bool nothing_left_to_release = m.fifo.empty() && consumer_idle_committed;
        // only refusals while the consumer has nothing left to release count (a stale load of the reader position is
        // legal at most three times in a row; refusals before the consumer caught up say nothing)
        if (nothing_left_to_release) ++idle_refusals; else idle_refusals = 0;
        if (nothing_left_to_release && idle_refusals >= 5)
        {
          ++gave_up;
          r.label("stalled_on_unpublished_remainder");
          if (g_prop == "C09" && !g_excl_f1)
          {
            E().fail("C09: producer refused " + std::to_string(idle_refusals) + " times for " + std::to_string(n) +
                     " B <= node capacity " + std::to_string(pcap) + " (maximum reached) while the queue is empty and the consumer has committed everything it read");
            return;
          }
          if (g_prop == "C09") r.count("excluded.wmm.unpublished_reader_remainder");
          skip = true;
          break;
        }
        if (!E().block() && consecutive_refusals >= 5) { ++gave_up; skip = true; break; }
      }
      if (skip || !p || !E().error.empty()) { if (!E().error.empty()) return; continue; }
      last_was_shrink = false;
      Node& nd = nodes[pnode];
      if (!nd.base) nd.base = p - (nd.W % nd.cap);
      if (n > nd.cap - (nd.W - nd.R)) { E().fail("reservation of " + std::to_string(n) + " B granted with only " + std::to_string(nd.cap - (nd.W - nd.R)) + " B free in the node"); return; }
      if (p != nd.base + (nd.W % nd.cap)) { E().fail("reservation pointer is not node storage + (writer position mod capacity)"); return; }
      Rec rec{m.next_seq++, n, static_cast<uint32_t>(pnode)};
      write_payload(p, rec, c);
      if (!E().error.empty()) return;
      q.finish_and_commit_write(n);
      nd.W += n;
      m.fifo.push_back(rec);
    }
    m.producer_done = true;
  };

  unsigned empty_calls = 0;
  long multi_hop_switches = 0;
  auto consumer = [&]()
  {
    unsigned pending = 0;
    unsigned batch = 1 + c.pick(4);
    int empties_after_done = 0;
    while (E().error.empty())
    {
      if (c.pick(6) == 5)
      {
        if (q.capacity() != nodes[cnode].cap) { E().fail("consumer capacity() differs from the model's current node"); return; }
      }
      if (c.pick(5) == 4)
      {
        // the backend asks empty() before and between its read passes (and bases its exit and reclaim decisions on it).
        // Once the producer has finished and everything it stored is visible (an external synchronisation such as a
        // thread join: modelled by loads that return the newest store) empty() must not hide an unread committed record.
        bool const all_visible = m.producer_done && !m.fifo.empty();
        bool const was = E().force_newest;
        if (all_visible) E().force_newest = true;
        bool const e = q.empty();
        E().force_newest = was;
        ++empty_calls;
        if (all_visible && e)
        {
          E().fail("empty() returns true although committed record seq " + std::to_string(m.fifo.front().seq) +
                   " is unread and every store of the finished producer is visible (the record would be abandoned at exit / reclaim)");
          return;
        }
      }
      // once everything the finished producer stored is visible, a read must not report "empty" while a committed
      // record is unread (e.g. because an empty buffer sits between the consumer's buffer and the record's)
      bool const all_visible_read = m.producer_done && !m.fifo.empty() && c.pick(4) == 3;
      bool const was_fn = E().force_newest;
      if (all_visible_read) E().force_newest = true;
      long const munmaps_before = g_munmaps;
      Q::ReadResult rr = q.prepare_read();
      E().force_newest = was_fn;
      if (all_visible_read && !rr.read_pos)
      {
        E().fail("prepare_read() reports an empty queue although committed record seq " + std::to_string(m.fifo.front().seq) +
                 " is unread and every store of the finished producer is visible");
        return;
      }
      if (rr.allocation)
      {
        // the consumer switched buffers: one retired node per hop (a chain of re-allocations with nothing written in between
        // may be followed in one call); every node left behind must be completely consumed
        long const hops = g_munmaps - munmaps_before;
        if (hops < 1) { E().fail("ReadResult reports a switch but no node was retired"); return; }
        size_t const from = cnode;
        for (long h = 0; h < hops; ++h)
        {
          for (auto const& x : m.fifo)
          {
            if (x.node == cnode)
            {
              E().fail("consumer switched to the next buffer while committed record seq " + std::to_string(x.seq) +
                       " of the old buffer was still unread");
              return;
            }
          }
          if (cnode + 1 >= nodes.size()) { E().fail("consumer switched to a buffer the producer never created"); return; }
          ++cnode;
          ++switches_seen;
        }
        if (hops > 1) ++multi_hop_switches;
        if (rr.previous_capacity != nodes[from].cap || rr.new_capacity != nodes[cnode].cap)
        {
          E().fail("ReadResult capacities (" + std::to_string(rr.previous_capacity) + " -> " + std::to_string(rr.new_capacity) +
                   ") differ from the model (" + std::to_string(nodes[from].cap) + " -> " + std::to_string(nodes[cnode].cap) + ")");
          return;
        }
        pending = 0; // the old node's reads were committed by the switch
      }
      else if (g_munmaps != munmaps_before) { E().fail("a node was retired by a read that does not report a switch"); return; }
      std::byte* p = rr.read_pos;
      if (!p)
      {
        if (pending) { q.commit_read(); pending = 0; }
        consumer_idle_committed = true;
        if (m.producer_done)
        {
          if (m.fifo.empty() && cnode == pnode) break;
          if (++empties_after_done > 12)
          {
            E().fail(m.fifo.empty() ? std::string{"consumer never switches to the producer's current buffer"}
                                    : "committed record seq " + std::to_string(m.fifo.front().seq) + " never becomes visible to the consumer (lost)");
            return;
          }
          continue;
        }
        E().block();
        continue;
      }
      empties_after_done = 0;
      consumer_idle_committed = false;
      if (m.fifo.empty()) { E().fail("consumer sees a record although every committed record was already consumed"); return; }
      Rec rec = m.fifo.front();
      Node& nd = nodes[cnode];
      if (rec.node != cnode)
      {
        E().fail("consumer reads from buffer #" + std::to_string(cnode) + " while the oldest unread record seq " +
                 std::to_string(rec.seq) + " lives in buffer #" + std::to_string(rec.node));
        return;
      }
      if (nd.base && p != nd.base + (nd.R % nd.cap)) { E().fail("read pointer is not node storage + (reader position mod capacity)"); return; }
      std::string why;
      if (!read_payload(p, rec, c, why)) { E().fail(why); return; }
      if (!E().error.empty()) return;
      q.finish_read(rec.n);
      m.fifo.pop_front();
      nd.R += rec.n;
      ++m.consumed;
      ++pending;
      if (pending >= batch) { q.commit_read(); pending = 0; batch = 1 + c.pick(4); consumer_idle_committed = m.fifo.empty(); }
    }
  };

  E().start(0, producer);
  E().start(1, consumer);
  E().run();
  r.line("ops: " + opslog);
  r.line("grows=" + std::to_string(grows) + " shrinks=" + std::to_string(shrinks) + " switches_seen=" + std::to_string(switches_seen) +
         " refused=" + std::to_string(refused) + " threw=" + std::to_string(threw) + " empty_calls=" + std::to_string(empty_calls) + " multi_hop_switches=" + std::to_string(multi_hop_switches) + " preemptions=" +
         std::to_string(E().preemptions) + " stale_loads=" + std::to_string(E().stale_loads));
  if (!E().error.empty()) { r.fail(E().error); return; }
  if (!m.fifo.empty()) { r.fail("records left unconsumed at the end of the case"); return; }

  if (quiescence)
  {
    E().force_newest = true;
    if (!q.empty()) { r.fail("queue not empty after the consumer finished"); return; }
    q.commit_read();
    uint64_t pcap = q.producer_capacity();
    // any size up to the maximum capacity must be accepted by an empty queue
    uint64_t n = (c.pick(3) == 2) ? 1 + c.pick(static_cast<uint32_t>(max_cap)) : max_cap - c.pick(static_cast<uint32_t>(max_cap / 16 + 2));
    if (n < 1) n = 1;
    if (n > max_cap) n = max_cap;
    // the unpublished-remainder stall (F1) can only bite when the record must fit the current (maximal) node
    uint64_t needed = pcap * 2;
    while (needed < n) needed *= 2;
    if (needed > max_cap && n <= pcap)
    {
      uint64_t band = (pcap * 5 + 99) / 100;
      if (n + band > pcap) { r.label("quiescent_request_in_band"); if (g_excl_f1) { r.count("excluded.wmm.unpublished_reader_remainder"); n = pcap - band; } }
    }
    std::byte* p = nullptr;
    bool did_throw = false;
    try { p = q.prepare_write(n); } catch (quill::QuillError const&) { did_throw = true; }
    r.line("quiescent request n=" + std::to_string(n) + (p ? " granted" : did_throw ? " THREW" : " REFUSED"));
    if (did_throw) { r.fail("C09: prepare_write(" + std::to_string(n) + ") <= max " + std::to_string(max_cap) + " threw"); delete qp; return; }
    if (!p)
    {
      r.fail("C09: unbounded queue empty and drained, yet prepare_write(" + std::to_string(n) + ") <= maximum capacity " +
             std::to_string(max_cap) + " is refused (current node " + std::to_string(pcap) + " B, largest reachable node " +
             std::to_string(largest_reachable) + " B): a blocking producer waits for ever");
      delete qp;
      return;
    }
  }
  // teardown by the main thread: the destructor must walk only live nodes (ASan / dead marks check it)
  delete qp;
  if (!E().error.empty()) { r.fail(E().error); return; }

  if (grows) r.label("grew");
  if (shrinks) r.label("shrank");
  if (switches_seen) r.label("consumer_switched_buffer");
  if (shrink_then_grow) r.label("shrink_then_grow");
  if (chain_ge_3) r.label("three_or_more_shrinks_in_a_row");
  if (E().stale_loads) r.label("stale_load_taken");
  if (refused) r.label("reservation_refused");
  r.nontrivial = (switches_seen >= 1 && E().preemptions >= 4) || shrink_then_grow;
}
} // namespace

namespace verif
{
HarnessInfo harness_info() { return {"wmm", true, 700, 5000}; }

void harness_init(Params const& p)
{
  g_params = p;
  g_prop = param_str(p, "prop", "C01");
  g_excl_f1 = excluded(p, "wmm.unpublished_reader_remainder");
  g_excl_f12 = excluded(p, "wmm.nonpow2_max_unreachable");
}

void run_case(Choices& c, Report& r)
{
  bool quiescence = (g_prop == "C09");
  bool unbounded = (g_prop == "C02") || (g_prop == "C09" && c.pick(2) == 1);
  if (unbounded) { run_unbounded(c, r, quiescence); return; }
  switch (c.pick(3))
  {
  case 0: run_bounded<size_t>(c, r, quiescence); break;
  case 1: run_bounded<uint16_t>(c, r, quiescence); break;
  default: run_bounded<uint8_t>(c, r, quiescence); break;
  }
}

bool probe_known_class(std::string const& cls, std::string& what)
{
  uint32_t zero = 0;
  Choices c{&zero, 0};
  E().reset(&c);
  E().force_newest = true;
  if (cls == "wmm.unpublished_reader_remainder")
  {
    quill::detail::BoundedSPSCQueueImpl<size_t> q{1024};
    std::byte* p = q.prepare_write(40);
    if (!p) return false;
    q.finish_and_commit_write(40);
    if (!q.prepare_read()) return false;
    q.finish_read(40);
    q.commit_read();
    if (!q.empty()) return false;
    if (q.prepare_write(1024) == nullptr)
    {
      what = "BoundedSPSCQueue(1024): write 40 B, consumer reads and commit_read()s it (40 B < 5% batch, reader position "
             "not published), queue empty: prepare_write(1024) == capacity is refused for ever";
      return true;
    }
    return false;
  }
  if (cls == "wmm.nonpow2_max_unreachable")
  {
    quill::detail::UnboundedSPSCQueue q{512, 1000};
    std::byte* p = nullptr;
    try { p = q.prepare_write(600); } catch (quill::QuillError const&) { return false; }
    if (!p)
    {
      what = "UnboundedSPSCQueue(512, max 1000): prepare_write(600) on the empty queue returns nullptr (600 <= max, but the "
             "next doubling 1024 exceeds the non-power-of-two maximum): refused for ever instead of rejected or granted";
      return true;
    }
    return false;
  }
  return false;
}
} // namespace verif
