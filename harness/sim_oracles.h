#include <tuple>
// sim harness, part 3: oracles evaluated after the final drain (included by sim_main.cpp only)
#pragma once

#include "sim_ops.h"

namespace
{
long count_writes(World& W)
{
  long n = 0;
  for (auto const& e : W.journal) if (e.kind == 'W' || e.kind == 'X') ++n;
  return n;
}

bool sink_accepts(World& W, int sk, Stmt const& s, std::string const& msg)
{
  SinkInfo const& S = W.sinks[sk];
  int lf = S.level_filter;
  for (auto const& h : S.level_hist) if (s.issue_idx > h.first) lf = h.second;
  if (s.level < lf) return false;
  for (size_t k = 0; k < S.filter_salts.size(); ++k)
  {
    if (k < S.filter_from.size() && s.issue_idx <= S.filter_from[k]) continue; // attached after this statement was written
    if (!FnFilter::verdict(S.filter_salts[k], s.level, msg)) return false;
  }
  return true;
}

std::string stmt_message(Stmt const& s)
{
  return std::to_string(s.w) + ":" + std::to_string(s.seq) + ":" + make_pad(s.w, s.seq, s.padlen);
}

// exactly once, per-thread order, integrity, identity — as an exact per (sink, worker) sequence with optional elements
// the line a sink without override pattern must be handed for a statement of logger L (outside C16)
std::string expected_statement(LoggerInfo const& L, JEntry const& e)
{
  switch (L.pat)
  {
  case 1: return L.name + "|" + e.msg + "\n";
  case 2: return std::string{kLevelCodes[e.level]} + " " + e.tid + " " + e.msg + "\n";
  default: return e.msg + "\n";
  }
}

void oracle_delivery(World& W)
{
  bool precondition = true;
  for (auto const& s : W.stmts)
    if (s.accepted && W.grace_ns > 0 && s.enq_time - s.ts > W.grace_ns) precondition = false;
  if (!precondition) W.r->label("precondition_violated_some_enqueue_later_than_grace");

  std::map<std::string, int> tid_to_worker;
  for (size_t k = 0; k < W.workers.size(); ++k) tid_to_worker[std::to_string(W.workers[k].w->tid)] = static_cast<int>(k) + 1;

  // victims of injected write failures: (sink where it threw, worker, seq)
  std::set<std::tuple<int, int, uint32_t>> threw_on;
  std::map<std::pair<int, uint32_t>, size_t> index;
  for (size_t k = 0; k < W.stmts.size(); ++k)
  {
    Stmt const& s = W.stmts[k];
    if (!(s.accepted || s.call_done)) continue;
    // a macro statement that was filtered by the logger level never got a sequence number (C16): not addressable
    if ((s.kind == SKind::MacroStatic || s.kind == SKind::MacroDynamic) && !s.evaluated) continue;
    index[{s.w, s.seq}] = k;
  }
  for (auto const& e : W.journal)
  {
    if (e.kind != 'X') continue;
    int w;
    uint32_t seq;
    std::string pad;
    if (parse_msg(e.msg, w, seq, pad)) threw_on.insert({e.sink, w, seq});
    else
    {
      // error-text statement hit by a throwing sink: attribute it to the worker by thread id, any faulty statement
      auto it = tid_to_worker.find(e.tid);
      if (it != tid_to_worker.end()) threw_on.insert({e.sink, it->second, 0xffffffffu});
    }
  }

  for (size_t sk = 0; sk < W.sinks.size(); ++sk)
  {
    for (size_t wk = 0; wk < W.workers.size(); ++wk)
    {
      int const w = static_cast<int>(wk) + 1;
      // expected sequence
      struct Exp { size_t si; bool optional; };
      std::vector<Exp> exp;
      for (size_t si = 0; si < W.stmts.size(); ++si)
      {
        Stmt const& s = W.stmts[si];
        if (s.w != w || !s.accepted || is_bt_kind(s.kind)) continue;
        LoggerInfo const& L = W.loggers[s.logger];
        auto pos = std::find(L.sinks.begin(), L.sinks.end(), static_cast<int>(sk));
        if (pos == L.sinks.end()) continue;
        if (s.kind == SKind::BtNoInit || s.kind == SKind::NamedBtNoInit) continue; // skipped with a notification, never written
        if (!s.faulty && !sink_accepts(W, static_cast<int>(sk), s, stmt_message(s))) continue;
        bool optional = s.faulty;
        // a throwing write_log may remove the statement from that sink and the sinks after it in the logger's sink order
        for (auto it = L.sinks.begin(); it <= pos; ++it)
        {
          if (threw_on.count({*it, s.w, s.seq}) || (s.faulty && threw_on.count({*it, s.w, 0xffffffffu}))) optional = true;
        }
        exp.push_back(Exp{si, optional});
      }
      // actual sequence
      size_t ei = 0;
      std::string const tid = std::to_string(W.workers[wk].w->tid);
      for (auto const& e : W.journal)
      {
        if (e.kind != 'W' || e.sink != static_cast<int>(sk) || e.tid != tid) continue;
        bool err_text = is_error_text(e.msg);
        int pw = 0;
        uint32_t pseq = 0;
        std::string pad;
        if (!err_text && !parse_msg(e.msg, pw, pseq, pad))
        {
          fail(W, "sink " + std::to_string(sk) + " received an unparsable message \"" + esc(e.msg, 80) + "\"");
          return;
        }
        std::string id = err_text ? "<error text of worker " + std::to_string(w) + ">" : std::to_string(pw) + ":" + std::to_string(pseq);
        // advance over optional elements that do not match
        while (ei < exp.size())
        {
          Stmt const& s = W.stmts[exp[ei].si];
          // an error text carries no identity: it is matched by the timestamp of the statement it replaces
          bool match = err_text ? (s.faulty && s.ts == e.ts) : (!s.faulty && s.w == pw && s.seq == pseq);
          if (match) break;
          if (!exp[ei].optional)
          {
            if (!err_text)
            {
              auto it = index.find({pw, pseq});
              if (it == index.end()) fail(W, "sink " + std::to_string(sk) + " received statement " + id + " that was never issued");
              else if (!W.stmts[it->second].accepted) fail(W, "statement " + id + " was written although its log call returned false / threw (reported dropped AND delivered)");
              else if (pw != w) fail(W, "statement " + id + " carries the thread id of worker " + std::to_string(w));
              else if (pseq < s.seq) fail(W, "sink " + std::to_string(sk) + ": statement " + id + " written again or after " + std::to_string(s.w) + ":" + std::to_string(s.seq) + " was expected (written twice / thread order violated)");
              else fail(W, "sink " + std::to_string(sk) + ": statement " + std::to_string(s.w) + ":" + std::to_string(s.seq) + " (" + std::to_string(s.encoded) + " B) is missing before " + id + " (lost or reordered)");
            }
            else fail(W, "sink " + std::to_string(sk) + ": unexpected error text where statement " + std::to_string(s.w) + ":" + std::to_string(s.seq) + " was expected: " + esc(e.msg, 120));
            return;
          }
          ++ei;
        }
        if (ei >= exp.size())
        {
          if (!err_text)
          {
            auto it = index.find({pw, pseq});
            if (it == index.end()) fail(W, "sink " + std::to_string(sk) + " received statement " + id + " that was never issued");
            else
            {
              Stmt const& s = W.stmts[it->second];
              LoggerInfo const& L = W.loggers[s.logger];
              if (!s.accepted) fail(W, "statement " + id + " was written although its log call returned false / threw (reported dropped AND delivered)");
              else if (std::find(L.sinks.begin(), L.sinks.end(), static_cast<int>(sk)) == L.sinks.end()) fail(W, "statement " + id + " written to sink " + std::to_string(sk) + " which its logger does not own");
              else if (!sink_accepts(W, static_cast<int>(sk), s, stmt_message(s))) fail(W, "statement " + id + " at level " + kLevelNames[s.level] + " written to sink " + std::to_string(sk) + " although the sink's level filter / filters reject it");
              else fail(W, "statement " + id + " written twice (or out of thread order) to sink " + std::to_string(sk));
            }
          }
          else fail(W, "sink " + std::to_string(sk) + ": more error texts than unformattable statements: " + esc(e.msg, 120));
          return;
        }
        Stmt const& s = W.stmts[exp[ei].si];
        ++ei;
        LoggerInfo const& L = W.loggers[s.logger];
        if (!err_text && pad != make_pad(s.w, s.seq, s.padlen)) { fail(W, "statement " + id + " payload corrupted (" + std::to_string(pad.size()) + " B, expected " + std::to_string(s.padlen) + " B)"); return; }
        if (err_text)
        {
          char const* tmpl = s.kind == SKind::BadTemplate ? "{}:{}:{} {}" : (s.kind == SKind::BadSpec || s.kind == SKind::RtBadSpec) ? "{}:{}:{:d}" : s.kind == SKind::NamedBadSpec ? "{a}:{b}:{c:d}" : "{}{}";
          if (e.msg.find(tmpl) == std::string::npos) { fail(W, "error text does not name the template " + std::string{tmpl} + ": " + esc(e.msg, 160)); return; }
        }
        if (e.logger != L.name) { fail(W, "statement " + id + " carries logger name " + e.logger + ", expected " + L.name); return; }
        if (e.level != s.level) { fail(W, "statement " + id + " is reported with level " + kLevelNames[e.level] + ", it was logged with " + kLevelNames[s.level]); return; }
        if (e.ts != s.ts) { fail(W, "statement " + id + " carries timestamp " + std::to_string(e.ts) + ", but its log call read " + std::to_string(s.ts)); return; }
        if (!err_text)
        {
          std::string want_named;
          if (s.kind == SKind::Named) want_named = "a=" + std::to_string(s.w) + ";b=" + std::to_string(s.seq) + ";c=" + make_pad(s.w, s.seq, s.padlen) + ";";
          if (e.named != want_named)
          {
            fail(W, "statement " + id + " was handed to sink " + std::to_string(sk) + " with named args \"" + esc(e.named, 80) + "\", expected \"" +
                      esc(want_named, 80) + "\" (named args of another statement leaked into it, or its own are wrong)");
            return;
          }
        }
        if (!is_prop("C16"))
        {
          std::string expect = expected_statement(L, e);
          if (e.statement != expect)
          {
            fail(W, "statement " + id + " of logger " + L.name + " (pattern \"" + kLoggerPatterns[L.pat] + "\") reached sink " + std::to_string(sk) +
                      " formatted as \"" + esc(e.statement, 80) + "\", expected \"" + esc(expect, 80) + "\"");
            return;
          }
        }
        if (is_prop("C16") && !err_text)
        {
          std::string expect = W.sinks[sk].has_override
            ? std::string{"OV|"} + kLevelCodes[s.level] + "|" + e.msg + "\n"
            : std::string{kLevelNames[s.level]} + "|" + kLevelCodes[s.level] + "|" + e.msg + "\n";
          if (e.statement != expect) { fail(W, "statement " + id + " on sink " + std::to_string(sk) + " is formatted as \"" + esc(e.statement, 80) + "\", expected \"" + esc(expect, 80) + "\""); return; }
        }
      }
      for (; ei < exp.size(); ++ei)
      {
        if (!exp[ei].optional)
        {
          Stmt const& s = W.stmts[exp[ei].si];
          fail(W, "statement " + std::to_string(s.w) + ":" + std::to_string(s.seq) + " (" + std::to_string(s.encoded) +
                    " B) accepted by its log call but never written to sink " + std::to_string(sk) + " (lost)");
          return;
        }
      }
    }
    // entries of this sink with an unknown thread id
    for (auto const& e : W.journal)
    {
      if (e.kind == 'W' && e.sink == static_cast<int>(sk) && !tid_to_worker.count(e.tid))
      {
        fail(W, "sink " + std::to_string(sk) + " received a statement with unknown thread id " + e.tid + ": " + esc(e.msg, 60));
        return;
      }
    }
  }

  // (C20 too: "shrinking ... without losing or reordering statements" -- the shrink-chain operations put a statement
  // behind several never-used buffers while another thread logs a later one)
  if ((is_prop("C05") || is_prop("C20")) && precondition && W.grace_ns > 0)
  {
    uint64_t last_ts = 0;
    std::string last_id;
    for (auto const& e : W.journal)
    {
      if (e.kind != 'W') continue;
      if (e.ts < last_ts)
      {
        fail(W, "timestamp order violated: \"" + esc(e.msg, 24) + "\" (ts " + std::to_string(e.ts) + ") written after \"" + last_id +
                  "\" (ts " + std::to_string(last_ts) + ") although every statement was enqueued within the grace period");
        return;
      }
      if (e.ts > last_ts) { last_ts = e.ts; last_id = esc(e.msg, 24); }
    }
  }
}

// C18: per logger, the exact sequence its sinks must have received
void oracle_backtrace(World& W)
{
  for (size_t li = 0; li < W.loggers.size(); ++li)
  {
    LoggerInfo const& L = W.loggers[li];
    // reference ring
    std::vector<std::pair<size_t, bool>> expect; // (stmt, is_replay)
    std::deque<size_t> ring;
    bool init = false;
    uint32_t cap = 0;
    int flush_level = 10;
    long cycles = 0, wrapped_cycles = 0, partial_cycles = 0, stored = 0;
    auto flush = [&]()
    {
      if (!ring.empty())
      {
        ++cycles;
        if (stored > static_cast<long>(cap)) ++wrapped_cycles; else ++partial_cycles;
      }
      for (size_t s : ring) expect.push_back({s, true});
      ring.clear();
      stored = 0;
    };
    for (auto const& ev : L.bt_events)
    {
      if (ev.kind == 'I')
      {
        if (!init || ev.cap != cap) { ring.clear(); stored = 0; }
        init = true;
        cap = ev.cap;
        flush_level = ev.flush_level;
      }
      else if (ev.kind == 'B')
      {
        if (!W.stmts[ev.stmt].accepted) continue;
        ring.push_back(ev.stmt);
        ++stored;
        while (ring.size() > cap) ring.pop_front();
      }
      else if (ev.kind == 'S')
      {
        if (!W.stmts[ev.stmt].accepted) continue;
        expect.push_back({ev.stmt, false});
        if (init && W.stmts[ev.stmt].level >= flush_level) flush();
      }
      else if (ev.kind == 'F')
      {
        if (init) flush();
      }
    }
    if (cycles >= 2 && wrapped_cycles >= 1 && partial_cycles >= 1) W.r->label("bt_wrapped_and_partial_cycles");
    if (wrapped_cycles) W.r->label("bt_ring_wrapped_before_flush");
    if (cycles >= 2) W.r->count("bt_multi_cycle_loggers");
    // injected sink failures (bt_throws=1): (sink, w, seq) of write_log calls that threw
    std::set<std::tuple<int, int, uint32_t>> threw;
    for (auto const& e : W.journal)
    {
      int w;
      uint32_t seq;
      std::string pad;
      if (e.kind == 'X' && e.logger == L.name && parse_msg(e.msg, w, seq, pad)) threw.insert({e.sink, w, seq});
    }
    auto earlier_sink_threw = [&](int sk, Stmt const& s)
    {
      // the backend hands a statement to the logger's sinks in order; a throw ends that statement's dispatch
      for (int other : L.sinks)
      {
        if (other == sk) return false;
        if (threw.count({other, s.w, s.seq})) return true;
      }
      return false;
    };
    for (int sk : L.sinks)
    {
      size_t ei = 0;
      for (auto const& e : W.journal)
      {
        if ((e.kind != 'W' && e.kind != 'X') || e.sink != sk || e.logger != L.name) continue;
        int w;
        uint32_t seq;
        std::string pad;
        if (!parse_msg(e.msg, w, seq, pad)) { fail(W, "unparsable message on sink " + std::to_string(sk)); return; }
        std::string id = std::to_string(w) + ":" + std::to_string(seq) + (e.level == 9 ? " (backtrace)" : "");
        // statements this sink legitimately never saw because an earlier sink of the logger threw for them
        while (ei < expect.size() && !(W.stmts[expect[ei].first].w == w && W.stmts[expect[ei].first].seq == seq) &&
               earlier_sink_threw(sk, W.stmts[expect[ei].first]))
          ++ei;
        if (ei >= expect.size())
        {
          fail(W, "logger " + L.name + ", sink " + std::to_string(sk) + ": unexpected extra statement " + id + " (a backtrace statement written when logged, replayed twice, or not forgotten after a flush)");
          return;
        }
        Stmt const& s = W.stmts[expect[ei].first];
        if (s.w != w || s.seq != seq)
        {
          fail(W, "logger " + L.name + ", sink " + std::to_string(sk) + ": position " + std::to_string(ei) + " holds " + id + ", expected " +
                    std::to_string(s.w) + ":" + std::to_string(s.seq) + (expect[ei].second ? " (backtrace replay)" : "") +
                    " (replay must be the most recent min(capacity, stored) statements, oldest first, right after the trigger" +
                    (threw.empty() ? "" : "; a sink that throws for one replayed statement may cost that statement only") + ")");
          return;
        }
        ++ei;
        if (e.kind == 'X') continue; // the injected failure: this is the one statement that may be missing here
        if (e.level != s.level) { fail(W, "statement " + id + " reported with level " + std::to_string(e.level) + ", expected " + std::to_string(s.level)); return; }
        if (e.ts != s.ts) { fail(W, "statement " + id + " replayed with timestamp " + std::to_string(e.ts) + ", its log call read " + std::to_string(s.ts)); return; }
        if (e.tid != std::to_string(W.workers[s.w - 1].w->tid)) { fail(W, "statement " + id + " replayed with a foreign thread id"); return; }
        if (pad != make_pad(s.w, s.seq, s.padlen)) { fail(W, "statement " + id + " payload corrupted"); return; }
        if (e.statement != expected_statement(L, e))
        {
          fail(W, "statement " + id + " of logger " + L.name + " (pattern \"" + kLoggerPatterns[L.pat] + "\") reached sink " + std::to_string(sk) +
                    " formatted as \"" + esc(e.statement, 80) + "\", expected \"" + esc(expected_statement(L, e), 80) + "\"");
          return;
        }
        {
          std::string want_named;
          if (s.kind == SKind::NamedBacktrace) want_named = "a=" + std::to_string(s.w) + ";b=" + std::to_string(s.seq) + ";c=" + make_pad(s.w, s.seq, s.padlen) + ";";
          if (e.named != want_named)
          {
            fail(W, "statement " + id + " was handed to sink " + std::to_string(sk) + " with named args \"" + esc(e.named, 80) + "\", expected \"" + esc(want_named, 80) +
                      "\" (a replayed backtrace statement must carry its own named args, any other statement none)");
            return;
          }
        }
      }
      while (ei < expect.size() && earlier_sink_threw(sk, W.stmts[expect[ei].first])) ++ei;
      if (ei < expect.size())
      {
        Stmt const& s = W.stmts[expect[ei].first];
        fail(W, "logger " + L.name + ", sink " + std::to_string(sk) + ": statement " + std::to_string(s.w) + ":" + std::to_string(s.seq) +
                  (expect[ei].second ? " (backtrace replay)" : "") + " never written (" + std::to_string(expect.size() - ei) + " missing)");
        return;
      }
    }
    if (!threw.empty())
    {
      W.r->label("sink_threw_during_backtrace_replay");
      size_t reported = 0;
      for (auto const& n : W.notes) if (n.find("injected write_log failure") != std::string::npos || n.find("Caught unhandled exception") != std::string::npos) ++reported;
      size_t all_threw = 0;
      for (auto const& e : W.journal) if (e.kind == 'X') ++all_threw;
      if (reported < all_threw && li + 1 == W.loggers.size())
      {
        fail(W, std::to_string(all_threw) + " write_log calls threw but the error notifier reported only " + std::to_string(reported) + " of them");
        return;
      }
    }
  }
}

void oracle_drops(World& W)
{
  if (!kDropping) return;
  long attempted = 0, accepted = 0, dropped = 0, threw = 0;
  for (auto const& s : W.stmts)
  {
    if (!s.call_done) continue;
    ++attempted;
    if (s.threw) ++threw; else if (s.accepted) ++accepted; else ++dropped;
  }
  if (accepted + dropped + threw != attempted) { fail(W, "delivered + discarded + thrown != attempted"); return; }
  if (kBounded)
  {
    long reported = 0;
    for (auto const& n : W.notes)
    {
      size_t p = n.find("Dropped ");
      if (p == std::string::npos) continue;
      reported += std::strtol(n.c_str() + p + 8, nullptr, 10);
    }
    if (reported != dropped)
    {
      fail(W, "error notifier reported " + std::to_string(reported) + " dropped messages in total, but " + std::to_string(dropped) +
                " log calls returned false");
      return;
    }
  }
}

void oracle_flushes(World& W)
{
  for (auto const& f : W.flushes)
  {
    if (!f.returned) { fail(W, "flush_log() of worker " + std::to_string(f.w) + " never returned although the backend kept running"); return; }
  }
  for (size_t k = 0; k < W.workers.size(); ++k)
  {
    if (W.workers[k].alive && W.workers[k].pending != OpKind::None)
    {
      fail(W, "worker " + std::to_string(k + 1) + " never completed its control request although the backend kept running");
      return;
    }
  }
}

void oracle_contexts(World& W)
{
  // after the drain (+ idle polls) the backend retains exactly the contexts of live threads that have logged
  size_t expect = 0;
  for (auto const& x : W.workers) if (x.alive && x.has_logged) ++expect;
  size_t got = 0;
  quill::detail::ThreadContextManager::instance().for_each_thread_context([&got](quill::detail::ThreadContext*) { ++got; });
  if (got != expect)
  {
    fail(W, "after the backend drained, " + std::to_string(got) + " thread contexts are retained but " + std::to_string(expect) +
              " live threads have logged (max " + std::to_string(W.max_exited_between_idles) + " thread exits between two backend idle periods)");
  }
}

// C10: the number of notifications is bounded by the injected faults (+ queue notices)
void oracle_notes(World& W)
{
  long queue_notices = 0, other = 0;
  for (auto const& n : W.notes)
  {
    if (n.find("Quill INFO:") != std::string::npos) ++queue_notices; else ++other;
  }
  long injected_throws = 0;
  for (auto const& s : W.sinks) if (s.raw) injected_throws += static_cast<long>(s.raw->plan.write_calls.size() + s.raw->plan.flush_calls.size());
  long bound = 2 * W.injected_faults + injected_throws * static_cast<long>(W.sinks.size() + 1) + 4;
  if (other > bound)
  {
    fail(W, std::to_string(other) + " error notifications for " + std::to_string(W.injected_faults) + " unformattable statements and " +
              std::to_string(injected_throws) + " injected sink failures (a record is being re-read for ever?) last: " + esc(W.notes.back(), 100));
  }
  // every unformattable statement must have been reported
  long faulty_accepted = 0;
  for (auto const& s : W.stmts) if (s.faulty && s.accepted) ++faulty_accepted;
  if (faulty_accepted > 0 && other == 0) fail(W, "unformattable statements were accepted but nothing was reported through the error notifier");
}

// C17: sink life cycle
void oracle_sinks(World& W)
{
  for (size_t sk = 0; sk < W.sinks.size(); ++sk)
  {
    SinkInfo const& S = W.sinks[sk];
    long d_at = -1, last_w = -1;
    for (size_t k = 0; k < W.journal.size(); ++k)
    {
      if (W.journal[k].sink != static_cast<int>(sk)) continue;
      if (W.journal[k].kind == 'D') d_at = static_cast<long>(k);
      if (W.journal[k].kind == 'W') last_w = static_cast<long>(k);
    }
    bool owned = static_cast<bool>(S.user_ref);
    for (auto const& L : W.loggers)
      if (L.valid && std::find(L.sinks.begin(), L.sinks.end(), static_cast<int>(sk)) != L.sinks.end()) owned = true;
    if (d_at >= 0 && owned) { fail(W, "sink " + std::to_string(sk) + " was destroyed although a live logger or the user still references it"); return; }
    if (d_at >= 0 && last_w > d_at) { fail(W, "sink " + std::to_string(sk) + " received a statement after it was destroyed"); return; }
    if (d_at < 0 && !owned) { fail(W, "sink " + std::to_string(sk) + " is referenced by nobody after the backend drained, but it was not destroyed"); return; }
  }
  size_t valid_n = 0;
  for (auto const& l : W.loggers) if (l.valid) ++valid_n;
  size_t n = SFrontend::get_number_of_loggers();
  if (n != valid_n) fail(W, "after the backend drained get_number_of_loggers() is " + std::to_string(n) + " but " + std::to_string(valid_n) + " loggers were not removed");
  for (auto const& l : W.loggers)
  {
    bool newer_valid = false;
    for (auto const& m : W.loggers) if (&m != &l && m.name == l.name && m.valid) newer_valid = true;
    if (!l.valid && !newer_valid && SFrontend::get_logger(l.name) != nullptr) { fail(W, "get_logger(" + l.name + ") still finds a removed logger"); return; }
    if (l.valid && SFrontend::get_logger(l.name) != l.ptr) { fail(W, "get_logger(" + l.name + ") does not return the live logger"); return; }
  }
}
} // namespace
