// fmtcat catalog 2: strings of every flavour, and mixes of 1..14 variable-length arguments (shared size cache)
#include "fmtcat.h"

#include <cstdlib>

namespace fmtcat
{
// minimal custom allocator: Codec.h documents "std string detection, ignoring the Allocator type"
template <class T>
struct MallocAlloc
{
  using value_type = T;
  MallocAlloc() = default;
  template <class U>
  MallocAlloc(MallocAlloc<U> const&) noexcept {}
  T* allocate(size_t n) { return static_cast<T*>(std::malloc(n * sizeof(T))); }
  void deallocate(T* p, size_t) noexcept { std::free(p); }
  template <class U>
  bool operator==(MallocAlloc<U> const&) const noexcept { return true; }
  template <class U>
  bool operator!=(MallocAlloc<U> const&) const noexcept { return false; }
};
using CaString = std::basic_string<char, std::char_traits<char>, MallocAlloc<char>>;

std::vector<ShapeEntry> shapes_2()
{
  using S = V<std::string>;
  return {
    FMTCAT_SHAPE_W("std_string", 6, S),
    FMTCAT_SHAPE("custom_alloc_string", V<CaString>),
    FMTCAT_SHAPE_W("string_view", 4, SV),
    FMTCAT_SHAPE_W("const_char_ptr", 4, CStr),
    FMTCAT_SHAPE("char_ptr", MCStr),
    FMTCAT_SHAPE("char_array_1", CArr<1>),
    FMTCAT_SHAPE("char_array_4", CArr<4>),
    FMTCAT_SHAPE_W("char_array_8", 4, CArr<8>),
    FMTCAT_SHAPE("const_char_array_16", CArr<16, true>),
    FMTCAT_SHAPE("char_array_64", CArr<64>),
    FMTCAT_SHAPE_W("string_ref", 4, SRef),
    FMTCAT_SHAPE_W("string_x2", 4, S, S),
    FMTCAT_SHAPE_W("cstr_x3", 4, CStr, CStr, CStr),
    FMTCAT_SHAPE_W("mix_string_int_cstr_double_sv", 6, S, V<int>, CStr, V<double>, SV),
    FMTCAT_SHAPE_W("mix_arrays_cstr", 4, CArr<8>, CArr<3>, CStr, CArr<8, true>),
    FMTCAT_SHAPE_W("mix_ref_string_view", 4, SRef, S, SV, SRef),
    FMTCAT_SHAPE("string_x8", S, S, S, S, S, S, S, S),
    FMTCAT_SHAPE_W("cstr_x11", 4, CStr, CStr, CStr, CStr, CStr, CStr, CStr, CStr, CStr, CStr, CStr),
    FMTCAT_SHAPE_W("cstr_x12", 6, CStr, CStr, CStr, CStr, CStr, CStr, CStr, CStr, CStr, CStr, CStr, CStr),
    FMTCAT_SHAPE_W("cstr_x13", 6, CStr, CStr, CStr, CStr, CStr, CStr, CStr, CStr, CStr, CStr, CStr, CStr, CStr),
    FMTCAT_SHAPE_W("cstr_x14", 6, CStr, CStr, CStr, CStr, CStr, CStr, CStr, CStr, CStr, CStr, CStr, CStr, CStr, CStr),
    FMTCAT_SHAPE_W("varlen_mix_x14", 6, CStr, S, CArr<8>, SV, MCStr, CStr, CArr<4>, S, CStr, CArr<16, true>, CStr, SV,
                   CStr, CArr<2>),
    FMTCAT_SHAPE_W("varlen_mix_x7_scalars", 4, V<int>, CStr, V<double>, CArr<8>, V<bool>, S, CStr, V<char>, SV, CStr),
    FMTCAT_SHAPE("custom_alloc_mix", V<CaString>, CStr, V<CaString>),
  };
}
} // namespace fmtcat
