// C14 — Size rotation keeps every statement whole and in order within size/count bounds.
// C15 — Time rotation separates statements at the configured daily/hourly/minute points.
//
// Harness "rot": drives quill::RotatingFileSink (= RotatingSink<FileSink>) directly through its constructor
// (injected start instant), write_log(), flush_sink() and destruction/re-construction ("restart") inside a
// scratch directory, and compares the directory with a file-system reference model written here:
//   * which statements share a file (partition), which files survive, which may be deleted / clobbered;
//   * the names only through validity predicates (suffix == strftime(open instant), name order == age order).
// Select the property with --param prop=C14 (default) or --param prop=C15.
//
// Known-finding classes:
//   rot.recovers_sibling_rotated_file (C14)  Index naming + append mode: "<stem>.<x>.<N><ext>" (a rotated file of a
//                                             sibling sink such as base.foo.log) is recovered as the sink's own file,
//                                             renamed at every rotation and deleted by the backup limit
//   rot.no_extension_no_clean_no_recover (C14)  base file name without extension: start-up cleaning / recovery compare
//                                             extensions and never match "base.1", so an append-mode restart clobbers
//                                             the rotated files and mode 'w' + remove_old_files removes nothing
//   rot.remove_old_deletes_unrelated_same_prefix  (C14)  Index naming + open mode 'w' + remove_old_files: every file
//                                                  "<stem>.*<ext>" of the directory is deleted at construction, also
//                                                  files that are no rotated files of this sink (base.foo.log)
//   rot.same_second_restart_datetime  (F13, C14)  DateAndTime naming + append-mode restart in the same second as an
//                                                  already rotated file's open time clobbers that file
//   rot.drift_after_late_trigger      (F8,  C15)  next rotation point = timestamp of the triggering statement +
//                                                  interval (fixed in quill; tier A = the configured civil schedule is
//                                                  asserted, tier B = any schedule on the configured grid decides only
//                                                  on days on which the clocks change, and the time side of C14 jobs)
#include "../engine/harness.h"

#include "quill/sinks/RotatingFileSink.h"

#include <algorithm>
#include <chrono>
#include <ctime>
#include <dirent.h>
#include <fcntl.h>
#include <fstream>
#include <memory>
#include <set>
#include <sys/stat.h>
#include <unistd.h>

using namespace verif;

namespace
{
constexpr int64_t NS = 1000000000LL;
constexpr int64_t T_2001 = 978307200; // 2001-01-01T00:00:00Z
constexpr int64_t SPAN_S = 29LL * 365 * 86400; // start instants 2001 .. ~2030 (histories stay below 2038)

char const* const kClassF13 = "rot.same_second_restart_datetime";
char const* const kClassF8 = "rot.drift_after_late_trigger";
char const* const kClassRm = "rot.remove_old_deletes_unrelated_same_prefix";
char const* const kClassSib = "rot.recovers_sibling_rotated_file";
char const* const kClassNoExt = "rot.no_extension_no_clean_no_recover";

Params g_params;
int g_prop = 14;
bool g_excl_f13 = false;
bool g_excl_f8 = false;
bool g_excl_rm = false;
bool g_excl_sib = false;
bool g_excl_noext = false;
std::string g_root;          // scratch root of this process
unsigned long g_case_no = 0; // only used to name the scratch directory
int g_orig_cwd = -1;
std::vector<std::string> g_zones;

// ------------------------------------------------------------------------------------------------
// time helpers (libc only; independent of quill)
// ------------------------------------------------------------------------------------------------
void set_tz(std::string const& z)
{
  setenv("TZ", z.c_str(), 1);
  tzset();
}

long gmtoff_at(int64_t s)
{
  time_t tt = static_cast<time_t>(s);
  tm x{};
  localtime_r(&tt, &x);
  return x.tm_gmtoff;
}

tm civil(int64_t s, bool gmt)
{
  time_t tt = static_cast<time_t>(s);
  tm x{};
  if (gmt) gmtime_r(&tt, &x); else localtime_r(&tt, &x);
  return x;
}

std::string fmt_civil(int64_t s, bool gmt, char const* f)
{
  tm x = civil(s, gmt);
  char b[64];
  strftime(b, sizeof b, f, &x);
  return b;
}

std::string fmt_instant(int64_t ns)
{
  char c[96];
  std::snprintf(c, sizeof c, "%s.%09lldZ", fmt_civil(ns / NS, true, "%Y-%m-%dT%H:%M:%S").c_str(),
                static_cast<long long>(ns % NS));
  return c;
}

// next UTC-offset transition strictly after t (daily scan + bisection). 0 if none within the horizon.
int64_t next_transition(int64_t t, int64_t horizon_days = 400)
{
  long off0 = gmtoff_at(t);
  int64_t lo = t, hi = t;
  for (int64_t d = 1; d <= horizon_days; ++d)
  {
    hi = t + d * 86400;
    if (gmtoff_at(hi) != off0) break;
    lo = hi;
    if (d == horizon_days) return 0;
  }
  while (hi - lo > 1)
  {
    int64_t mid = lo + (hi - lo) / 2;
    if (gmtoff_at(mid) == off0) lo = mid; else hi = mid;
  }
  return hi;
}

// smallest instant p > s0 whose civil time in the sink's zone reads HH:MM:00 (tier A, daily).
// `uncertain` is raised when a civil day examined has no such instant (spring-forward gap) or two (fall-back overlap).
int64_t civil_next_daily(int64_t s0, int hh, int mm, bool gmt, bool& uncertain)
{
  if (gmt)
  {
    int64_t p = (s0 / 86400) * 86400 + hh * 3600 + mm * 60;
    while (p <= s0) p += 86400;
    return p;
  }
  tm base = civil(s0, false);
  for (int k = 0; k <= 4; ++k)
  {
    tm noon{};
    noon.tm_year = base.tm_year; noon.tm_mon = base.tm_mon; noon.tm_mday = base.tm_mday + k;
    noon.tm_hour = 12; noon.tm_isdst = -1;
    (void)mktime(&noon); // normalises the date fields
    int64_t found[3];
    int nf = 0;
    int const hints[3] = {-1, 0, 1};
    for (int h : hints)
    {
      tm x{};
      x.tm_year = noon.tm_year; x.tm_mon = noon.tm_mon; x.tm_mday = noon.tm_mday;
      x.tm_hour = hh; x.tm_min = mm; x.tm_sec = 0; x.tm_isdst = h;
      time_t p = mktime(&x);
      if (p == static_cast<time_t>(-1)) continue;
      tm y = civil(p, false);
      if (y.tm_hour != hh || y.tm_min != mm || y.tm_sec != 0) continue;
      if (y.tm_year != noon.tm_year || y.tm_mon != noon.tm_mon || y.tm_mday != noon.tm_mday) continue;
      bool dup = false;
      for (int q = 0; q < nf; ++q) if (found[q] == p) dup = true;
      if (!dup) found[nf++] = p;
    }
    if (nf == 0) { uncertain = true; continue; }
    if (nf > 1) uncertain = true;
    int64_t best = 0;
    for (int q = 0; q < nf; ++q) if (found[q] > s0 && (best == 0 || found[q] < best)) best = found[q];
    if (best) return best;
  }
  uncertain = true;
  return s0 + 86400;
}

// what libc makes of "HH:MM:00 on the civil day of s0, else on the next civil day" with tm_isdst = -1 (the reading of
// an ambiguous or non-existent wall-clock time is implementation-defined; only consulted on such days)
int64_t libc_next_daily(int64_t s0, int hh, int mm)
{
  tm base = civil(s0, false);
  for (int k = 0; k <= 2; ++k)
  {
    tm x{};
    x.tm_year = base.tm_year; x.tm_mon = base.tm_mon; x.tm_mday = base.tm_mday + k;
    x.tm_hour = hh; x.tm_min = mm; x.tm_sec = 0; x.tm_isdst = -1;
    time_t p = mktime(&x);
    if (p != static_cast<time_t>(-1) && p > s0) return p;
  }
  return s0 + 86400;
}

// smallest instant p > s0 that is a civil top of the hour in the sink's zone
int64_t civil_next_hour(int64_t s0, bool gmt)
{
  if (gmt) return (s0 / 3600 + 1) * 3600;
  int64_t p = (s0 / 900 + 1) * 900;
  for (int k = 0; k < 16; ++k, p += 900)
  {
    tm y = civil(p, false);
    if (y.tm_min == 0 && y.tm_sec == 0) return p;
  }
  return (s0 / 3600 + 1) * 3600;
}

// ------------------------------------------------------------------------------------------------
// file helpers (POSIX only)
// ------------------------------------------------------------------------------------------------
bool read_file(std::string const& path, std::string& out)
{
  out.clear();
  int fd = ::open(path.c_str(), O_RDONLY | O_CLOEXEC);
  if (fd < 0) return false;
  char buf[16384];
  while (true)
  {
    ssize_t n = ::read(fd, buf, sizeof buf);
    if (n < 0) { if (errno == EINTR) continue; ::close(fd); return false; }
    if (n == 0) break;
    out.append(buf, static_cast<size_t>(n));
  }
  ::close(fd);
  return true;
}

bool write_file(std::string const& path, std::string const& content)
{
  int fd = ::open(path.c_str(), O_WRONLY | O_CREAT | O_TRUNC | O_CLOEXEC, 0644);
  if (fd < 0) return false;
  size_t off = 0;
  while (off < content.size())
  {
    ssize_t n = ::write(fd, content.data() + off, content.size() - off);
    if (n <= 0) { ::close(fd); return false; }
    off += static_cast<size_t>(n);
  }
  ::close(fd);
  return true;
}

void remove_tree(std::string const& path)
{
  DIR* d = opendir(path.c_str());
  if (d)
  {
    while (dirent* e = readdir(d))
    {
      std::string n = e->d_name;
      if (n == "." || n == "..") continue;
      std::string p = path + "/" + n;
      struct stat st{};
      if (lstat(p.c_str(), &st) == 0 && S_ISDIR(st.st_mode)) remove_tree(p);
      else ::unlink(p.c_str());
    }
    closedir(d);
  }
  ::rmdir(path.c_str());
}

bool all_digits(std::string const& s, size_t from, size_t to)
{
  if (from >= to) return false;
  for (size_t k = from; k < to; ++k) if (s[k] < '0' || s[k] > '9') return false;
  return true;
}

// ------------------------------------------------------------------------------------------------
// configuration of one case
// ------------------------------------------------------------------------------------------------
enum Scheme { kIndex = 0, kDate = 1, kDateAndTime = 2 };
enum Freq { kNone = 0, kDaily = 1, kHourly = 2, kMinutely = 3 };

struct Cfg
{
  size_t limit{0}; // 0 = size rotation disabled
  bool unlimited{true};
  uint32_t max_backup{0};
  bool overwrite{true};
  int scheme{kIndex};
  char mode{'a'};
  bool remove_old{true};
  bool gmt{true};
  std::string zone{"UTC"};
  bool relative{false};
  std::string ext{".log"}; // extension of the base file name ("" = none)
  bool strays{false};
  size_t wbuf{64 * 1024};
  int freq{kNone};
  int hh{0}, mm{0};
  uint32_t interval{1};

  int64_t period_ns() const
  {
    if (freq == kDaily) return 86400 * NS;
    if (freq == kHourly) return static_cast<int64_t>(interval) * 3600 * NS;
    if (freq == kMinutely) return static_cast<int64_t>(interval) * 60 * NS;
    return 0;
  }
  std::string describe() const
  {
    char b[400];
    char const* sch[] = {"Index", "Date", "DateAndTime"};
    std::string f = "none";
    if (freq == kDaily) { char t[32]; std::snprintf(t, sizeof t, "daily@%02d:%02d", hh, mm); f = t; }
    else if (freq == kHourly) f = "every " + std::to_string(interval) + "h";
    else if (freq == kMinutely) f = "every " + std::to_string(interval) + "min";
    std::snprintf(b, sizeof b, "limit=%zu backups=%s overwrite=%d naming=%s mode=%c remove_old=%d tz=%s TZ=%s file=%s strays=%d wbuf=%zu time=%s",
                  limit, unlimited ? "unlimited" : std::to_string(max_backup).c_str(), overwrite ? 1 : 0, sch[scheme],
                  mode, remove_old ? 1 : 0, gmt ? "GMT" : "Local", zone.c_str(),
                  ((relative ? "relative " : "absolute ") + std::string{"base"} + ext).c_str(),
                  strays ? 1 : 0, wbuf, f.c_str());
    return b;
  }
};

struct Stmt
{
  int run;
  size_t size;
  int64_t ts;
};

// a file of the reference model
struct MFile
{
  std::vector<int> ids;
  uint64_t bytes{0};
  int64_t open_ns{0};
  std::string suffix;      // expected date / date-time suffix once rotated ("" for Index)
  bool oversize_ok{false}; // grew while rotation was legitimately stopped
};

// a file of the sink's family found on disk
struct DFile
{
  std::string name;
  bool is_cur{false};
  std::string suffix;
  uint32_t index{0};
  std::vector<int> ids;
  uint64_t bytes{0};
  bool matched{false};
};

struct Ev
{
  int kind; // 0 before_open 1 after_open 2 before_close 3 after_close
  std::string path;
};

struct Stray
{
  std::string rel;
  std::string content;
};

// ------------------------------------------------------------------------------------------------
// one executed history: the sink under test + the reference model + the oracle
// ------------------------------------------------------------------------------------------------
struct Run
{
  Cfg cfg;
  Report& r;
  bool assert_tier_a{false}; // C15: assert the civil schedule (tier A); tier B (any schedule on the grid) only for DST-ambiguous days

  std::string dir;       // scratch directory (absolute, canonical)
  std::string base_path; // dir + "/base.log"
  std::unique_ptr<quill::RotatingFileSink> sink;
  std::vector<Ev> events;
  std::vector<Stmt> stmts;
  std::vector<Stray> strays;

  // reference model
  std::vector<MFile> known;   // rotated files managed by the sink, newest first
  MFile cur;                  // current file
  std::vector<MFile> orphans; // rotated files of earlier runs the sink does not manage; must stay untouched
  std::vector<MFile> loose;   // files of earlier runs that may be cleaned / clobbered by design ('w' mode)
  int run_no{0};
  int claimed_from{0}; // first statement the property makes a claim about ('w' mode: the current run only)

  // schedule trackers (C15)
  bool a_alive{true}, a_uncertain{false}, a_deferred{false}; // deferred: died while uncertain -> verdict of tier B
  int64_t a_next{0}, a_p0{0};
  std::string a_why;
  bool b_alive{true};
  std::vector<int64_t> b_next;
  std::string b_why;

  // statistics for labels / non-trivial rules
  int rotations{0}, time_rotations{0}, size_rotations{0}, restarts{0}, deletions{0}, collisions{0};
  bool limit_reached{false}, stopped_seen{false}, skip_empty{false}, gap_gt_period{false}, on_point{false};
  bool size_rot_with_time{false}, f13_condition{false}, rm_condition{false}, sib_condition{false};
  int64_t prev_ts{-1};
  int checks{0};

  Run(Cfg const& c, Report& rep) : cfg(c), r(rep) {}

  // ---- statement text ----
  static std::string header(int run, int seq) { return std::to_string(run) + ":" + std::to_string(seq) + ":"; }
  size_t min_size() const { return header(run_no, static_cast<int>(stmts.size())).size() + 1; }
  static std::string make_stmt(int run, int seq, size_t size)
  {
    std::string s = header(run, seq);
    if (size > s.size() + 1) s.append(size - s.size() - 1, static_cast<char>('a' + seq % 26));
    s += '\n';
    return s;
  }

  std::string suffix_for(int64_t open_ns) const
  {
    if (cfg.scheme == kDate) return fmt_civil(open_ns / NS, cfg.gmt, "%Y%m%d");
    if (cfg.scheme == kDateAndTime) return fmt_civil(open_ns / NS, cfg.gmt, "%Y%m%d_%H%M%S");
    return {};
  }

  bool stopped() const { return !cfg.overwrite && !cfg.unlimited && known.size() >= cfg.max_backup; }

  void fail(std::string const& stage, std::string const& msg) { r.fail("[" + stage + "] " + msg); }

  // ---- scratch directory ----
  bool setup_dir()
  {
    ::mkdir(g_root.c_str(), 0755);
    dir = g_root + "/" + std::to_string(g_case_no++);
    remove_tree(dir);
    if (::mkdir(dir.c_str(), 0755) != 0)
    {
      r.inconclusive = true;
      r.message = "cannot create scratch directory " + dir;
      return false;
    }
    char* rp = realpath(dir.c_str(), nullptr);
    if (rp) { dir = rp; free(rp); }
    base_path = dir + "/base" + cfg.ext;
    if (cfg.strays)
    {
      // base.foo.log shares prefix and extension with the sink's files but is none of them; base.foo.1.log is what a
      // sibling sink writing base.foo.log leaves behind.
      // Known finding: Index naming + mode 'w' + remove_old_files deletes every "base.*.log" at construction.
      // Known finding: Index naming + mode 'a' recovers base.foo.1.log as an own file (index 1 of "base.foo.log").
      bool const rm_class = cfg.scheme == kIndex && cfg.mode == 'w' && cfg.remove_old && cfg.ext == ".log";
      bool const sib_class = cfg.scheme == kIndex && cfg.mode == 'a' && cfg.ext == ".log";
      if (rm_class && g_excl_rm) r.count(std::string{"excluded."} + kClassRm);
      else
      {
        strays.push_back({"base.foo.log", "stray base.foo.log\n"});
        if (sib_class && g_excl_sib) r.count(std::string{"excluded."} + kClassSib);
        else strays.push_back({"base.foo.1.log", "stray base.foo.1.log\n"});
      }
      if (rm_class && !g_excl_rm) rm_condition = true;
      if (sib_class && !g_excl_sib) sib_condition = true;
      strays.push_back({"other.1.log", "stray other.1.log\n"});
      strays.push_back({"base.log.bak", "stray base.log.bak\n"});
      strays.push_back({"base.log.1", "stray base.log.1\n"});
      strays.push_back({"archive/base.1.log", "stray archive/base.1.log\n"});
      ::mkdir((dir + "/archive").c_str(), 0755);
      for (auto const& s : strays) write_file(dir + "/" + s.rel, s.content);
    }
    if (cfg.relative && ::chdir(dir.c_str()) != 0)
    {
      r.inconclusive = true;
      r.message = "cannot chdir to scratch directory";
      return false;
    }
    return true;
  }

  void teardown()
  {
    if (sink)
    {
      try { sink.reset(); } catch (...) {}
    }
    if (g_orig_cwd >= 0) (void)::fchdir(g_orig_cwd); else (void)::chdir("/");
    if (!dir.empty()) remove_tree(dir);
    dir.clear();
    ::rmdir(g_root.c_str()); // succeeds only when empty; recreated by the next case
  }

  ~Run() { teardown(); }

  // ---- the sink ----
  quill::RotatingFileSinkConfig make_qcfg() const
  {
    quill::RotatingFileSinkConfig q;
    if (cfg.limit) q.set_rotation_max_file_size(cfg.limit);
    if (!cfg.unlimited) q.set_max_backup_files(cfg.max_backup);
    q.set_overwrite_rolled_files(cfg.overwrite);
    q.set_rotation_naming_scheme(cfg.scheme == kIndex ? quill::RotatingFileSinkConfig::RotationNamingScheme::Index
                                   : cfg.scheme == kDate
                                   ? quill::RotatingFileSinkConfig::RotationNamingScheme::Date
                                   : quill::RotatingFileSinkConfig::RotationNamingScheme::DateAndTime);
    q.set_open_mode(cfg.mode);
    q.set_remove_old_files(cfg.remove_old);
    q.set_timezone(cfg.gmt ? quill::Timezone::GmtTime : quill::Timezone::LocalTime);
    q.set_write_buffer_size(cfg.wbuf);
    q.set_filename_append_option(quill::FilenameAppendOption::None);
    if (cfg.freq == kDaily)
    {
      char t[16];
      std::snprintf(t, sizeof t, "%02d:%02d", cfg.hh, cfg.mm);
      q.set_rotation_time_daily(t);
    }
    else if (cfg.freq == kHourly) q.set_rotation_frequency_and_interval('H', cfg.interval);
    else if (cfg.freq == kMinutely) q.set_rotation_frequency_and_interval('M', cfg.interval);
    return q;
  }

  int count_ev(int kind) const
  {
    int n = 0;
    for (auto const& e : events) if (e.kind == kind) ++n;
    return n;
  }

  std::string events_str() const
  {
    char const* nm[] = {"before_open", "after_open", "before_close", "after_close"};
    std::string s;
    for (auto const& e : events) s += std::string{nm[e.kind]} + "(" + e.path.substr(e.path.rfind('/') + 1) + ") ";
    return s;
  }

  bool events_are(std::initializer_list<int> kinds) const
  {
    if (events.size() != kinds.size()) return false;
    size_t k = 0;
    for (int kd : kinds)
    {
      if (events[k].kind != kd || events[k].path != base_path) return false;
      ++k;
    }
    return true;
  }

  // first scheduled points after a (re)start at start_ns
  void init_trackers(int64_t start_ns)
  {
    if (cfg.freq == kNone) return;
    int64_t s0 = start_ns / NS;
    int64_t civil_first = 0, fixed_first = 0;
    long off = cfg.gmt ? 0 : gmtoff_at(s0);
    int64_t L = s0 + off;
    bool unc = false;
    if (cfg.freq == kDaily)
    {
      civil_first = civil_next_daily(s0, cfg.hh, cfg.mm, cfg.gmt, unc);
      fixed_first = (L / 86400) * 86400 + cfg.hh * 3600 + cfg.mm * 60 - off;
      if (fixed_first <= s0) fixed_first += 86400;
    }
    else if (cfg.freq == kHourly)
    {
      civil_first = civil_next_hour(s0, cfg.gmt);
      fixed_first = (L / 3600 + 1) * 3600 - off;
      // a UTC-offset change by a fraction of an hour (Australia/Lord_Howe) right at the next top of the hour: "the next
      // full hour" has two readings
      if (civil_first != fixed_first) unc = true;
    }
    else
    {
      civil_first = (s0 / 60 + 1) * 60;
      fixed_first = (L / 60 + 1) * 60 - off;
    }
    if (a_alive)
    {
      a_next = civil_first * NS;
      a_p0 = a_next;
      if (unc) a_uncertain = true;
    }
    if (b_alive)
    {
      b_next.clear();
      b_next.push_back(fixed_first * NS);
      if (civil_first != fixed_first) b_next.push_back(civil_first * NS);
      if (cfg.freq == kDaily && !cfg.gmt)
      {
        int64_t const libc_first = libc_next_daily(s0, cfg.hh, cfg.mm);
        if (libc_first != fixed_first && libc_first != civil_first) b_next.push_back(libc_first * NS);
      }
    }
  }

  int64_t a_advance(int64_t ts)
  {
    if (cfg.freq == kDaily) return civil_next_daily(ts / NS, cfg.hh, cfg.mm, cfg.gmt, a_uncertain) * NS;
    int64_t I = cfg.period_ns();
    // hourly in local time: once the zone's offset has changed by a fraction of an hour since the schedule started, "every
    // k hours" on the grid of the first point and the civil full hours differ; the property does not say which is meant
    if (cfg.freq == kHourly && !cfg.gmt && (gmtoff_at(ts / NS) - gmtoff_at(a_p0 / NS - 1)) % 3600 != 0) a_uncertain = true;
    return a_p0 + ((ts - a_p0) / I + 1) * I;
  }

  // what the documentation of RotatingFileSinkConfig / _clean_and_recover_files says happens to the files of
  // earlier runs when a sink is constructed over the directory at start_ns
  void model_restart(int64_t start_ns)
  {
    std::string const today = fmt_civil(start_ns / NS, cfg.gmt, "%Y%m%d");
    if (cfg.mode == 'a')
    {
      if (cfg.scheme == kDate)
      {
        // today's files are recovered (they could collide), other dates are left alone
        std::vector<MFile> all = known;
        all.insert(all.end(), orphans.begin(), orphans.end());
        known.clear();
        orphans.clear();
        for (auto& f : all) (f.suffix == today ? known : orphans).push_back(f);
        std::sort(known.begin(), known.end(), [](MFile const& a, MFile const& b) { return a.ids.front() > b.ids.front(); });
      }
      else if (cfg.scheme == kDateAndTime)
      {
        // nothing is recovered ("no collisions in the filenames")
        std::string const now_sfx = suffix_for(start_ns);
        for (auto& f : known) orphans.push_back(f);
        known.clear();
        for (auto const& f : orphans) if (f.suffix >= now_sfx) f13_condition = true;
      }
      // Index: every index is recovered -> known stays as it is
      cur.open_ns = start_ns; // the existing file is continued
    }
    else
    {
      // 'w': the current file is truncated; older files are cleaned or may be clobbered later, by design
      std::vector<MFile> old = known;
      old.insert(old.end(), orphans.begin(), orphans.end());
      old.insert(old.end(), loose.begin(), loose.end());
      known.clear();
      orphans.clear();
      loose.clear();
      for (auto& f : old)
      {
        if (cfg.remove_old && cfg.scheme == kIndex) continue;                      // removed
        if (cfg.remove_old && cfg.scheme == kDate && f.suffix == today) continue;  // removed
        if (cfg.remove_old && cfg.scheme == kDate) orphans.push_back(f);           // "won't collide": kept
        else loose.push_back(f);
      }
      cur = MFile{};
      cur.open_ns = start_ns;
      claimed_from = static_cast<int>(stmts.size());
    }
  }

  bool start(int64_t start_ns, bool is_restart)
  {
    if (is_restart) { model_restart(start_ns); ++run_no; ++restarts; }
    else cur.open_ns = start_ns;
    init_trackers(start_ns);
    events.clear();
    try
    {
      quill::FileEventNotifier n;
      n.before_open = [this](quill::fs::path const& p) { events.push_back({0, p.string()}); };
      n.after_open = [this](quill::fs::path const& p, FILE*) { events.push_back({1, p.string()}); };
      n.before_close = [this](quill::fs::path const& p, FILE*) { events.push_back({2, p.string()}); };
      n.after_close = [this](quill::fs::path const& p) { events.push_back({3, p.string()}); };
      quill::fs::path fn = cfg.relative ? quill::fs::path{"base" + cfg.ext} : quill::fs::path{base_path};
      auto tp = std::chrono::system_clock::time_point{
        std::chrono::duration_cast<std::chrono::system_clock::duration>(std::chrono::nanoseconds{start_ns})};
      sink = std::make_unique<quill::RotatingFileSink>(fn, make_qcfg(), n, tp);
    }
    catch (std::exception const& e)
    {
      fail("start run " + std::to_string(run_no), std::string{"constructor threw: "} + e.what());
      return false;
    }
    if (!events_are({0, 1}))
    {
      fail("start run " + std::to_string(run_no), "file events at construction: expected before_open, after_open of " + base_path + "; saw " + events_str());
      return false;
    }
    if (sink->get_filename().string() != base_path)
    {
      fail("start run " + std::to_string(run_no), "get_filename() = " + sink->get_filename().string() + ", expected " + base_path);
      return false;
    }
    return check("after start of run " + std::to_string(run_no));
  }

  bool stop()
  {
    if (!sink) return true;
    events.clear();
    try { sink.reset(); }
    catch (std::exception const& e)
    {
      fail("stop", std::string{"destructor threw: "} + e.what());
      return false;
    }
    if (!events_are({2, 3}))
    {
      fail("stop", "file events at destruction: expected before_close, after_close; saw " + events_str());
      return false;
    }
    return check("after stop of run " + std::to_string(run_no));
  }

  bool flush()
  {
    events.clear();
    try { sink->flush_sink(); }
    catch (std::exception const& e)
    {
      fail("flush", std::string{"flush_sink threw: "} + e.what());
      return false;
    }
    if (!events.empty()) { fail("flush", "unexpected file events: " + events_str()); return false; }
    return true;
  }

  void model_rotate(int64_t ts)
  {
    MFile f = cur;
    f.suffix = suffix_for(cur.open_ns);
    if (cfg.scheme != kIndex)
      for (auto const& k : known) if (k.suffix == f.suffix) { ++collisions; break; }
    known.insert(known.begin(), f);
    if (!cfg.unlimited && known.size() > cfg.max_backup)
    {
      known.pop_back(); // the oldest managed file is deleted
      ++deletions;
      limit_reached = true;
    }
    if (!cfg.unlimited && known.size() >= cfg.max_backup) limit_reached = true;
    cur = MFile{};
    cur.open_ns = ts;
    ++rotations;
  }

  bool write(size_t size, int64_t ts)
  {
    int const seq = static_cast<int>(stmts.size());
    std::string const text = make_stmt(run_no, seq, size);
    size = text.size();
    stmts.push_back({run_no, size, ts});
    events.clear();
    try
    {
      sink->write_log(nullptr, static_cast<uint64_t>(ts), std::string_view{"1234"}, std::string_view{"thr"},
                      std::string{"77"}, std::string_view{"lg"}, quill::LogLevel::Info, std::string_view{"INFO"},
                      std::string_view{"I"}, nullptr, std::string_view{"m"}, std::string_view{text});
    }
    catch (std::exception const& e)
    {
      fail("write #" + std::to_string(seq), std::string{"write_log threw: "} + e.what());
      return false;
    }
    bool rotated = false;
    if (events.empty()) rotated = false;
    else if (events_are({2, 3, 0, 1})) rotated = true;
    else
    {
      fail("write #" + std::to_string(seq), "file events during write_log: expected none or close+open of the base file; saw " + events_str());
      return false;
    }

    std::string const stage = "write #" + std::to_string(seq) + " size " + std::to_string(size) + " at " + fmt_instant(ts);
    bool const is_stopped = stopped();
    bool const can_rotate = !is_stopped && cur.bytes > 0;
    bool const size_due = cfg.limit != 0 && cur.bytes + size > cfg.limit;
    std::string const state = " (current file holds " + std::to_string(cur.bytes) + " B in " + std::to_string(cur.ids.size()) +
      " statements, limit " + std::to_string(cfg.limit) + ", managed rotated files " + std::to_string(known.size()) +
      (is_stopped ? ", rotation stopped by backup limit" : "") + ")";
    bool time_due_asserted = false;

    if (cfg.freq == kNone)
    {
      bool const exp = size_due && can_rotate;
      if (exp != rotated)
      {
        fail(stage, std::string{exp ? "size rotation expected but the sink did not rotate" : "the sink rotated although no rotation is due"} + state);
        return false;
      }
    }
    else
    {
      int64_t const period = cfg.period_ns();
      // tier B: every schedule on the configured grid (several candidates on days on which the clocks change)
      bool b_due_any = false;
      if (b_alive)
      {
        std::vector<int64_t> nb;
        std::string why;
        for (int64_t nx : b_next)
        {
          bool const due = ts >= nx;
          bool const exp = due ? can_rotate : (size_due && can_rotate);
          if (ts == nx) on_point = true;
          if (exp != rotated)
          {
            why = std::string{"tier B (next point "} + fmt_instant(nx) + "): " +
              (exp ? (due ? "time rotation expected but the sink did not rotate" : "size rotation expected but the sink did not rotate")
                   : (due ? "the sink rotated although rotation had to be skipped" : "the sink rotated although no rotation point was reached and no size rotation is due")) + state;
            continue;
          }
          if (due) b_due_any = true;
          // the next point stays on the schedule: the grid of the previous point (whole periods), and for the daily
          // time of day also what the civil calendar / libc make of it on days on which the clocks change
          std::vector<int64_t> cand;
          if (!due) cand.push_back(nx);
          else
          {
            cand.push_back(nx + ((ts - nx) / period + 1) * period);
            if (cfg.freq == kDaily && !cfg.gmt)
            {
              bool unc = false;
              cand.push_back(civil_next_daily(ts / NS, cfg.hh, cfg.mm, false, unc) * NS);
              cand.push_back(libc_next_daily(ts / NS, cfg.hh, cfg.mm) * NS);
            }
          }
          for (int64_t v : cand)
            if (std::find(nb.begin(), nb.end(), v) == nb.end()) nb.push_back(v);
        }
        if (nb.empty()) { b_alive = false; b_why = why; }
        b_next = nb;
      }
      bool a_due = false;
      if (a_alive)
      {
        a_due = ts >= a_next;
        bool const exp = a_due ? can_rotate : (size_due && can_rotate);
        if (ts == a_next) on_point = true;
        if (exp != rotated)
        {
          a_alive = false;
          a_why = std::string{"tier A (next scheduled point "} + fmt_instant(a_next) + "): " +
            (exp ? (a_due ? "the statement is at/after the point but was appended to the file opened before it" : "size rotation expected but the sink did not rotate")
                 : (a_due ? "the sink rotated although rotation had to be skipped" : "the sink rotated although no scheduled point lies between the statements and no size rotation is due")) + state;
        }
        else if (a_due) a_next = a_advance(ts);
      }
      if (!a_alive && !a_deferred && a_uncertain) a_deferred = true; // DST gap/overlap on a civil day: defer to tier B
      bool const a_pass = a_alive || (a_deferred && b_alive);
      if (assert_tier_a ? !a_pass : !b_alive)
      {
        if (assert_tier_a)
          fail(stage, a_why + (b_alive ? std::string{" | tier B passes: class "} + kClassF8 : " | tier B fails too: " + b_why));
        else
          fail(stage, b_why + (a_pass ? " | tier A passes" : " | tier A fails too: " + a_why));
        return false;
      }
      time_due_asserted = assert_tier_a && a_alive ? a_due : b_due_any;
      if (prev_ts >= 0 && ts - prev_ts > period) gap_gt_period = true;
    }
    prev_ts = ts;

    if ((size_due || time_due_asserted) && !rotated)
    {
      if (is_stopped) { stopped_seen = true; cur.oversize_ok = true; }
      else if (cur.bytes == 0) skip_empty = true;
    }
    if (rotated)
    {
      model_rotate(ts);
      if (time_due_asserted) ++time_rotations;
      else { ++size_rotations; if (cfg.freq != kNone) size_rot_with_time = true; }
    }
    cur.ids.push_back(seq);
    cur.bytes += size;
    if (rotated) return check("after rotation at " + stage);
    return true;
  }

  // ---- directory oracle ----
  bool parse_family(std::string const& name, DFile& f) const
  {
    static std::string const pre = "base.";
    std::string const& ext = cfg.ext;
    f.name = name;
    if (name == "base" + ext) { f.is_cur = true; return true; }
    if (name.size() <= pre.size() + ext.size()) return false;
    if (name.compare(0, pre.size(), pre) != 0) return false;
    if (!ext.empty() && name.compare(name.size() - ext.size(), ext.size(), ext) != 0) return false;
    std::string mid = name.substr(pre.size(), name.size() - pre.size() - ext.size());
    auto parse_index = [](std::string const& s, uint32_t& out)
    {
      if (s.empty() || s.size() > 9 || s[0] == '0' || !all_digits(s, 0, s.size())) return false;
      out = static_cast<uint32_t>(std::strtoul(s.c_str(), nullptr, 10));
      return true;
    };
    if (cfg.scheme == kIndex) return parse_index(mid, f.index);
    size_t const sl = cfg.scheme == kDate ? 8 : 15;
    if (ext.empty())
    {
      // without an extension quill inserts the index before the date ("base.1.20010101"): the date is taken for the
      // extension. The property does not prescribe the layout; accept it and read it as (suffix, index).
      size_t const dot = mid.find('.');
      if (dot != std::string::npos && dot < 8 && mid.size() == dot + 1 + sl) mid = mid.substr(dot + 1) + "." + mid.substr(0, dot);
    }
    if (mid.size() < sl) return false;
    if (!all_digits(mid, 0, 8)) return false;
    if (cfg.scheme == kDateAndTime && (mid[8] != '_' || !all_digits(mid, 9, 15))) return false;
    f.suffix = mid.substr(0, sl);
    if (mid.size() == sl) { f.index = 0; return true; }
    if (mid[sl] != '.') return false;
    return parse_index(mid.substr(sl + 1), f.index);
  }

  // parse a family file into statement ids; every byte must belong to a whole statement
  bool parse_content(std::string const& data, DFile& f, std::string& err) const
  {
    size_t p = 0;
    while (p < data.size())
    {
      size_t q = p;
      long run = 0, seq = 0;
      size_t d0 = q;
      while (q < data.size() && data[q] >= '0' && data[q] <= '9' && q - d0 < 9) run = run * 10 + (data[q++] - '0');
      if (q == d0 || q >= data.size() || data[q] != ':') { err = "garbage at offset " + std::to_string(p); return false; }
      ++q;
      d0 = q;
      while (q < data.size() && data[q] >= '0' && data[q] <= '9' && q - d0 < 9) seq = seq * 10 + (data[q++] - '0');
      if (q == d0 || q >= data.size() || data[q] != ':') { err = "garbage at offset " + std::to_string(p); return false; }
      ++q;
      if (seq >= static_cast<long>(stmts.size()) || stmts[static_cast<size_t>(seq)].run != run)
      {
        err = "unknown statement " + std::to_string(run) + ":" + std::to_string(seq) + " at offset " + std::to_string(p);
        return false;
      }
      size_t const size = stmts[static_cast<size_t>(seq)].size;
      if (p + size > data.size()) { err = "statement #" + std::to_string(seq) + " truncated at offset " + std::to_string(p); return false; }
      char const pad = static_cast<char>('a' + seq % 26);
      for (size_t k = q; k + 1 < p + size; ++k)
        if (data[k] != pad) { err = "statement #" + std::to_string(seq) + " damaged at offset " + std::to_string(k); return false; }
      if (data[p + size - 1] != '\n') { err = "statement #" + std::to_string(seq) + " not terminated at offset " + std::to_string(p + size - 1); return false; }
      f.ids.push_back(static_cast<int>(seq));
      p += size;
    }
    return true;
  }

  static std::string ids_str(std::vector<int> const& ids)
  {
    if (ids.empty()) return "[]";
    bool contiguous = true;
    for (size_t k = 1; k < ids.size(); ++k) if (ids[k] != ids[k - 1] + 1) contiguous = false;
    if (contiguous) return "[#" + std::to_string(ids.front()) + (ids.size() > 1 ? "..#" + std::to_string(ids.back()) : "") + "]";
    std::string s = "[";
    for (size_t k = 0; k < ids.size() && k < 12; ++k) s += (k ? "," : "") + std::to_string(ids[k]);
    return s + (ids.size() > 12 ? ",...]" : "]");
  }

  static std::string listing(std::vector<DFile> const& df)
  {
    std::string s;
    for (auto const& f : df)
    {
      if (s.size() > 700) { s += " ..."; break; }
      s += (s.empty() ? "" : " ") + f.name + ids_str(f.ids);
    }
    return s;
  }

  bool check(std::string const& stage)
  {
    if (r.failed) return false;
    ++checks;
    if (sink)
    {
      try { sink->flush_sink(); }
      catch (std::exception const& e) { fail(stage, std::string{"flush_sink threw: "} + e.what()); return false; }
    }
    // 1. list the directory
    std::vector<DFile> df;
    std::set<std::string> seen_other;
    DIR* d = opendir(dir.c_str());
    if (!d) { fail(stage, "scratch directory vanished"); return false; }
    std::vector<std::string> names;
    while (dirent* e = readdir(d))
    {
      std::string n = e->d_name;
      if (n != "." && n != "..") names.push_back(n);
    }
    closedir(d);
    std::sort(names.begin(), names.end());
    std::string data;
    for (auto const& n : names)
    {
      DFile f;
      struct stat st{};
      std::string const p = dir + "/" + n;
      if (lstat(p.c_str(), &st) != 0) { fail(stage, "cannot stat " + n); return false; }
      bool stray_name = false;
      for (auto const& s : strays) if (s.rel == n || s.rel.compare(0, n.size() + 1, n + "/") == 0) stray_name = true;
      if (stray_name) { seen_other.insert(n); continue; }
      if (!S_ISREG(st.st_mode) || !parse_family(n, f))
      {
        fail(stage, "unexpected directory entry \"" + n + "\" (neither the current file, nor a rotated file of the configured naming scheme, nor a pre-existing unrelated file)");
        return false;
      }
      if (!read_file(p, data)) { fail(stage, "cannot read " + n); return false; }
      f.bytes = data.size();
      std::string err;
      if (!parse_content(data, f, err))
      {
        fail(stage, "P1 statement not whole: file " + n + " (" + std::to_string(data.size()) + " B): " + err);
        return false;
      }
      df.push_back(std::move(f));
    }
    auto bad = [&](std::string const& m) { fail(stage, m + " | directory: " + listing(df)); return false; };

    // 2. unrelated files are untouched
    for (auto const& s : strays)
    {
      std::string got;
      bool ok = read_file(dir + "/" + s.rel, got);
      if (!ok) return bad("unrelated file " + s.rel + " was removed or renamed");
      if (got != s.content) return bad("unrelated file " + s.rel + " was modified");
    }

    // 3. P1: exactly one file or none
    {
      std::set<int> seen;
      for (auto const& f : df)
        for (int id : f.ids)
          if (!seen.insert(id).second) return bad("P1 statement #" + std::to_string(id) + " appears more than once");
    }

    // 4. the files of the model are on disk with exactly their statements; nothing else is
    std::map<int, size_t> by_first;
    DFile* dcur = nullptr;
    for (size_t k = 0; k < df.size(); ++k)
    {
      if (df[k].is_cur) { dcur = &df[k]; continue; }
      if (df[k].ids.empty()) return bad("rotated file " + df[k].name + " is empty");
      by_first[df[k].ids.front()] = k;
    }
    if (!dcur) return bad("the current file base" + cfg.ext + " does not exist");
    if (dcur->ids != cur.ids)
      return bad("current file holds " + ids_str(dcur->ids) + ", the reference model says " + ids_str(cur.ids));
    dcur->matched = true;
    std::vector<std::pair<DFile*, MFile const*>> managed; // known + orphans found on disk
    auto match = [&](MFile const& mf, char const* what, bool required) -> int
    {
      auto it = by_first.find(mf.ids.front());
      if (it == by_first.end())
      {
        // its first statement may survive inside another file: report where
        if (!required) return 0;
        bad(std::string{what} + " file with statements " + ids_str(mf.ids) + " (suffix \"" + mf.suffix + "\") is missing");
        return -1;
      }
      DFile& f = df[it->second];
      if (f.ids != mf.ids)
      {
        bad(std::string{what} + " file " + f.name + " holds " + ids_str(f.ids) + ", the reference model says " + ids_str(mf.ids));
        return -1;
      }
      f.matched = true;
      if (required) managed.emplace_back(&f, &mf);
      return 1;
    };
    for (auto const& mf : known) if (match(mf, "rotated", true) < 0) return false;
    for (auto const& mf : orphans) if (match(mf, "earlier-run", true) < 0) return false;
    for (auto const& mf : loose) if (match(mf, "earlier-run (may be clobbered)", false) < 0) return false;
    for (auto const& f : df)
      if (!f.matched)
        return bad("file " + f.name + " " + ids_str(f.ids) + " should not exist: it had to be deleted by the backup limit or cleaned at start-up (the sink keeps " +
                   std::to_string(known.size()) + " rotated files, max_backup_files=" +
                   (cfg.unlimited ? std::string{"unlimited"} : std::to_string(cfg.max_backup)) + ")");

    // 5. names: suffix == strftime(open instant) per naming scheme
    for (auto const& pr : managed)
    {
      DFile const& f = *pr.first;
      MFile const& mf = *pr.second;
      if (cfg.scheme == kIndex) { if (f.index == 0) return bad("rotated file without index: " + f.name); continue; }
      if (f.suffix != mf.suffix)
        return bad("A3 file " + f.name + " " + ids_str(f.ids) + " was opened at " + fmt_instant(mf.open_ns) + " (" +
                   (cfg.gmt ? "GMT" : "local " + cfg.zone) + "): expected suffix " + mf.suffix + ", found " + f.suffix);
    }

    // 6. P3: the order the names give is the order of the statements
    {
      std::vector<DFile const*> ord;
      for (auto const& pr : managed) ord.push_back(pr.first);
      if (cfg.mode != 'a')
      {
        // only the current run is claimed
        ord.clear();
        for (auto const& pr : managed)
          if (pr.second->ids.front() >= claimed_from) ord.push_back(pr.first);
      }
      std::sort(ord.begin(), ord.end(), [&](DFile const* a, DFile const* b)
                {
                  if (a->suffix != b->suffix) return a->suffix < b->suffix; // earlier date is older
                  return a->index > b->index;                               // larger index is older
                });
      int last = -1;
      std::string last_name;
      for (DFile const* f : ord)
      {
        for (int id : f->ids)
        {
          if (id <= last) return bad("P3 order: statement #" + std::to_string(id) + " in " + f->name + " comes after #" + std::to_string(last) + " (" + last_name + ") when files are read oldest to newest by name");
          last = id;
        }
        last_name = f->name;
      }
      for (int id : dcur->ids)
      {
        if (id <= last) return bad("P3 order: statement #" + std::to_string(id) + " in the current file comes after #" + std::to_string(last) + " (" + last_name + ")");
        last = id;
      }
    }

    // 7. P4: missing statements form a prefix of what the sink manages and exist only when overwriting is allowed
    {
      std::set<int> outside; // statements in files the sink does not manage
      for (auto const& mf : orphans) outside.insert(mf.ids.begin(), mf.ids.end());
      for (auto const& mf : loose) outside.insert(mf.ids.begin(), mf.ids.end());
      std::set<int> present;
      for (auto const& pr : managed) present.insert(pr.first->ids.begin(), pr.first->ids.end());
      present.insert(dcur->ids.begin(), dcur->ids.end());
      int first_present = -1, missing_after = -1, missing_any = -1;
      for (int id = claimed_from; id < static_cast<int>(stmts.size()); ++id)
      {
        if (outside.count(id)) continue;
        bool const here = present.count(id) != 0;
        if (here && first_present < 0) first_present = id;
        if (!here) { if (missing_any < 0) missing_any = id; if (first_present >= 0 && missing_after < 0) missing_after = id; }
      }
      if (missing_after >= 0)
        return bad("P4 statement #" + std::to_string(missing_after) + " is missing although the older statement #" + std::to_string(first_present) + " is still there (missing statements must form a prefix)");
      if (missing_any >= 0 && (!cfg.overwrite || cfg.unlimited))
        return bad("P4 statement #" + std::to_string(missing_any) + " is missing although nothing may be deleted (overwrite_rolled_files=" + std::to_string(cfg.overwrite) + ", backups " + (cfg.unlimited ? "unlimited" : std::to_string(cfg.max_backup)) + ")");
      if (!cfg.unlimited && known.size() > cfg.max_backup) return bad("P4 more rotated files than max_backup_files");
    }

    // 8. P2: size bound
    if (cfg.limit)
    {
      auto over = [&](DFile const& f, MFile const& mf)
      {
        return f.bytes > cfg.limit && f.ids.size() > 1 && !mf.oversize_ok;
      };
      for (auto const& pr : managed)
        if (over(*pr.first, *pr.second))
          return bad("P2 file " + pr.first->name + " holds " + std::to_string(pr.first->bytes) + " B in " + std::to_string(pr.first->ids.size()) + " statements, limit " + std::to_string(cfg.limit));
      if (over(*dcur, cur))
        return bad("P2 current file holds " + std::to_string(dcur->bytes) + " B in " + std::to_string(dcur->ids.size()) + " statements, limit " + std::to_string(cfg.limit));
    }
    return true;
  }

  std::string final_listing()
  {
    std::vector<std::string> names;
    if (DIR* d = opendir(dir.c_str()))
    {
      while (dirent* e = readdir(d))
      {
        std::string n = e->d_name;
        if (n != "." && n != "..") names.push_back(n);
      }
      closedir(d);
    }
    std::sort(names.begin(), names.end());
    std::string s;
    for (auto const& n : names)
    {
      if (s.size() > 500) { s += " ..."; break; }
      s += (s.empty() ? "" : " ") + n;
    }
    return s;
  }
};

// ------------------------------------------------------------------------------------------------
// generator
// ------------------------------------------------------------------------------------------------
std::string dur_str(int64_t ns)
{
  char b[64];
  if (ns == 0) return "+0";
  if (ns % NS == 0)
  {
    int64_t s = ns / NS;
    if (s % 86400 == 0) std::snprintf(b, sizeof b, "+%lldd", static_cast<long long>(s / 86400));
    else if (s % 3600 == 0) std::snprintf(b, sizeof b, "+%lldh", static_cast<long long>(s / 3600));
    else if (s % 60 == 0) std::snprintf(b, sizeof b, "+%lldmin", static_cast<long long>(s / 60));
    else std::snprintf(b, sizeof b, "+%llds", static_cast<long long>(s));
  }
  else if (ns < NS) std::snprintf(b, sizeof b, "+%lldns", static_cast<long long>(ns));
  else std::snprintf(b, sizeof b, "+%.9fs", static_cast<double>(ns) / 1e9);
  return b;
}

struct Clock
{
  int64_t now{0};
  int64_t max_local{INT64_MIN};
  bool keep_local_monotone{false};
  long adjusted{0};

  // time never goes back; with date-bearing names under local time the civil reading never goes back either
  // (inside the repeated hour of a DST fall-back no local-time naming scheme can order files: not claimed)
  void settle()
  {
    if (!keep_local_monotone) return;
    for (int k = 0; k < 4; ++k)
    {
      int64_t L = now + static_cast<int64_t>(gmtoff_at(now / NS)) * NS;
      if (L >= max_local) { max_local = L; return; }
      now += max_local - L;
      ++adjusted;
    }
    int64_t L = now + static_cast<int64_t>(gmtoff_at(now / NS)) * NS;
    if (L > max_local) max_local = L;
  }
  void advance(int64_t dt) { if (dt > 0) now += dt; settle(); }
  void advance_to(int64_t t) { if (t > now) now = t; settle(); }
};

size_t gen_size(Choices& c, Run const& run, bool small_bias)
{
  size_t const L = run.cfg.limit ? run.cfg.limit : 1024;
  size_t const mn = run.min_size();
  size_t const remaining = run.cfg.limit && run.cur.bytes < L ? L - run.cur.bytes : 0;
  size_t s = 0;
  size_t kind = small_bias ? c.weighted({4, 6, 2, 1, 1, 1, 1, 1, 1, 1}) : c.weighted({4, 3, 3, 3, 3, 2, 2, 1, 1, 2});
  switch (kind)
  {
  case 0: s = L / 3; break;
  case 1: s = static_cast<size_t>(c.range(static_cast<int64_t>(mn), 120)); break;
  case 2: s = static_cast<size_t>(c.range(static_cast<int64_t>(L / 8), static_cast<int64_t>(L / 2))); break;
  case 3: s = remaining; break;     // exactly fills the file
  case 4: s = remaining + 1; break; // one byte too many
  case 5: s = remaining > 0 ? remaining - 1 : 0; break;
  case 6: s = static_cast<size_t>(c.range(static_cast<int64_t>(L / 2), static_cast<int64_t>(L))); break;
  case 7: s = L; break;
  case 8: s = L + 1; break;
  default: s = static_cast<size_t>(c.range(1, static_cast<int64_t>(2 * L))); break;
  }
  if (s < mn) s = mn;
  if (s > 2 * L) s = 2 * L;
  return s;
}

// next midnight of the sink's zone after s (by the offset in force at s: good enough for aiming)
int64_t next_midnight(int64_t s, bool gmt)
{
  long off = gmt ? 0 : gmtoff_at(s);
  return ((s + off) / 86400 + 1) * 86400 - off;
}

void gen_config(Choices& c, Cfg& cfg, Report& r)
{
  // --- size limit ---
  if (g_prop == 14)
  {
    switch (c.weighted({3, 1, 1, 1, 3}))
    {
    case 0: cfg.limit = 512; break;
    case 1: cfg.limit = 513; break;
    case 2: cfg.limit = 1024; break;
    case 3: cfg.limit = 4096; break;
    default: cfg.limit = static_cast<size_t>(c.range(512, 4096)); break;
    }
  }
  else
  {
    switch (c.weighted({4, 2, 1, 2}))
    {
    case 0: cfg.limit = 0; break;
    case 1: cfg.limit = 512; break;
    case 2: cfg.limit = 1024; break;
    default: cfg.limit = static_cast<size_t>(c.range(512, 2048)); break;
    }
  }
  // --- backups ---
  if (c.flip(2, 5)) { cfg.unlimited = false; cfg.max_backup = c.pick(6); } // 0..5
  else cfg.unlimited = true;
  cfg.overwrite = !c.flip(1, 3);
  cfg.scheme = static_cast<int>(c.weighted({2, 2, 3}));
  cfg.mode = c.flip(2, 5) ? 'w' : 'a';
  cfg.remove_old = !c.flip(1, 3);
  cfg.gmt = !c.flip(1, 2);
  if (param_flag(g_params, "force_gmt")) cfg.gmt = true; // diagnostic aid: keep DST out of the picture
  cfg.zone = c.flip(1, 4) ? g_zones[0] : c.of(g_zones); // TZ is set in both modes: GMT mode must ignore it
  cfg.relative = c.flip(1, 4);
  if (c.flip(1, 8))
  {
    // base file name without extension. Known finding: cleaning / recovery at start-up never match such files, so
    // when the class is excluded it is only generated where start-up has nothing to clean or recover.
    bool const startup_noop = cfg.scheme == kDateAndTime || (cfg.mode == 'w' && !cfg.remove_old);
    if (g_excl_noext && !startup_noop) r.count(std::string{"excluded."} + kClassNoExt);
    else cfg.ext.clear();
  }
  cfg.strays = c.flip(1, 2);
  switch (c.weighted({3, 1, 1}))
  {
  case 0: cfg.wbuf = 64 * 1024; break;
  case 1: cfg.wbuf = 0; break;
  default: cfg.wbuf = 4096; break;
  }
  // --- time rotation (C15; a quarter of the C14 cases combine it with the size limit: the size bound must hold for files
  // opened by a time rotation as well) ---
  if (g_prop == 15 || c.flip(1, 4))
  {
    if (g_prop == 14) r.label("size_rotation_combined_with_time_rotation");
    switch (c.weighted({3, 2, 2}))
    {
    case 0:
      cfg.freq = kDaily;
      if (c.flip(1, 4))
      {
        static int const hot[][2] = {{0, 0}, {23, 59}, {8, 0}, {2, 30}, {1, 59}, {3, 0}, {12, 0}};
        size_t k = c.pick(sizeof hot / sizeof *hot);
        cfg.hh = hot[k][0]; cfg.mm = hot[k][1];
      }
      else { cfg.hh = static_cast<int>(c.pick(24)); cfg.mm = static_cast<int>(c.pick(60)); }
      break;
    case 1: cfg.freq = kHourly; break;
    default: cfg.freq = kMinutely; break;
    }
    if (cfg.freq != kDaily)
    {
      static uint32_t const big[] = {7, 12, 24, 60, 90};
      cfg.interval = c.flip(5, 6) ? 1 + c.pick(5) : big[c.pick(sizeof big / sizeof *big)];
    }
  }
}

void label_case(Run const& run, Report& r, Clock const& clk, bool crossed_transition)
{
  char const* sch[] = {"naming_index", "naming_date", "naming_datetime"};
  r.label(sch[run.cfg.scheme]);
  r.label(run.cfg.mode == 'a' ? "mode_append" : "mode_write");
  r.label(run.cfg.gmt ? "tz_gmt" : "tz_local");
  if (run.cfg.unlimited) r.label("backups_unlimited"); else r.label(run.cfg.overwrite ? "backups_limited_overwrite" : "backups_limited_keep");
  if (run.rotations == 0) r.label("rotations_0");
  else if (run.rotations == 1) r.label("rotations_1");
  else if (run.rotations < 10) r.label("rotations_2_9");
  else r.label("rotations_10_plus");
  if (run.limit_reached) r.label("backup_limit_reached");
  if (run.deletions) r.label("oldest_deleted");
  if (run.stopped_seen) r.label("rotation_stopped");
  if (run.skip_empty) r.label("rotation_skipped_empty_file");
  if (run.restarts) r.label("restart");
  if (run.restarts && run.cfg.mode == 'a') r.label("restart_append");
  if (run.collisions) r.label("date_collision");
  if (run.cfg.strays) r.label("unrelated_files_present");
  if (run.cfg.relative) r.label("relative_filename");
  if (run.cfg.ext.empty()) r.label("no_extension");
  if (!run.orphans.empty()) r.label("unmanaged_files_of_earlier_runs");
  if (!run.loose.empty()) r.label("clobberable_files_of_earlier_runs");
  if (run.f13_condition) r.label("same_second_restart_datetime");
  if (clk.adjusted) r.count("local_fallback_hour_avoided", clk.adjusted);
  if (crossed_transition) r.label("crosses_zone_transition");
  if (run.cfg.freq != kNone)
  {
    char const* fr[] = {"", "freq_daily", "freq_hourly", "freq_minutely"};
    r.label(fr[run.cfg.freq]);
    if (run.cfg.limit) r.label("with_size_limit");
    if (run.time_rotations) r.label("time_rotation");
    if (run.gap_gt_period) r.label("gap_gt_period");
    if (run.on_point) r.label("stmt_on_point");
    if (run.size_rot_with_time) r.label("size_rotation_with_time_rotation");
    if (run.a_uncertain) r.label("tierA_dst_uncertain");
  }
  r.count("rotations", run.rotations);
  r.count("directory_checks", run.checks);
  r.count("statements", static_cast<long>(run.stmts.size()));
}

void finish_case(Run& run, Report& r, Clock const& clk, std::string const& ops, bool crossed)
{
  r.line(ops);
  r.line("rotations=" + std::to_string(run.rotations) + " (time " + std::to_string(run.time_rotations) + ", size " +
         std::to_string(run.size_rotations) + ") deleted=" + std::to_string(run.deletions) + " restarts=" +
         std::to_string(run.restarts) + " statements=" + std::to_string(run.stmts.size()));
  r.line("dir: " + run.final_listing());
  label_case(run, r, clk, crossed);
  if (run.cfg.freq == kNone)
    r.nontrivial = run.rotations >= 2 && (run.limit_reached || run.restarts > 0 || run.collisions > 0);
  else
  {
    r.nontrivial = run.time_rotations >= 1 && (run.gap_gt_period || run.on_point || run.size_rot_with_time);
    // two tiers: a case that only the grid tier explains (a day on which the clocks change, or the old drift finding F8 when its class is excluded)
    bool const a_pass = run.a_alive || run.a_deferred;
    if (!r.failed && run.b_alive && !a_pass)
    {
      r.label("tierA_ne_tierB");
      if (g_excl_f8) r.count(std::string{"excluded."} + kClassF8);
    }
  }
  run.teardown();
}
} // namespace

namespace verif
{
HarnessInfo harness_info() { return {"rot", false, 420, 0}; }

void harness_init(Params const& p)
{
  g_params = p;
  std::string prop = param_str(p, "prop", "C14");
  g_prop = (prop == "C15" || prop == "c15" || prop == "15") ? 15 : 14;
  g_excl_f13 = excluded(p, kClassF13);
  g_excl_f8 = excluded(p, kClassF8);
  // domain restriction (not a known finding): files named <stem>.<x><ext> belong to the sink's family by the code's
  // documented convention; "unrelated" means a different extension or a different stem prefix, as in the repo's test
  Params dom;
  dom["exclude"] = param_str(p, "domain_exclude");
  g_excl_rm = excluded(p, kClassRm) || excluded(dom, kClassRm);
  g_excl_sib = excluded(p, kClassSib) || excluded(dom, kClassSib);
  g_excl_noext = excluded(p, kClassNoExt);
  struct stat st{};
  std::string root = "/dev/shm";
  if (stat(root.c_str(), &st) != 0 || !S_ISDIR(st.st_mode) || access(root.c_str(), W_OK) != 0)
  {
    root = "/verif/build/scratch";
    ::mkdir("/verif/build", 0755);
    ::mkdir(root.c_str(), 0755);
  }
  g_root = root + "/verif-rot-" + std::to_string(static_cast<long>(getpid()));
  g_orig_cwd = ::open(".", O_RDONLY | O_DIRECTORY | O_CLOEXEC);
  char const* zs[] = {"UTC", "Europe/Berlin", "America/New_York", "Australia/Lord_Howe", "Asia/Kolkata",
                      "America/Sao_Paulo", "Pacific/Auckland", "Asia/Kathmandu", "America/St_Johns", "Europe/London",
                      "Pacific/Chatham", "America/Santiago"};
  g_zones.clear();
  for (auto z : zs)
  {
    std::ifstream f(std::string{"/usr/share/zoneinfo/"} + z);
    if (f) g_zones.push_back(z);
  }
  if (g_zones.empty() || g_zones[0] != "UTC") g_zones.insert(g_zones.begin(), "UTC");
}

static void run_case_impl(Choices& c, Report& r);

void run_case(Choices& c, Report& r)
{
  try { run_case_impl(c, r); }
  catch (std::exception const& e) { r.fail(std::string{"unexpected exception escaped the case: "} + e.what()); }
  catch (...) { r.fail("unexpected non-standard exception escaped the case"); }
}

static void run_case_impl(Choices& c, Report& r)
{
  Cfg cfg;
  gen_config(c, cfg, r);
  set_tz(cfg.zone);

  Run run(cfg, r);
  // C14 jobs that combine the size limit with a time rotation judge the time side with the grid tier (B) only: the
  // configured-schedule tier is C15's business (and has a known finding there)
  run.assert_tier_a = (cfg.freq != kNone) && !g_excl_f8 && g_prop == 15;
  Clock clk;
  clk.keep_local_monotone = !cfg.gmt && cfg.scheme != kIndex;

  // ---- start instant ----
  int64_t start_s = T_2001 + c.range(0, SPAN_S);
  if (!cfg.gmt && c.flip(1, 3))
  {
    // shortly before the zone's next UTC-offset transition so that the history crosses it
    int64_t n = next_transition(start_s);
    if (n)
    {
      int64_t before = cfg.freq == kMinutely ? c.range(0, 1800) : cfg.freq == kHourly ? c.range(0, 6 * 3600) : c.range(0, 2 * 86400);
      start_s = n - before;
    }
  }
  int64_t start_ns = start_s * NS;
  if (cfg.freq != kNone)
  {
    // one second before / at / after a scheduled point
    size_t al = c.weighted({4, 2, 2, 2, 1, 1});
    if (al != 0)
    {
      bool unc = false;
      int64_t p = cfg.freq == kDaily ? civil_next_daily(start_s, cfg.hh, cfg.mm, cfg.gmt, unc)
        : cfg.freq == kHourly        ? civil_next_hour(start_s, cfg.gmt)
                                     : (start_s / 60 + 1) * 60;
      switch (al)
      {
      case 1: start_ns = p * NS; break;
      case 2: start_ns = (p - 1) * NS; break;
      case 3: start_ns = (p + 1) * NS; break;
      case 4: start_ns = p * NS - 1; break;
      default: start_ns = p * NS + 1; break;
      }
    }
  }
  else
  {
    switch (c.weighted({3, 1, 1, 2}))
    {
    case 0: break;
    case 1: start_ns += 1; break;
    case 2: start_ns += NS - 1; break;
    default: start_ns += c.range(0, NS - 1); break;
    }
    if (c.flip(1, 5)) start_ns = (next_midnight(start_s, cfg.gmt) - c.range(0, 3)) * NS; // just before a date change
  }
  clk.now = start_ns;
  clk.settle();
  long const off_at_start = gmtoff_at(clk.now / NS);

  r.line(std::string{g_prop == 14 ? "C14 " : "C15 "} + cfg.describe());
  r.line("start " + fmt_instant(clk.now));
  std::string ops;
  auto op = [&](std::string const& s) { if (ops.size() < 1300) ops += s + " "; else if (ops.size() < 1304) ops += "... "; };

  if (!run.setup_dir()) { run.teardown(); return; }
  unsigned const n_ops = 1 + c.pick(80);
  bool ok = run.start(clk.now, false);
  long f13_excluded = 0;

  for (unsigned k = 0; ok && k < n_ops; ++k)
  {
    size_t const kind = c.weighted({30, 2, 3});
    if (kind == 1)
    {
      op("F");
      ok = run.flush();
      continue;
    }
    if (kind == 2)
    {
      // Restart(dt): destroy the sink, construct a new one over the same directory at a later start instant
      int64_t dt = 0;
      switch (c.weighted({3, 2, 2, 2, 1, 1}))
      {
      case 0: dt = 0; break;
      case 1: dt = c.range(1, NS - 1); break;
      case 2: dt = NS; break;
      case 3: dt = c.range(1, 7200) * NS; break;
      case 4: dt = 86400 * NS; break;
      default: dt = c.range(1, 10 * 86400) * NS + c.range(0, NS - 1); break;
      }
      ok = run.stop();
      if (!ok) break;
      int64_t const before = clk.now;
      clk.advance(dt);
      if (g_excl_f13 && cfg.scheme == kDateAndTime && cfg.mode == 'a')
      {
        // known finding F13: a restart whose start instant renders to the same second as the open time of an
        // already rotated file clobbers that file. Excluded by construction: start at least one (civil) second later.
        std::string latest;
        for (auto const& f : run.known) latest = std::max(latest, f.suffix);
        for (auto const& f : run.orphans) latest = std::max(latest, f.suffix);
        bool moved = false;
        for (int guard = 0; guard < 8 && !latest.empty() && run.suffix_for(clk.now) <= latest; ++guard)
        {
          clk.advance_to((clk.now / NS + 1) * NS);
          moved = true;
        }
        if (moved) ++f13_excluded;
      }
      op("R(" + dur_str(clk.now - before) + ")");
      ok = run.start(clk.now, true);
      continue;
    }
    // Write(size, dt)
    int64_t const before = clk.now;
    if (cfg.freq == kNone)
    {
      switch (c.weighted({5, 3, 2, 2, 2, 1, 2, 1}))
      {
      case 0: break;
      case 1: clk.advance(c.range(1, NS - 1)); break;
      case 2: clk.advance(NS); break;
      case 3: clk.advance(c.range(1, 120) * NS); break;
      case 4: clk.advance(c.range(1, 2 * 86400) * NS + c.range(0, NS - 1)); break;
      case 5: clk.advance(86400 * NS); break;
      case 6: clk.advance_to((next_midnight(clk.now / NS, cfg.gmt) + static_cast<int64_t>(c.pick(3)) - 1) * NS); break;
      default: clk.advance(c.range(1, 30) * 86400 * NS); break;
      }
    }
    else
    {
      int64_t const P = cfg.period_ns();
      int64_t const pb = run.b_next.empty() ? clk.now : run.b_next.front(); // the first grid candidate
      int64_t const pa = run.a_next;                                        // the configured civil schedule
      switch (c.weighted({4, 2, 1, 2, 4, 2, 2, 2, 3, 2, 3, 2, 3, 3, 1}))
      {
      case 0: clk.advance(NS); break;
      case 1: break;
      case 2: clk.advance(1); break;
      case 3: clk.advance(c.range(1, NS - 1)); break;
      case 4: clk.advance_to(pb); break;          // exactly on the point
      case 5: clk.advance_to(pb - 1); break;      // one nanosecond before
      case 6: clk.advance_to(pb - NS); break;     // one second before
      case 7: clk.advance_to(pb + NS); break;     // one second after
      case 8: clk.advance_to(pa); break;          // exactly on the next civil point
      case 9: clk.advance_to(pa + (static_cast<int64_t>(c.pick(3)) - 1) * NS - (c.flip(1, 3) ? 1 : 0)); break;
      case 10: clk.advance(c.range(1, P / NS - 1) * NS + (c.flip() ? c.range(0, NS - 1) : 0)); break; // part of a period
      case 11: clk.advance(P); break;                                                                  // one period
      case 12: clk.advance(c.range(1, 10) * P); break;                                                 // k periods
      case 13: clk.advance(c.range(P / NS, 10 * (P / NS)) * NS + c.range(0, NS - 1)); break;          // a long gap
      default:
      {
        // just before / at / after the zone's next UTC-offset transition (local mode), else one period
        int64_t n = cfg.gmt ? 0 : next_transition(clk.now / NS);
        if (n) clk.advance_to((n + static_cast<int64_t>(c.pick(3)) - 1) * NS); else clk.advance(P);
        break;
      }
      }
    }
    size_t const size = gen_size(c, run, cfg.freq != kNone && cfg.limit == 0);
    op("W(" + std::to_string(size) + "," + dur_str(clk.now - before) + ")");
    ok = run.write(size, clk.now);
  }
  if (ok) ok = run.stop();
  if (f13_excluded) r.count(std::string{"excluded."} + kClassF13, f13_excluded);
  if (run.f13_condition && r.failed) r.message += std::string{" | class "} + kClassF13 + " (DateAndTime naming, append mode, restart in the second an earlier rotated file was opened)";
  if (run.rm_condition && r.failed && r.message.find("unrelated file base.foo.") != std::string::npos)
    r.message += std::string{" | class "} + kClassRm;
  if (run.sib_condition && r.failed && r.message.find("base.foo.") != std::string::npos)
    r.message += std::string{" | class "} + kClassSib;
  if (cfg.ext.empty() && r.failed && run.restarts > 0 && cfg.scheme != kDateAndTime && (cfg.mode == 'a' || cfg.remove_old))
    r.message += std::string{" | class "} + kClassNoExt;
  bool const crossed = !cfg.gmt && gmtoff_at(clk.now / NS) != off_at_start;
  finish_case(run, r, clk, ops, crossed);
}

bool probe_known_class(std::string const& cls, std::string& what)
{
  if (cls == kClassF13)
  {
    set_tz("UTC");
    Cfg cfg;
    cfg.limit = 512; cfg.scheme = kDateAndTime; cfg.mode = 'a'; cfg.gmt = true;
    Report r;
    Run run(cfg, r);
    int64_t const t0 = 1700000000LL * NS;
    bool ok = run.setup_dir();
    ok = ok && run.start(t0, false);
    ok = ok && run.write(300, t0) && run.write(300, t0); // second write rotates: base.20231114_221320.log holds #0
    ok = ok && run.stop();
    ok = ok && run.start(t0 + NS / 2, true);             // restart within the same second, append mode
    ok = ok && run.write(300, t0 + NS / 2);              // rotates base.log onto the same name
    ok = ok && run.stop();
    run.teardown();
    if (r.failed)
    {
      what = "DateAndTime naming, append mode: restart in the second in which an already rotated file was opened, next rotation overwrites that file: " + r.message;
      return true;
    }
    return false;
  }
  if (cls == kClassRm)
  {
    set_tz("UTC");
    Cfg cfg;
    cfg.limit = 512; cfg.scheme = kIndex; cfg.mode = 'w'; cfg.remove_old = true; cfg.gmt = true; cfg.strays = true;
    Report r;
    Run run(cfg, r);
    bool const saved = g_excl_rm;
    g_excl_rm = false;
    bool ok = run.setup_dir();
    g_excl_rm = saved;
    ok = ok && run.start(1700000000LL * NS, false);
    ok = ok && run.stop();
    run.teardown();
    if (r.failed && r.message.find("base.foo.log") != std::string::npos)
    {
      what = "Index naming, open mode 'w', remove_old_files=true: constructing the sink for base.log deletes the unrelated file base.foo.log: " + r.message;
      return true;
    }
    return false;
  }
  if (cls == kClassSib)
  {
    set_tz("UTC");
    Cfg cfg;
    cfg.limit = 512; cfg.scheme = kIndex; cfg.mode = 'a'; cfg.gmt = true; cfg.strays = true;
    cfg.unlimited = false; cfg.max_backup = 1;
    Report r;
    Run run(cfg, r);
    bool const saved = g_excl_sib;
    g_excl_sib = false;
    bool ok = run.setup_dir();
    g_excl_sib = saved;
    int64_t const t0 = 1700000000LL * NS;
    ok = ok && run.start(t0, false);
    ok = ok && run.write(300, t0) && run.write(300, t0) && run.write(300, t0);
    ok = ok && run.stop();
    run.teardown();
    if (r.failed && r.message.find("base.foo.") != std::string::npos)
    {
      what = "Index naming, append mode: base.foo.1.log (rotated file of a sibling sink) is recovered as an own file, renamed and deleted by rotation: " + r.message;
      return true;
    }
    return false;
  }
  if (cls == kClassNoExt)
  {
    set_tz("UTC");
    Cfg cfg;
    cfg.limit = 512; cfg.scheme = kIndex; cfg.mode = 'a'; cfg.gmt = true; cfg.ext.clear();
    Report r;
    Run run(cfg, r);
    int64_t const t0 = 1700000000LL * NS;
    bool ok = run.setup_dir();
    ok = ok && run.start(t0, false);
    ok = ok && run.write(400, t0) && run.write(400, t0) && run.write(400, t0); // base.2 #0, base.1 #1, base #2
    ok = ok && run.stop();
    ok = ok && run.start(t0 + 5 * NS, true);
    ok = ok && run.write(400, t0 + 5 * NS); // rotation renames base onto base.1: #1 lost
    ok = ok && run.stop();
    run.teardown();
    if (r.failed)
    {
      what = "base file name without extension, Index naming, append mode: rotated files of the earlier run are not recovered and get overwritten: " + r.message;
      return true;
    }
    return false;
  }
  if (cls == kClassF8)
  {
    set_tz("UTC");
    Cfg cfg;
    cfg.limit = 0; cfg.scheme = kDateAndTime; cfg.mode = 'w'; cfg.gmt = true;
    cfg.freq = kDaily; cfg.hh = 8; cfg.mm = 0;
    Report r;
    Run run(cfg, r);
    run.assert_tier_a = true;
    int64_t const d1 = 1700006400LL * NS; // 2023-11-15T00:00:00Z
    int64_t const H = 3600 * NS;
    bool ok = run.setup_dir();
    ok = ok && run.start(d1, false);
    ok = ok && run.write(100, d1 + 1 * H);       // day 1 01:00
    ok = ok && run.write(100, d1 + 11 * H);      // day 1 11:00 -> rotation (08:00 passed)
    ok = ok && run.write(100, d1 + 24 * H + 7 * H); // day 2 07:00
    ok = ok && run.write(100, d1 + 24 * H + 9 * H); // day 2 09:00 -> must rotate (08:00 passed), does not
    ok = ok && run.write(100, d1 + 24 * H + 12 * H);
    ok = ok && run.stop();
    run.teardown();
    if (r.failed)
    {
      what = "daily 08:00 GMT: after a rotation triggered late (11:00) the next point is 11:00 of the next day, the 08:00 point is ignored: " + r.message;
      return true;
    }
    return false;
  }
  return false;
}
} // namespace verif
