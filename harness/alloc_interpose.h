// C11 — allocation interposers: interface between alloc_interpose.cpp and the alloc harness.
// All state is per thread and lives in static (initial-exec) TLS of the executable, so reading or
// writing it can never allocate.
#pragma once

#include <cstddef>
#include <cstdint>

struct VerifAllocCounts
{
  uint32_t n_new;      // operator new / new[] (every variant)
  uint32_t n_malloc;   // malloc calloc realloc posix_memalign aligned_alloc memalign valloc pvalloc
  uint32_t n_mmap;     // mmap mmap64 mremap
  uint32_t n_free;     // operator delete / free (information only: freeing is not an allocation)
  uint64_t bytes;      // bytes requested by the counted allocation calls
  int nframes;         // return addresses of the FIRST counted allocation call of the armed region
  void* frames[20];
  uint32_t total() const { return n_new + n_malloc + n_mmap; }
};

extern "C"
{
// once per thread before the first arm: touches the TLS block and warms backtrace() (whose first
// call loads libgcc and allocates)
void verif_alloc_thread_init();
// start counting on the calling thread (counters are reset)
void verif_alloc_arm();
// stop counting on the calling thread and return what was seen since verif_alloc_arm()
VerifAllocCounts verif_alloc_disarm();
// process-wide number of allocation calls seen by the interposers, armed or not (self test:
// proves that the replaced functions are the ones the program really calls)
uint64_t verif_alloc_seen_total();
}
