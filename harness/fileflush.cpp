// fileflush — the *destination* clause of C06 for the real file-backed sinks (include/quill/sinks/StreamSink.h,
// include/quill/sinks/FileSink.h), with the REAL backend thread.
//
// C06: "When flush_log() returns, every statement the calling thread logged before the call has been written to all of
// its sinks and those sinks have been flushed, so it can be read from the destination; with timestamp ordering enabled
// (non-zero grace period, system or TSC clock) the same holds for every statement of any other thread whose log call
// completed before flush_log() was invoked. [...] flush_log() returns as long as the backend keeps running."
// The other C06 jobs use recording sinks; here the destination is a file that is opened and read right after flush_log()
// returned, so the write / flush bookkeeping of StreamSink / FileSink (write_log, flush_sink, _write_occurred, the write
// buffer, fsync, the FileEventNotifier hooks) and the way the backend calls flush_sink() for a Flush request
// (_flush_and_run_active_sinks, sink_min_flush_interval must not apply) are part of what is checked.
//
// A case = set-up + history.
//   set-up : 1-3 sinks out of FileSink / JsonFileSink / RotatingFileSink (size limit 512-1024: rotates during the case) /
//            a user subclass of StreamSink that owns its FILE* (StreamSink::flush_sink without the FileSink override);
//            per sink: write buffer (0 = libc default, 64 -> 4096, 4096, 64 KiB default), fsync + minimum fsync interval,
//            open mode 'w' / 'a' with pre-existing content, level filter, optional override pattern, FileEventNotifier with
//            no hook or a before_write hook (identity / upper-case / prefix / EMPTY string for a subset of the statements =
//            suppressed / longer string / suppress + prefix) and optionally the open / close hooks;
//            1-3 loggers over generated subsets of the sinks (shared sinks, loggers with several file sinks), System or TSC
//            clock, two patterns, positional or named arguments, logger level Debug or Info;
//            backend: sleep 0-100 us, sink_min_flush_interval 0 / 1 ms / 200 ms / 5 s, small or default transit limits.
//   history: on 1-2 frontend threads: Log, Burst, FlushLog(logger) + check, Sleep, immediate-flush statements (the LOG_
//            macros expanded with QUILL_IMMEDIATE_FLUSH=1, i.e. log_statement<true, ..>) + check after every statement,
//            asynchronous bursts on the second thread (the first thread goes on, flushes and checks meanwhile), a flush +
//            check on the second thread while the first one logs a burst; finally Backend::stop() and a full comparison.
// Oracle (reference model written here; expected texts built at the call site, hook transformations re-implemented):
//   right after flush_log() returned on thread T (the check runs on T itself, before anything else happens) every file is
//   read (a RotatingFileSink's whole family, oldest first). Every statement T logged before the flush — and every statement
//   of the other thread whose call is known to have completed (that thread is parked at a hand-shake) — that passes the
//   sink's level filter and was not suppressed by the hook must be in the file, as transformed by the hook, exactly once,
//   per thread in logging order. Suppressed / filtered statements must be absent, no foreign lines. Statements of a burst
//   the other thread is still executing may or may not be there (a trailing partial line is tolerated then, and a rotating
//   family that may be renamed concurrently is not read). After Backend::stop(): every statement exactly once, in order.
//   JsonFileSink lines are identified by the "id" value only. A blocking call that takes longer than hang_ms (30 s) is
//   reported as a failure (the case body runs on its own thread).
// Soundness notes: cross-thread claims are only made for statements whose call had returned before flush_log() was
//   invoked; when a TSC logger is involved the flush is additionally invoked >= 30 us later, far more than the error of the
//   TSC -> wall-clock conversion a few milliseconds after its synchronisation (the grace period is the default 1 us); a
//   case with a TSC logger that has been running for more than 250 ms (stalled on an overloaded machine: the backend
//   re-synchronises its RdtscClock every 500 ms, which shifts the conversion) makes no cross-thread claim any more.
// Fork per case. Params: maxops=N (default 28), hang_ms=N (default 30000), midcheck=0 (only the final comparison).
#include "../engine/harness.h"

#include "quill/Backend.h"
#include "quill/Frontend.h"
#include "quill/LogMacros.h"
#include "quill/Logger.h"
#include "quill/backend/RdtscClock.h"
#include "quill/sinks/FileSink.h"
#include "quill/sinks/JsonSink.h"
#include "quill/sinks/RotatingFileSink.h"
#include "quill/sinks/StreamSink.h"

#include <algorithm>
#include <atomic>
#include <chrono>
#include <condition_variable>
#include <cstdlib>
#include <dirent.h>
#include <fstream>
#include <functional>
#include <map>
#include <memory>
#include <mutex>
#include <sstream>
#include <thread>
#include <unistd.h>

using namespace verif;

namespace
{
Params g_params;
long g_driver_pid = 0;
long g_max_ops = 28;
bool g_midcheck = true;

// ---------------------------------------------------------------------------------------------------------------------
// the log calls: the documented macros. QUILL_IMMEDIATE_FLUSH is evaluated where a LOG_ macro is expanded, so the same
// body gives log_statement<false, false> in emit_plain and log_statement<true, false> (= statement + flush_log()) in
// emit_immediate.
// level index: 0 Info, 1 Warning, 2 Debug, 3 Error
#define FF_EMIT_BODY                                                                                                   \
  switch (level * 2 + (named ? 1 : 0))                                                                                 \
  {                                                                                                                    \
  case 0: LOG_INFO(lg, "{}|{}", id, pay); break;                                                                       \
  case 1: LOG_INFO(lg, "{id}|{pay}", id, pay); break;                                                                  \
  case 2: LOG_WARNING(lg, "{}|{}", id, pay); break;                                                                    \
  case 3: LOG_WARNING(lg, "{id}|{pay}", id, pay); break;                                                               \
  case 4: LOG_DEBUG(lg, "{}|{}", id, pay); break;                                                                      \
  case 5: LOG_DEBUG(lg, "{id}|{pay}", id, pay); break;                                                                 \
  case 6: LOG_ERROR(lg, "{}|{}", id, pay); break;                                                                      \
  default: LOG_ERROR(lg, "{id}|{pay}", id, pay); break;                                                                \
  }

#undef QUILL_IMMEDIATE_FLUSH
#define QUILL_IMMEDIATE_FLUSH 0
void emit_plain(quill::Logger* lg, int level, bool named, std::string const& id, std::string const& pay) { FF_EMIT_BODY }
#undef QUILL_IMMEDIATE_FLUSH
#define QUILL_IMMEDIATE_FLUSH 1
void emit_immediate(quill::Logger* lg, int level, bool named, std::string const& id, std::string const& pay) { FF_EMIT_BODY }
#undef QUILL_IMMEDIATE_FLUSH
#define QUILL_IMMEDIATE_FLUSH 0

constexpr int kLevelValue[4] = {4, 6, 3, 7}; // quill::LogLevel values of Info, Warning, Debug, Error
constexpr char const* kLevelCode[4] = {"I", "W", "D", "E"};
constexpr char const* kLevelName[4] = {"Info", "Warning", "Debug", "Error"};
static_assert(static_cast<int>(quill::LogLevel::Info) == 4 && static_cast<int>(quill::LogLevel::Warning) == 6 &&
                static_cast<int>(quill::LogLevel::Debug) == 3 && static_cast<int>(quill::LogLevel::Error) == 7,
              "level table");

enum HookKind
{
  H_NONE = 0,
  H_IDENTITY,
  H_UPPER,
  H_PREFIX,
  H_SUPPRESS,
  H_LONGER,
  H_SUPPRESS_PREFIX
};
char const* hook_name(int h)
{
  static char const* const n[] = {"none", "identity", "upper", "prefix", "suppress", "longer", "suppress_prefix"};
  return n[h];
}
constexpr char const* kPrefix = "PFX>";
constexpr size_t kPadding = 48;

// the before_write hook handed to quill (runs on the backend thread). The tag of a statement is the character after '~'.
std::function<std::string(std::string_view)> make_hook(int kind, unsigned mask)
{
  switch (kind)
  {
  case H_IDENTITY: return [](std::string_view m) { return std::string{m}; };
  case H_UPPER:
    return [](std::string_view m)
    {
      std::string s{m};
      for (auto& ch : s) if (ch >= 'a' && ch <= 'z') ch = static_cast<char>(ch - 'a' + 'A');
      return s;
    };
  case H_PREFIX: return [](std::string_view m) { return std::string{kPrefix} + std::string{m}; };
  case H_LONGER:
    return [](std::string_view m)
    {
      std::string s{m};
      bool const nl = !s.empty() && s.back() == '\n';
      if (nl) s.pop_back();
      s += ' ';
      s.append(kPadding, '+');
      if (nl) s += '\n';
      return s;
    };
  case H_SUPPRESS:
  case H_SUPPRESS_PREFIX:
    return [kind, mask](std::string_view m)
    {
      size_t const p = m.rfind('~');
      if (p != std::string_view::npos && p + 1 < m.size())
      {
        char const t = m[p + 1];
        if (t >= 'a' && t <= 'd' && ((mask >> (t - 'a')) & 1u)) return std::string{};
      }
      return kind == H_SUPPRESS ? std::string{m} : std::string{kPrefix} + std::string{m};
    };
  default: return {};
  }
}

struct HookCounters
{
  std::atomic<int> before_open{0}, after_open{0}, before_close{0}, after_close{0};
};

// user sink: a StreamSink over a FILE* the user opened (StreamSink::write_log / StreamSink::flush_sink, no FileSink)
class UserStreamSink : public quill::StreamSink
{
public:
  UserStreamSink(quill::fs::path const& path, FILE* f, std::unique_ptr<char[]> buf, quill::FileEventNotifier n)
    : quill::StreamSink(path, f, std::nullopt, std::move(n)), _buf(std::move(buf))
  {
  }
  ~UserStreamSink() override
  {
    if (_file) fclose(_file);
  }

private:
  std::unique_ptr<char[]> _buf;
};

// ---------------------------------------------------------------------------------------------------------------------
struct Worker // second frontend thread: executes closures handed over by the body thread
{
  std::thread th;
  std::mutex m;
  std::condition_variable cv;
  std::function<void()> job;
  bool has_job{false};
  bool busy{false};
  bool quit{false};
  std::string error;

  void start()
  {
    th = std::thread(
      [this]()
      {
        for (;;)
        {
          std::function<void()> j;
          {
            std::unique_lock<std::mutex> lk(m);
            cv.wait(lk, [this]() { return has_job || quit; });
            if (!has_job && quit) return;
            j = std::move(job);
            has_job = false;
          }
          std::string err;
          try { j(); }
          catch (std::exception const& e) { err = e.what(); }
          catch (...) { err = "unknown exception"; }
          {
            std::lock_guard<std::mutex> lk(m);
            if (!err.empty() && error.empty()) error = err;
            busy = false;
          }
          cv.notify_all();
        }
      });
  }
  void post(std::function<void()> f)
  {
    {
      std::lock_guard<std::mutex> lk(m);
      job = std::move(f);
      has_job = true;
      busy = true;
    }
    cv.notify_all();
  }
  void wait_idle()
  {
    std::unique_lock<std::mutex> lk(m);
    cv.wait(lk, [this]() { return !busy; });
  }
  void stop()
  {
    if (!th.joinable()) return;
    {
      std::lock_guard<std::mutex> lk(m);
      quit = true;
    }
    cv.notify_all();
    th.join();
  }
};

struct Shared // between run_case (driver thread) and the body thread
{
  std::mutex m;
  std::condition_variable cv;
  bool done{false};
  std::string current;
  Report rep;
};

// ---------------------------------------------------------------------------------------------------------------------
// reference model
struct Stmt
{
  int thr{0};
  int logger{0};
  int level{0}; // index into kLevelValue
  char tag{'a'};
  bool logged{true};     // false: below the logger's level, the macro does not log it
  bool completed{false}; // the log call is known to have returned
  std::string id, pay, msg;
};

struct MSink
{
  int idx{0};
  int kind{0}; // 0 FileSink, 1 JsonFileSink, 2 RotatingFileSink, 3 UserStreamSink
  std::string stem, ext, path;
  size_t wbuf_cfg{0};
  bool wbuf_default{false};
  bool fsync{false};
  unsigned fsync_ms{0};
  char mode{'w'};
  bool preexisting{false};
  int hook{H_NONE};
  unsigned mask{0};
  bool other_hooks{false};
  int filter{0}; // minimum quill::LogLevel value (0 = TraceL3 = everything)
  bool override_pattern{false};
  size_t rot_max{0};
  std::vector<int> routed; // statements that reach write_log() of this sink, in issue order
  std::shared_ptr<quill::Sink> sp;
  std::shared_ptr<HookCounters> counters;
  int users{0};
};

struct MLogger
{
  std::string name;
  std::vector<int> sinks;
  int pattern{0}; // 0 "%(message)", 1 "%(log_level_short_code)|%(logger)|%(message)"
  bool named{false};
  bool tsc{false};
  bool debug_level{false};
  quill::Logger* lg{nullptr};
};

char const* kind_name(int k)
{
  static char const* const n[] = {"FileSink", "JsonFileSink", "RotatingFileSink", "UserStreamSink"};
  return n[k];
}

bool read_file(std::string const& path, std::string& out)
{
  std::ifstream f(path, std::ios::binary);
  if (!f) return false;
  std::ostringstream ss;
  ss << f.rdbuf();
  out = ss.str();
  return true;
}

void spin_for_us(unsigned us)
{
  auto const t0 = std::chrono::steady_clock::now();
  while (std::chrono::steady_clock::now() - t0 < std::chrono::microseconds{us}) {}
}

struct Case
{
  using FE = quill::Frontend;

  Choices& c;
  Report& r;
  Shared& sh;
  std::string dir;
  unsigned nthreads{1};
  Worker worker;
  bool async_out{false};
  std::vector<int> async_stmts;

  std::vector<MSink> sinks;
  std::vector<MLogger> loggers;
  std::vector<Stmt> stmts;
  unsigned next_seq[2] = {0, 0};
  bool all_system{true};
  std::chrono::steady_clock::time_point t_start{};

  std::string ops;
  bool stop_ops{false};
  std::mutex notes_m;
  std::vector<std::string> notes;

  // statistics for labels / the non-trivial rule
  unsigned new_since_flush{0};
  unsigned productive_flushes{0};
  unsigned flush_count{0};
  bool hook_effect_pending{false};
  bool suppressed_pending{false};
  bool hook_effect_before_flush{false};
  bool buffered_sink{false};
  bool shared_sink{false};

  Case(Choices& cc, Report& rr, Shared& s) : c(cc), r(rr), sh(s) {}

  // ---- helpers --------------------------------------------------------------------------------------------------
  void fail(std::string const& m)
  {
    r.fail(m);
    stop_ops = true;
  }
  void note_current(std::string const& s)
  {
    std::lock_guard<std::mutex> lk(sh.m);
    sh.current = s;
  }
  void op(std::string const& s)
  {
    if (ops.size() < 1400) ops += s + " ";
    note_current(s);
  }
  void check_worker_error()
  {
    std::lock_guard<std::mutex> lk(worker.m);
    if (!worker.error.empty())
    {
      fail("unexpected exception on the second frontend thread: " + worker.error);
      worker.error.clear();
    }
  }
  void sync_worker()
  {
    if (!async_out) return;
    worker.wait_idle();
    async_out = false;
    for (int s : async_stmts) stmts[static_cast<size_t>(s)].completed = true;
    async_stmts.clear();
    check_worker_error();
  }
  // run fn on frontend thread `thr` and wait for it
  void exec(int thr, std::function<void()> const& fn)
  {
    if (thr == 0 || nthreads < 2)
    {
      try { fn(); }
      catch (std::exception const& e) { fail(std::string{"unexpected exception: "} + e.what()); }
      return;
    }
    sync_worker();
    worker.post(fn);
    worker.wait_idle();
    check_worker_error();
  }

  std::string sink_desc(MSink const& S) const
  {
    std::string d = "sink s" + std::to_string(S.idx) + " (" + kind_name(S.kind) + " " + S.stem + S.ext + ", mode '" + S.mode + "', write buffer " +
      (S.wbuf_default ? std::string{"default"} : std::to_string(S.wbuf_cfg)) + ", hook " + hook_name(S.hook);
    if (S.hook == H_SUPPRESS || S.hook == H_SUPPRESS_PREFIX)
    {
      d += "{";
      for (int k = 0; k < 4; ++k) if ((S.mask >> k) & 1u) d += static_cast<char>('a' + k);
      d += "}";
    }
    if (S.fsync) d += ", fsync/" + std::to_string(S.fsync_ms) + "ms";
    if (S.filter) d += ", level>=" + std::to_string(S.filter);
    if (S.rot_max) d += ", max " + std::to_string(S.rot_max);
    if (S.override_pattern) d += ", override pattern";
    return d + ")";
  }

  // ---- expected text (independent of quill: built from the model) ------------------------------------------------
  bool is_suppressed(MSink const& S, Stmt const& st) const
  {
    return (S.hook == H_SUPPRESS || S.hook == H_SUPPRESS_PREFIX) && ((S.mask >> (st.tag - 'a')) & 1u);
  }
  // the line (without '\n') the statement must produce in a text sink
  std::string expected_line(MSink const& S, Stmt const& st) const
  {
    MLogger const& L = loggers[static_cast<size_t>(st.logger)];
    std::string base;
    if (S.override_pattern) base = "OVR|" + st.msg;
    else if (L.pattern == 0) base = st.msg;
    else base = std::string{kLevelCode[st.level]} + "|" + L.name + "|" + st.msg;
    switch (S.hook)
    {
    case H_UPPER:
      for (auto& ch : base) ch = static_cast<char>(std::toupper(static_cast<unsigned char>(ch)));
      return base;
    case H_PREFIX:
    case H_SUPPRESS_PREFIX: return kPrefix + base;
    case H_LONGER: return base + " " + std::string(kPadding, '+');
    default: return base;
    }
  }

  // ---- reading the destination ----------------------------------------------------------------------------------
  // files of the sink, oldest first (RotatingFileSink, Index naming: stem.N.ext ... stem.1.ext stem.ext)
  std::vector<std::string> family(MSink const& S) const
  {
    std::vector<std::pair<long, std::string>> fl;
    if (S.kind != 2) return {S.path};
    DIR* d = opendir(dir.c_str());
    if (!d) return {};
    while (dirent* e = readdir(d))
    {
      std::string fn = e->d_name;
      if (fn == S.stem + S.ext) { fl.emplace_back(0, dir + "/" + fn); continue; }
      if (fn.size() > S.stem.size() + 1 + S.ext.size() && fn.compare(0, S.stem.size() + 1, S.stem + ".") == 0 &&
          fn.compare(fn.size() - S.ext.size(), S.ext.size(), S.ext) == 0)
      {
        std::string mid = fn.substr(S.stem.size() + 1, fn.size() - S.stem.size() - 1 - S.ext.size());
        if (!mid.empty() && std::all_of(mid.begin(), mid.end(), [](char ch) { return ch >= '0' && ch <= '9'; }))
          fl.emplace_back(std::strtol(mid.c_str(), nullptr, 10), dir + "/" + fn);
      }
    }
    closedir(d);
    std::sort(fl.begin(), fl.end(), [](auto const& x, auto const& y) { return x.first > y.first; });
    std::vector<std::string> out;
    for (auto const& x : fl) out.push_back(x.second);
    return out;
  }

  static std::string json_id(std::string const& line)
  {
    size_t p = line.find("\"id\":\"");
    if (p == std::string::npos) p = line.find("\"ID\":\"");
    if (p == std::string::npos) return {};
    p += 6;
    size_t e = line.find('"', p);
    if (e == std::string::npos) return {};
    return line.substr(p, e - p);
  }

  // One sink against the model. `T` / `limit`: the checking thread and the index of its last statement that was issued
  // before the flush; a statement is owed when its call is known to have completed, or it is T's own and <= limit.
  // Returns a complaint or "".
  std::string check_sink(MSink const& S, int T, int limit, bool cross, bool final_check, bool* rotated)
  {
    auto owed = [&](int si)
    {
      Stmt const& st = stmts[static_cast<size_t>(si)];
      if (final_check) return true;
      return st.thr == T ? si <= limit : (st.completed && cross);
    };
    bool concurrent = false;
    for (int si : S.routed) if (!owed(si)) concurrent = true;
    if (concurrent)
    {
      r.label("other_thread_logging_during_the_check");
      if (S.kind == 2)
      {
        // the family may be renamed by a rotation while it is listed: no sound reading is possible now
        r.count("rotating_family_not_read_concurrent_writer");
        return {};
      }
    }

    std::vector<std::string> const files = family(S);
    if (rotated) *rotated = files.size() > 1;
    std::vector<std::string> lines;
    for (size_t fi = 0; fi < files.size(); ++fi)
    {
      std::string content;
      if (!read_file(files[fi], content)) return sink_desc(S) + ": cannot read " + files[fi].substr(dir.size() + 1);
      size_t pos = 0;
      while (pos < content.size())
      {
        size_t e = content.find('\n', pos);
        if (e == std::string::npos)
        {
          // partial last line: only possible while somebody else's statements are being written
          if (fi + 1 != files.size())
            return sink_desc(S) + ": rotated file " + files[fi].substr(dir.size() + 1) + " does not end with a newline";
          if (!concurrent)
            return sink_desc(S) + ": the file ends with the partial line \"" + esc(content.substr(pos), 80) + "\" although nothing is being written " +
              (final_check ? "(Backend::stop() returned)" : "(every pending statement was issued before the flush)");
          break;
        }
        lines.push_back(content.substr(pos, e - pos));
        pos = e + 1;
      }
    }
    if (files.empty() && !S.routed.empty()) return sink_desc(S) + ": no file found";

    // key -> statement
    std::map<std::string, int> key;
    for (int si : S.routed)
    {
      Stmt const& st = stmts[static_cast<size_t>(si)];
      if (S.kind == 1) key[st.id] = si;
      else if (!is_suppressed(S, st)) key[expected_line(S, st)] = si;
    }
    std::map<int, size_t> seen;
    for (size_t li = 0; li < lines.size(); ++li)
    {
      std::string const& ln = lines[li];
      if (ln.compare(0, 8, "old line") == 0) continue; // content that existed before the sink was opened
      auto it = key.find(S.kind == 1 ? json_id(ln) : ln);
      if (it == key.end())
      {
        // a better message for the known ways to be wrong
        for (size_t si = 0; si < stmts.size(); ++si)
        {
          Stmt const& st = stmts[si];
          bool const has = S.kind == 1 ? json_id(ln) == st.id : ln.find(st.id + "|") != std::string::npos;
          if (!has) continue;
          bool const is_routed = std::find(S.routed.begin(), S.routed.end(), static_cast<int>(si)) != S.routed.end();
          if (!is_routed)
            return sink_desc(S) + ": line " + std::to_string(li + 1) + " \"" + esc(ln, 100) + "\" is statement " + st.id + " (level " + kLevelName[st.level] + ", logger " +
              loggers[static_cast<size_t>(st.logger)].name + ") which must not reach this sink (logger level / sink level filter / not a sink of that logger)";
          if (is_suppressed(S, st))
            return sink_desc(S) + ": line " + std::to_string(li + 1) + " \"" + esc(ln, 100) + "\" is statement " + st.id + " for which the before_write hook returned an empty string";
          return sink_desc(S) + ": line " + std::to_string(li + 1) + " is \"" + esc(ln, 120) + "\" but statement " + st.id + " must read \"" + esc(expected_line(S, st), 120) + "\"";
        }
        return sink_desc(S) + ": line " + std::to_string(li + 1) + " \"" + esc(ln, 120) + "\" is no statement of the model";
      }
      Stmt const& st = stmts[static_cast<size_t>(it->second)];
      if (S.kind == 1 && is_suppressed(S, st))
        return sink_desc(S) + ": line " + std::to_string(li + 1) + " \"" + esc(ln, 100) + "\" is statement " + st.id + " for which the before_write hook returned an empty string";
      auto ins = seen.emplace(it->second, li);
      if (!ins.second)
        return sink_desc(S) + ": statement " + st.id + " is in the destination twice (lines " + std::to_string(ins.first->second + 1) + " and " + std::to_string(li + 1) + ")";
    }
    long last[2] = {-1, -1};
    int last_stmt[2] = {-1, -1};
    for (int si : S.routed)
    {
      Stmt const& st = stmts[static_cast<size_t>(si)];
      if (is_suppressed(S, st)) continue;
      auto it = seen.find(si);
      if (it == seen.end())
      {
        if (!owed(si)) continue;
        std::string why = final_check ? "Backend::stop() returned"
                                      : (st.thr == T ? "flush_log() returned on the thread that had logged it before the call"
                                                     : "flush_log() returned and the statement's log call on the other thread had completed before flush_log() was invoked");
        return sink_desc(S) + ": statement " + st.id + " (\"" + esc(S.kind == 1 ? st.msg : expected_line(S, st), 60) + "\", logger " + loggers[static_cast<size_t>(st.logger)].name + ") is not in the destination (" +
          std::to_string(lines.size()) + " complete lines in " + std::to_string(files.size()) + " file(s)) although " + why;
      }
      long const p = static_cast<long>(it->second);
      if (p < last[st.thr])
        return sink_desc(S) + ": statement " + st.id + " (line " + std::to_string(p + 1) + ") precedes statement " + stmts[static_cast<size_t>(last_stmt[st.thr])].id + " (line " +
          std::to_string(last[st.thr] + 1) + ") of the same thread, which was logged earlier";
      last[st.thr] = p;
      last_stmt[st.thr] = si;
    }
    return {};
  }

  // every destination, right after a flush returned on thread T (runs on T)
  void check_after_flush(int T, int limit, bool cross, std::string const& what)
  {
    if (!g_midcheck || r.failed) return;
    if (nthreads >= 2) r.label(cross ? "statements_of_the_parked_thread_checked" : "cross_thread_claim_dropped_slow_case");
    for (auto const& S : sinks)
    {
      bool rotated = false;
      std::string e = check_sink(S, T, limit, cross, false, &rotated);
      if (rotated) r.label("rotated_before_flush");
      if (!e.empty())
      {
        fail(e + " [checked right after " + what + " returned on thread " + std::to_string(T) + "; flush #" + std::to_string(flush_count) + "]");
        return;
      }
    }
  }

  // ---- set-up ---------------------------------------------------------------------------------------------------
  void make_sink(unsigned k)
  {
    MSink S;
    S.idx = static_cast<int>(k);
    S.kind = static_cast<int>(c.weighted({4, 2, 3, 2}));
    S.stem = "s" + std::to_string(k);
    S.ext = S.kind == 1 ? ".json" : ".log";
    S.path = dir + "/" + S.stem + S.ext;
    switch (c.weighted({2, 2, 3, 3}))
    {
    case 0: S.wbuf_cfg = 0; break; // libc default buffering
    case 1: S.wbuf_cfg = 64; break; // documented: raised to 4096
    case 2: S.wbuf_cfg = 4096; break;
    default: S.wbuf_default = true; S.wbuf_cfg = 64 * 1024; break;
    }
    S.fsync = c.pick(3) == 1;
    if (S.fsync)
    {
      static unsigned const ms[] = {0, 1, 1000};
      S.fsync_ms = ms[c.pick(3)];
    }
    S.mode = c.pick(2) ? 'a' : 'w';
    S.preexisting = c.pick(2) == 1;
    S.hook = static_cast<int>(c.weighted({4, 1, 2, 2, 4, 2, 2}));
    if (S.hook == H_SUPPRESS || S.hook == H_SUPPRESS_PREFIX) S.mask = 1 + c.pick(15);
    S.other_hooks = c.pick(3) == 1;
    static int const flt[] = {0, 4, 6, 7};
    S.filter = flt[c.weighted({5, 1, 2, 1})];
    S.override_pattern = S.kind != 1 && c.pick(5) == 1;
    if (S.kind == 2)
    {
      static size_t const mx[] = {512, 768, 1024};
      S.rot_max = mx[c.pick(3)];
    }

    if (S.preexisting)
    {
      std::ofstream f(S.path, std::ios::binary);
      for (int i = 0; i < 3; ++i) f << "old line " << i << " of " << S.stem << "\n";
    }

    quill::FileEventNotifier n;
    if (S.hook != H_NONE) n.before_write = make_hook(S.hook, S.mask);
    if (S.other_hooks)
    {
      S.counters = std::make_shared<HookCounters>();
      auto ct = S.counters;
      n.before_open = [ct](quill::fs::path const&) { ++ct->before_open; };
      n.after_open = [ct](quill::fs::path const&, FILE*) { ++ct->after_open; };
      n.before_close = [ct](quill::fs::path const&, FILE*) { ++ct->before_close; };
      n.after_close = [ct](quill::fs::path const&) { ++ct->after_close; };
    }
    auto fill = [&S](quill::FileSinkConfig& cfg)
    {
      if (!S.wbuf_default) cfg.set_write_buffer_size(S.wbuf_cfg);
      cfg.set_fsync_enabled(S.fsync);
      if (S.fsync) cfg.set_minimum_fsync_interval(std::chrono::milliseconds{S.fsync_ms});
      cfg.set_open_mode(S.mode);
      cfg.set_filename_append_option(quill::FilenameAppendOption::None);
      if (S.override_pattern) cfg.set_override_pattern_formatter_options(quill::PatternFormatterOptions{"OVR|%(message)", "%H:%M:%S.%Qns", quill::Timezone::GmtTime});
    };
    if (S.kind == 0)
    {
      quill::FileSinkConfig cfg;
      fill(cfg);
      S.sp = FE::create_or_get_sink<quill::FileSink>(S.path, cfg, n);
    }
    else if (S.kind == 1)
    {
      quill::FileSinkConfig cfg;
      fill(cfg);
      S.sp = FE::create_or_get_sink<quill::JsonFileSink>(S.path, cfg, n);
    }
    else if (S.kind == 2)
    {
      quill::RotatingFileSinkConfig cfg;
      fill(cfg);
      cfg.set_rotation_max_file_size(S.rot_max);
      cfg.set_rotation_naming_scheme(quill::RotatingFileSinkConfig::RotationNamingScheme::Index);
      S.sp = FE::create_or_get_sink<quill::RotatingFileSink>(S.path, cfg, n);
    }
    else
    {
      // the user opens the stream: same buffer sizes, no fsync / override pattern (StreamSink has neither)
      S.fsync = false;
      S.fsync_ms = 0;
      S.override_pattern = false;
      FILE* f = fopen(S.path.c_str(), S.mode == 'a' ? "a" : "w");
      if (!f) { fail("harness: cannot open " + S.path); return; }
      std::unique_ptr<char[]> buf;
      size_t const sz = S.wbuf_cfg == 0 ? 0 : std::max<size_t>(S.wbuf_cfg, 4096);
      if (sz)
      {
        buf = std::make_unique<char[]>(sz);
        setvbuf(f, buf.get(), _IOFBF, sz);
      }
      n.before_open = nullptr; // never called by StreamSink
      S.sp = FE::create_or_get_sink<UserStreamSink>(S.path, quill::fs::path{S.path}, f, std::move(buf), n);
    }
    if (S.filter) S.sp->set_log_level_filter(static_cast<quill::LogLevel>(S.filter));

    r.label(std::string{"sink_"} + kind_name(S.kind));
    r.label(std::string{"hook_"} + hook_name(S.hook));
    if (S.wbuf_cfg >= 4096) { r.label("buffered"); buffered_sink = true; }
    if (S.fsync) r.label("fsync");
    if (S.fsync && S.fsync_ms) r.label("fsync_min_interval_nonzero");
    if (S.mode == 'a') r.label(S.preexisting ? "append_mode" : "append_mode_new_file");
    if (S.filter) r.label("sink_level_filter");
    if (S.override_pattern) r.label("sink_override_pattern");
    if (S.other_hooks) r.label("open_close_hooks");
    r.line("  " + sink_desc(S) + (S.preexisting ? " pre-existing content" : "") + (S.other_hooks ? " open/close hooks" : ""));
    sinks.push_back(std::move(S));
  }

  void make_logger(unsigned k, unsigned nsinks, unsigned mask)
  {
    MLogger L;
    L.name = "L" + std::to_string(k);
    std::vector<std::shared_ptr<quill::Sink>> sv;
    bool json = false;
    for (unsigned s = 0; s < nsinks; ++s)
    {
      if (!((mask >> s) & 1u)) continue;
      L.sinks.push_back(static_cast<int>(s));
      sv.push_back(sinks[s].sp);
      if (sinks[s].kind == 1) json = true;
      if (++sinks[s].users == 2) { r.label("sink_shared_by_two_loggers"); shared_sink = true; }
    }
    if (c.pick(3) == 1) std::reverse(sv.begin(), sv.end()); // order of the sinks inside the logger
    L.pattern = static_cast<int>(c.pick(2));
    L.named = c.pick(2) == 1 || json; // a JsonFileSink shows the arguments only when they are named
    L.tsc = c.pick(2) == 1;
    L.debug_level = c.pick(3) != 1;
    if (L.tsc) all_system = false;
    L.lg = FE::create_or_get_logger(L.name, std::move(sv),
                                    quill::PatternFormatterOptions{L.pattern == 0 ? "%(message)" : "%(log_level_short_code)|%(logger)|%(message)", "%H:%M:%S.%Qns", quill::Timezone::GmtTime},
                                    L.tsc ? quill::ClockSourceType::Tsc : quill::ClockSourceType::System);
    if (!L.lg) { fail("harness: create_or_get_logger returned null"); return; }
    if (L.debug_level) L.lg->set_log_level(quill::LogLevel::Debug);
    if (L.sinks.size() >= 2) r.label("logger_with_several_file_sinks");
    r.label(L.tsc ? "clock_tsc" : "clock_system");
    std::string d = "  logger " + L.name + " -> {";
    for (int s : L.sinks) d += "s" + std::to_string(s) + " ";
    d += std::string{"} pattern "} + (L.pattern ? "code|logger|message" : "message") + (L.named ? " named-args" : " positional") + (L.tsc ? " TSC" : " System") +
      (L.debug_level ? " level=Debug" : " level=Info");
    r.line(d);
    loggers.push_back(std::move(L));
  }

  // ---- statements ---------------------------------------------------------------------------------------------
  std::string gen_payload()
  {
    static char const alphabet[] = "abcdefghijklmnopqrstuvwxyzABCDEFGHIJKLMNOPQRSTUVWXYZ0123456789 _-.";
    constexpr unsigned sz = sizeof alphabet - 1;
    unsigned len = 0;
    switch (c.weighted({4, 3, 2}))
    {
    case 0: len = c.pick(9); break;
    case 1: len = 9 + c.pick(40); break;
    default: len = 100 + c.pick(220); break;
    }
    unsigned a = c.pick(sz), b = 1 + c.pick(sz - 1);
    std::string s(len, 'a');
    for (unsigned i = 0; i < len; ++i) s[i] = alphabet[(a + i * b) % sz];
    return s;
  }

  struct Call
  {
    quill::Logger* lg;
    int level;
    bool named;
    std::string id, pay;
  };

  // registers the statement in the model; returns its index
  int reg_stmt(int thr, int logger, int level, std::string const& base_pay, unsigned tag_base, unsigned k)
  {
    MLogger const& L = loggers[static_cast<size_t>(logger)];
    Stmt st;
    st.thr = thr;
    st.logger = logger;
    st.level = level;
    st.tag = static_cast<char>('a' + (tag_base + k) % 4);
    st.id = std::to_string(thr) + ":" + std::to_string(next_seq[thr]++);
    st.pay = base_pay + (k ? std::to_string(k) : std::string{}) + "~" + st.tag;
    st.msg = fmtquill::format("{}|{}", st.id, st.pay);
    st.logged = kLevelValue[level] >= (L.debug_level ? 3 : 4);
    int const idx = static_cast<int>(stmts.size());
    if (st.logged)
    {
      ++new_since_flush;
      for (int s : L.sinks)
      {
        MSink& S = sinks[static_cast<size_t>(s)];
        if (kLevelValue[level] < S.filter) { r.label("statement_stopped_by_sink_level_filter"); continue; }
        S.routed.push_back(idx);
        if (is_suppressed(S, st)) { suppressed_pending = true; hook_effect_pending = true; }
        else if (S.hook == H_UPPER || S.hook == H_PREFIX || S.hook == H_LONGER || S.hook == H_SUPPRESS_PREFIX) hook_effect_pending = true;
      }
    }
    else r.label("statement_below_logger_level");
    stmts.push_back(std::move(st));
    return idx;
  }
  Call call_of(int idx) const
  {
    Stmt const& st = stmts[static_cast<size_t>(idx)];
    MLogger const& L = loggers[static_cast<size_t>(st.logger)];
    return Call{L.lg, st.level, L.named, st.id, st.pay};
  }
  int gen_level() { return static_cast<int>(c.weighted({5, 2, 2, 1})); }
  int gen_logger() { return static_cast<int>(c.pick(static_cast<uint32_t>(loggers.size()))); }

  void note_flush()
  {
    ++flush_count;
    if (new_since_flush) ++productive_flushes;
    new_since_flush = 0;
    if (hook_effect_pending) hook_effect_before_flush = true;
    if (suppressed_pending) r.label("suppressed_statement_then_flush");
    hook_effect_pending = suppressed_pending = false;
  }

  // May the statements of the other (parked) thread be claimed at a flush that is invoked now? System clock only: always.
  // With a TSC logger the backend orders by converted timestamps; the conversion is monotonic and accurate to far less
  // than the 30 us the flush is delayed by as long as the backend's RdtscClock has not been re-synchronised, which it does
  // every 500 ms. A case takes milliseconds; one that was stalled for longer (overloaded machine) drops the claim.
  bool cross_ok() const { return all_system || std::chrono::steady_clock::now() - t_start < std::chrono::milliseconds{250}; }

  // ---- ops ------------------------------------------------------------------------------------------------------
  // n statements through one logger on thread thr, synchronously
  void op_log(unsigned n, char const* tag)
  {
    int const thr = static_cast<int>(c.pick(nthreads));
    int const lg = gen_logger();
    int const level = gen_level();
    bool const vary = n > 1 && c.pick(2) == 1; // a burst over several loggers / levels
    std::string const pay = gen_payload();
    unsigned const tb = c.pick(4);
    if (thr == 1) sync_worker();
    std::vector<Call> calls;
    std::vector<int> idx;
    for (unsigned k = 0; k < n; ++k)
    {
      int const l = vary ? static_cast<int>((static_cast<unsigned>(lg) + k) % loggers.size()) : lg;
      int const lv = vary ? static_cast<int>((static_cast<unsigned>(level) + k / 3) % 4) : level;
      idx.push_back(reg_stmt(thr, l, lv, pay, tb, k));
      calls.push_back(call_of(idx.back()));
    }
    op(std::string{tag} + "(t" + std::to_string(thr) + ",L" + std::to_string(lg) + (vary ? "+" : "") + "," + kLevelCode[level] + ",x" + std::to_string(n) + "," + std::to_string(pay.size()) + "B)");
    exec(thr, [calls]() { for (auto const& x : calls) emit_plain(x.lg, x.level, x.named, x.id, x.pay); });
    for (int i : idx) stmts[static_cast<size_t>(i)].completed = true;
  }

  unsigned burst_size()
  {
    switch (c.weighted({3, 3, 2}))
    {
    case 0: return 2 + c.pick(4);
    case 1: return 6 + c.pick(20);
    default: return 26 + c.pick(40);
    }
  }

  void op_flush()
  {
    int const thr = static_cast<int>(c.pick(nthreads));
    int const lg = gen_logger();
    if (thr == 1) sync_worker();
    op("F(t" + std::to_string(thr) + ",L" + std::to_string(lg) + ")");
    note_flush();
    quill::Logger* p = loggers[static_cast<size_t>(lg)].lg;
    int const limit = static_cast<int>(stmts.size()) - 1;
    bool const delay = nthreads >= 2 && !all_system;
    std::string const what = "flush_log() through logger L" + std::to_string(lg);
    exec(thr,
         [this, p, thr, limit, delay, what]()
         {
           bool const cross = cross_ok();
           if (delay) spin_for_us(30);
           p->flush_log();
           check_after_flush(thr, limit, cross, what);
         });
  }

  void op_sleep()
  {
    static unsigned const us[] = {20, 100, 300, 1500};
    unsigned const d = us[c.pick(4)];
    op("S(" + std::to_string(d) + "us)");
    std::this_thread::sleep_for(std::chrono::microseconds{d});
  }

  // 1-3 statements, each followed by flush_log() inside the log call (QUILL_IMMEDIATE_FLUSH), check after each
  void op_immediate()
  {
    int const thr = static_cast<int>(c.pick(nthreads));
    int const lg = gen_logger();
    int const level = gen_level();
    unsigned const n = 1 + c.pick(3);
    std::string const pay = gen_payload();
    unsigned const tb = c.pick(4);
    if (thr == 1) sync_worker();
    std::vector<Call> calls;
    std::vector<int> idx;
    for (unsigned k = 0; k < n; ++k)
    {
      idx.push_back(reg_stmt(thr, lg, level, pay, tb, k));
      calls.push_back(call_of(idx.back()));
    }
    bool const logged = stmts[static_cast<size_t>(idx[0])].logged;
    op("I(t" + std::to_string(thr) + ",L" + std::to_string(lg) + "," + kLevelCode[level] + ",x" + std::to_string(n) + "," + std::to_string(pay.size()) + "B)");
    r.label("immediate_flush");
    if (logged)
    {
      // every statement is a flush preceded by a new statement
      flush_count += n;
      productive_flushes += n;
      new_since_flush = 0;
      if (hook_effect_pending) hook_effect_before_flush = true;
      if (suppressed_pending) r.label("suppressed_statement_then_flush");
      hook_effect_pending = suppressed_pending = false;
    }
    bool const delay = nthreads >= 2 && !all_system;
    exec(thr,
         [this, calls, idx, thr, logged, delay]()
         {
           for (size_t k = 0; k < calls.size(); ++k)
           {
             auto const& x = calls[k];
             bool const cross = cross_ok();
             if (delay) spin_for_us(30);
             emit_immediate(x.lg, x.level, x.named, x.id, x.pay);
             // a statement below the logger's level is not logged and therefore does not flush either
             if (logged) check_after_flush(thr, idx[k], cross, "the immediate-flush log statement " + x.id);
           }
         });
    for (int i : idx) stmts[static_cast<size_t>(i)].completed = true;
  }

  // the second thread logs a burst on its own; the first thread goes on
  void op_async_burst()
  {
    if (nthreads < 2) { op_log(burst_size(), "B"); return; }
    sync_worker();
    int const lg = gen_logger();
    int const level = gen_level();
    unsigned const n = burst_size();
    std::string const pay = gen_payload();
    unsigned const tb = c.pick(4);
    std::vector<Call> calls;
    for (unsigned k = 0; k < n; ++k)
    {
      int const i = reg_stmt(1, lg, level, pay, tb, k);
      async_stmts.push_back(i);
      calls.push_back(call_of(i));
    }
    op("AB(t1,L" + std::to_string(lg) + "," + kLevelCode[level] + ",x" + std::to_string(n) + "," + std::to_string(pay.size()) + "B)");
    r.label("asynchronous_burst_on_second_thread");
    worker.post([calls]() { for (auto const& x : calls) emit_plain(x.lg, x.level, x.named, x.id, x.pay); });
    async_out = true;
  }

  // the second thread flushes and checks while the first one logs a burst
  void op_concurrent_flush()
  {
    if (nthreads < 2) { op_flush(); return; }
    sync_worker();
    int const flg = gen_logger();
    int const lg = gen_logger();
    int const level = gen_level();
    unsigned const n = burst_size();
    std::string const pay = gen_payload();
    unsigned const tb = c.pick(4);
    int const limit = static_cast<int>(stmts.size()) - 1;
    // the flush is accounted before the burst of the first thread is registered (it is not owed by this flush)
    note_flush();
    std::vector<Call> calls;
    std::vector<int> idx;
    for (unsigned k = 0; k < n; ++k)
    {
      idx.push_back(reg_stmt(0, lg, level, pay, tb, k));
      calls.push_back(call_of(idx.back()));
    }
    op("CF(t1,L" + std::to_string(flg) + " || t0,L" + std::to_string(lg) + "," + kLevelCode[level] + ",x" + std::to_string(n) + ")");
    r.label("flush_on_second_thread_while_first_logs");
    quill::Logger* p = loggers[static_cast<size_t>(flg)].lg;
    bool const delay = !all_system;
    std::string const what = "flush_log() through logger L" + std::to_string(flg);
    worker.post(
      [this, p, limit, delay, what]()
      {
        bool const cross = cross_ok();
        if (delay) spin_for_us(30);
        p->flush_log();
        check_after_flush(1, limit, cross, what);
      });
    for (auto const& x : calls) emit_plain(x.lg, x.level, x.named, x.id, x.pay);
    worker.wait_idle();
    check_worker_error();
    for (int i : idx) stmts[static_cast<size_t>(i)].completed = true;
  }

  void step()
  {
    switch (c.weighted({5, 5, 4, 2, 2, 2, 1}))
    {
    case 0: op_log(1, "L"); break;
    case 1: op_flush(); break;
    case 2: op_log(burst_size(), "B"); break;
    case 3: op_sleep(); break;
    case 4: op_immediate(); break;
    case 5: op_async_burst(); break;
    default: op_concurrent_flush(); break;
    }
  }

  // ---- the case -------------------------------------------------------------------------------------------------
  void run()
  {
    dir = "/dev/shm/fileflush-" + std::to_string(g_driver_pid);
    std::error_code ec;
    quill::fs::remove_all(dir, ec);
    quill::fs::create_directories(dir, ec);

    nthreads = 1 + c.pick(2);
    static unsigned const kSleepUs[] = {50, 10, 100, 0};
    static unsigned const kMinFlushMs[] = {0, 1, 200, 5000};
    quill::BackendOptions bo;
    unsigned const sleep_us = kSleepUs[c.pick(4)];
    bo.sleep_duration = std::chrono::microseconds{sleep_us};
    bo.sink_min_flush_interval = std::chrono::milliseconds{kMinFlushMs[c.pick(4)]};
    bo.transit_events_soft_limit = size_t{1} << (c.pick(2) ? 2 + c.pick(6) : 12);
    bo.transit_events_hard_limit = bo.transit_events_soft_limit << 2;
    bo.check_backend_singleton_instance = false;
    bo.error_notifier = [this](std::string const& m)
    {
      std::lock_guard<std::mutex> lk(notes_m);
      notes.push_back(m);
    };
    unsigned const nsinks = 1 + c.pick(3);
    unsigned const nloggers = 1 + c.pick(3);
    unsigned const nops = 1 + c.pick(static_cast<uint32_t>(g_max_ops));
    r.line("threads=" + std::to_string(nthreads) + " sleep_us=" + std::to_string(sleep_us) + " min_flush_ms=" + std::to_string(bo.sink_min_flush_interval.count()) +
           " soft=" + std::to_string(bo.transit_events_soft_limit) + " sinks=" + std::to_string(nsinks) + " loggers=" + std::to_string(nloggers) + " ops=" + std::to_string(nops));
    if (nthreads >= 2) r.label("two_threads");
    if (bo.sink_min_flush_interval.count()) r.label("min_flush_interval_nonzero");

    note_current("set-up");
    try
    {
      for (unsigned k = 0; k < nsinks && !r.failed; ++k) make_sink(k);
      // sink subsets of the loggers (non-empty; choice 0 = {s0}); a sink nobody picked is given to one of the loggers
      std::vector<unsigned> masks;
      for (unsigned k = 0; k < nloggers; ++k) masks.push_back(c.pick((1u << nsinks) - 1u) + 1u);
      for (unsigned s = 0; s < nsinks; ++s)
      {
        bool used = false;
        for (unsigned m : masks) used = used || ((m >> s) & 1u);
        if (!used) masks[s % nloggers] |= 1u << s;
      }
      for (unsigned k = 0; k < nloggers && !r.failed; ++k) make_logger(k, nsinks, masks[k]);
    }
    catch (std::exception const& e)
    {
      fail(std::string{"unexpected exception during the set-up: "} + e.what());
    }
    if (r.failed)
    {
      quill::fs::remove_all(dir, ec);
      return;
    }

    t_start = std::chrono::steady_clock::now();
    quill::Backend::start(bo);
    if (nthreads >= 2) worker.start();

    // the history ends with the choice stream: no tail of default operations (every prefix is still a valid case)
    for (unsigned k = 0; k < nops && !stop_ops && !r.failed && (k == 0 || !c.exhausted()); ++k) step();

    note_current("teardown");
    if (async_out) sync_worker();
    worker.stop();
    note_current("Backend::stop()");
    quill::Backend::stop();
    note_current("final checks");
    r.line("ops: " + ops);
    r.count("statements", static_cast<long>(stmts.size()));
    r.count("flushes", static_cast<long>(flush_count));

    if (!r.failed)
    {
      std::lock_guard<std::mutex> lk(notes_m);
      if (!notes.empty()) r.fail("backend error notifier was called: " + notes[0]);
    }
    for (auto const& S : sinks)
    {
      if (r.failed) break;
      bool rotated = false;
      std::string e = check_sink(S, 0, -1, true, true, &rotated);
      if (rotated) r.label("rotated");
      if (!e.empty()) r.fail(e + " [final comparison after Backend::stop()]");
    }
    r.nontrivial = productive_flushes >= 2 && (hook_effect_before_flush || buffered_sink || shared_sink);
    if (productive_flushes >= 2) r.label("two_or_more_productive_flushes");
    quill::fs::remove_all(dir, ec);
  }
};

void body(std::vector<uint32_t> choices, size_t consumed, std::shared_ptr<Shared> sh, size_t* consumed_out)
{
  Choices c{choices};
  c.i = consumed;
  Report& r = sh->rep;
  // the Case object is leaked on purpose when the body hangs (the process ends with _exit)
  auto* cs = new Case(c, r, *sh);
  cs->run();
  *consumed_out = c.consumed();
  delete cs;
  {
    std::lock_guard<std::mutex> lk(sh->m);
    sh->done = true;
  }
  sh->cv.notify_all();
}
} // namespace

namespace verif
{
HarnessInfo harness_info() { return {"fileflush", true, 300, 90000}; }

void harness_init(Params const& p)
{
  g_params = p;
  g_driver_pid = static_cast<long>(getpid());
  g_max_ops = param_int(p, "maxops", 28);
  if (g_max_ops < 1) g_max_ops = 1;
  g_midcheck = param_int(p, "midcheck", 1) != 0;
  // the TSC calibration (a process-wide singleton, >= 30 ms of spinning) is done once here and inherited by every forked case
  (void)quill::detail::RdtscClock::RdtscTicks::instance().ns_per_tick();
  // a case that dies (sanitizer abort, failed assert) cannot remove its scratch directory: the driver process does it at exit
  std::atexit(
    []()
    {
      if (static_cast<long>(getpid()) != g_driver_pid) return;
      std::error_code ec;
      quill::fs::remove_all("/dev/shm/fileflush-" + std::to_string(g_driver_pid), ec);
    });
}

void run_case(Choices& c, Report& r)
{
  std::vector<uint32_t> copy(c.p, c.p + c.n);
  auto sh = std::make_shared<Shared>();
  auto consumed = std::make_shared<size_t>(c.consumed());
  size_t const start = c.consumed();
  std::thread th([copy, start, sh, consumed]() { body(copy, start, sh, consumed.get()); });
  long const hang_ms = param_int(g_params, "hang_ms", 30000);
  bool done;
  {
    std::unique_lock<std::mutex> lk(sh->m);
    done = sh->cv.wait_for(lk, std::chrono::milliseconds{hang_ms}, [&]() { return sh->done; });
  }
  if (done)
  {
    th.join();
    r = sh->rep;
    c.i = *consumed;
    return;
  }
  // a blocking call never returned: report it (the threads are abandoned; the forked child ends with _exit)
  th.detach();
  std::string cur;
  {
    std::lock_guard<std::mutex> lk(sh->m);
    cur = sh->current;
  }
  r.line("hung in: " + cur);
  r.fail("operation \"" + cur + "\" did not return within " + std::to_string(hang_ms) + " ms with the backend thread running (flush_log() / Backend::stop() that never completes)");
  (void)new std::shared_ptr<Shared>(sh); // keep the shared state alive for the abandoned threads
  (void)new std::shared_ptr<size_t>(consumed);
}

bool probe_known_class(std::string const&, std::string&) { return false; }
} // namespace verif
