// C11 `alloc` harness — shapes, part 2: standard containers of the listed element types.
// All container objects (and the strings their C-string elements point into) are built before the
// armed region; element C strings are limited so that a statement never needs more than twelve
// cached lengths.
#include "alloc_catalog.h"

namespace
{
using va::Env;

template <class C, class G>
C fill_back(Env& e, char const* what, G gen, size_t maxn = 16)
{
  size_t n = e.csize(maxn);
  e.container(what, n);
  C out;
  for (size_t k = 0; k < n; ++k) out.push_back(gen(k));
  return out;
}

template <class C, class G>
C fill_insert(Env& e, char const* what, G gen, size_t maxn = 16)
{
  size_t n = e.csize(maxn);
  e.container(what, n);
  C out;
  for (size_t k = 0; k < n; ++k) out.insert(gen(k));
  return out;
}

void sh_vector_int(Env& e)
{
  auto a0 = fill_back<std::vector<int>>(e, "vector<int>", [&](size_t) { return e.i32(); });
  VA_EMIT("vector_int {}", "vector_int", a0);
}

void sh_vector_double_u8(Env& e)
{
  auto a0 = fill_back<std::vector<double>>(e, "vector<double>", [&](size_t) { return e.dbl(); });
  auto a1 = fill_back<std::vector<uint8_t>>(e, "vector<uint8_t>", [&](size_t) { return static_cast<uint8_t>(e.i64()); });
  VA_EMIT("vector_double_u8 {} {}", "vector_double_u8", a0, a1);
}

void sh_vector_string(Env& e)
{
  auto a0 = fill_back<std::vector<std::string>>(e, "vector<string>", [&](size_t) { return e.elem_str(); });
  VA_EMIT("vector_string {}", "vector_string", a0);
}

void sh_vector_string_view(Env& e)
{
  auto store = fill_back<std::vector<std::string>>(e, "vector<string_view>", [&](size_t) { return e.elem_str(); });
  std::vector<std::string_view> a0;
  for (auto const& s : store) a0.emplace_back(s);
  VA_EMIT("vector_string_view {}", "vector_string_view", a0);
}

void sh_vector_cstr(Env& e)
{
  // every element uses one cached length: at most twelve elements
  auto store = fill_back<std::vector<std::string>>(e, "vector<char const*>", [&](size_t) { return e.elem_str(); }, 12);
  std::vector<char const*> a0;
  for (auto const& s : store) a0.push_back(s.c_str());
  e.cached = static_cast<int>(a0.size());
  VA_EMIT("vector_cstr {}", "vector_cstr", a0);
}

void sh_vector_cstr_exactly_12(Env& e)
{
  std::vector<std::string> store;
  e.container("vector<char const*>", 9);
  for (int k = 0; k < 9; ++k) store.push_back(e.elem_str());
  std::vector<char const*> a0;
  for (auto const& s : store) a0.push_back(s.c_str());
  std::string s1 = e.top_str(), s2 = e.top_str(), s3 = e.top_str();
  char const* a1 = s1.c_str();
  char const* a2 = s2.c_str();
  char const* a3 = s3.c_str();
  e.cached = 12;
  VA_EMIT("vector_cstr_9_plus_3 {} {} {} {}", "vector_cstr_9_plus_3", a0, a1, a2, a3);
}

void sh_vector_enum(Env& e)
{
  va::Color const vals[] = {va::Color::Red, va::Color::Green, va::Color::Blue, va::Color::Other};
  auto a0 = fill_back<std::vector<va::Color>>(e, "vector<Color>", [&](size_t) { return vals[e.c.pick(4)]; });
  auto a1 = fill_back<std::vector<va::PlainEnum>>(e, "vector<PlainEnum>", [&](size_t) { return e.c.flip() ? va::PE_Seven : va::PE_Big; });
  VA_EMIT("vector_enum {} {}", "vector_enum", a0, a1);
}

void sh_std_array(Env& e)
{
  std::array<int, 8> a0{};
  for (auto& x : a0) x = e.i32();
  std::array<std::string, 4> a1;
  for (auto& x : a1) x = e.elem_str();
  std::array<double, 1> a2{{e.dbl()}};
  e.container("array<int,8> array<string,4> array<double,1>", 13);
  VA_EMIT("std_array {} {} {}", "std_array", a0, a1, a2);
}

void sh_c_array(Env& e)
{
  int a0[6];
  for (auto& x : a0) x = e.i32();
  std::string a1[3];
  for (auto& x : a1) x = e.elem_str();
  e.container("int[6] string[3]", 9);
  VA_EMIT("c_array {} {}", "c_array", a0, a1);
}

void sh_deque(Env& e)
{
  auto a0 = fill_back<std::deque<int>>(e, "deque<int>", [&](size_t) { return e.i32(); });
  auto a1 = fill_back<std::deque<std::string>>(e, "deque<string>", [&](size_t) { return e.elem_str(); });
  VA_EMIT("deque {} {}", "deque", a0, a1);
}

void sh_list(Env& e)
{
  auto a0 = fill_back<std::list<int64_t>>(e, "list<int64>", [&](size_t) { return e.i64(); });
  auto a1 = fill_back<std::list<std::string>>(e, "list<string>", [&](size_t) { return e.elem_str(); });
  VA_EMIT("list {} {}", "list", a0, a1);
}

void sh_forward_list(Env& e)
{
  // each forward_list uses one cached entry (its element count)
  std::forward_list<int> a0;
  size_t n0 = e.csize();
  e.container("forward_list<int>", n0);
  for (size_t k = 0; k < n0; ++k) a0.push_front(e.i32());
  std::forward_list<std::string> a1;
  size_t n1 = e.csize();
  e.container("forward_list<string>", n1);
  for (size_t k = 0; k < n1; ++k) a1.push_front(e.elem_str());
  VA_EMIT("forward_list {} {}", "forward_list", a0, a1);
}

void sh_set(Env& e)
{
  auto a0 = fill_insert<std::set<int>>(e, "set<int>", [&](size_t) { return e.i32(); });
  auto a1 = fill_insert<std::set<std::string>>(e, "set<string>", [&](size_t k) { return e.key_str(k); });
  auto a2 = fill_insert<std::multiset<int>>(e, "multiset<int>", [&](size_t) { return static_cast<int>(e.c.pick(3)); });
  VA_EMIT("set {} {} {}", "set", a0, a1, a2);
}

void sh_unordered_set(Env& e)
{
  auto a0 = fill_insert<std::unordered_set<uint32_t>>(e, "unordered_set<u32>", [&](size_t) { return static_cast<uint32_t>(e.i64()); });
  auto a1 = fill_insert<std::unordered_set<std::string>>(e, "unordered_set<string>", [&](size_t k) { return e.key_str(k); });
  auto a2 = fill_insert<std::unordered_multiset<int>>(e, "unordered_multiset<int>", [&](size_t) { return static_cast<int>(e.c.pick(3)); });
  VA_EMIT("unordered_set {} {} {}", "unordered_set", a0, a1, a2);
}

void sh_map_arith(Env& e)
{
  auto a0 = fill_insert<std::map<int, int>>(e, "map<int,int>", [&](size_t) { return std::make_pair(e.i32(), e.i32()); });
  auto a1 = fill_insert<std::map<uint64_t, double>>(e, "map<u64,double>", [&](size_t k) { return std::make_pair(static_cast<uint64_t>(k), e.dbl()); });
  VA_EMIT("map_arith {} {}", "map_arith", a0, a1);
}

void sh_map_string(Env& e)
{
  auto a0 = fill_insert<std::map<std::string, int>>(e, "map<string,int>", [&](size_t k) { return std::make_pair(e.map_key_str(k), e.i32()); });
  auto a1 = fill_insert<std::map<std::string, std::string>>(e, "map<string,string>", [&](size_t k) { return std::make_pair(e.map_key_str(k), e.map_val_str()); });
  VA_EMIT("map_string {} {}", "map_string", a0, a1);
}

void sh_multimap(Env& e)
{
  auto a0 = fill_insert<std::multimap<int, std::string>>(e, "multimap<int,string>", [&](size_t) { return std::make_pair(static_cast<int>(e.c.pick(3)), e.map_val_str()); });
  VA_EMIT("multimap {}", "multimap", a0);
}

void sh_unordered_map(Env& e)
{
  auto a0 = fill_insert<std::unordered_map<int, double>>(e, "unordered_map<int,double>", [&](size_t k) { return std::make_pair(static_cast<int>(k), e.dbl()); });
  auto a1 = fill_insert<std::unordered_map<std::string, std::string>>(e, "unordered_map<string,string>", [&](size_t k) { return std::make_pair(e.map_key_str(k), e.map_val_str()); });
  VA_EMIT("unordered_map {} {}", "unordered_map", a0, a1);
}

void sh_unordered_multimap(Env& e)
{
  auto a0 = fill_insert<std::unordered_multimap<std::string, int>>(e, "unordered_multimap<string,int>", [&](size_t) { return std::make_pair(std::string{e.c.flip() ? "dup" : "other"}, e.i32()); });
  VA_EMIT("unordered_multimap {}", "unordered_multimap", a0);
}

void sh_map_cstr(Env& e)
{
  // keys and values are C strings: two cached lengths per entry, at most six entries
  auto store = fill_back<std::vector<std::pair<std::string, std::string>>>(
    e, "map<char const*,char const*>", [&](size_t k) { return std::make_pair(e.key_str(k), e.elem_str()); }, 6);
  std::unordered_map<char const*, char const*> a0;
  for (auto const& kv : store) a0.emplace(kv.first.c_str(), kv.second.c_str()); // keyed by (distinct) pointers
  e.cached = static_cast<int>(2 * a0.size());
  VA_EMIT("map_cstr {}", "map_cstr", a0);
}

void sh_nested_vector(Env& e)
{
  size_t n = e.csize(6);
  e.container("vector<vector<int>>", n);
  std::vector<std::vector<int>> a0;
  for (size_t k = 0; k < n; ++k) a0.push_back(fill_back<std::vector<int>>(e, "v", [&](size_t) { return e.i32(); }, 6));
  size_t m = e.csize(6);
  e.container("vector<vector<string>>", m);
  std::vector<std::vector<std::string>> a1;
  for (size_t k = 0; k < m; ++k) a1.push_back(fill_back<std::vector<std::string>>(e, "v", [&](size_t) { return e.elem_str(); }, 4));
  VA_EMIT("nested_vector {} {}", "nested_vector", a0, a1);
}

void sh_map_of_vector(Env& e)
{
  size_t n = e.csize(6);
  e.container("map<string,vector<int>>", n);
  std::map<std::string, std::vector<int>> a0;
  for (size_t k = 0; k < n; ++k)
  {
    std::string key = e.map_key_str(k);
    auto v = fill_back<std::vector<int>>(e, "v", [&](size_t) { return e.i32(); }, e.map_nested_max(6));
    if (!v.empty()) e.map_copy_class = true;
    a0.emplace(std::move(key), std::move(v));
  }
  VA_EMIT("map_of_vector {}", "map_of_vector", a0);
}

void sh_containers_and_scalars(Env& e)
{
  int a0 = e.i32();
  auto a1 = fill_back<std::vector<std::string>>(e, "vector<string>", [&](size_t) { return e.elem_str(); });
  std::string a2 = e.top_str();
  auto a3 = fill_insert<std::map<int, std::string>>(e, "map<int,string>", [&](size_t k) { return std::make_pair(static_cast<int>(k), e.map_val_str()); });
  std::string s4 = e.top_str();
  char const* a4 = s4.c_str();
  double a5 = e.dbl();
  VA_EMIT("containers_and_scalars {} {} {} {} {} {}", "containers_and_scalars", a0, a1, a2, a3, a4, a5);
}
} // namespace

namespace va
{
void register_shapes_2(std::vector<Shape>& out)
{
  out.push_back({"vector_int", "ty.container", true, 0, true, false, false, false, sh_vector_int});
  out.push_back({"vector_double_u8", "ty.container", true, 0, true, false, false, false, sh_vector_double_u8});
  out.push_back({"vector_string", "ty.container", true, 0, true, false, false, false, sh_vector_string});
  out.push_back({"vector_string_view", "ty.container", true, 0, true, false, false, false, sh_vector_string_view});
  out.push_back({"vector_cstr", "ty.container", true, 12, true, false, false, false, sh_vector_cstr});
  out.push_back({"vector_cstr_9_plus_3", "ty.container", true, 12, true, false, false, false, sh_vector_cstr_exactly_12});
  out.push_back({"vector_enum", "ty.container", true, 0, true, false, false, false, sh_vector_enum});
  out.push_back({"std_array", "ty.container", true, 0, true, false, false, false, sh_std_array});
  out.push_back({"c_array", "ty.container", true, 0, true, false, false, false, sh_c_array});
  out.push_back({"deque", "ty.container", true, 0, true, false, false, false, sh_deque});
  out.push_back({"list", "ty.container", true, 0, true, false, false, false, sh_list});
  out.push_back({"forward_list", "ty.container", true, 2, true, false, false, false, sh_forward_list});
  out.push_back({"set", "ty.container", true, 0, true, false, false, false, sh_set});
  out.push_back({"unordered_set", "ty.container", true, 0, true, false, false, false, sh_unordered_set});
  out.push_back({"map_arith", "ty.container", true, 0, true, false, false, false, sh_map_arith});
  out.push_back({"map_string", "ty.container", true, 0, true, false, false, false, sh_map_string});
  out.push_back({"multimap", "ty.container", true, 0, true, false, false, false, sh_multimap});
  out.push_back({"unordered_map", "ty.container", true, 0, true, false, false, false, sh_unordered_map});
  out.push_back({"unordered_multimap", "ty.container", true, 0, true, false, false, false, sh_unordered_multimap});
  out.push_back({"map_cstr", "ty.container", true, 12, true, false, false, false, sh_map_cstr});
  out.push_back({"nested_vector", "ty.container", true, 0, true, false, false, false, sh_nested_vector});
  out.push_back({"map_of_vector", "ty.container", true, 0, true, false, false, false, sh_map_of_vector});
  out.push_back({"containers_and_scalars", "ty.container", true, 1, true, false, false, false, sh_containers_and_scalars});
}
} // namespace va
