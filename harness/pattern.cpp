// C12 — Sink line equals the pattern with every attribute substituted for the statement.
//
// Part A (direct): generated pattern (tokens: %(attr[:spec]) / literal chunks) -> quill::PatternFormatter,
//   PatternFormatter::format(...) with generated attribute values and a run-time constructed MacroMetadata.
// Part B (e2e): manual backend worker on the harness thread, recording sink(s), loggers created per case,
//   statements through Logger::log_statement (plain, dynamic level, named args, LOG_RUNTIME_METADATA style),
//   checks the line split / trailing-newline trim and the runtime metadata substitution.
// Oracle: an independent reference substitution over the token list the harness built (own pad/truncate
//   routine, own path:line derivation, libc gmtime_r/localtime_r + strftime for %(time)).
// Params: part=direct|e2e|both (default both), printable_check=0 (disable BackendOptions::check_printable_char
//   and allow UTF-8 in e2e messages), exclude=<classes>
// Known-finding classes (excluded by construction when listed in exclude=, each with a fixed probe):
//   pattern.runtime_metadata_contains_separator  a LOG_RUNTIME_METADATA message/file/line value containing
//                                                "\x01\x02\x03" is split at it (F5)
//   pattern.runtime_metadata_with_named_args     a LOG_RUNTIME_METADATA statement whose format string has a
//                                                named placeholder never reaches any sink
#include "../engine/harness.h"

#include <algorithm>
#include <array>
#include <atomic>
#include <chrono>
#include <ctime>
#include <deque>
#include <functional>
#include <map>
#include <memory>
#include <mutex>
#include <optional>
#include <stdexcept>
#include <string>
#include <string_view>
#include <thread>
#include <unordered_map>
#include <vector>

// The backend's per-thread buffer of decoded events grows once and then stays large for the life of the process. So that
// EVERY end-to-end case starts with the small buffer a new thread would get (events are moved when it grows, slots are
// reused when it does not), the harness replaces the empty buffer at the start of a case; that needs two private members
// (ManualBackendWorker::_backend_worker, ThreadContext::_transit_event_buffer). The std headers are included above, so
// only quill's own access labels are affected. Nothing under /repo is changed. (Same device as harness/named.cpp.)
#define private public
#include "quill/Backend.h"
#include "quill/Frontend.h"
#include "quill/Logger.h"
#include "quill/UserClockSource.h"
#include "quill/backend/PatternFormatter.h"
#include "quill/core/MacroMetadata.h"
#include "quill/core/PatternFormatterOptions.h"
#include "quill/sinks/Sink.h"
#undef private

#include <pthread.h>
#include <sys/syscall.h>
#include <unistd.h>

using namespace verif;

namespace
{
Params g_params;
bool g_excl_sep = false;       // pattern.runtime_metadata_contains_separator excluded
bool g_excl_rtnamed = false;   // pattern.runtime_metadata_with_named_args excluded
int g_part = 0;                // 0 both, 1 direct, 2 e2e
bool g_printable_check = true; // keep quill's default BackendOptions::check_printable_char
bool g_must_time = false;      // parameter must_time=1
bool g_no_runtime_metadata = false; // parameter no_runtime_metadata=1 (C13's job: the known runtime-metadata classes belong to C12)

char const* const kSepClass = "pattern.runtime_metadata_contains_separator";
char const* const kRtNamedClass = "pattern.runtime_metadata_with_named_args";
char const* const kSep = "\x01\x02\x03"; // documented default of QUILL_MAGIC_SEPARATOR

constexpr int64_t T_2001 = 978307200;
constexpr int64_t T_2101 = 4133980800;

// true with probability num/den; a shrunk / exhausted choice (0) gives false
bool chance(Choices& c, uint32_t num, uint32_t den) { return (c.raw() % den) >= (den - num); }

// ---------------------------------------------------------------------------------------------
// the sixteen attributes, in the order of the documentation table of the Attribute enum
// ---------------------------------------------------------------------------------------------
enum Attr
{
  A_TIME = 0,
  A_FILE_NAME,
  A_CALLER_FUNCTION,
  A_LOG_LEVEL,
  A_LOG_LEVEL_SHORT_CODE,
  A_LINE_NUMBER,
  A_LOGGER,
  A_FULL_PATH,
  A_THREAD_ID,
  A_THREAD_NAME,
  A_PROCESS_ID,
  A_SOURCE_LOCATION,
  A_SHORT_SOURCE_LOCATION,
  A_MESSAGE,
  A_TAGS,
  A_NAMED_ARGS,
  A_COUNT
};

char const* const kAttrName[A_COUNT] = {"time",          "file_name",       "caller_function",
                                        "log_level",     "log_level_short_code", "line_number",
                                        "logger",        "full_path",       "thread_id",
                                        "thread_name",   "process_id",      "source_location",
                                        "short_source_location", "message", "tags", "named_args"};

constexpr uint32_t bit(int a) { return 1u << a; }
constexpr uint32_t kLocationAttrs =
  bit(A_FILE_NAME) | bit(A_LINE_NUMBER) | bit(A_FULL_PATH) | bit(A_SOURCE_LOCATION) | bit(A_SHORT_SOURCE_LOCATION);

// documented default level names / short codes (BackendOptions), indexed by LogLevel
char const* const kLevelName[] = {"TRACE_L3", "TRACE_L2", "TRACE_L1", "DEBUG", "INFO", "NOTICE", "WARNING", "ERROR", "CRITICAL"};
char const* const kLevelCode[] = {"T3", "T2", "T1", "D", "I", "N", "W", "E", "C"};

// ---------------------------------------------------------------------------------------------
// reference model
// ---------------------------------------------------------------------------------------------
struct Spec
{
  bool present{false};
  bool has_fill{false};
  char fill{' '};
  char align{0}; // 0 = not given
  int width{-1};
  int prec{-1};
};

std::string spec_text(Spec const& s)
{
  std::string o;
  if (s.has_fill) o += s.fill;
  if (s.align) o += s.align;
  if (s.width >= 0) o += std::to_string(s.width);
  if (s.prec >= 0) { o += '.'; o += std::to_string(s.prec); }
  return o;
}

// own pad / truncate routine for string arguments (ASCII values only): precision = maximum number of
// characters, width = minimum field width, default alignment left, centre puts the smaller half left.
std::string apply_spec(std::string const& v, Spec const& s)
{
  if (!s.present) return v;
  std::string t = v;
  if (s.prec >= 0 && t.size() > static_cast<size_t>(s.prec)) t.resize(static_cast<size_t>(s.prec));
  if (s.width < 0 || t.size() >= static_cast<size_t>(s.width)) return t;
  size_t const pad = static_cast<size_t>(s.width) - t.size();
  char const f = s.has_fill ? s.fill : ' ';
  char const a = s.align ? s.align : '<';
  size_t left = 0;
  if (a == '>') left = pad;
  else if (a == '^') left = pad / 2;
  return std::string(left, f) + t + std::string(pad - left, f);
}

struct Tok
{
  int attr{-1}; // -1: literal
  Spec spec;
  std::string raw; // pattern text of the token
  std::string out; // literal: expected output text
};

struct Pattern
{
  std::vector<Tok> toks;
  std::string text;
  uint32_t present{0};
  uint32_t with_spec{0};
  int n_attr{0};
  bool order_differs{false};
  bool has_escaped_brace{false};
  bool has_percent_literal{false};
  bool has(int a) const { return (present & bit(a)) != 0; }
  bool spec_on(int a) const { return (with_spec & bit(a)) != 0; }
  bool spec_on_any(uint32_t mask) const { return (with_spec & mask) != 0; }
};

std::string undouble(std::string const& raw)
{
  std::string o;
  for (size_t i = 0; i < raw.size(); ++i)
  {
    o += raw[i];
    if ((raw[i] == '{' || raw[i] == '}') && i + 1 < raw.size() && raw[i + 1] == raw[i]) ++i;
  }
  return o;
}

using Vals = std::array<std::string, A_COUNT>;

std::string ref_render(Pattern const& p, Vals const& v)
{
  std::string out;
  for (auto const& t : p.toks)
  {
    if (t.attr >= 0) out += apply_spec(v[static_cast<size_t>(t.attr)], t.spec);
    else out += t.out;
  }
  out += '\n';
  return out;
}

// "path/to/file.cpp:123": line = text after the last ':', full path = text before it,
// file name = text after the last '/' of the path, short location = file name ':' line
void derive_location(std::string const& sl, Vals& v)
{
  size_t const colon = sl.rfind(':');
  std::string const path = sl.substr(0, colon);
  std::string const line = sl.substr(colon + 1);
  size_t const slash = path.rfind('/');
  std::string const file = slash == std::string::npos ? path : path.substr(slash + 1);
  v[A_FULL_PATH] = path;
  v[A_LINE_NUMBER] = line;
  v[A_FILE_NAME] = file;
  v[A_SOURCE_LOCATION] = sl;
  v[A_SHORT_SOURCE_LOCATION] = file + ":" + line;
}

std::string join_named(std::vector<std::pair<std::string, std::string>> const& na)
{
  std::string o;
  for (size_t i = 0; i < na.size(); ++i)
  {
    if (i) o += ", ";
    o += na[i].first;
    o += ": ";
    o += na[i].second;
  }
  return o;
}

// timestamp patterns whose rendering is computable with libc alone (formatting proper is property C13)
struct TsPat
{
  char const* full;
  char const* p1;
  int frac; // 0 none, 1 ms, 2 us, 3 ns
  char const* p2;
};
TsPat const kTsPats[] = {{"%H:%M:%S.%Qns", "%H:%M:%S.", 3, ""},
                         {"%Y-%m-%d %H:%M:%S.%Qus", "%Y-%m-%d %H:%M:%S.", 2, ""},
                         {"%H:%M:%S", "%H:%M:%S", 0, ""},
                         {"%H:%M:%S.%Qms", "%H:%M:%S.", 1, ""},
                         {"%Y-%m-%dT%H:%M:%S.%QmsZ", "%Y-%m-%dT%H:%M:%S.", 1, "Z"},
                         {"%d/%m/%y %H.%M", "%d/%m/%y %H.%M", 0, ""}};
constexpr uint32_t kNTsPats = sizeof kTsPats / sizeof *kTsPats;

std::string strftime_ref(char const* fmt, tm const& x)
{
  if (!*fmt) return {};
  char buf[128];
  size_t n = strftime(buf, sizeof buf, fmt, &x);
  return std::string(buf, n);
}

std::string ref_time(uint64_t ts_ns, TsPat const& tp, bool gmt)
{
  time_t const secs = static_cast<time_t>(ts_ns / 1000000000ull);
  unsigned const frac = static_cast<unsigned>(ts_ns % 1000000000ull);
  tm x{};
  if (gmt) gmtime_r(&secs, &x); else localtime_r(&secs, &x);
  std::string out = strftime_ref(tp.p1, x);
  char b[16];
  if (tp.frac == 1) { std::snprintf(b, sizeof b, "%03u", frac / 1000000); out += b; }
  else if (tp.frac == 2) { std::snprintf(b, sizeof b, "%06u", frac / 1000); out += b; }
  else if (tp.frac == 3) { std::snprintf(b, sizeof b, "%09u", frac); out += b; }
  out += strftime_ref(tp.p2, x);
  return out;
}

// reference line split: empty message => one empty line; otherwise split at '\n', a trailing '\n' adds no line
std::vector<std::string> ref_split(std::string const& m)
{
  std::vector<std::string> lines;
  if (m.empty()) { lines.emplace_back(); return lines; }
  size_t start = 0;
  while (true)
  {
    size_t nl = m.find('\n', start);
    if (nl == std::string::npos) { lines.push_back(m.substr(start)); break; }
    lines.push_back(m.substr(start, nl - start));
    start = nl + 1;
    if (start == m.size()) break; // trailing newline: no extra line
  }
  return lines;
}

std::string ref_trim_one_newline(std::string const& m)
{
  if (!m.empty() && m.back() == '\n') return m.substr(0, m.size() - 1);
  return m;
}

size_t first_diff(std::string const& a, std::string const& b)
{
  size_t n = std::min(a.size(), b.size());
  for (size_t i = 0; i < n; ++i) if (a[i] != b[i]) return i;
  return n;
}

std::string diff_msg(std::string const& got, std::string const& exp)
{
  size_t d = first_diff(got, exp);
  size_t from = d > 30 ? d - 30 : 0;
  return "first difference at byte " + std::to_string(d) + " (got " + std::to_string(got.size()) + " B, expected " +
    std::to_string(exp.size()) + " B): got \"..." + esc(got.substr(from, 90), 90) + "\" expected \"..." +
    esc(exp.substr(from, 90), 90) + "\"";
}

// ---------------------------------------------------------------------------------------------
// generators
// ---------------------------------------------------------------------------------------------
char const kFillChars[] = " *-_.:#0=+x<>^%(~!/\\\"'|@1";
constexpr uint32_t kNFill = sizeof kFillChars - 1;

Spec gen_spec(Choices& c)
{
  Spec s;
  s.present = true;
  switch (c.weighted({3, 3, 1}))
  {
  case 0: s.align = "<>^"[c.pick(3)]; break;
  case 1:
    s.has_fill = true;
    s.fill = kFillChars[c.pick(kNFill)];
    s.align = "<>^"[c.pick(3)];
    break;
  default: break;
  }
  switch (c.weighted({4, 3, 1, 1}))
  {
  case 0: s.width = 1 + static_cast<int>(c.pick(24)); break;
  case 1: break;
  case 2: s.width = 25 + static_cast<int>(c.pick(100)); break;
  default: s.width = 500 + static_cast<int>(c.pick(140)); break; // around the 512-byte inline buffer
  }
  switch (c.weighted({5, 3, 1, 1}))
  {
  case 0: break;
  case 1: s.prec = static_cast<int>(c.pick(9)); break;
  case 2: s.prec = 9 + static_cast<int>(c.pick(92)); break;
  default: s.prec = 500 + static_cast<int>(c.pick(2600)); break;
  }
  return s;
}

// literal chunks: '%' never directly followed by '(', braces only doubled
char const* const kLitPool[] = {" ",     " - ",    "[",      "] ",     ":",        ", ",     "|",       "LOG_",
                                "(",     ")",      "()",     "%",      "%%",       "% ",     "100% ",   "%)",
                                "%s %d", "%time",  "%message)", "{{",  "}}",       "{{}}",   "{{0}}",   "}}{{",
                                ":<10",  "::",     "(message)", "%[x]", "\t",      "#",      "=",       "%{{",
                                "}}%",   "x",      ") (",    "%:",     "{{:>8}}",  "% (",    "%%(",     "time"};
constexpr uint32_t kNLitPool = sizeof kLitPool / sizeof *kLitPool;

void gen_literal(Choices& c, std::string& raw, std::string& out)
{
  raw.clear();
  if (c.weighted({4, 1}) == 0)
  {
    raw = kLitPool[c.pick(kNLitPool)];
    if (raw == "%%(") raw = "%% ("; // keep the pool entry harmless: never '%' directly before '('
  }
  else
  {
    unsigned n = 1 + c.pick(10);
    for (unsigned k = 0; k < n; ++k)
    {
      char ch = static_cast<char>(0x20 + c.pick(95));
      if (ch == '{') raw += "{{";
      else if (ch == '}') raw += "}}";
      else if (ch == '(' && !raw.empty() && raw.back() == '%') raw += '[';
      else raw += ch;
    }
  }
  out = undouble(raw);
}

void finish_pattern(Pattern& p)
{
  p.text.clear();
  p.present = 0;
  p.with_spec = 0;
  p.n_attr = 0;
  p.order_differs = false;
  int prev = -1;
  for (auto& t : p.toks)
  {
    if (t.attr >= 0)
    {
      t.raw = std::string{"%("} + kAttrName[t.attr];
      if (t.spec.present) { t.raw += ':'; t.raw += spec_text(t.spec); }
      t.raw += ')';
      p.present |= bit(t.attr);
      if (t.spec.present) p.with_spec |= bit(t.attr);
      ++p.n_attr;
      if (t.attr < prev) p.order_differs = true;
      prev = t.attr;
    }
    else
    {
      // a literal that starts with '(' directly after a literal '%' would read as "%(": keep them apart
      if (!p.text.empty() && p.text.back() == '%' && !t.raw.empty() && t.raw[0] == '(')
      {
        t.raw.insert(t.raw.begin(), ' ');
        t.out.insert(t.out.begin(), ' ');
      }
      if (t.raw.find("{{") != std::string::npos || t.raw.find("}}") != std::string::npos) p.has_escaped_brace = true;
      if (t.raw.find('%') != std::string::npos) p.has_percent_literal = true;
    }
    p.text += t.raw;
  }
}

// must_have: attributes appended at the end when the generated token list does not contain them
Pattern gen_pattern(Choices& c, uint32_t must_have)
{
  Pattern p;
  uint32_t used = 0;
  auto add_attr = [&](int a)
  {
    Tok t;
    t.attr = a;
    if (chance(c, 1, 3)) t.spec = gen_spec(c);
    used |= bit(a);
    p.toks.push_back(std::move(t));
  };
  auto add_lit = [&]()
  {
    Tok t;
    gen_literal(c, t.raw, t.out);
    p.toks.push_back(std::move(t));
  };

  size_t const shape = c.weighted({10, 2, 2});
  if (shape == 1)
  {
    // all sixteen attributes, shuffled (all-zero choices: enum order)
    int order[A_COUNT];
    for (int i = 0; i < A_COUNT; ++i) order[i] = i;
    for (int i = 0; i < A_COUNT - 1; ++i)
    {
      int j = i + static_cast<int>(c.pick(static_cast<uint32_t>(A_COUNT - i)));
      std::swap(order[i], order[j]);
    }
    bool const with_literals = chance(c, 2, 3);
    for (int i = 0; i < A_COUNT; ++i)
    {
      if (with_literals && chance(c, 1, 2)) add_lit();
      add_attr(order[i]);
    }
    if (with_literals && chance(c, 1, 2)) add_lit();
  }
  else
  {
    unsigned const ntok = shape == 0 ? 1 + c.pick(10) : 8 + c.pick(26);
    for (unsigned k = 0; k < ntok; ++k)
    {
      bool want_attr = c.weighted({3, 2}) == 0;
      if (want_attr && used != (1u << A_COUNT) - 1u)
      {
        int unused[A_COUNT];
        uint32_t n = 0;
        for (int a = 0; a < A_COUNT; ++a) if (!(used & bit(a))) unused[n++] = a;
        add_attr(unused[c.pick(n)]);
      }
      else add_lit();
    }
  }
  for (int a = 0; a < A_COUNT; ++a)
  {
    if ((must_have & bit(a)) && !(used & bit(a)))
    {
      Tok sp;
      sp.raw = sp.out = " ";
      p.toks.push_back(sp);
      add_attr(a);
    }
  }
  finish_pattern(p);
  return p;
}

char const* const kWords[] = {"main",       "root",     "worker-1",   "12345",      "QuillBackend", "x",
                              "Hello World", "key",     "value",      "a.b.c",      "order_book",   "7",
                              "INFO",       "I",        "DEBUG",      "net::tcp",   "fn()",         "operator()",
                              "~Dtor",      "T<int>::f", "lambda#1",  "0",          "thread 3",     "W"};
constexpr uint32_t kNWords = sizeof kWords / sizeof *kWords;
char const* const kTricky[] = {"{}",     "{",       "}",      "{{",     "}}",      "{0}",          "{:>10}",  "{name}",
                               "%",      "%%",      "%(message)", "%(time)", "%(", "%()",          ")",       "(",
                               ":",      "%s",      "%(logger:<10)", "\\", "\"quoted\"", "a:b",    "k: v, k2: v2", "\t",
                               "  ",     "{}{}{}",  "%(message", "100%", "{:",     "\x7f",         "}{",      "%(named_args)"};
constexpr uint32_t kNTricky = sizeof kTricky / sizeof *kTricky;
char const* const kUtf8[] = {"h\xC3\xA9llo", "\xE6\x97\xA5\xE6\x9C\xAC\xE8\xAA\x9E", "\xF0\x9F\x98\x80",
                             "na\xC3\xAFve \xE2\x9C\x93", "\xCE\xA9", "caf\xC3\xA9 {} \xE2\x82\xAC"};
constexpr uint32_t kNUtf8 = sizeof kUtf8 / sizeof *kUtf8;

std::string gen_long(Choices& c)
{
  size_t len;
  switch (c.weighted({2, 1, 1, 1, 3, 3}))
  {
  case 0: len = 513; break;
  case 1: len = 511; break;
  case 2: len = 512; break;
  case 3: len = 1024 + c.pick(3) - 1; break;
  case 4: len = 514 + c.pick(300); break;
  default: len = 800 + c.pick(2273); break; // up to 3 KiB
  }
  std::string s;
  s.reserve(len + 16);
  size_t const kind = c.weighted({3, 1, 1});
  uint32_t const seed = c.pick(26);
  if (kind == 0)
  {
    // position-coded text: a shifted or duplicated block changes some byte
    for (size_t i = 0; s.size() < len; ++i) s += static_cast<char>('a' + (i * 7 + i / 26 + seed) % 26);
  }
  else if (kind == 1)
  {
    std::string frag = kTricky[seed % kNTricky];
    if (frag.empty()) frag = "{}";
    while (s.size() < len) { s += frag; s += static_cast<char>('0' + (s.size() % 10)); }
  }
  else
  {
    while (s.size() < len) s += (s.size() % 64 == 0) ? "{}" : "%(message) ";
  }
  s.resize(len);
  return s;
}

// free text for an attribute value
std::string gen_text(Choices& c, bool ascii_only, bool allow_long = true)
{
  switch (c.weighted({6, 2, 4, 3, 2, 1, 1}))
  {
  case 0: return kWords[c.pick(kNWords)];
  case 1: return {};
  case 2: return kTricky[c.pick(kNTricky)];
  case 3:
  {
    unsigned n = 2 + c.pick(3);
    std::string s;
    for (unsigned k = 0; k < n; ++k) s += chance(c, 1, 2) ? kTricky[c.pick(kNTricky)] : kWords[c.pick(kNWords)];
    return s;
  }
  case 4:
    if (allow_long) return gen_long(c);
    return std::string{kWords[c.pick(kNWords)]} + kTricky[c.pick(kNTricky)];
  case 5:
    if (!ascii_only) return kUtf8[c.pick(kNUtf8)];
    return std::string{kWords[c.pick(kNWords)]} + kTricky[c.pick(kNTricky)];
  default:
  {
    unsigned n = 1 + c.pick(12);
    std::string s;
    for (unsigned k = 0; k < n; ++k) s += static_cast<char>(0x20 + c.pick(95));
    return s;
  }
  }
}

char const* const kDirs[] = {"src", "include", "quill", "backend", "..", ".", "a b", "C:", "d{}", "%(x)", "x-y_z",
                             "very_long_directory_name_0123456789_0123456789", "d:e", "{{"};
constexpr uint32_t kNDirs = sizeof kDirs / sizeof *kDirs;
char const* const kFiles[] = {"file.cpp", "main.cc", "x.h", "PatternFormatter.h", "a", "with space.cpp", "fi:le.cpp",
                              "br{}ace.cpp", "noext", "%(message).cpp", ".hidden", "file.cpp.in", "{}"};
constexpr uint32_t kNFiles = sizeof kFiles / sizeof *kFiles;

// source path with 0..6 directories (relative, absolute, bare file, long)
std::string gen_path(Choices& c, bool ascii_only, bool allow_long)
{
  std::string p;
  size_t const shape = c.weighted({5, 3, 2, 1});
  unsigned nd = shape == 2 ? 0 : c.pick(7);
  if (shape == 1) p = "/";
  for (unsigned k = 0; k < nd; ++k)
  {
    if (!ascii_only && chance(c, 1, 12)) p += "d\xC3\xA9p\xC3\xB4t";
    else p += kDirs[c.pick(kNDirs)];
    p += '/';
  }
  if (shape == 3 && allow_long)
  {
    size_t target = 480 + c.pick(2600);
    std::string d = kDirs[c.pick(kNDirs)];
    unsigned i = 0;
    while (p.size() < target) { p += d; p += std::to_string(i++ % 10); p += '/'; }
  }
  if (!ascii_only && chance(c, 1, 12)) p += "fich\xC3\xA9.cpp";
  else p += kFiles[c.pick(kNFiles)];
  return p;
}

std::string gen_line_digits(Choices& c)
{
  switch (c.weighted({4, 1, 2, 1}))
  {
  case 0: return std::to_string(1 + c.pick(999));
  case 1: return "1";
  case 2: return std::to_string(c.range(1000, 4294967295ll));
  default: return "0";
  }
}

uint64_t gen_timestamp(Choices& c)
{
  int64_t s = c.range(T_2001, T_2101 - 1);
  int64_t ns;
  switch (c.weighted({2, 1, 1, 1}))
  {
  case 0: ns = c.range(0, 999999999); break;
  case 1: ns = 0; break;
  case 2: ns = 999999999; break;
  default: ns = c.range(0, 999) * 1000000; break;
  }
  return static_cast<uint64_t>(s) * 1000000000ull + static_cast<uint64_t>(ns);
}

void note_value_labels(Report& r, std::string const& v)
{
  if (v.empty()) r.label("empty_value");
  if (v.size() > 512) r.label("long_value_over_512");
  if (v.find('{') != std::string::npos || v.find('}') != std::string::npos) r.label("value_with_braces");
  if (v.find('%') != std::string::npos) r.label("value_with_percent");
  if (v.find("%(") != std::string::npos) r.label("value_with_attr_lookalike");
  for (char ch : v) if (static_cast<unsigned char>(ch) >= 0x80) { r.label("utf8_value"); break; }
}

void note_pattern_labels(Report& r, Pattern const& p)
{
  if (p.n_attr == A_COUNT) r.label("all_16_attributes");
  if (p.n_attr == 0) r.label("no_attribute");
  if (p.with_spec) r.label("has_spec");
  if (p.order_differs) r.label("order_differs_from_enum");
  if (p.has_escaped_brace) r.label("escaped_braces_literal");
  if (p.has_percent_literal) r.label("percent_literal");
  if (!p.has(A_MESSAGE)) r.label("no_message_attribute");
  bool adjacent = false;
  for (size_t i = 0; i + 1 < p.toks.size(); ++i)
    if (p.toks[i].attr >= 0 && p.toks[i + 1].attr >= 0) adjacent = true;
  if (adjacent) r.label("adjacent_attributes");
  for (auto const& t : p.toks)
  {
    if (t.attr < 0 || !t.spec.present) continue;
    if (t.spec.has_fill && t.spec.fill == ':') r.label("fill_colon");
    if (t.spec.has_fill && (t.spec.fill == '%' || t.spec.fill == '(')) r.label("fill_percent_or_paren");
    if (t.spec.align == '^') r.label("centre_align");
    if (t.spec.prec >= 0) r.label("precision");
    if (t.spec.width >= 500) r.label("width_over_500");
  }
}

// ---------------------------------------------------------------------------------------------
// Part A: direct PatternFormatter::format
// ---------------------------------------------------------------------------------------------
struct Inputs
{
  uint64_t ts_ns{1700000000123456789ull};
  std::string thread_id{"<absent:thread_id>"};
  std::string thread_name{"<absent:thread_name>"};
  std::string process_id{"<absent:process_id>"};
  std::string logger{"<absent:logger>"};
  std::string level_desc{"<absent:log_level>"};
  std::string level_code{"<absent:short_code>"};
  std::string source_location{"absent_dir/absent_file.cpp:4242"};
  std::string function{"<absent:caller_function>"};
  std::string msg_format{"{}"};
  bool has_tags{true};
  std::string tags{"<absent:tags>"};
  int level{4};
  int event{0};
  bool na_null{false};
  std::vector<std::pair<std::string, std::string>> na{{"absent_key", "absent_value"}};
  std::string message{"<absent:message>"};
};

void gen_attr_value(Choices& c, Pattern const& p, int a, Inputs& in, bool loc_ascii, bool& loc_done)
{
  bool const ascii = p.spec_on(a);
  switch (a)
  {
  case A_TIME: in.ts_ns = gen_timestamp(c); break;
  case A_FILE_NAME:
  case A_LINE_NUMBER:
  case A_FULL_PATH:
  case A_SOURCE_LOCATION:
  case A_SHORT_SOURCE_LOCATION:
    if (!loc_done)
    {
      loc_done = true;
      in.source_location = gen_path(c, loc_ascii, true) + ":" + gen_line_digits(c);
    }
    break;
  case A_CALLER_FUNCTION: in.function = gen_text(c, ascii); break;
  case A_LOG_LEVEL:
    in.level_desc = c.weighted({2, 1}) == 0 ? std::string{kLevelName[c.pick(9)]} : gen_text(c, ascii);
    break;
  case A_LOG_LEVEL_SHORT_CODE:
    in.level_code = c.weighted({2, 1}) == 0 ? std::string{kLevelCode[c.pick(9)]} : gen_text(c, ascii);
    break;
  case A_LOGGER: in.logger = gen_text(c, ascii); break;
  case A_THREAD_ID: in.thread_id = c.weighted({2, 1}) == 0 ? std::to_string(c.pick(4194304)) : gen_text(c, ascii); break;
  case A_THREAD_NAME: in.thread_name = gen_text(c, ascii); break;
  case A_PROCESS_ID: in.process_id = c.weighted({2, 1}) == 0 ? std::to_string(c.pick(4194304)) : gen_text(c, ascii); break;
  case A_MESSAGE:
  {
    in.message = gen_text(c, ascii);
    // newlines pass through format() untouched (splitting is the backend's job, see part B)
    size_t nl = c.weighted({5, 1, 1, 1});
    if (nl == 1) in.message += "\n";
    else if (nl == 2) in.message = "\n" + in.message + "\nsecond line";
    else if (nl == 3) in.message.insert(in.message.size() / 2, "\n\n");
    break;
  }
  case A_TAGS:
    in.has_tags = c.weighted({3, 1}) == 0;
    in.tags = in.has_tags ? (c.weighted({1, 1}) == 0 ? std::string{"#tag1 #tag2 "} : gen_text(c, ascii)) : std::string{};
    break;
  case A_NAMED_ARGS:
  {
    in.na.clear();
    in.na_null = c.weighted({5, 1}) == 1;
    if (!in.na_null)
    {
      unsigned n = c.pick(6);
      for (unsigned k = 0; k < n; ++k)
      {
        std::string key = c.weighted({3, 1}) == 0 ? std::string{kWords[c.pick(kNWords)]} : gen_text(c, ascii, false);
        std::string val = gen_text(c, ascii);
        in.na.emplace_back(std::move(key), std::move(val));
      }
    }
    break;
  }
  default: break;
  }
}

Vals vals_from_inputs(Inputs const& in, TsPat const& tp, bool gmt)
{
  Vals v;
  v[A_TIME] = ref_time(in.ts_ns, tp, gmt);
  derive_location(in.source_location, v);
  v[A_CALLER_FUNCTION] = in.function;
  v[A_LOG_LEVEL] = in.level_desc;
  v[A_LOG_LEVEL_SHORT_CODE] = in.level_code;
  v[A_LOGGER] = in.logger;
  v[A_THREAD_ID] = in.thread_id;
  v[A_THREAD_NAME] = in.thread_name;
  v[A_PROCESS_ID] = in.process_id;
  v[A_MESSAGE] = in.message;
  v[A_TAGS] = in.has_tags ? in.tags : std::string{};
  v[A_NAMED_ARGS] = in.na_null ? std::string{} : join_named(in.na);
  return v;
}

// a string_view that is NOT followed by a NUL: a value read as C string would show the tail
struct View
{
  std::string buf;
  size_t n;
  explicit View(std::string const& s) : buf(s + "\x7e!TAIL"), n(s.size()) {}
  std::string_view sv() const { return std::string_view{buf.data(), n}; }
};

void render_values(Report& r, Pattern const& p, Vals const& v)
{
  std::string ln = "   ";
  for (int a = 0; a < A_COUNT; ++a)
  {
    if (!p.has(a)) continue;
    ln += " ";
    ln += kAttrName[a];
    ln += "=\"" + esc(v[static_cast<size_t>(a)], 32) + "\"";
    if (ln.size() > 500) { ln += " ..."; break; }
  }
  r.line(ln);
}

void direct_case(Choices& c, Report& r)
{
  r.label("direct");
  Pattern const p = gen_pattern(c, 0);
  TsPat const& tp = kTsPats[p.has(A_TIME) ? c.pick(kNTsPats) : 0];
  bool const gmt = c.weighted({1, 1}) == 0;
  bool const multi_flag = c.weighted({1, 1}) == 0; // irrelevant to format(); must not influence it
  r.line("direct pattern=\"" + esc(p.text, 500) + "\" ts=\"" + tp.full + "\" " + (gmt ? "GMT" : "Local") +
         (multi_flag ? " multi=on" : " multi=off"));
  note_pattern_labels(r, p);
  r.nontrivial = (p.n_attr >= 3 && p.order_differs) || p.with_spec != 0;

  std::unique_ptr<quill::PatternFormatter> pf;
  try
  {
    pf = std::make_unique<quill::PatternFormatter>(quill::PatternFormatterOptions{
      p.text, tp.full, gmt ? quill::Timezone::GmtTime : quill::Timezone::LocalTime, multi_flag});
  }
  catch (std::exception const& e)
  {
    r.fail("valid pattern \"" + esc(p.text, 400) + "\" rejected by the constructor: " + e.what());
    return;
  }

  unsigned const nstmt = 1 + static_cast<unsigned>(c.weighted({6, 2, 1}));
  Inputs in;
  bool const loc_ascii = p.spec_on_any(kLocationAttrs);
  for (unsigned s = 0; s < nstmt; ++s)
  {
    bool loc_done = false;
    for (auto const& t : p.toks)
    {
      if (t.attr < 0) continue;
      if (s > 0 && !chance(c, 1, 2)) continue; // later statements through the same formatter change a subset
      gen_attr_value(c, p, t.attr, in, loc_ascii, loc_done);
    }
    if (chance(c, 1, 4)) in.msg_format = gen_text(c, false, false);
    in.level = static_cast<int>(c.pick(12));
    in.event = static_cast<int>(c.pick(6));

    Vals const v = vals_from_inputs(in, tp, gmt);
    std::string const exp = ref_render(p, v);
    render_values(r, p, v);
    for (int a = 0; a < A_COUNT; ++a) if (p.has(a)) note_value_labels(r, v[static_cast<size_t>(a)]);
    if (exp.size() > 512) r.label("line_over_512");
    if (p.has(A_TAGS) && !in.has_tags) r.label("tags_null");
    if (p.has(A_NAMED_ARGS)) r.label(in.na_null ? "named_args_null" : (in.na.empty() ? "named_args_empty" : "named_args"));
    if (p.has(A_MESSAGE) && in.message.find('\n') != std::string::npos) r.label("newline_in_message_direct");

    quill::MacroMetadata const md{in.source_location.c_str(),
                                  in.function.c_str(),
                                  in.msg_format.c_str(),
                                  in.has_tags ? in.tags.c_str() : nullptr,
                                  static_cast<quill::LogLevel>(in.level),
                                  static_cast<quill::MacroMetadata::Event>(in.event)};
    View const tid{in.thread_id}, tname{in.thread_name}, pid{in.process_id}, lg{in.logger}, ld{in.level_desc},
      lc{in.level_code}, msg{in.message};
    std::string got;
    try
    {
      std::string_view sv = pf->format(in.ts_ns, tid.sv(), tname.sv(), pid.sv(), lg.sv(), ld.sv(), lc.sv(), md,
                                       in.na_null ? nullptr : &in.na, msg.sv());
      got.assign(sv.data(), sv.size());
    }
    catch (std::exception const& e)
    {
      r.fail("format() threw for valid pattern \"" + esc(p.text, 400) + "\": " + e.what());
      return;
    }
    if (got != exp)
    {
      r.fail("statement #" + std::to_string(s) + " pattern \"" + esc(p.text, 400) + "\": " + diff_msg(got, exp));
      return;
    }
  }
  if (nstmt > 1) r.label("formatter_reused");
}

// ---------------------------------------------------------------------------------------------
// invalid patterns must be rejected by the constructor with quill::QuillError
// ---------------------------------------------------------------------------------------------
char const* const kUnknownNames[] = {"foo", "msg", "level", "Time", "MESSAGE", "messages", "log_level_short", "file",
                                     "function", "thread", "pid", "timestamp", "short_source", "named_arg", "tag", "line"};
constexpr uint32_t kNUnknown = sizeof kUnknownNames / sizeof *kUnknownNames;

void invalid_case(Choices& c, Report& r)
{
  r.label("invalid_pattern");
  r.nontrivial = false;
  size_t const kind = c.weighted({3, 3, 3, 3, 1});
  std::string bad;
  bool no_close_after = false;
  char const* what = "";
  switch (kind)
  {
  case 0:
    what = "unknown attribute";
    bad = std::string{"%("} + kUnknownNames[c.pick(kNUnknown)] + ")";
    break;
  case 1:
  {
    what = "misspelt attribute";
    std::string name = kAttrName[c.pick(A_COUNT)];
    size_t pos = c.pick(static_cast<uint32_t>(name.size()));
    switch (c.pick(4))
    {
    case 0: name.erase(pos, 1); break;                                        // dropped letter
    case 1: name.insert(pos, 1, name[pos]); break;                            // doubled letter
    case 2: name[pos] = name[pos] == '_' ? '-' : static_cast<char>(name[pos] - 32); break; // upper case / dash
    default: name += 's'; break;
    }
    // "named_arg" + 's' etc. can never collide: every mutation leaves a string that is not one of the 16 names
    for (int a = 0; a < A_COUNT; ++a) if (name == kAttrName[a]) name += "_x";
    bad = "%(" + name;
    if (chance(c, 1, 3)) bad += ":<10";
    bad += ")";
    break;
  }
  case 2:
  {
    what = "unterminated %(";
    bad = std::string{"%("} + kAttrName[c.pick(A_COUNT)];
    if (chance(c, 1, 3)) bad += ":<5";
    no_close_after = true;
    break;
  }
  case 3:
  {
    what = "space in the attribute name";
    std::string name = kAttrName[c.pick(A_COUNT)];
    switch (c.pick(3))
    {
    case 0: name = " " + name; break;
    case 1: name += " "; break;
    default:
    {
      size_t us = name.find('_');
      if (us != std::string::npos) name[us] = ' '; else name.insert(name.size() / 2, " ");
      break;
    }
    }
    bad = "%(" + name;
    if (chance(c, 1, 3)) bad += ":>8";
    bad += ")";
    break;
  }
  default:
    what = "empty attribute name";
    bad = chance(c, 1, 2) ? "%(:<5)" : "%()";
    break;
  }

  // valid surroundings
  std::string prefix, suffix;
  uint32_t used = 0;
  auto some_valid = [&](std::string& dst, bool closing_allowed)
  {
    unsigned n = c.pick(4);
    for (unsigned k = 0; k < n; ++k)
    {
      if (closing_allowed && c.weighted({1, 1}) == 0)
      {
        int a = static_cast<int>(c.pick(A_COUNT));
        if (used & bit(a)) continue;
        used |= bit(a);
        dst += std::string{"%("} + kAttrName[a] + ")";
      }
      else
      {
        std::string raw, out;
        gen_literal(c, raw, out);
        if (!closing_allowed) for (auto& ch : raw) if (ch == ')') ch = ']';
        if (!dst.empty() && dst.back() == '%' && raw[0] == '(') dst += ' ';
        dst += raw;
      }
    }
  };
  some_valid(prefix, true);
  some_valid(suffix, !no_close_after);
  // a prefix that ends in a literal '%' is fine: "%%(bad)" still contains "%(bad)"
  std::string const pat = prefix + bad + suffix;
  r.line(std::string{"invalid ("} + what + ") pattern=\"" + esc(pat, 400) + "\" must throw QuillError");
  r.label(std::string{"invalid."} + what);

  bool threw_quill = false, threw_other = false;
  std::string other;
  try
  {
    quill::PatternFormatter pf{quill::PatternFormatterOptions{pat, "%H:%M:%S", quill::Timezone::GmtTime, true}};
  }
  catch (quill::QuillError const&) { threw_quill = true; }
  catch (std::exception const& e) { threw_other = true; other = e.what(); }
  if (threw_other) r.fail("invalid pattern \"" + esc(pat, 400) + "\" rejected with a non-QuillError exception: " + other);
  else if (!threw_quill) r.fail(std::string{"invalid pattern ("} + what + ") accepted by the constructor: \"" + esc(pat, 400) + "\"");
}

// ---------------------------------------------------------------------------------------------
// Part B: end to end through the manual backend worker
// ---------------------------------------------------------------------------------------------
struct Rec
{
  std::string msg, stmt;
  int level;
  bool na_null;
  std::vector<std::pair<std::string, std::string>> na;
  std::string thread_id, thread_name, process_id, logger, level_desc, level_code;
  uint64_t ts;
};

class RecordingSink final : public quill::Sink
{
public:
  explicit RecordingSink(std::optional<quill::PatternFormatterOptions> o = std::nullopt) : quill::Sink(std::move(o)) {}

  void write_log(quill::MacroMetadata const*, uint64_t log_timestamp, std::string_view thread_id,
                 std::string_view thread_name, std::string const& process_id, std::string_view logger_name,
                 quill::LogLevel log_level, std::string_view log_level_description,
                 std::string_view log_level_short_code,
                 std::vector<std::pair<std::string, std::string>> const* named_args, std::string_view log_message,
                 std::string_view log_statement) override
  {
    if (recs.size() >= cap) throw std::runtime_error{"verif: recording sink received more calls than any split allows"};
    Rec x;
    x.msg.assign(log_message.data(), log_message.size());
    x.stmt.assign(log_statement.data(), log_statement.size());
    x.level = static_cast<int>(log_level);
    x.na_null = named_args == nullptr;
    if (named_args) x.na = *named_args;
    x.thread_id.assign(thread_id.data(), thread_id.size());
    x.thread_name.assign(thread_name.data(), thread_name.size());
    x.process_id = process_id;
    x.logger.assign(logger_name.data(), logger_name.size());
    x.level_desc.assign(log_level_description.data(), log_level_description.size());
    x.level_code.assign(log_level_short_code.data(), log_level_short_code.size());
    x.ts = log_timestamp;
    recs.push_back(std::move(x));
  }
  void flush_sink() override { ++flushes; }

  std::vector<Rec> recs;
  size_t cap{64};
  size_t flushes{0};
};

// a sink filter whose verdict is a pure function of the message line it is shown (kind 0 = no filter): with the
// multi-line flag on the backend asks it once per message line, so a statement can lose its FIRST line and keep later ones
bool line_rejected(int kind, std::string_view m)
{
  if (kind == 1) return (m.size() % 2) == 0;
  if (kind == 2) return verif::fnv1a(m.data(), m.size()) % 3 == 0;
  return false;
}
class LineFilter final : public quill::Filter
{
public:
  explicit LineFilter(int k) : quill::Filter("verif_line_filter"), kind(k) {}
  bool filter(quill::MacroMetadata const*, uint64_t, std::string_view, std::string_view, std::string_view, quill::LogLevel,
              std::string_view log_message, std::string_view) noexcept override
  {
    return !line_rejected(kind, log_message);
  }
  int kind;
};

class GenClock final : public quill::UserClockSource
{
public:
  uint64_t now() const override { return t; }
  uint64_t t{0};
};

quill::ManualBackendWorker* g_worker = nullptr;
std::vector<std::string> g_errors;
GenClock g_clock;
std::string g_tid, g_tname, g_pid;

void ensure_backend()
{
  if (g_worker) return;
  pthread_setname_np(pthread_self(), "verif-main");
  char nm[32] = {0};
  pthread_getname_np(pthread_self(), nm, sizeof nm);
  g_tname = nm;
  g_tid = std::to_string(static_cast<uint32_t>(::syscall(SYS_gettid)));
  g_pid = std::to_string(static_cast<long>(::getpid()));
  g_worker = quill::Backend::acquire_manual_backend_worker();
  quill::BackendOptions bo;
  bo.error_notifier = [](std::string const& m) { if (g_errors.size() < 16) g_errors.push_back(m); };
  bo.log_timestamp_ordering_grace_period = std::chrono::microseconds{0};
  bo.check_backend_singleton_instance = false;
  bo.transit_event_buffer_initial_capacity = 2; // legal (power of two); see reset_transit_buffers()
  if (!g_printable_check) bo.check_printable_char = {};
  g_worker->init(bo);
}

// every case starts with the 2-slot buffer of decoded events a new thread would get
void reset_transit_buffers()
{
  quill::detail::BackendWorker* bw = g_worker->_backend_worker;
  for (quill::detail::ThreadContext* tc : bw->_active_thread_contexts_cache)
    if (tc->_transit_event_buffer && tc->_transit_event_buffer->empty())
      tc->_transit_event_buffer = std::make_shared<quill::detail::TransitEventBuffer>(bw->_options.transit_event_buffer_initial_capacity);
}

// run-time constructed metadata must outlive every statement that refers to it: interned, never relocated
struct MdEntry
{
  std::string sl, fn, fmt, tags;
  bool has_tags;
  std::unique_ptr<quill::MacroMetadata> md;
};
std::deque<MdEntry> g_md_store;
std::map<std::string, MdEntry*> g_md_index;

quill::MacroMetadata const* intern_md(std::string const& sl, std::string const& fn, std::string const& fmt,
                                      bool has_tags, std::string const& tags, quill::LogLevel lvl,
                                      quill::MacroMetadata::Event ev)
{
  std::string key = sl;
  key += '\0'; key += fn;
  key += '\0'; key += fmt;
  key += '\0'; key += has_tags ? "T" + tags : std::string{"N"};
  key += '\0'; key += static_cast<char>('A' + static_cast<int>(lvl));
  key += static_cast<char>('A' + static_cast<int>(ev));
  auto it = g_md_index.find(key);
  if (it != g_md_index.end()) return it->second->md.get();
  g_md_store.emplace_back();
  MdEntry& e = g_md_store.back();
  e.sl = sl; e.fn = fn; e.fmt = fmt; e.tags = tags; e.has_tags = has_tags;
  e.md = std::make_unique<quill::MacroMetadata>(e.sl.c_str(), e.fn.c_str(), e.fmt.c_str(),
                                                has_tags ? e.tags.c_str() : nullptr, lvl, ev);
  g_md_index.emplace(std::move(key), &e);
  return e.md.get();
}

char const* const kSegWords[] = {"line", "second line", "x", "value=42", "  indented", "end.", "a b c", "0"};
constexpr uint32_t kNSegWords = sizeof kSegWords / sizeof *kSegWords;

// message as a join of 1..6 segments with '\n': covers none / leading / trailing / doubled / only newlines / empty
std::string gen_message_e2e(Choices& c, bool ascii_only)
{
  unsigned const nseg = 1 + static_cast<unsigned>(c.weighted({4, 3, 2, 1, 1, 1}));
  std::string m;
  for (unsigned k = 0; k < nseg; ++k)
  {
    if (k) m += '\n';
    switch (c.weighted({5, 4, 2, 1, 1}))
    {
    case 0: m += kSegWords[c.pick(kNSegWords)]; break;
    case 1: break; // empty segment
    case 2: m += kTricky[c.pick(kNTricky)]; break;
    case 3: m += gen_long(c); break;
    default:
      if (!ascii_only && !g_printable_check) m += kUtf8[c.pick(kNUtf8)];
      else m += "plain";
      break;
    }
  }
  // keep e2e messages printable: BackendOptions::check_printable_char (another property) would rewrite them
  for (auto& ch : m) if (ch == '\t' || ch == '\x7f') ch = '~';
  return m;
}

std::string printable_text(Choices& c, bool ascii_only)
{
  std::string t = gen_text(c, ascii_only, false);
  for (auto& ch : t) if (ch == '\t' || ch == '\x7f') ch = '~';
  return t;
}

struct ExpStmt
{
  Vals v;             // everything except time and message
  uint64_t ts;
  std::vector<std::string> lines; // message text of each expected write_log call
  int level;
  bool has_named;
  std::vector<std::pair<std::string, std::string>> na;
  int logger_idx;
  bool may_hit_separator_class{false};
};

char const* const kNaNames[] = {"a", "b", "name", "user_id", "x1", "value", "key", "count"};
constexpr uint32_t kNNaNames = sizeof kNaNames / sizeof *kNaNames;
char const* const kNaLits[] = {"", " ", "k=", " and ", "\n", "line\n", " end", "\n\n", "first\nsecond ", "%(message) "};
constexpr uint32_t kNNaLits = sizeof kNaLits / sizeof *kNaLits;

void e2e_case(Choices& c, Report& r)
{
  ensure_backend();
  reset_transit_buffers();
  r.label("e2e");
  g_errors.clear();

  // ---- logger pattern and options ----
  uint32_t must = 0;
  if (g_must_time) must |= bit(A_TIME); // C13's end-to-end job: every logger pattern renders the time
  if (c.weighted({7, 1}) == 0) must |= bit(A_MESSAGE);
  size_t const focus = c.weighted({3, 2, 1});
  if (focus == 1) must |= bit(A_FILE_NAME) | bit(A_LINE_NUMBER) | bit(A_CALLER_FUNCTION);
  else if (focus == 2) must |= bit(A_SHORT_SOURCE_LOCATION) | bit(A_SOURCE_LOCATION) | bit(A_FULL_PATH) | bit(A_NAMED_ARGS);
  Pattern const p = gen_pattern(c, must);
  TsPat const& tp = kTsPats[p.has(A_TIME) ? c.pick(kNTsPats) : 0];
  bool const gmt = c.weighted({1, 1}) == 0;
  bool const multi = c.weighted({2, 1}) == 0;
  quill::PatternFormatterOptions const pfo{p.text, tp.full, gmt ? quill::Timezone::GmtTime : quill::Timezone::LocalTime, multi};

  // ---- sinks: plain, or with an override pattern (same multi-line flag), or both ----
  size_t const sink_shape = c.weighted({6, 1, 1});
  bool const want_plain = sink_shape != 1, want_override = sink_shape != 0;
  Pattern op;
  TsPat const* otp = &kTsPats[0];
  bool ogmt = true;
  if (want_override)
  {
    op = gen_pattern(c, bit(A_MESSAGE));
    otp = &kTsPats[op.has(A_TIME) ? c.pick(kNTsPats) : 0];
    ogmt = c.weighted({1, 1}) == 0;
    r.label("sink_override");
  }
  std::shared_ptr<RecordingSink> plain_sink, over_sink;
  std::vector<std::shared_ptr<quill::Sink>> sinks;
  if (want_plain) { plain_sink = std::make_shared<RecordingSink>(); sinks.push_back(plain_sink); }
  if (want_override)
  {
    over_sink = std::make_shared<RecordingSink>(quill::PatternFormatterOptions{
      op.text, otp->full, ogmt ? quill::Timezone::GmtTime : quill::Timezone::LocalTime, multi});
    // the backend walks the logger's sinks in order: the overriding sink before or after the plain one
    if (want_plain && c.weighted({1, 1}) == 1) { sinks.insert(sinks.begin(), over_sink); r.label("override_sink_before_plain_sink"); }
    else sinks.push_back(over_sink);
  }
  // per-sink line filters (most cases none)
  int const plain_filter = static_cast<int>(c.weighted({4, 1, 1}));
  int const over_filter = static_cast<int>(c.weighted({4, 1, 1}));
  if (plain_sink && plain_filter) { plain_sink->add_filter(std::make_unique<LineFilter>(plain_filter)); r.label("sink_line_filter"); }
  if (over_sink && over_filter) { over_sink->add_filter(std::make_unique<LineFilter>(over_filter)); r.label("override_sink_line_filter"); }

  // ---- a second logger on the same sinks: the same options (the backend shares one formatter between loggers whose
  // options compare equal), or options that differ from the first logger's in exactly ONE field -- then nothing may be
  // shared and each logger's statements follow its own pattern / time format / zone / multi-line flag ----
  bool const two_loggers = chance(c, 1, 3);
  Pattern pl[2] = {p, p};
  TsPat const* tpl[2] = {&tp, &tp};
  bool gmtl[2] = {gmt, gmt};
  bool multil[2] = {multi, multi};
  char const* second_diff = "same options";
  if (two_loggers)
  {
    switch (c.weighted({3, 3, 2, 2, 2}))
    {
    case 0: break;
    case 1: multil[1] = !multi; second_diff = "multi-line flag differs"; r.label("second_logger_differs_in_multi_line_flag"); break;
    case 2: gmtl[1] = !gmt; second_diff = "time zone differs"; r.label("second_logger_differs_in_time_zone"); break;
    case 3:
    {
      TsPat const& other = kTsPats[c.pick(kNTsPats)];
      if (other.full != tp.full) { tpl[1] = &other; second_diff = "timestamp pattern differs"; r.label("second_logger_differs_in_timestamp_pattern"); }
      break;
    }
    default:
    {
      Pattern q = gen_pattern(c, must);
      if (q.text != p.text) { pl[1] = q; second_diff = "format pattern differs"; r.label("second_logger_differs_in_format_pattern"); }
      break;
    }
    }
  }
  quill::PatternFormatterOptions const pfo1{pl[1].text, tpl[1]->full, gmtl[1] ? quill::Timezone::GmtTime : quill::Timezone::LocalTime, multil[1]};

  auto spec_any = [&](int a) { return p.spec_on(a) || pl[1].spec_on(a) || (want_override && op.spec_on(a)); };
  auto spec_any_mask = [&](uint32_t m) { return p.spec_on_any(m) || pl[1].spec_on_any(m) || (want_override && op.spec_on_any(m)); };

  // ---- loggers ----
  std::string name0 = printable_text(c, spec_any(A_LOGGER));
  if (name0.empty()) name0 = "root";
  std::string const name1 = name0 + "#2";
  r.line("e2e pattern=\"" + esc(p.text, 300) + "\" ts=\"" + tp.full + "\" " + (gmt ? "GMT" : "Local") +
         (multi ? " multi=on" : " multi=off") + " logger=\"" + esc(name0, 40) + "\"" + (two_loggers ? std::string{" (+second logger: "} + second_diff + ")" : std::string{}));
  if (two_loggers && pl[1].text != p.text) r.line("  second logger pattern=\"" + esc(pl[1].text, 300) + "\"");
  if (two_loggers && tpl[1] != &tp) r.line(std::string{"  second logger ts=\""} + tpl[1]->full + "\"");
  if (want_override) r.line(std::string{"  override sink pattern=\""} + esc(op.text, 300) + "\" ts=\"" + otp->full + "\"" + (want_plain ? " (plus plain sink)" : ""));
  note_pattern_labels(r, p);
  if (!multi) r.label("flag_off");
  if (two_loggers) r.label(std::string{second_diff} == "same options" ? "two_loggers_shared_options" : "two_loggers_options_differ_in_one_field");

  if (quill::Frontend::get_number_of_loggers() != 0)
  {
    for (int k = 0; k < 50 && quill::Frontend::get_number_of_loggers() != 0; ++k) g_worker->poll_one();
    if (quill::Frontend::get_number_of_loggers() != 0)
    {
      r.inconclusive = true;
      r.message = "loggers of an earlier case are still registered";
      return;
    }
  }

  quill::Logger* loggers[2] = {nullptr, nullptr};
  try
  {
    loggers[0] = quill::Frontend::create_or_get_logger(name0, sinks, pfo, quill::ClockSourceType::User, &g_clock);
    if (two_loggers) loggers[1] = quill::Frontend::create_or_get_logger(name1, sinks, pfo1, quill::ClockSourceType::User, &g_clock);
  }
  catch (std::exception const& e)
  {
    r.fail(std::string{"create_or_get_logger threw: "} + e.what());
    return;
  }

  // ---- statements ----
  unsigned const nstmt = 1 + static_cast<unsigned>(c.weighted({4, 3, 2, 1}));
  bool const poll_each = c.weighted({1, 1}) == 1;
  std::vector<ExpStmt> exps;
  bool any_multi_line = false;
  size_t expected_calls = 0;
  bool const msg_ascii = spec_any(A_MESSAGE);
  bool const loc_ascii = spec_any_mask(kLocationAttrs);

  auto do_poll = [&](unsigned n_events)
  {
    size_t const cap = expected_calls + 8;
    if (plain_sink) plain_sink->cap = cap;
    if (over_sink) over_sink->cap = cap;
    for (unsigned k = 0; k < n_events + 2; ++k) g_worker->poll_one();
  };

  unsigned pending = 0;
  for (unsigned s = 0; s < nstmt; ++s)
  {
    ExpStmt e;
    e.logger_idx = (two_loggers && chance(c, 1, 2)) ? 1 : 0;
    quill::Logger* lg = loggers[e.logger_idx];
    e.v[A_LOGGER] = e.logger_idx ? name1 : name0;
    e.v[A_THREAD_ID] = g_tid;
    e.v[A_THREAD_NAME] = g_tname;
    e.v[A_PROCESS_ID] = g_pid;
    e.ts = gen_timestamp(c);
    g_clock.t = e.ts;
    e.level = static_cast<int>(c.pick(9));
    e.v[A_LOG_LEVEL] = kLevelName[e.level];
    e.v[A_LOG_LEVEL_SHORT_CODE] = kLevelCode[e.level];
    e.has_named = false;
    auto const lvl = static_cast<quill::LogLevel>(e.level);

    size_t const kind = c.weighted({5, 2, g_no_runtime_metadata ? 0u : 4u, 2});
    std::string message;
    std::string desc;
    if (kind == 0 || kind == 1)
    {
      // compile-time style metadata (constructed at run time), fixed or dynamic level
      std::string const sl = gen_path(c, loc_ascii, false) + ":" + gen_line_digits(c);
      std::string const fn = printable_text(c, spec_any(A_CALLER_FUNCTION));
      bool const has_tags = c.weighted({2, 1}) == 1;
      std::string const tags = has_tags ? (c.weighted({1, 1}) == 0 ? std::string{"#net #io "} : printable_text(c, spec_any(A_TAGS))) : std::string{};
      derive_location(sl, e.v);
      e.v[A_CALLER_FUNCTION] = fn;
      e.v[A_TAGS] = tags;
      message = gen_message_e2e(c, msg_ascii);
      bool const dyn = kind == 1;
      quill::LogLevel const md_level = dyn ? quill::LogLevel::Dynamic : lvl;
      size_t variant = c.weighted({4, 1, 1});
      if (variant == 2 && (message.size() > 64 || message.find('{') != std::string::npos || message.find('}') != std::string::npos)) variant = 0;
      if (variant == 0)
      {
        auto const* md = intern_md(sl, fn, "{}", has_tags, tags, md_level, quill::MacroMetadata::Event::Log);
        if (dyn) lg->log_statement<false, true>(lvl, md, message);
        else lg->log_statement<false, false>(quill::LogLevel::None, md, message);
      }
      else if (variant == 1)
      {
        auto const* md = intern_md(sl, fn, "{}{}", has_tags, tags, md_level, quill::MacroMetadata::Event::Log);
        std::string const a = message.substr(0, message.size() / 2), b = message.substr(message.size() / 2);
        if (dyn) lg->log_statement<false, true>(lvl, md, a, b);
        else lg->log_statement<false, false>(quill::LogLevel::None, md, a, b);
        r.label("message_from_two_args");
      }
      else
      {
        auto const* md = intern_md(sl, fn, message, has_tags, tags, md_level, quill::MacroMetadata::Event::Log);
        if (dyn) lg->log_statement<false, true>(lvl, md);
        else lg->log_statement<false, false>(quill::LogLevel::None, md);
        r.label("message_in_format_string");
      }
      if (dyn) r.label("dynamic_level");
      desc = std::string{dyn ? "dynamic " : "plain "} + "loc=\"" + esc(sl, 60) + "\" fn=\"" + esc(fn, 30) + "\"" +
        (has_tags ? " tags=\"" + esc(tags, 20) + "\"" : "");
    }
    else if (kind == 2)
    {
      // LOG_RUNTIME_METADATA style: message, file, line, function travel as arguments
      r.label("runtime_metadata");
      std::string file = gen_path(c, loc_ascii, chance(c, 1, 8));
      std::string fn = printable_text(c, spec_any(A_CALLER_FUNCTION));
      message = gen_message_e2e(c, msg_ascii);
      bool const line_as_string = c.weighted({1, 1}) == 1;
      std::string line = line_as_string ? gen_line_digits(c) : std::to_string(c.weighted({3, 1}) == 0 ? 1 + c.pick(9999) : c.pick(2147483647u));
      if (chance(c, 1, 8))
      {
        if (g_excl_sep) r.count(std::string{"excluded."} + kSepClass);
        else
        {
          // known finding F5: a runtime-metadata value containing the magic separator is split
          size_t where = c.pick(3);
          if (where == 0 && g_printable_check) where = 1; // a message with control bytes is rewritten by the printable check
          if (where == 0) message.insert(message.size() / 2, kSep);
          else if (where == 1) file.insert(file.size() / 2, kSep);
          else fn.insert(fn.size() / 2, kSep);
          e.may_hit_separator_class = true;
          r.label("separator_in_runtime_metadata");
        }
      }
      derive_location(file + ":" + line, e.v);
      // the file name is whatever follows the last '/' of the FILE argument
      e.v[A_CALLER_FUNCTION] = fn;
      e.v[A_TAGS] = "";
      static std::string const enriched = std::string{"{}"} + kSep + "{}" + kSep + "{}" + kSep + "{}";
      bool named_rt = false;
      if (chance(c, 1, 8))
      {
        if (g_excl_rtnamed) r.count(std::string{"excluded."} + kRtNamedClass);
        else named_rt = true;
      }
      bool const lit_msg = !named_rt && message.size() <= 64 && message.find('{') == std::string::npos &&
        message.find('}') == std::string::npos && chance(c, 1, 4);
      if (named_rt)
      {
        // known finding: a named placeholder in the format string of a runtime-metadata statement
        r.label("runtime_metadata_with_named_args");
        std::string const lit = kNaLits[c.pick(kNNaLits)];
        std::string const nm = kNaNames[c.pick(kNNaNames)];
        std::string const val = kSegWords[c.pick(kNSegWords)];
        std::string const f = lit + "{" + nm + "}" + kSep + "{}" + kSep + "{}" + kSep + "{}";
        message = lit + val;
        e.has_named = true;
        e.na.emplace_back(nm, val);
        auto const* md = intern_md("[placeholder]", "[placeholder]", f, false, "", quill::LogLevel::Dynamic,
                                   quill::MacroMetadata::Event::LogWithRuntimeMetadata);
        if (line_as_string) lg->log_statement<false, true>(lvl, md, val, file, line, std::string_view{fn});
        else lg->log_statement<false, true>(lvl, md, val, file.c_str(), static_cast<int>(std::stol(line)), fn.c_str());
      }
      else if (lit_msg)
      {
        std::string const f = message + kSep + "{}" + kSep + "{}" + kSep + "{}";
        auto const* md = intern_md("[placeholder]", "[placeholder]", f, false, "", quill::LogLevel::Dynamic,
                                   quill::MacroMetadata::Event::LogWithRuntimeMetadata);
        if (line_as_string) lg->log_statement<false, true>(lvl, md, file, line, std::string_view{fn});
        else lg->log_statement<false, true>(lvl, md, file.c_str(), static_cast<int>(std::stol(line)), fn.c_str());
        r.label("message_in_format_string");
      }
      else
      {
        auto const* md = intern_md("[placeholder]", "[placeholder]", enriched, false, "", quill::LogLevel::Dynamic,
                                   quill::MacroMetadata::Event::LogWithRuntimeMetadata);
        if (line_as_string) lg->log_statement<false, true>(lvl, md, message, file, line, std::string_view{fn});
        else lg->log_statement<false, true>(lvl, md, message, file.c_str(), static_cast<int>(std::stol(line)), fn.c_str());
      }
      desc = "runtime file=\"" + esc(file, 60) + "\" line=" + line + (line_as_string ? "(str)" : "(int)") + " fn=\"" + esc(fn, 30) + "\"";
      if (named_rt) desc += " named-placeholder format \"" + esc(kNaLits[0] + message.substr(0, message.size() - e.na[0].second.size()), 40) + "{" + e.na[0].first + "}\"";
    }
    else
    {
      // named arguments: never split, %(named_args) = "k: v, k2: v2"
      r.label("named_args");
      std::string const sl = gen_path(c, loc_ascii, false) + ":" + gen_line_digits(c);
      std::string const fn = kWords[c.pick(kNWords)];
      derive_location(sl, e.v);
      e.v[A_CALLER_FUNCTION] = fn;
      e.v[A_TAGS] = "";
      unsigned const n = 1 + c.pick(3);
      unsigned const first = c.pick(kNNaNames);
      std::string fmt, vals[3];
      for (unsigned k = 0; k < n; ++k)
      {
        std::string const lit = kNaLits[c.pick(kNNaLits)];
        std::string const nm = kNaNames[(first + k) % kNNaNames];
        switch (c.weighted({3, 2, 1, 1}))
        {
        case 0: vals[k] = kSegWords[c.pick(kNSegWords)]; break;
        case 1: vals[k] = std::to_string(c.pick(100000)); break;
        case 2: vals[k] = ""; break;
        default: vals[k] = "two\nlines"; break;
        }
        fmt += lit + "{" + nm + "}";
        message += lit + vals[k];
        e.na.emplace_back(nm, vals[k]);
      }
      std::string const tail = kNaLits[c.pick(kNNaLits)];
      fmt += tail;
      message += tail;
      e.has_named = true;
      auto const* md = intern_md(sl, fn, fmt, false, "", lvl, quill::MacroMetadata::Event::Log);
      if (n == 1) lg->log_statement<false, false>(quill::LogLevel::None, md, vals[0]);
      else if (n == 2) lg->log_statement<false, false>(quill::LogLevel::None, md, vals[0], vals[1]);
      else lg->log_statement<false, false>(quill::LogLevel::None, md, vals[0], vals[1], vals[2]);
      desc = "named fmt=\"" + esc(fmt, 80) + "\"";
    }

    e.v[A_NAMED_ARGS] = e.has_named ? join_named(e.na) : std::string{};
    if (multil[e.logger_idx] && !e.has_named) e.lines = ref_split(message);
    else e.lines.push_back(ref_trim_one_newline(message));
    size_t const n_msg_lines = ref_split(message).size();
    if (n_msg_lines >= 2) { any_multi_line = true; r.label("multi_line"); }
    if (message.empty()) r.label("empty_message");
    else
    {
      if (message.find_first_not_of('\n') == std::string::npos) r.label("only_newlines");
      if (message[0] == '\n') r.label("leading_newline");
      if (message.back() == '\n') r.label("trailing_newline");
      if (message.size() >= 2 && message.compare(message.size() - 2, 2, "\n\n") == 0) r.label("trailing_double_newline");
      if (message.find("\n\n") != std::string::npos) r.label("doubled_newline");
    }
    if (message.size() > 512) r.label("long_value_over_512");
    r.line("  #" + std::to_string(s) + " " + kLevelName[e.level] + " " + desc + " msg=\"" + esc(message, 80) + "\" -> " +
           std::to_string(e.lines.size()) + " call(s)");
    expected_calls += e.lines.size();
    exps.push_back(std::move(e));
    ++pending;
    if (poll_each) { do_poll(pending); pending = 0; }
  }
  if (pending) do_poll(pending);
  if (!poll_each && nstmt > 1) r.label("batched_poll");

  r.nontrivial = (p.n_attr >= 3 && p.order_differs) || p.with_spec != 0 || any_multi_line;

  // ---- compare ----
  auto check_sink = [&](RecordingSink const& sk, bool is_override, char const* which)
  {
    int const fkind = is_override ? over_filter : plain_filter;
    size_t idx = 0;
    for (size_t s = 0; s < exps.size(); ++s)
    {
      ExpStmt const& e = exps[s];
      // the plain sink gets the statement as formatted by ITS logger's options
      Pattern const& sp = is_override ? op : pl[e.logger_idx];
      TsPat const& stp = is_override ? *otp : *tpl[e.logger_idx];
      bool const sgmt = is_override ? ogmt : gmtl[e.logger_idx];
      for (size_t l = 0; l < e.lines.size(); ++l)
      {
        if (line_rejected(fkind, e.lines[l]))
        {
          // the sink's filter rejects this line: the sink must not see it; the other lines are still complete lines
          if (l == 0 && e.lines.size() > 1) r.label("first_line_of_multi_line_statement_filtered");
          continue;
        }
        size_t const this_idx = idx++;
        std::string const where = std::string{which} + " sink, statement #" + std::to_string(s) + " line " +
          std::to_string(l + 1) + "/" + std::to_string(e.lines.size());
        if (this_idx >= sk.recs.size())
        {
          r.fail(where + ": missing write_log call (sink received " + std::to_string(sk.recs.size()) + " calls; " +
                 std::to_string(expected_calls) + " expected before its line filter)");
          return;
        }
        Rec const& g = sk.recs[this_idx];
        if (g.msg != e.lines[l])
        {
          r.fail(where + ": log_message " + diff_msg(g.msg, e.lines[l]));
          return;
        }
        Vals v = e.v;
        v[A_TIME] = ref_time(e.ts, stp, sgmt);
        v[A_MESSAGE] = e.lines[l];
        std::string const exp = ref_render(sp, v);
        if (g.stmt != exp)
        {
          r.fail(where + " pattern \"" + esc(sp.text, 300) + "\": log_statement " + diff_msg(g.stmt, exp));
          return;
        }
        if (g.level != e.level) { r.fail(where + ": log_level " + std::to_string(g.level) + " expected " + std::to_string(e.level)); return; }
        if (g.level_desc != kLevelName[e.level] || g.level_code != kLevelCode[e.level])
        {
          r.fail(where + ": level description/short code \"" + g.level_desc + "\"/\"" + g.level_code + "\"");
          return;
        }
        if (g.ts != e.ts) { r.fail(where + ": timestamp handed to the sink differs from the statement's"); return; }
        if (g.logger != e.v[A_LOGGER]) { r.fail(where + ": logger name handed to the sink: \"" + esc(g.logger) + "\""); return; }
        if (g.thread_id != g_tid || g.thread_name != g_tname || g.process_id != g_pid)
        {
          r.fail(where + ": thread id/name/process id handed to the sink: " + g.thread_id + "/" + g.thread_name + "/" + g.process_id);
          return;
        }
        if (e.has_named)
        {
          if (g.na_null || g.na != e.na) { r.fail(where + ": named args handed to the sink: \"" + esc(join_named(g.na)) + "\" expected \"" + esc(join_named(e.na)) + "\""); return; }
        }
        else if (!g.na_null && !g.na.empty())
        {
          r.fail(where + ": statement without named args got named args \"" + esc(join_named(g.na)) + "\"");
          return;
        }
      }
    }
    if (sk.recs.size() != idx)
      r.fail(std::string{which} + " sink received " + std::to_string(sk.recs.size()) + " write_log calls, expected " +
             std::to_string(idx) + "; first extra log_message \"" + esc(sk.recs[idx].msg, 80) + "\"");
  };
  if (plain_sink) check_sink(*plain_sink, false, "plain");
  if (over_sink && !r.failed) check_sink(*over_sink, true, "override");
  if (!g_errors.empty() && !r.failed) r.fail("backend error notifier was called: " + esc(g_errors[0], 300));

  // ---- remove the loggers again, wait until they are gone ----
  quill::Frontend::remove_logger(loggers[0]);
  if (loggers[1]) quill::Frontend::remove_logger(loggers[1]);
  for (int k = 0; k < 50 && quill::Frontend::get_number_of_loggers() != 0; ++k) g_worker->poll_one();
  if (quill::Frontend::get_number_of_loggers() != 0 && !r.failed) r.fail("removed loggers are still registered after 50 idle polls");
}
} // namespace

namespace verif
{
HarnessInfo harness_info() { return {"pattern", false, 400, 0}; }

void harness_init(Params const& p)
{
  g_params = p;
  g_excl_sep = excluded(p, kSepClass);
  g_excl_rtnamed = excluded(p, kRtNamedClass);
  std::string part = param_str(p, "part", "both");
  g_part = part == "direct" ? 1 : part == "e2e" ? 2 : 0;
  g_printable_check = param_int(p, "printable_check", 1) != 0;
  g_must_time = param_int(p, "must_time", 0) != 0;
  g_no_runtime_metadata = param_int(p, "no_runtime_metadata", 0) != 0;
  // Timezone::LocalTime cases: the libc reference uses localtime_r under the same zone. A zone that differs from GMT by a
  // non-integral number of hours and has DST, so that a logger formatting in the wrong zone always shows
  setenv("TZ", param_str(p, "tz", "America/St_Johns").c_str(), 1);
  tzset();
}

void run_case(Choices& c, Report& r)
{
  size_t const mode = c.weighted({14, 1, 5}); // direct, invalid pattern, end to end
  if (g_part == 2) { e2e_case(c, r); return; }
  if (mode == 1) { invalid_case(c, r); return; }
  if (mode == 2 && g_part == 0) { e2e_case(c, r); return; }
  direct_case(c, r);
}

bool probe_known_class(std::string const& cls, std::string& what)
{
  if (cls == kRtNamedClass)
  {
    ensure_backend();
    g_errors.clear();
    auto sink = std::make_shared<RecordingSink>();
    quill::PatternFormatterOptions pfo{"%(file_name):%(line_number) %(caller_function) %(message) [%(named_args)]",
                                       "%H:%M:%S", quill::Timezone::GmtTime, true};
    quill::Logger* lg = quill::Frontend::create_or_get_logger("probe_rt_named", std::shared_ptr<quill::Sink>{sink},
                                                              pfo, quill::ClockSourceType::User, &g_clock);
    // what QUILL_LOG_RUNTIME_METADATA(lg, Info, "dir/app.cpp", 99, "foo()", "named {value}", 2) expands to
    std::string const f = std::string{"named {value}"} + kSep + "{}" + kSep + "{}" + kSep + "{}";
    auto const* md = intern_md("[placeholder]", "[placeholder]", f, false, "", quill::LogLevel::Dynamic,
                               quill::MacroMetadata::Event::LogWithRuntimeMetadata);
    g_clock.t = 1700000000000000000ull;
    lg->log_statement<false, true>(quill::LogLevel::Info, md, 2, "dir/app.cpp", 99, "foo()");
    for (int k = 0; k < 4; ++k) g_worker->poll_one();
    std::string const exp = "app.cpp:99 foo() named 2 [value: 2]\n";
    std::string const got = sink->recs.empty() ? std::string{"<no write_log call at all>"} : sink->recs[0].stmt;
    quill::Frontend::remove_logger(lg);
    for (int k = 0; k < 50 && quill::Frontend::get_number_of_loggers() != 0; ++k) g_worker->poll_one();
    if (got != exp)
    {
      what = "LOG_RUNTIME_METADATA(logger, Info, \"dir/app.cpp\", 99, \"foo()\", \"named {value}\", 2) with pattern "
             "\"%(file_name):%(line_number) %(caller_function) %(message) [%(named_args)]\" gives \"" + esc(got) +
             "\" (error notifier called " + std::to_string(g_errors.size()) + " times) instead of \"" + esc(exp) + "\"";
      return true;
    }
    return false;
  }
  if (cls != kSepClass) return false;
  ensure_backend();
  g_errors.clear();
  auto sink = std::make_shared<RecordingSink>();
  quill::PatternFormatterOptions pfo{"%(file_name)|%(line_number)|%(caller_function)|%(message)", "%H:%M:%S",
                                     quill::Timezone::GmtTime, true};
  quill::Logger* lg = quill::Frontend::create_or_get_logger("probe_separator", std::shared_ptr<quill::Sink>{sink}, pfo,
                                                            quill::ClockSourceType::User, &g_clock);
  std::string const enriched = std::string{"{}"} + kSep + "{}" + kSep + "{}" + kSep + "{}";
  auto const* md = intern_md("[placeholder]", "[placeholder]", enriched, false, "", quill::LogLevel::Dynamic,
                             quill::MacroMetadata::Event::LogWithRuntimeMetadata);
  g_clock.t = 1700000000000000000ull;
  std::string const file = std::string{"dir/fi"} + kSep + "le.cpp";
  lg->log_statement<false, true>(quill::LogLevel::Info, md, std::string{"hello"}, file, std::string{"42"},
                                 std::string_view{"fn"});
  for (int k = 0; k < 4; ++k) g_worker->poll_one();
  std::string const exp = std::string{"fi"} + kSep + "le.cpp|42|fn|hello\n";
  std::string got = sink->recs.empty() ? std::string{"<no write_log call>"} : sink->recs[0].stmt;
  quill::Frontend::remove_logger(lg);
  for (int k = 0; k < 50 && quill::Frontend::get_number_of_loggers() != 0; ++k) g_worker->poll_one();
  if (got != exp)
  {
    what = "LOG_RUNTIME_METADATA with file \"dir/fi\\x01\\x02\\x03le.cpp\", line 42, function fn, message hello and pattern "
           "\"%(file_name)|%(line_number)|%(caller_function)|%(message)\" gives \"" + esc(got) + "\" instead of \"" + esc(exp) + "\"";
    return true;
  }
  return false;
}
} // namespace verif
