// libFuzzer front end for in-process harnesses (C12 pattern, C13 tsfmt, C19 named): the SAME run_case
// behind LLVMFuzzerTestOneInput. Bytes are decoded into the uint32 choice stream (4 bytes little
// endian per choice), so coverage guidance mutates the structured case, and the semantic oracle
// sits inside the target: an oracle failure writes the replay file (same format as the rapidcheck
// driver, so `check replay` works) and traps.
//   env: VERIF_FUZZ_PARAMS="k=v;k=v"  VERIF_FUZZ_OUT=<stats.json>  VERIF_FUZZ_REPLAY=<file>  VERIF_FUZZ_SEED=<n>
#include "driver_common.h"

using namespace verif;

namespace
{
Stats g_stats;
Params g_fuzz_params;
std::string g_out, g_replay;
uint64_t g_seed = 0;
std::chrono::steady_clock::time_point g_t0;
bool g_dumped = false;

void dump_stats(std::string const& fail_message)
{
  if (g_dumped || g_out.empty()) return;
  g_dumped = true;
  double wall = std::chrono::duration<double>(std::chrono::steady_clock::now() - g_t0).count();
  std::ofstream f(g_out);
  f << g_stats.to_json(harness_info().name, g_fuzz_params, g_seed, wall, fail_message, fail_message.empty() ? std::string{} : g_replay);
  f.close();
  std::ofstream h(g_out + ".hashes");
  for (auto x : g_stats.distinct_nontrivial) h << std::hex << x << "\n";
}
} // namespace

extern "C" int LLVMFuzzerInitialize(int*, char***)
{
  g_t0 = std::chrono::steady_clock::now();
  if (char const* p = std::getenv("VERIF_FUZZ_PARAMS"))
  {
    std::string s = p;
    size_t pos = 0;
    while (pos < s.size())
    {
      size_t e = s.find(';', pos);
      if (e == std::string::npos) e = s.size();
      std::string kv = s.substr(pos, e - pos);
      size_t eq = kv.find('=');
      if (eq != std::string::npos) g_fuzz_params[kv.substr(0, eq)] = kv.substr(eq + 1);
      pos = e + 1;
    }
  }
  if (char const* p = std::getenv("VERIF_FUZZ_OUT")) g_out = p;
  if (char const* p = std::getenv("VERIF_FUZZ_REPLAY")) g_replay = p;
  if (char const* p = std::getenv("VERIF_FUZZ_SEED")) g_seed = std::strtoull(p, nullptr, 10);
  g_stats.max_samples = 4;
  g_stats.sample_stride = 5000;
  harness_init(g_fuzz_params);
  std::atexit([]() { dump_stats(std::string{}); });
  return 0;
}

extern "C" int LLVMFuzzerTestOneInput(uint8_t const* data, size_t size)
{
  std::vector<uint32_t> v(size / 4);
  for (size_t k = 0; k < v.size(); ++k)
  {
    uint32_t x;
    std::memcpy(&x, data + 4 * k, 4);
    v[k] = x & 0x3fffffffu; // same value range as the rapidcheck generator
  }
  Report r = execute_inprocess(v);
  g_stats.account(r);
  if (r.failed && r.known_class.empty())
  {
    ++g_stats.failures;
    write_replay(g_replay, harness_info().name, g_fuzz_params, v, r);
    std::fprintf(stderr, "VERIF-FUZZ-FAIL: %s\n", r.message.c_str());
    dump_stats(r.message);
    __builtin_trap();
  }
  return 0;
}

// the harness TUs reference nothing else from the rapidcheck driver
