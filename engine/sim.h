// sim — the harness owns the backend schedule (DESIGN.md M2 + M3, Appendix B).
//
// T0 (the thread that calls run_case in the forked child) is scheduler AND quill backend
// (ManualBackendWorker::poll_one). Frontend operations run on real worker threads (real thread_local
// contexts, real thread exit) strictly one at a time under a baton. The executable interposes
// nanosleep/clock_nanosleep (=> a worker inside a blocking retry loop becomes an observable BLOCKED
// state) and clock_gettime (=> virtual clock, +1 ns per read; a worker can be stalled inside its
// timestamp read).
#pragma once

#include "harness.h"

#include <condition_variable>
#include <ctime>
#include <functional>
#include <memory>
#include <mutex>
#include <sys/syscall.h>
#include <thread>
#include <unistd.h>
#include <vector>

namespace verif
{
namespace sim
{
enum class WState : int { Idle, Running, Blocked, Stalled, Exited };

struct Worker
{
  int id{0};
  std::thread th;
  std::function<void()> cmd;
  bool has_cmd{false};
  bool quit{false};
  bool grant{false};
  WState state{WState::Idle};
  // per-op bookkeeping (written by the worker while it holds the baton)
  bool stall_next_clock{false};
  int realtime_reads_in_op{0};
  uint64_t first_realtime_in_op{0};
  long sleeps_in_op{0};
  long total_sleeps{0};
  int user_clock_reads_in_op{0};
  uint64_t first_user_ts_in_op{0}; // first value a harness-provided UserClockSource handed to this operation
  uint64_t max_sleep_ns_in_op{0}; // longest sleep the operation asked for (a blocked log call's retry interval)
  uint32_t tid{0};
};

// interposers are pass-through unless a case is active (plain constant-initialised flag: the interposed
// functions may be called before any C++ static is constructed)
inline bool g_active = false;

struct Core
{
  std::mutex m;
  std::condition_variable cv;
  uint64_t vclock{1700000000ull * 1000000000ull}; // virtual ns since epoch
  std::vector<std::unique_ptr<Worker>> workers;
  long t0_sleeps{0};
};

inline Core& core()
{
  static Core c;
  return c;
}

inline thread_local Worker* tl_worker = nullptr;

// ---- called by the interposers (see sim_interpose.cpp) ----
inline uint64_t virtual_clock_read(bool realtime)
{
  Core& c = core();
  uint64_t v = c.vclock;
  c.vclock += 1;
  Worker* w = tl_worker;
  if (w && realtime && w->state == WState::Running)
  {
    if (w->realtime_reads_in_op == 0) w->first_realtime_in_op = v;
    ++w->realtime_reads_in_op;
    if (w->stall_next_clock)
    {
      w->stall_next_clock = false;
      std::unique_lock<std::mutex> lk(c.m);
      w->state = WState::Stalled;
      c.cv.notify_all();
      c.cv.wait(lk, [w] { return w->grant; });
      w->grant = false;
      w->state = WState::Running;
    }
  }
  return v;
}

inline void virtual_sleep(uint64_t requested_ns = 0)
{
  Core& c = core();
  Worker* w = tl_worker;
  if (!w) { ++c.t0_sleeps; return; }
  if (w->state != WState::Running) return;
  ++w->sleeps_in_op;
  if (requested_ns > w->max_sleep_ns_in_op) w->max_sleep_ns_in_op = requested_ns;
  ++w->total_sleeps;
  std::unique_lock<std::mutex> lk(c.m);
  w->state = WState::Blocked;
  c.cv.notify_all();
  c.cv.wait(lk, [w] { return w->grant; });
  w->grant = false;
  w->state = WState::Running;
}

// ---- T0 side ----
inline void worker_main(Worker* w)
{
  tl_worker = w;
  w->tid = static_cast<uint32_t>(::syscall(SYS_gettid));
  Core& c = core();
  std::unique_lock<std::mutex> lk(c.m);
  w->state = WState::Idle;
  c.cv.notify_all();
  while (true)
  {
    c.cv.wait(lk, [w] { return w->has_cmd || w->quit; });
    if (w->quit && !w->has_cmd) break;
    std::function<void()> f = std::move(w->cmd);
    w->has_cmd = false;
    lk.unlock();
    f();
    lk.lock();
    w->state = WState::Idle;
    c.cv.notify_all();
  }
  // thread_local destructors (quill's ScopedThreadContext) run after this function returns
}

inline Worker* start_worker()
{
  Core& c = core();
  c.workers.emplace_back(new Worker{});
  Worker* w = c.workers.back().get();
  w->id = static_cast<int>(c.workers.size());
  std::unique_lock<std::mutex> lk(c.m);
  w->state = WState::Running;
  w->th = std::thread(worker_main, w);
  c.cv.wait(lk, [w] { return w->state == WState::Idle; });
  return w;
}

// run f on worker w; returns when the worker finished it, blocked in a sleep, or stalled in its clock read
inline WState run_on(Worker* w, std::function<void()> f, bool stall_in_clock = false)
{
  Core& c = core();
  std::unique_lock<std::mutex> lk(c.m);
  w->cmd = std::move(f);
  w->has_cmd = true;
  w->state = WState::Running;
  w->stall_next_clock = stall_in_clock;
  w->realtime_reads_in_op = 0;
  w->first_realtime_in_op = 0;
  w->sleeps_in_op = 0;
  w->max_sleep_ns_in_op = 0;
  w->user_clock_reads_in_op = 0;
  w->first_user_ts_in_op = 0;
  c.cv.notify_all();
  c.cv.wait(lk, [w] { return w->state != WState::Running; });
  return w->state;
}

// let a blocked / stalled worker continue until its next state change
inline WState grant(Worker* w)
{
  Core& c = core();
  std::unique_lock<std::mutex> lk(c.m);
  if (w->state != WState::Blocked && w->state != WState::Stalled) return w->state;
  w->grant = true;
  w->state = WState::Running;
  c.cv.notify_all();
  c.cv.wait(lk, [w] { return w->state != WState::Running; });
  return w->state;
}

// the worker's thread function returns (quill's thread-exit path runs) and the thread is joined
inline void exit_worker(Worker* w)
{
  Core& c = core();
  {
    std::unique_lock<std::mutex> lk(c.m);
    w->quit = true;
    c.cv.notify_all();
  }
  w->th.join();
  w->state = WState::Exited;
}
} // namespace sim
} // namespace verif
