// The only TU that includes rapidcheck. Generates and shrinks a std::vector<uint32_t> choice stream,
// executes the linked harness' run_case on it (in-process or in a forked child), rewrites the replay
// file on every failing execution (so the last one written is the shrunk one), and dumps statistics.
//
//   driver --cases N --seed S [--maxlen L] [--time-budget SEC] [--param k=v]... --out stats.json --replay-out f.replay
//   driver --replay f.replay            (no rapidcheck involved; exit 1 when the case fails)
//   driver --probe <known-class>        (exit 3 when the class still fails, 0 when it passes)
#include "driver_common.h"

#include <rapidcheck.h>

using namespace verif;

// ---- crash guard for IN-PROCESS harnesses ----------------------------------------------------------------------------
// A failed quill assert, a sanitizer abort or a memory error inside an in-process case would end the driver itself and
// the failing case would be lost ("infrastructure failure"). The guard turns the death into an ordinary failing case:
// it writes the replay file of the case that was running (unshrunk) and the statistics, and exits 1; in replay mode
// it prints REPLAY-FAIL and exits 1. Not async-signal-safe in the strict sense; the process is dying anyway and the
// handler runs at most once. Harnesses with a guard of their own (fmtcat) install theirs later and win.
namespace
{
struct Guard
{
  bool replay_mode{false};
  std::vector<uint32_t> const* vec{nullptr};
  Args const* args{nullptr};
  char const* harness{""};
  Stats* stats{nullptr};
  std::chrono::steady_clock::time_point t0;
  volatile sig_atomic_t dying{0};
} g_guard;

void crash_guard(int sig)
{
  if (g_guard.dying || g_guard.vec == nullptr) { signal(sig, SIG_DFL); raise(sig); _exit(128 + sig); }
  g_guard.dying = 1;
  std::string msg = "process died inside the case (signal " + std::to_string(sig) +
    ": failed assert, sanitizer abort or memory error; see the child's stderr above)";
  if (g_guard.replay_mode)
  {
    std::printf("REPLAY-FAIL: %s\n", msg.c_str());
    std::fflush(stdout);
    _exit(1);
  }
  Report r;
  r.failed = true;
  r.message = msg;
  Args const& a = *g_guard.args;
  write_replay(a.replay_out, g_guard.harness, a.params, *g_guard.vec, r);
  if (g_guard.stats && !a.out.empty())
  {
    g_guard.stats->account(r);
    ++g_guard.stats->failures;
    double wall = std::chrono::duration<double>(std::chrono::steady_clock::now() - g_guard.t0).count();
    std::ofstream f(a.out);
    f << g_guard.stats->to_json(g_guard.harness, a.params, a.seed, wall, msg, a.replay_out);
  }
  _exit(1);
}

void install_crash_guard()
{
  for (int sig : {SIGABRT, SIGSEGV, SIGBUS, SIGFPE, SIGILL}) signal(sig, crash_guard);
}
} // namespace

int main(int argc, char** argv)
{
  Args a = parse_args(argc, argv);
  HarnessInfo const info = harness_info();
  g_guard.args = &a;
  g_guard.harness = info.name;

  if (!a.replay.empty())
  {
    std::string h;
    Params p;
    std::vector<uint32_t> v;
    if (!read_replay(a.replay, h, p, v))
    {
      std::fprintf(stderr, "cannot read replay file %s\n", a.replay.c_str());
      return 2;
    }
    if (h != info.name)
    {
      std::fprintf(stderr, "replay file is for harness %s, this is %s\n", h.c_str(), info.name);
      return 2;
    }
    for (auto const& kv : a.params) p[kv.first] = kv.second; // command line overrides
    harness_init(p);
    if (!info.fork_per_case)
    {
      g_guard.replay_mode = true;
      g_guard.vec = &v;
      install_crash_guard();
    }
    Report r = info.fork_per_case ? execute_forked(v, static_cast<unsigned>(param_int(p, "watchdog_ms", info.watchdog_ms)) * 4) : execute_inprocess(v);
    g_guard.vec = nullptr;
    std::printf("%s", r.render.c_str());
    if (r.failed) { std::printf("REPLAY-FAIL: %s\n", r.message.c_str()); return 1; }
    if (r.inconclusive) { std::printf("REPLAY-INCONCLUSIVE: %s\n", r.message.c_str()); return 4; }
    std::printf("REPLAY-PASS\n");
    return 0;
  }

  harness_init(a.params);

  if (!a.probe.empty())
  {
    std::string what;
    bool still = probe_known_class(a.probe, what);
    std::printf("PROBE class=%s still_fails=%d what=%s\n", a.probe.c_str(), still ? 1 : 0, what.c_str());
    return still ? 3 : 0;
  }

  long const maxlen = a.maxlen > 0 ? a.maxlen : static_cast<long>(info.default_max_len);
  // container length grows with rapidcheck's size (0..max_size=100); scale so that size 100 ~ maxlen
  double const scale = static_cast<double>(maxlen) / 100.0;

  std::string rc_params = "seed=" + std::to_string(a.seed) + " max_success=" + std::to_string(a.cases) +
    " max_size=100 max_discard_ratio=10 noshrink=0 verbose_progress=0 verbose_shrinking=0";
  setenv("RC_PARAMS", rc_params.c_str(), 1);

  Stats st;
  st.max_samples = a.samples;
  st.sample_stride = std::max<long>(1, a.cases / 40);
  std::string fail_message;
  auto const t0 = std::chrono::steady_clock::now();
  bool budget_hit = false;
  long skipped = 0, shrink_skipped = 0;
  auto t_first_fail = t0;

  // element generator must not collapse at small sizes: fixed nominal size
  auto elem = rc::gen::resize(100, rc::gen::inRange<uint32_t>(0u, 1u << 30));
  auto gen = rc::gen::scale(scale, rc::gen::container<std::vector<uint32_t>>(elem));

  if (!info.fork_per_case)
  {
    g_guard.stats = &st;
    g_guard.t0 = t0;
    install_crash_guard();
  }
  bool ok = rc::check(std::string{"verif "} + info.name,
                      [&]()
                      {
                        if (a.time_budget > 0)
                        {
                          double el = std::chrono::duration<double>(std::chrono::steady_clock::now() - t0).count();
                          if (el > a.time_budget) { budget_hit = true; ++skipped; return; }
                        }
                        std::vector<uint32_t> v = *gen;
                        if (st.failures > 0)
                        {
                          // shrinking: bounded by wall time so a failing run still ends promptly
                          double sel = std::chrono::duration<double>(std::chrono::steady_clock::now() - t_first_fail).count();
                          if (sel > a.shrink_budget) { ++shrink_skipped; return; }
                        }
                        g_guard.vec = &v;
                        Report r = info.fork_per_case ? execute_forked(v, static_cast<unsigned>(param_int(a.params, "watchdog_ms", info.watchdog_ms))) : execute_inprocess(v);
                        g_guard.vec = nullptr;
                        st.account(r);
                        if (r.inconclusive && !a.replay_out.empty() && st.inconclusive == 1)
                        {
                          // keep the first inconclusive (watchdog) case for triage; never reported as a violation
                          write_replay(a.replay_out + ".inconclusive", info.name, a.params, v, r);
                        }
                        if (r.failed)
                        {
                          if (!r.known_class.empty())
                          {
                            ++st.known_class_hits;
                            ++st.counters["known." + r.known_class];
                            return;
                          }
                          if (st.failures == 0) t_first_fail = std::chrono::steady_clock::now();
                          ++st.failures;
                          fail_message = r.message;
                          write_replay(a.replay_out, info.name, a.params, v, r);
                          RC_FAIL(r.message);
                        }
                      });

  double wall = std::chrono::duration<double>(std::chrono::steady_clock::now() - t0).count();
  st.counters["skipped_after_time_budget"] = skipped;
  st.counters["time_budget_hit"] = budget_hit ? 1 : 0;
  st.counters["shrink_candidates_skipped_after_budget"] = shrink_skipped;
  std::string js = st.to_json(info.name, a.params, a.seed, wall, ok ? std::string{} : fail_message,
                              ok ? std::string{} : a.replay_out);
  if (!a.out.empty())
  {
    std::ofstream f(a.out);
    f << js;
  }
  else
  {
    std::printf("%s", js.c_str());
  }
  if (!a.hashes_out.empty())
  {
    std::ofstream f(a.hashes_out);
    for (auto h : st.distinct_nontrivial) f << std::hex << h << "\n";
  }
  std::fflush(stdout);
  return ok ? 0 : 1;
}
