"""Tables used by /verif/check: how to build each harness binary and which jobs decide each property."""

RC_LIBS = ["-lrapidcheck"]

BINARIES = {
    # name: sources (first = harness TU), flavour, harness name (for replay lookup)
    "tsfmt": {"sources": ["harness/tsfmt.cpp", "engine/rc_driver.cpp"], "flavour": "asan", "libs": RC_LIBS,
              "harness": "tsfmt"},
}

# known-finding class -> binary that implements its probe
CLASS_BIN = {
    "tsfmt.composite_time_conversion": "tsfmt",
    "tsfmt.offquarter_zone_transition": "tsfmt",
    "tsfmt.duplicate_same_fractional_specifier": "tsfmt",
}

HOOKS = {
    "guard": "QUILL_VERIF",
    "enable": "every harness TU is compiled with -DQUILL_VERIF -I/repo/include (header-only library; see ./check)",
    "baseline_off_cmd": "cmake -G Ninja -S /repo -B /repo/_build -DQUILL_BUILD_TESTS=ON && cmake --build /repo/_build -j16 && ctest --test-dir /repo/_build -j8 --timeout 900",
    "source_commits": [],
    "add_only": True,
}

ENGINES = {
    "rcdrv": {"path": "engine/rc_driver.cpp", "serves": ["C13"],
              "kind": "rapidcheck generator+shrinker over a vector<uint32_t> choice stream; in-process or fork-per-case execution; replay files"},
    "check": {"path": "check", "serves": ["C13"],
              "kind": "python3 driver: builds harnesses from /repo's working tree, seeds, tiers, replays, known findings, evidence"},
}

NOTES = ("Technique family: property-based testing and fuzzing (rapidcheck-driven choice streams, libFuzzer for byte-level "
         "parsers, fork/exec fault injection). Every level is exploration: 'held on everything generated'. Known genuine "
         "defects are listed in known_findings.txt and reported as KNOWN-FINDING lines.")

NOT_APPLICABLE = {}

PROPERTIES = {
    "C13": {
        "technique": "property-based testing (rapidcheck choice streams) against a libc strftime oracle, with shrinking",
        "level_text": ("Exploration: tens of thousands of generated (pattern, zone, instant-sequence) cases per run, built to "
                       "cross second/minute/hour/quarter-hour/noon/midnight/DST boundaries with one long-lived formatter, "
                       "each call compared with libc. Held on everything generated; not a proof."),
        "level_note": ("Trusts glibc strftime/localtime_r/gmtime_r and the installed tz database; C locale; three known "
                       "findings (F6, F7, F14) are excluded by construction and probed separately."),
        "rule": ("case = (GMT|local mode, TZ database zone, strftime pattern of 1-9 tokens with an optional %Qms/%Qus/%Qns "
                 "at any token position, sequence of 1-30 instants 2001..2100 built from boundary-seeking steps) formatted "
                 "by ONE TimestampFormatter instance and compared per call with libc localtime_r/gmtime_r+strftime; "
                 "non-trivial = the pattern has a time-of-day conversion AND the sequence has two instants in different "
                 "minutes (forward) or a backward step followed by a forward one; distinct = FNV hash of the rendered case"),
        "assumptions": ["libc strftime/localtime_r/gmtime_r are the reference", "C locale",
                        "generator respects the property's domain: no literal %% directly before a letter the scanner treats "
                        "as a conversion (H M S I k l s Q r R T X c E O); %s only for ten-digit epochs in local mode or TZ=UTC"],
        "jobs": [
            {"bin": "tsfmt",
             "quick": {"cases": 8000, "procs": 8, "maxlen": 260},
             "thorough": {"cases": 150000, "procs": 16, "maxlen": 260}},
        ],
    },
}
