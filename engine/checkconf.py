"""Tables used by /verif/check: how to build each harness binary and which jobs decide each property."""

RC_LIBS = ["-lrapidcheck"]

def _sim(qt, init, mx):
    return {"sources": ["harness/sim_main.cpp", "engine/sim_interpose.cpp", "engine/rc_driver.cpp"], "flavour": "asan",
            "libs": RC_LIBS, "harness": "sim",
            "defines": [f"SIM_QUEUE_TYPE={qt}", f"SIM_INITIAL_CAP={init}", f"SIM_MAX_CAP={mx}"]}


def _fuzzbin(src):
    return {"sources": [src, "engine/fuzz_driver.cpp"], "flavour": "fuzz", "libs": [], "harness": "-"}


def _fuzzjob(binname, replay_bin, runs, procs, params=None, max_len=2400):
    return {"bin": binname, "kind": "fuzz", "replay_bin": replay_bin, "only_tier": "thorough", "params": params or {},
            "env": {"VERIF_FUZZ_OUT": "{out}", "VERIF_FUZZ_REPLAY": "{replay}", "VERIF_FUZZ_PARAMS": "{params}",
                    "VERIF_FUZZ_SEED": "{seed}"},
            "thorough": {"procs": procs, "timeout": 3600,
                         "args": [f"-runs={runs}", "-seed={seed}", f"-max_len={max_len}", "-error_exitcode=1", "-timeout=60",
                                  "-rss_limit_mb=6000", "-print_final_stats=1", "-verbosity=0", "{corpus}"]}}


def _rt(qt, cap, mx):
    return {"sources": ["harness/rt_stress.cpp", "engine/rc_driver.cpp"], "flavour": "plain", "libs": RC_LIBS, "harness": "rtstress",
            "defines": [f"RT_QUEUE_TYPE={qt}", f"RT_CAP={cap}", f"RT_MAX={mx}"]}


def _rtjob(binname, prop, quick_cases=40, quick_procs=2):
    return {"bin": binname, "params": {"prop": prop}, "realthread": True,
            "quick": {"cases": quick_cases, "procs": quick_procs, "maxlen": 400},
            # ThreadSanitizer flavours run the same programs 5-10 times slower: fewer cases
            "thorough": {"cases": 300 if binname.endswith("_tsan") else 1500, "procs": 4, "maxlen": 400}}


BINARIES = {
    "rt_bd4k": _rt("BoundedDropping", 4096, 4096),
    "rt_bb4k": _rt("BoundedBlocking", 4096, 4096),
    "rt_ub": _rt("UnboundedBlocking", 4096, 65536),
    "rt_ub_asan": dict(_rt("UnboundedBlocking", 4096, 65536), flavour="asan"),
    "rt_ub_tsan": dict(_rt("UnboundedBlocking", 4096, 65536), flavour="tsan"),
    "rt_bd_tsan": dict(_rt("BoundedDropping", 4096, 4096), flavour="tsan"),
    "qtsan": {"sources": ["harness/queue_tsan.cpp", "engine/rc_driver.cpp"], "flavour": "tsan", "libs": RC_LIBS, "harness": "qtsan"},
    "tsfmt_fuzz": _fuzzbin("harness/tsfmt.cpp"),
    "pattern_fuzz": _fuzzbin("harness/pattern.cpp"),
    "named_fuzz": _fuzzbin("harness/named.cpp"),
    "sim_bb256": _sim("BoundedBlocking", 256, 256),
    "sim_bb1k": _sim("BoundedBlocking", 1024, 1024),
    "sim_bb4k": _sim("BoundedBlocking", 4096, 4096),
    "sim_bb1500": _sim("BoundedBlocking", 1500, 1500),  # configured capacity not a power of two: the queue holds 2048 bytes
    "sim_ub": _sim("UnboundedBlocking", 128, 4096),
    "sim_ubs": _sim("UnboundedBlocking", 64, 512),
    "sim_bd256": _sim("BoundedDropping", 256, 256),
    "sim_bd1k": _sim("BoundedDropping", 1024, 1024),
    "sim_ud": _sim("UnboundedDropping", 128, 1024),
    # name: sources (first = harness TU), flavour, harness name (for replay lookup)
    "wmm": {"sources": ["harness/queue_wmm.cpp", "engine/rc_driver.cpp"], "flavour": "asan", "libs": RC_LIBS,
            "harness": "wmm", "probe_params": {}},
    "fmtcat": {"sources": ["harness/fmtcat.cpp"] + [f"harness/fmtcat_shapes_{i}.cpp" for i in range(1, 9)] + ["engine/rc_driver.cpp"],
               "flavour": "asan", "libs": RC_LIBS, "harness": "fmtcat"},
    "fmtcat_drop": {"sources": ["harness/fmtcat.cpp"] + [f"harness/fmtcat_shapes_{i}.cpp" for i in range(1, 9)] + ["engine/rc_driver.cpp"],
                    "flavour": "asan", "libs": RC_LIBS, "harness": "fmtcat", "defines": ["FMTCAT_DROPPING"]},
    "pattern": {"sources": ["harness/pattern.cpp", "engine/rc_driver.cpp"], "flavour": "asan", "libs": RC_LIBS, "harness": "pattern"},
    "named": {"sources": ["harness/named.cpp", "engine/rc_driver.cpp"], "flavour": "asan", "libs": RC_LIBS, "harness": "named"},
    "rot": {"sources": ["harness/rotating.cpp", "engine/rc_driver.cpp"], "flavour": "asan", "libs": RC_LIBS, "harness": "rot"},
    "alloc": {"sources": ["harness/alloc_catalog.cpp", "harness/alloc_catalog_2.cpp", "harness/alloc_catalog_3.cpp",
                          "harness/alloc_interpose.cpp", "engine/rc_driver.cpp"], "flavour": "o2", "libs": RC_LIBS,
              "harness": "alloc"},
    "alloc_bounded": {"sources": ["harness/alloc_catalog.cpp", "harness/alloc_catalog_2.cpp", "harness/alloc_catalog_3.cpp",
                                  "harness/alloc_interpose.cpp", "engine/rc_driver.cpp"], "flavour": "o2", "libs": RC_LIBS,
                      "harness": "alloc", "defines": ["VERIF_ALLOC_BOUNDED"]},
    "crash_child": {"sources": ["harness/crash_child.cpp"], "flavour": "plain", "libs": [], "harness": "-"},
    "crashkid": {"sources": ["harness/crashkid.cpp", "engine/rc_driver.cpp"], "flavour": "plain", "libs": RC_LIBS,
                 "harness": "crashkid"},
    "tsfmt": {"sources": ["harness/tsfmt.cpp", "engine/rc_driver.cpp"], "flavour": "asan", "libs": RC_LIBS,
              "harness": "tsfmt"},
    "tscorder": {"sources": ["harness/tsc_order.cpp", "engine/rc_driver.cpp"], "flavour": "plain", "libs": RC_LIBS,
                 "harness": "tscorder"},
    "csvw": {"sources": ["harness/csvw.cpp", "engine/rc_driver.cpp"], "flavour": "asan", "libs": RC_LIBS, "harness": "csvw"},
    "fileflush": {"sources": ["harness/fileflush.cpp", "engine/rc_driver.cpp"], "flavour": "asan", "libs": RC_LIBS, "harness": "fileflush"},
}

# known-finding class -> binary that implements its probe
CLASS_BIN = {
    "fmtcat.direct_codec_nested_quoted": "fmtcat",
    "fmtcat.positional_format_misread_as_named": "fmtcat",
    "pattern.runtime_metadata_contains_separator": "pattern",
    "pattern.runtime_metadata_with_named_args": "pattern",
    "named.escaped_close_after_placeholder": "named",
    "named.value_contains_separator": "named",
    "named.newline_in_value": "named",
    "named.runtime_metadata_json_template": "named",
    "rot.same_second_restart_datetime": "rot",
    "rot.drift_after_late_trigger": "rot",
    "rot.no_extension_no_clean_no_recover": "rot",
    "alloc.map_pair_temporary_copy": "alloc",
    "wmm.unpublished_reader_remainder": "wmm",
    "wmm.nonpow2_max_unreachable": "wmm",
    "tsfmt.composite_time_conversion": "tsfmt",
    "tsfmt.offquarter_zone_transition": "tsfmt",
    "tsfmt.duplicate_same_fractional_specifier": "tsfmt",
}

HOOKS = {
    "guard": "QUILL_VERIF",
    "enable": "every harness TU is compiled with -DQUILL_VERIF -I/repo/include (header-only library; see ./check)",
    "baseline_off_cmd": "cmake -G Ninja -S /repo -B /repo/_build -DQUILL_BUILD_TESTS=ON && cmake --build /repo/_build -j16 && ctest --test-dir /repo/_build -j8 --timeout 900",
    "source_commits": ["c0ad062", "f8e18e3"],
    "add_only": True,
}

ENGINES = {
    "sim": {"path": "engine/sim.h", "serves": ["C03", "C05", "C06", "C08", "C09", "C10", "C16", "C17", "C18", "C20"],
            "kind": "harness-owned backend schedule: scheduler thread == ManualBackendWorker, baton-driven worker threads, interposed nanosleep/clock_gettime (blocked state, virtual time), yield-point bursts; harness/sim_main.cpp + sim_ops.h + sim_oracles.h"},
    "rtstress": {"path": "harness/rt_stress.cpp", "serves": ["C03", "C06", "C08", "C16", "C17", "C20"], "kind": "real backend thread + 1-4 real frontend threads running generated programs under the OS scheduler; schedule-independent oracles at quiescence (second opinion for races inside backend/frontend functions that the serialised sim cannot interleave)"},
    "qtsan": {"path": "harness/queue_tsan.cpp", "serves": ["C01", "C02"], "kind": "real two-thread stress of the unmodified std::atomic queue code under ThreadSanitizer with generated configurations"},
    "wmm": {"path": "engine/wmm.h", "serves": ["C01", "C02", "C09"],
            "kind": "std::atomic retarget shim with per-location store history, vector clocks, coherence floors, choice-driven stale loads, coroutine scheduler, payload happens-before race detector"},
    "rcdrv": {"path": "engine/rc_driver.cpp", "serves": ["C%02d" % i for i in range(1, 21)],
              "kind": "rapidcheck generator+shrinker over a vector<uint32_t> choice stream; in-process or fork-per-case execution; replay files"},
    "fmtcat": {"path": "harness/fmtcat.cpp", "serves": ["C04"], "kind": "typed statement catalog (167 shapes in 8 TUs) with call-site fmt oracle and codec round trip"},
    "pattern": {"path": "harness/pattern.cpp", "serves": ["C12", "C13"], "kind": "direct + end-to-end PatternFormatter harness with independent reference substitution"},
    "named": {"path": "harness/named.cpp", "serves": ["C19"], "kind": "named-args / JSON sink harness through a manual backend"},
    "rot": {"path": "harness/rotating.cpp", "serves": ["C14", "C15"], "kind": "RotatingFileSink driver with file-system reference model and two-tier schedule oracle"},
    "alloc": {"path": "harness/alloc_catalog.cpp", "serves": ["C11"], "kind": "allocation-interposed statement catalog (-O2, no sanitizers)"},
    "csvw": {"path": "harness/csvw.cpp", "serves": ["C17"], "kind": "quill::CsvWriter on the real backend thread: generated histories of construction (five overloads), rows, flush, destruction with rows queued, re-creation, shared sinks; file / recording-sink reference model"},
    "fileflush": {"path": "harness/fileflush.cpp", "serves": ["C06"], "kind": "file-backed sinks (FileSink, JsonFileSink, RotatingFileSink, a user StreamSink) on the real backend thread: generated write buffers, fsync options, before_write hooks that transform or suppress statements, sink_min_flush_interval; the files are read at the instant flush_log() returns"},
    "crashkid": {"path": "harness/crashkid.cpp", "serves": ["C07"], "kind": "fork/exec fault injection: generated child programs, all boundaries x termination kinds"},
    "tsfmt": {"path": "harness/tsfmt.cpp", "serves": ["C13"], "kind": "TimestampFormatter vs libc strftime"},
    "tscorder": {"path": "harness/tsc_order.cpp", "serves": ["C05", "C06"], "kind": "TSC-clock (default clock source) ordering harness: harness thread = backend, real worker threads logging one operation at a time, real time relative to the grace period; measured precondition"},
    "check": {"path": "check", "serves": ["C%02d" % i for i in range(1, 21)],
              "kind": "python3 driver: builds harnesses from /repo's working tree, seeds, tiers, replays, known findings, evidence"},
}

NOTES = ("Technique family: property-based testing and fuzzing (rapidcheck-driven choice streams, libFuzzer for byte-level "
         "parsers, fork/exec fault injection). Every level is exploration: 'held on everything generated'. Known genuine "
         "defects are listed in known_findings.txt and reported as KNOWN-FINDING lines.")

NOT_APPLICABLE = {}

WMM_NOTE = ("Trusts the shim's reading of the C++11 rules (coherence + happens-before per single-writer location, release "
            "sequences, seq_cst treated as acq_rel), sequential coroutine interleavings preempted at every atomic access; private "
            "non-atomic members are not tracked (a side touching the other side's private fields is only visible to the TSan job); "
            "exploration of the axiomatic space, not enumeration.")

SIM_NOTE = ("One sequentially consistent interleaving per case, chosen by data: the harness thread is the quill backend "
            "(ManualBackendWorker::poll_one) and runs generated bursts of frontend operations at the QUILL_VERIF yield points; "
            "frontend operations run on real threads one at a time; sleeps and clocks are interposed (virtual time). No weak-memory "
            "effects on registry/flag atomics; System clock only (TSC cannot be virtualised); fork per case, ASan+UBSan, quill asserts on.")


TSC_NOTE = " The TSC clock (quill's default) is covered by the tscorder job: harness thread = backend, real worker threads logging one operation at a time, real sleeps relative to the grace period; the order oracle applies only when every log call was measured to take less wall time than the grace period; TSC re-synchronisation is configured out."


def _simjobs(prop, bins, quick_cases=700, quick_procs=2, thorough_cases=10000, thorough_procs=4, extra=None):
    jobs = []
    for b in bins:
        params = {"prop": prop}
        if extra:
            params.update(extra)
        jobs.append({"bin": b, "params": params,
                     "quick": {"cases": quick_cases, "procs": quick_procs, "maxlen": 900},
                     "thorough": {"cases": thorough_cases, "procs": thorough_procs, "maxlen": 1800}})
    return jobs


SIM_CASE = ("case = generated BackendOptions (transit buffer capacity, soft/hard limit, grace period, sink flush interval), 1-3 "
            "recording sinks shared between 1-3 loggers, and a program of up to 120 ops (StartThread, Log with sizes relative to the "
            "queue capacity -- a tenth each with named arguments / a run-time level --, ExitThread, Tick, Flush, Retry/Resume, Poll) "
            "where every Poll runs generated bursts of further ops at the yield points Y1..Y5 inside the backend; ended by a drain "
            "or (a quarter of the cases) by the backend's own exit path BackendWorker::_exit() with statements still queued; ")

PROPERTIES = {
    "C03": {
        "technique": "stateful property-based testing with a harness-owned backend schedule (yield-point bursts, virtual time) against a per-sink exactly-once/in-order reference model",
        "level_text": ("Exploration: thousands of generated thread programs x backend poll schedules per run on five blocking queue "
                       "flavours (bounded 256 B/1 KiB/4 KiB, unbounded 64->512 and 128->4096); after the drain every sink must hold "
                       "exactly the accepted statements of its loggers, per thread in order, intact, with the right thread id, "
                       "logger, level and timestamp. Held on everything generated."),
        "level_note": SIM_NOTE,
        "rule": SIM_CASE + ("non-trivial = >= 2 threads logged AND (a thread exited with unwritten statements OR a worker blocked on a "
                            "full queue OR a burst ran between queue reads / decoded records / processed events); distinct = FNV hash "
                            "of the rendered case (config + op list + counters)"),
        "assumptions": ["statements <= queue capacity on blocking queues (documented)"],
        "jobs": _simjobs("C03", ["sim_bb256", "sim_bb1k", "sim_bb4k", "sim_ub", "sim_ubs"]) + [_rtjob("rt_bb4k", "C03"), _rtjob("rt_ub", "C03"), _rtjob("rt_ub_tsan", "C03", quick_cases=40)],
    },
    "C05": {
        "technique": "stateful property-based testing with virtual time: stalls inside the timestamp read, ticks around the grace period, yield-point bursts; oracle = non-decreasing sink timestamps under the stated precondition",
        "level_text": ("Exploration: thousands of generated programs per run with threads stalled between reading the clock and "
                       "enqueuing, time steps of grace/2, grace-1, grace, grace+1, 10x grace, first-time loggers inside the backend's "
                       "pass, hard-limit delayed reads; each sink timestamp must equal the value the clock handed to that call, and "
                       "when every statement was enqueued within the grace period the global write order is non-decreasing."),
        "level_note": SIM_NOTE + TSC_NOTE,
        "rule": SIM_CASE + ("Log ops may carry a stall inside the clock read; non-trivial = >= 2 threads logged AND (a burst between "
                            "queue reads OR a blocked worker OR an exited thread with unwritten statements); cases where some "
                            "statement missed the deadline are labelled precondition_violated and only checked for delivery"),
        "assumptions": ["grace == 0 and user clocks carry no ordering claim (documented)", "virtual clock strictly monotonic (+1 ns per read)"],
        "jobs": _simjobs("C05", ["sim_bb4k", "sim_ub", "sim_bb1k"], quick_procs=3) + [
            # the default clock source (TSC) cannot be virtualised: real time, measured precondition
            {"bin": "tscorder", "params": {}, "realthread": True,
             "quick": {"cases": 60, "procs": 8, "maxlen": 200},
             "thorough": {"cases": 1500, "procs": 16, "maxlen": 200}}],
    },
    "C06": {
        "technique": "stateful property-based testing with a harness-owned backend schedule: oracle evaluated at the instant flush_log() returns; stall-state predicate for liveness",
        "level_text": ("Exploration: thousands of generated programs per run with Flush ops from any thread (also first-time loggers, "
                       "also inside backend passes), on blocking and dropping flavours; at the instant flush_log() returns every "
                       "earlier statement of the caller (and, with ordering enabled, of any thread whose call had completed) must be "
                       "on all its sinks with a flush_sink after it; a flush still blocked with an idle backend is a violation."),
        "level_note": SIM_NOTE + " The sim jobs use recording sinks (flush observed as a flush_sink call); the read-back from the real file-backed sinks (FileSink, JsonFileSink, RotatingFileSink, a user StreamSink; write buffers, fsync, before_write hooks) is the fileflush job on the real backend thread." + TSC_NOTE,
        "rule": SIM_CASE + ("non-trivial = >= 2 threads logged AND a flush was issued while statements of OTHER threads whose calls had "
                            "completed were required to be written by it"),
        "assumptions": ["flush_log is never called from the backend thread (documented)"],
        "jobs": _simjobs("C06", ["sim_bb1k", "sim_ub", "sim_bd1k", "sim_ud"]) + [_rtjob("rt_bb4k", "C06"), _rtjob("rt_bd4k", "C06"), _rtjob("rt_ub_tsan", "C06", quick_cases=40),
                 # flush_log() on the default (TSC) clock source, which sim cannot virtualise
                 {"bin": "tscorder", "params": {"prop": "C06"}, "realthread": True,
                  "quick": {"cases": 60, "procs": 4, "maxlen": 200},
                  "thorough": {"cases": 1500, "procs": 8, "maxlen": 200}},
                 # the destination clause on the real file-backed sinks: the files are read the moment flush_log() returns
                 {"bin": "fileflush", "params": {}, "realthread": True,
                  "quick": {"cases": 500, "procs": 3, "maxlen": 300},
                  "thorough": {"cases": 12000, "procs": 8, "maxlen": 600, "params": {"maxops": "60"}}}],
    },
    "C08": {
        "technique": "stateful property-based testing on dropping queue flavours: return value <=> delivery, reported drops == false returns, control requests never dropped",
        "level_text": ("Exploration: thousands of generated programs per run on BoundedDropping 256 B / 1 KiB and UnboundedDropping "
                       "128->1024 with sizes incl. never-fitting ones, flush requests while the queue is full, thread exits with "
                       "unreported drops; true <=> written exactly once in order, false <=> absent, sum of 'Dropped N' notifications "
                       "== number of false returns (bounded), every flush returns."),
        "level_note": SIM_NOTE,
        "rule": SIM_CASE + "non-trivial = >= 1 statement dropped AND >= 1 statement delivered after a drop on the same thread",
        "assumptions": ["the drop report is defined for bounded dropping queues only (code and property agree)"],
        "jobs": _simjobs("C08", ["sim_bd256", "sim_bd1k", "sim_ud"], quick_procs=3) + [_rtjob("rt_bd4k", "C08", quick_cases=60, quick_procs=3), _rtjob("rt_bd_tsan", "C08", quick_cases=40)],
    },
    "C09": {
        "technique": "stateful property-based testing: stall-state reachability (blocked worker + empty queues + idle backend) in a harness-owned schedule, plus the queue-level quiescence probe under the memory-model simulation",
        "level_text": ("Exploration: thousands of generated histories per run followed by requests in the band just below the capacity "
                       "(size = capacity - 0..6 %), on bounded/unbounded blocking and dropping flavours; no state may be reached where "
                       "a worker is blocked (or a fitting statement dropped) while its queue is empty and the backend idle; the wmm "
                       "engine adds the queue-level clause after arbitrary interleavings."),
        "level_note": SIM_NOTE + " Liveness is decided as reachability of a stall state, not as 'eventually' over real time.",
        "rule": SIM_CASE + ("plus DrainIdle+Log ops; non-trivial = a worker was refused at least once (blocked) or a statement was "
                            "dropped; wmm job: as C01/C02 plus a quiescent request of size <= capacity"),
        "assumptions": ["non-power-of-two unbounded maximum is known finding F12 (excluded in the wmm job)"],
        "jobs": _simjobs("C09", ["sim_bb1k", "sim_bb4k", "sim_bb1500", "sim_ub", "sim_ubs", "sim_bd1k", "sim_bd256"], quick_cases=500) + [
            {"bin": "wmm", "params": {"prop": "C09"},
             "quick": {"cases": 1000, "procs": 3, "maxlen": 700},
             "thorough": {"cases": 15000, "procs": 8, "maxlen": 1400}}],
    },
    "C10": {
        "technique": "stateful property-based testing with fault injection: unformattable statements, formatters throwing any type, throwing sinks; exact per-(sink,thread) sequence oracle with optional elements",
        "level_text": ("Exploration: thousands of generated programs per run where a generated subset of statements cannot be "
                       "formatted (too few arguments, wrong spec, deferred-format type whose formatter throws std::runtime_error / a "
                       "non-std class / int / char const*, LOG_BACKTRACE without init) and generated write_log/flush_sink calls throw; "
                       "only the faulty statement (and, for a throwing write, that statement on that sink and the sinks after it) may "
                       "differ; notifications are bounded; the backend must neither stall nor livelock; every flush returns."),
        "level_note": SIM_NOTE,
        "rule": SIM_CASE + ("with fault kinds on Log ops and a throw plan per sink; non-trivial = >= 1 injected fault with >= 1 later "
                            "accepted statement on the same thread and >= 1 flush in the program"),
        "assumptions": ["sinks throw std::exception-derived errors only (property text)"],
        "jobs": _simjobs("C10", ["sim_bb1k", "sim_ub", "sim_bb4k"], quick_procs=3) + [
            # sink failures while a backtrace is replayed: the C18 program generator and its reference ring, with sinks that
            # throw for chosen backtrace statements (only that statement may be missing, on that sink and the ones after it)
            {"bin": b, "params": {"prop": "C18", "bt_throws": 1},
             "quick": {"cases": 700, "procs": 2, "maxlen": 400},
             "thorough": {"cases": 10000, "procs": 4, "maxlen": 700}} for b in ("sim_bb1k", "sim_ub")],
    },
    "C16": {
        "technique": "stateful property-based testing through the real LOG_* macros with argument-evaluation counters; iff-model per sink (level threshold, filters, override pattern)",
        "level_text": ("Exploration: thousands of generated programs per run: all nine static levels through the real macros and "
                       "LOG_DYNAMIC with every runtime level, logger level changed between statements by any thread, 1-3 sinks each "
                       "with its own level filter and 0-2 filters (pure functions of level and message), one sink with an override "
                       "pattern, transit buffers of 1-2 slots so static/dynamic/flush events reuse slots; evaluated <=> level >= "
                       "logger level; sink k receives it <=> its own threshold and filters accept; reported level and formatted line "
                       "exact."),
        "level_note": SIM_NOTE + " Sink-side settings are fixed at creation (their effect on in-flight statements is unspecified).",
        "rule": SIM_CASE + ("Log ops go through macro call sites with bump(counter) arguments; SetLevel ops; non-trivial = a dynamic "
                            "and a static statement were both delivered AND two sinks disagreed on at least one statement"),
        "assumptions": ["blocking flavours (evaluated == enqueued)"],
        "jobs": _simjobs("C16", ["sim_bb1k", "sim_ub"], quick_procs=4) + [
            # real threads: filters attached to a sink while other threads attach filters to it and the backend evaluates
            _rtjob("rt_ub", "C16", quick_cases=60, quick_procs=4), _rtjob("rt_ub_tsan", "C16", quick_cases=20, quick_procs=2)],
    },
    "C17": {
        "technique": "stateful property-based testing of the logger/sink registry against a reference registry (creation, idempotent lookup, removal, blocking removal, re-creation, user sink references) under ASan",
        "level_text": ("Exploration: thousands of generated programs per run mixing create_or_get_logger/get_logger/remove_logger/"
                       "remove_logger_blocking/re-creation over three names, sinks shared in every pattern, user sink references "
                       "dropped at any time, logging threads and exits, with removals and late enqueues placed between the backend's "
                       "'all empty' check and its clean-ups; statements logged before a removal are all written, sinks are destroyed "
                       "exactly when unowned, blocking removal completes before it returns, lookups are idempotent, ASan sees no "
                       "use-after-free."),
        "level_note": SIM_NOTE + " The generator never logs through a logger after its removal was requested and re-creates a name only after the removal completed (documented preconditions).",
        "rule": ("case = generated BackendOptions + program of up to 120 ops (Create, Remove, RemoveBlocking, DropSinkRef, Log, Flush, "
                 "StartThread, ExitThread, Poll with bursts at Y1..Y6); non-trivial = a removal was requested while statements of that "
                 "logger were still unwritten AND a name was re-created"),
        "assumptions": ["CsvWriter rows from two different threads carry no mutual order claim"],
        "jobs": _simjobs("C17", ["sim_bb1k", "sim_ub", "sim_bd1k"], quick_procs=3) + [_rtjob("rt_ub_asan", "C17", quick_cases=12, quick_procs=3), _rtjob("rt_ub_tsan", "C17", quick_cases=40)] + [
            # quill::CsvWriter (an anchor of C17): real backend thread, five constructor overloads, files and recording sinks,
            # destruction with rows still queued, re-creation over the same file / another sink; schedule-independent oracle
            {"bin": "csvw", "params": {}, "realthread": True,
             "quick": {"cases": 400, "procs": 3, "maxlen": 220},
             "thorough": {"cases": 8000, "procs": 8, "maxlen": 400, "params": {"maxops": "48"}}}],
    },
    "C18": {
        "technique": "stateful property-based testing of backtrace storage against a reference ring per logger (exact expected sink sequence)",
        "level_text": ("Exploration: thousands of generated programs per run: capacities 1-9, flush levels incl. None, histories of "
                       "LOG_BACKTRACE-level statements, ordinary statements at every level, explicit flushes and re-initialisations, "
                       "1-3 threads each with its own logger, many store/flush cycles with wrapped and partial rings; the sinks of each "
                       "logger must receive exactly: ordinary statements when logged, and after each trigger the most recent "
                       "min(capacity, stored) backtrace statements oldest first, once, with original timestamp/thread id."),
        "level_note": SIM_NOTE + " Each logger is used by one thread (so its event order is program order); capacity 0 not generated; a different capacity only right after a flush.",
        "rule": ("case = generated BackendOptions (transit buffers of 1-2 slots) + program of up to 120 ops (InitBt, backtrace Log, "
                 "ordinary Log, FlushBt, Tick, Poll with bursts); non-trivial = some logger saw >= 2 flush cycles of which >= 1 with a "
                 "wrapped ring and >= 1 with a partially filled ring"),
        "assumptions": ["flush level changes only via init_backtrace at points the model tracks"],
        "jobs": _simjobs("C18", ["sim_bb1k", "sim_ub", "sim_bd256"], quick_procs=3),
    },
    "C20": {
        "technique": "stateful property-based testing of thread-context reclamation and queue shrinking: batches of short-lived threads aimed at counter-width boundaries, context count oracle",
        "level_text": ("Exploration: hundreds to thousands of generated programs per run with StartThread/Log/ExitThread in any "
                       "interleaving with polls, batches of k short-lived threads (k up to 257 quick, 513 thorough) executed with no "
                       "idle poll in between, exits placed between the backend's idle check and its clean-ups, shrink requests on "
                       "unbounded queues; all statements delivered, after the drain the number of retained contexts equals the live "
                       "threads that logged, shrink takes effect exactly when capacity <= current/2."),
        "level_note": SIM_NOTE + " 65 536-thread batches were dropped (cost); batch sizes 511-513 only in the thorough tier.",
        "rule": ("case = generated BackendOptions + program of up to 120 ops (Log, StartThread, ExitThread, Batch(k x n), Shrink, Tick, "
                 "Poll with bursts); non-trivial = a thread exited with unwritten statements OR >= 64 thread exits between two backend "
                 "idle periods OR a shrink took effect"),
        "assumptions": [],
        "jobs": _simjobs("C20", ["sim_ub", "sim_ubs", "sim_bb1k", "sim_ud"], quick_cases=250, thorough_cases=3000, extra=None) + [_rtjob("rt_ub", "C20", quick_cases=30, quick_procs=2), _rtjob("rt_ub_tsan", "C20", quick_cases=40)] + [
            # thorough only: batches of 511-513 threads. (A job with one batch of 65535-65537 threads per case -- harness
            # parameter huge_batches=1 -- is NOT registered: in a trial run it raised alarms on the unchanged tree that come
            # from the harness itself, whose thread-id -> worker map is not sound once the kernel recycles thread ids.)
            {"bin": "sim_ubs", "params": {"prop": "C20", "big_batches": "1"}, "only_tier": "thorough",
             "thorough": {"cases": 1500, "procs": 4, "maxlen": 1200}}],
    },
    "C01": {
        "technique": "property-based testing: randomised C++11 memory-model simulation of the real queue code vs a FIFO model + happens-before race detector",
        "level_text": ("Exploration: thousands of generated producer/consumer step interleavings per run over the REAL "
                       "BoundedSPSCQueueImpl<uint8_t|uint16_t|size_t> code with std::atomic retargeted to a shim that returns any "
                       "store C++11 allows; capacities 16..4096 (pow2 and not), publish thresholds 0..100 %, sizes 1..capacity+2, "
                       "wrapped 8/16-bit counters; FIFO/space/contiguity/race oracles. Held on everything generated."),
        "level_note": WMM_NOTE,
        "rule": ("case = (integer type, requested capacity, reader publish percent, 1-60 records with sizes drawn relative to the "
                 "capacity incl. == capacity and > capacity, chunked payload writes, finish/commit batching, consumer read/commit "
                 "batching, preemption choice at every atomic access, legal-load-value choice at every load); non-trivial = ring "
                 "wrapped >= 1 AND >= 1 reservation refused AND producer/consumer alternated >= 4 times; distinct = FNV hash of "
                 "the rendered case (config, sizes, outcome counters)"),
        "assumptions": ["C++11 axiomatic model as implemented by engine/wmm.h (DESIGN.md Appendix A)", "x86-64 build of the queue code"],
        "jobs": [
            {"bin": "wmm", "params": {"prop": "C01"},
             "quick": {"cases": 1500, "procs": 8, "maxlen": 700},
             "thorough": {"cases": 25000, "procs": 16, "maxlen": 1400}},
            {"bin": "qtsan", "params": {"prop": "C01"}, "confirm": 2,
             "quick": {"cases": 80, "procs": 2, "maxlen": 2400},
             "thorough": {"cases": 2500, "procs": 8, "maxlen": 2400}},
        ],
    },
    "C02": {
        "technique": "property-based testing: randomised C++11 memory-model simulation of the real queue code vs a FIFO/node model + happens-before race detector + ASan",
        "level_text": ("Exploration: thousands of generated interleavings per run of producer steps (write, grow incl. multi-doubling, "
                       "shrink, oversize) and consumer steps (read, switch, free) over the REAL UnboundedSPSCQueue with the atomics "
                       "shim; initial 16..1024, max 1x..16x pow2 and not; FIFO across nodes, old-buffer-finished-first, cap, throw, "
                       "must-grant and use-after-retire (ASan, unmapped storage, dead marks) oracles. Held on everything generated."),
        "level_note": WMM_NOTE,
        "rule": ("case = (initial capacity, maximum capacity, 1-50 producer ops = records sized relative to the current node / forcing "
                 "one or several doublings / near max / above max, or shrink requests; consumer read/commit batching; preemption and "
                 "legal-load-value choices at every atomic access; empty() asked by the consumer between reads and, once the finished "
                 "producer's stores are all visible, required not to hide an unread record); non-trivial = (consumer observed >= 1 buffer switch AND >= 4 "
                 "preemptions) OR a shrink followed by a grow; distinct = FNV hash of the rendered case"),
        "assumptions": ["C++11 axiomatic model as implemented by engine/wmm.h (DESIGN.md Appendix A)",
                        "shrink is only requested with nothing finished-but-uncommitted (quill always commits per statement)"],
        "jobs": [
            {"bin": "wmm", "params": {"prop": "C02"},
             "quick": {"cases": 1500, "procs": 8, "maxlen": 700},
             "thorough": {"cases": 25000, "procs": 16, "maxlen": 1400}},
            {"bin": "qtsan", "params": {"prop": "C02"}, "confirm": 2,
             "quick": {"cases": 80, "procs": 2, "maxlen": 2400},
             "thorough": {"cases": 2500, "procs": 8, "maxlen": 2400}},
        ],
    },
    "C04": {
        "technique": "property-based differential testing: typed statement catalog with generated values and runtime format strings vs fmtquill::format at the call site; codec size round trip",
        "level_text": ("Exploration: hundreds of thousands of generated statements per run over a catalog of 167 argument shapes "
                       "(scalars, C strings incl. null/unterminated arrays, strings with NUL/non-printables, every quill/std "
                       "container, optional/pair/tuple/chrono/path, deferred and direct user types, nested two deep, 1-14 "
                       "variable-length arguments), runtime format strings with per-type spec grammar, arguments clobbered after "
                       "the call; message equality, independent sanitiser, size pass == encode == decode advance with canaries. "
                       "Held on everything generated."),
        "level_note": ("Types are sampled from a catalog (not enumerated); containers/user types use {} only; wide strings and "
                       "Windows paths out of scope; one known finding (F19, pinned by the repository's own test) excluded by construction and probed; F4 is fixed in /repo."),
        "rule": ("case = 1-3 back-to-back statements, each = (shape from the 167-shape catalog, runtime format string, generated "
                 "values); non-trivial = a statement with >= 1 variable-length argument AND (>= 2 arguments OR a spec); "
                 "distinct = FNV hash of the rendered case"),
        "assumptions": ["fmtquill::format at the call site is the formatting reference",
                        "check_printable_char is one of three configurations per process: default, a stricter/wider user predicate, off"],
        "jobs": [
            {"bin": "fmtcat",
             "quick": {"cases": 25000, "procs": 8, "maxlen": 300},
             "thorough": {"cases": 300000, "procs": 16, "maxlen": 400}},
            {"bin": "fmtcat_drop",
             "quick": {"cases": 25000, "procs": 4, "maxlen": 300},
             "thorough": {"cases": 300000, "procs": 8, "maxlen": 400}},
            # the CONFIGURED sanitisation: a user predicate stricter than the default for some plain ASCII characters and
            # wider for '\t'; and the check switched off
            {"bin": "fmtcat", "params": {"printable": "strict"},
             "quick": {"cases": 15000, "procs": 3, "maxlen": 300},
             "thorough": {"cases": 200000, "procs": 8, "maxlen": 400}},
            {"bin": "fmtcat", "params": {"printable": "off"},
             "quick": {"cases": 10000, "procs": 1, "maxlen": 300},
             "thorough": {"cases": 100000, "procs": 4, "maxlen": 400}},
        ],
    },
    "C07": {
        "level": "fault_enumeration",
        "evaluations_counter": "children",
        "technique": "fault injection: generated child programs, every statement boundary x termination kind enumerated per program, judged from outside (wait status + file)",
        "level_text": ("Fault enumeration: for every generated child program (threads, statement counts/sizes, clock, busy/idle "
                       "backend, handler options) the termination event (return, exit from main/worker, Backend::stop, or one of the "
                       "six handled signals delivered by raise/pthread_kill/kill/real fault) is placed at EVERY statement boundary "
                       "0..n of the acting thread; the parent checks wait status, file content, notices and flush state. Start/stop "
                       "cycles run in a separate child. Programs are sampled, boundaries per program are exhaustive."),
        "level_note": ("Real OS scheduling inside each child (the oracle is schedule independent); signals inside a log call and "
                       "exits while other threads are still logging are outside the property; x86 ud2 for the SIGILL fault form."),
        "rule": ("evaluation = one exec'd child (program spec x termination kind x boundary); a case = one generated program with "
                 "2-3 (quick) or all 10 (thorough) termination kinds x all boundaries of the acting thread, or one start/stop-cycle "
                 "program; non-trivial case = at the termination event of at least one of its children a completed statement was "
                 "still unwritten (child reports its sink count through report.txt) or a cycle had statements pending at Stop; "
                 "distinct = FNV hash of the rendered program spec + kinds"),
        "assumptions": ["children run without sanitizers, RLIMIT_CORE=0, scratch dirs in /dev/shm"],
        "jobs": [
            {"bin": "crashkid", "needs": ["crash_child"], "params": {"child": "{bin:crash_child}", "mode": "mix"},
             "quick": {"cases": 400, "procs": 1, "timeout": 1500},
             "thorough": {"cases": 3000, "procs": 1, "params": {"all_kinds": "1"}, "timeout": 7200}, "realthread": True},
            {"bin": "crashkid", "needs": ["crash_child"], "params": {"child": "{bin:crash_child}", "mode": "cycles", "jobs": "4"},
             "quick": {"cases": 100, "procs": 1, "timeout": 1500},
             "thorough": {"cases": 1500, "procs": 1, "timeout": 7200}, "realthread": True},
        ],
    },
    "C11": {
        "technique": "property-based testing with link-time allocation interposers (operator new / malloc family / mmap counted per armed thread) and a formatter-thread recorder",
        "level_text": ("Exploration: tens of thousands of generated statements per run over a catalog of 58 argument shapes x 35 real "
                       "macro call sites (all macro families), generated values and lengths, main thread and fresh worker threads "
                       "(after preallocate() or after a first call); the armed allocation counters on the calling thread must read "
                       "0 and deferred formatters must run on the backend thread id. Held on everything generated."),
        "level_note": ("Built -O2 without sanitizers; kernel-side allocation (page faults) is not an allocation call; excluded by the "
                       "property: paths, direct-format types (checked the other way round), deferred types whose copy allocates, "
                       "13+ C strings (used as a negative control)."),
        "rule": ("case = thread mode (main / worker after preallocate / worker after first call) + 1-8 statements, each = (shape from "
                 "the 58-shape catalog, one of 35 macros, generated values/lengths that fit the queue); armed region = exactly the "
                 "macro; non-trivial = >= 1 statement with a variable-length or container argument; distinct = FNV hash of the "
                 "rendered case"),
        "assumptions": ["interposers see every user-space allocation entry point of glibc/libstdc++", "default FrontendOptions"],
        "jobs": [
            {"bin": "alloc",
             "quick": {"cases": 30000, "procs": 8, "maxlen": 400},
             "thorough": {"cases": 300000, "procs": 16, "maxlen": 400}},
            # the same catalog on a user-defined FrontendOptions type (BoundedBlocking 128 KiB): FrontendImpl<Custom> /
            # LoggerImpl<Custom> have their own thread-local context, preallocate() must prepare THAT one
            {"bin": "alloc_bounded",
             "quick": {"cases": 15000, "procs": 4, "maxlen": 400},
             "thorough": {"cases": 150000, "procs": 8, "maxlen": 400}},
            # small transit-event limits (the backend reads 4 / 8 events per pass and queue): a burst that is a multiple of
            # the limit, drained, then a statement that exactly fits the free space. What a failing case shows depends on the
            # queue state the process has reached (a real backend thread drains it), so these jobs use the real-thread
            # confirmation rule: no shrinking, a second failing execution or an independent process with the same complaint
            {"bin": "alloc", "params": {"hard_limit": 4}, "realthread": True,
             "quick": {"cases": 15000, "procs": 2, "maxlen": 400},
             "thorough": {"cases": 150000, "procs": 4, "maxlen": 400}},
            {"bin": "alloc", "params": {"hard_limit": 8}, "realthread": True,
             "quick": {"cases": 15000, "procs": 2, "maxlen": 400},
             "thorough": {"cases": 150000, "procs": 4, "maxlen": 400}},
        ],
    },
    "C12": {
        "technique": "property-based testing against an independent reference substitution (direct PatternFormatter level and end-to-end through a manual backend)",
        "level_text": ("Exploration: tens of thousands of generated (pattern, attribute values, metadata, message) cases per run; "
                       "patterns use any subset/order of the 16 attributes with fill/align/width/precision specs and literal text; "
                       "end-to-end cases cover every newline arrangement, add_metadata_to_multi_line_logs on/off, sink override "
                       "patterns and LOG_RUNTIME_METADATA. Held on everything generated."),
        "level_note": ("The reference re-implements fmt pad/truncate for ASCII only (specs get ASCII values); %(time) uses simple "
                       "patterns (time caching is C13); single-threaded end-to-end with a user clock."),
        "rule": ("case = direct (pattern tokens, values, runtime MacroMetadata, named-arg pairs) or end-to-end (logger options, in a third "
                 "of the cases a second logger whose options are equal or differ in exactly one field, 1-n "
                 "statements with newline layouts / runtime metadata) or an invalid pattern that must throw; non-trivial = >= 3 "
                 "attributes in non-enum order, or a spec, or a message of >= 2 lines; distinct = FNV hash of the rendered case"),
        "assumptions": ["each attribute at most once per pattern (documented)", "braces in patterns only escaped"],
        "jobs": [
            {"bin": "pattern", "params": {"part": "both"},
             "quick": {"cases": 30000, "procs": 8, "maxlen": 400},
             "thorough": {"cases": 100000, "procs": 16, "maxlen": 600}},
            _fuzzjob("pattern_fuzz", "pattern", 1500000, 4, params={"part": "both"}),
        ],
    },
    "C14": {
        "technique": "property-based testing of RotatingFileSink driven directly with generated sizes/timestamps/restarts against a file-system reference model",
        "level_text": ("Exploration: thousands of generated (config, write/flush/restart history) cases per run in scratch "
                       "directories; after every rotation, start and stop the directory is compared with an independent model "
                       "(wholeness, size bound, name order = age order, loss only by deliberate deletion, backup count, append "
                       "restarts continue the sequence). Held on everything generated."),
        "level_note": ("Start instants and timestamps are injected (deterministic); tmpfs scratch; files named <stem>.<x><ext> are "
                       "treated as the sink's own family as the code documents (observations about siblings are in DESIGN.md); "
                       "FilenameAppendOption not generated (wall clock)."),
        "rule": ("case = (limit 512-4096, backup count, overwrite, naming scheme, open mode, remove-old, zone, file name form, "
                 "unrelated files) + 1-80 ops Write(size, dt) / Flush / Restart(dt); non-trivial = >= 2 rotations AND (backup limit "
                 "reached OR a restart OR a date collision); distinct = FNV hash of the rendered case"),
        "assumptions": ["unrelated file = different extension or different stem prefix (as in the repo's own test)"],
        "jobs": [
            {"bin": "rot", "params": {"prop": "C14", "domain_exclude": "rot.remove_old_deletes_unrelated_same_prefix,rot.recovers_sibling_rotated_file"},
             "quick": {"cases": 3500, "procs": 8, "maxlen": 420},
             "thorough": {"cases": 20000, "procs": 16, "maxlen": 420}},
        ],
    },
    "C15": {
        "technique": "property-based testing of RotatingFileSink time rotation against the configured civil schedule (a second, grid-only tier decides where the clocks change)",
        "level_text": ("Exploration: thousands of generated (schedule, zone, start instant, timestamp history) cases per run, dense "
                       "and with gaps of many periods, combined with size rotation and backup limits, all naming schemes; checked "
                       "against the configured schedule (tier A: civil HH:MM of every day in the sink's zone, whole intervals from the first "
                       "full hour/minute); where the text leaves the schedule open (time of day missing or doubled by a clock change, "
                       "fractional-hour offset change) any schedule on the configured grid is accepted (tier B). Held on everything "
                       "generated."),
        "level_note": ("F8 (schedule drift) was found here and is fixed in /repo (58dadac): tier A is asserted; only RotatingFileSink is driven -- "
                       "RotatingSink<JsonFileSink>, whose bytes on disk are not the text statement, is instantiated by no job (seeded change C15-5 is missed for that reason); "
                       "local-time fall-back hours with date-bearing names are stepped over; 12 curated zones, 2001-2030."),
        "rule": ("case = (daily HH:MM | hourly | minutely with interval, GMT/local zone, start instant near/at/after a boundary, "
                 "optional size limit and backup limit, naming scheme) + Write(dt) history; non-trivial = >= 1 time rotation AND (a "
                 "gap > one period OR a statement exactly on a point OR a size rotation inside the same period); distinct = FNV "
                 "hash of the rendered case"),
        "assumptions": ["libc mktime/timegm/strftime are the calendar reference"],
        "jobs": [
            {"bin": "rot", "params": {"prop": "C15", "domain_exclude": "rot.remove_old_deletes_unrelated_same_prefix,rot.recovers_sibling_rotated_file"},
             "quick": {"cases": 3500, "procs": 8, "maxlen": 420},
             "thorough": {"cases": 20000, "procs": 16, "maxlen": 420}},
        ],
    },
    "C19": {
        "technique": "property-based testing end-to-end through a manual backend: positional-twin oracle via call-site fmt, strict JSON parser for the sink file",
        "level_text": ("Exploration: tens of thousands of generated statement sequences per run (1-20 statements over 1-6 templates in "
                       "generated first-seen order, 17 argument signatures, escaped braces/specs in every adjacency, cache reuse, "
                       "metadata rewritten in place); message, ordered key/value pairs and the JsonFileSink line are checked; the 27 "
                       "LOGJ expansions are compared exhaustively once per process. Held on everything generated."),
        "level_note": ("Single thread that is also the backend; scalar/string argument types only; JsonConsoleSink shares the code "
                       "path but is not exercised; one known finding (F5: a value containing the 3-byte separator) excluded by construction and probed; F4 and F17 were found here and are fixed in /repo."),
        "rule": ("case = 1-20 statements over 1-6 templates (token sequences of literal / {{ / }} / {name} / {name:spec}) with "
                 "generated values, interleaved with named-argument LOG_BACKTRACE statements that are stored and never written "
                 "(transit buffer of 4 reused slots); non-trivial = >= 2 named placeholders AND (an escaped brace OR a spec), OR a cached template "
                 "reused after a different one; distinct = FNV hash of the rendered case"),
        "assumptions": ["fmtquill::format at the call site is the formatting reference", "default check_printable_char"],
        "jobs": [
            {"bin": "named",
             "quick": {"cases": 20000, "procs": 8, "maxlen": 600},
             "thorough": {"cases": 45000, "procs": 16, "maxlen": 600}},
            _fuzzjob("named_fuzz", "named", 600000, 4),
        ],
    },
    "C13": {
        "technique": "property-based testing (rapidcheck choice streams) against a libc strftime oracle, with shrinking",
        "level_text": ("Exploration: tens of thousands of generated (pattern, zone, instant-sequence) cases per run, built to "
                       "cross second/minute/hour/quarter-hour/noon/midnight/DST boundaries with one long-lived formatter, "
                       "each call compared with libc. Held on everything generated; not a proof."),
        "level_note": ("Trusts glibc strftime/localtime_r/gmtime_r and the installed tz database; C locale; the three defects found "
                       "here (F6, F7, F14) are fixed in /repo, so nothing is excluded from generation any more."),
        "rule": ("case = (GMT|local mode, TZ database zone, strftime pattern of 1-9 tokens with an optional %Qms/%Qus/%Qns "
                 "at any token position, sequence of 1-30 instants 2001..2100 built from boundary-seeking steps) formatted "
                 "by ONE TimestampFormatter instance and compared per call with libc localtime_r/gmtime_r+strftime; "
                 "non-trivial = the pattern has a time-of-day conversion AND the sequence has two instants in different "
                 "minutes (forward) or a backward step followed by a forward one; distinct = FNV hash of the rendered case"),
        "assumptions": ["libc strftime/localtime_r/gmtime_r are the reference", "C locale",
                        "generator respects the property's domain: no literal %% directly before a letter the scanner treats "
                        "as a conversion (H M S I k l s Q r R T X c E O); %s only for ten-digit epochs in local mode or TZ=UTC"],
        "jobs": [
            {"bin": "tsfmt",
             "quick": {"cases": 8000, "procs": 8, "maxlen": 260},
             "thorough": {"cases": 150000, "procs": 16, "maxlen": 260}},
            _fuzzjob("tsfmt_fuzz", "tsfmt", 1500000, 4, max_len=1200),
            # end to end: the time as it reaches a sink through loggers (GMT / local zone America/St_Johns, six timestamp
            # patterns, a second logger differing in zone or timestamp pattern), against the same libc reference
            {"bin": "pattern", "params": {"part": "e2e", "must_time": 1, "no_runtime_metadata": 1},
             "quick": {"cases": 15000, "procs": 3, "maxlen": 400},
             "thorough": {"cases": 200000, "procs": 8, "maxlen": 400}},
        ],
    },
}
