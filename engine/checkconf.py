"""Tables used by /verif/check: how to build each harness binary and which jobs decide each property."""

RC_LIBS = ["-lrapidcheck"]

BINARIES = {
    # name: sources (first = harness TU), flavour, harness name (for replay lookup)
    "wmm": {"sources": ["harness/queue_wmm.cpp", "engine/rc_driver.cpp"], "flavour": "asan", "libs": RC_LIBS,
            "harness": "wmm", "probe_params": {}},
    "tsfmt": {"sources": ["harness/tsfmt.cpp", "engine/rc_driver.cpp"], "flavour": "asan", "libs": RC_LIBS,
              "harness": "tsfmt"},
}

# known-finding class -> binary that implements its probe
CLASS_BIN = {
    "wmm.unpublished_reader_remainder": "wmm",
    "wmm.nonpow2_max_unreachable": "wmm",
    "tsfmt.composite_time_conversion": "tsfmt",
    "tsfmt.offquarter_zone_transition": "tsfmt",
    "tsfmt.duplicate_same_fractional_specifier": "tsfmt",
}

HOOKS = {
    "guard": "QUILL_VERIF",
    "enable": "every harness TU is compiled with -DQUILL_VERIF -I/repo/include (header-only library; see ./check)",
    "baseline_off_cmd": "cmake -G Ninja -S /repo -B /repo/_build -DQUILL_BUILD_TESTS=ON && cmake --build /repo/_build -j16 && ctest --test-dir /repo/_build -j8 --timeout 900",
    "source_commits": [],
    "add_only": True,
}

ENGINES = {
    "wmm": {"path": "engine/wmm.h", "serves": ["C01", "C02", "C09"],
            "kind": "std::atomic retarget shim with per-location store history, vector clocks, coherence floors, choice-driven stale loads, coroutine scheduler, payload happens-before race detector"},
    "rcdrv": {"path": "engine/rc_driver.cpp", "serves": ["C13"],
              "kind": "rapidcheck generator+shrinker over a vector<uint32_t> choice stream; in-process or fork-per-case execution; replay files"},
    "check": {"path": "check", "serves": ["C13"],
              "kind": "python3 driver: builds harnesses from /repo's working tree, seeds, tiers, replays, known findings, evidence"},
}

NOTES = ("Technique family: property-based testing and fuzzing (rapidcheck-driven choice streams, libFuzzer for byte-level "
         "parsers, fork/exec fault injection). Every level is exploration: 'held on everything generated'. Known genuine "
         "defects are listed in known_findings.txt and reported as KNOWN-FINDING lines.")

NOT_APPLICABLE = {}

WMM_NOTE = ("Trusts the shim's reading of the C++11 rules (coherence + happens-before per single-writer location, release "
            "sequences, seq_cst treated as acq_rel), sequential coroutine interleavings preempted at every atomic access; private "
            "non-atomic members are not tracked (a side touching the other side's private fields is only visible to the TSan job); "
            "exploration of the axiomatic space, not enumeration.")

PROPERTIES = {
    "C01": {
        "technique": "property-based testing: randomised C++11 memory-model simulation of the real queue code vs a FIFO model + happens-before race detector",
        "level_text": ("Exploration: thousands of generated producer/consumer step interleavings per run over the REAL "
                       "BoundedSPSCQueueImpl<uint8_t|uint16_t|size_t> code with std::atomic retargeted to a shim that returns any "
                       "store C++11 allows; capacities 16..4096 (pow2 and not), publish thresholds 0..100 %, sizes 1..capacity+2, "
                       "wrapped 8/16-bit counters; FIFO/space/contiguity/race oracles. Held on everything generated."),
        "level_note": WMM_NOTE,
        "rule": ("case = (integer type, requested capacity, reader publish percent, 1-60 records with sizes drawn relative to the "
                 "capacity incl. == capacity and > capacity, chunked payload writes, finish/commit batching, consumer read/commit "
                 "batching, preemption choice at every atomic access, legal-load-value choice at every load); non-trivial = ring "
                 "wrapped >= 1 AND >= 1 reservation refused AND producer/consumer alternated >= 4 times; distinct = FNV hash of "
                 "the rendered case (config, sizes, outcome counters)"),
        "assumptions": ["C++11 axiomatic model as implemented by engine/wmm.h (DESIGN.md Appendix A)", "x86-64 build of the queue code"],
        "jobs": [
            {"bin": "wmm", "params": {"prop": "C01"},
             "quick": {"cases": 1500, "procs": 8, "maxlen": 700},
             "thorough": {"cases": 25000, "procs": 16, "maxlen": 1400}},
        ],
    },
    "C02": {
        "technique": "property-based testing: randomised C++11 memory-model simulation of the real queue code vs a FIFO/node model + happens-before race detector + ASan",
        "level_text": ("Exploration: thousands of generated interleavings per run of producer steps (write, grow incl. multi-doubling, "
                       "shrink, oversize) and consumer steps (read, switch, free) over the REAL UnboundedSPSCQueue with the atomics "
                       "shim; initial 16..1024, max 1x..16x pow2 and not; FIFO across nodes, old-buffer-finished-first, cap, throw, "
                       "must-grant and use-after-retire (ASan, unmapped storage, dead marks) oracles. Held on everything generated."),
        "level_note": WMM_NOTE,
        "rule": ("case = (initial capacity, maximum capacity, 1-50 producer ops = records sized relative to the current node / forcing "
                 "one or several doublings / near max / above max, or shrink requests; consumer read/commit batching; preemption and "
                 "legal-load-value choices at every atomic access); non-trivial = (consumer observed >= 1 buffer switch AND >= 4 "
                 "preemptions) OR a shrink followed by a grow; distinct = FNV hash of the rendered case"),
        "assumptions": ["C++11 axiomatic model as implemented by engine/wmm.h (DESIGN.md Appendix A)",
                        "shrink is only requested with nothing finished-but-uncommitted (quill always commits per statement)"],
        "jobs": [
            {"bin": "wmm", "params": {"prop": "C02"},
             "quick": {"cases": 1500, "procs": 8, "maxlen": 700},
             "thorough": {"cases": 25000, "procs": 16, "maxlen": 1400}},
        ],
    },
    "C13": {
        "technique": "property-based testing (rapidcheck choice streams) against a libc strftime oracle, with shrinking",
        "level_text": ("Exploration: tens of thousands of generated (pattern, zone, instant-sequence) cases per run, built to "
                       "cross second/minute/hour/quarter-hour/noon/midnight/DST boundaries with one long-lived formatter, "
                       "each call compared with libc. Held on everything generated; not a proof."),
        "level_note": ("Trusts glibc strftime/localtime_r/gmtime_r and the installed tz database; C locale; three known "
                       "findings (F6, F7, F14) are excluded by construction and probed separately."),
        "rule": ("case = (GMT|local mode, TZ database zone, strftime pattern of 1-9 tokens with an optional %Qms/%Qus/%Qns "
                 "at any token position, sequence of 1-30 instants 2001..2100 built from boundary-seeking steps) formatted "
                 "by ONE TimestampFormatter instance and compared per call with libc localtime_r/gmtime_r+strftime; "
                 "non-trivial = the pattern has a time-of-day conversion AND the sequence has two instants in different "
                 "minutes (forward) or a backward step followed by a forward one; distinct = FNV hash of the rendered case"),
        "assumptions": ["libc strftime/localtime_r/gmtime_r are the reference", "C locale",
                        "generator respects the property's domain: no literal %% directly before a letter the scanner treats "
                        "as a conversion (H M S I k l s Q r R T X c E O); %s only for ten-digit epochs in local mode or TZ=UTC"],
        "jobs": [
            {"bin": "tsfmt",
             "quick": {"cases": 8000, "procs": 8, "maxlen": 260},
             "thorough": {"cases": 150000, "procs": 16, "maxlen": 260}},
        ],
    },
}
