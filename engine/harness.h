// Shared interface between the generic drivers (rapidcheck driver, libFuzzer driver, replay)
// and the per-property harnesses. No rapidcheck include here: harness TUs stay cheap to build.
#pragma once

#include <cstdint>
#include <cstdio>
#include <cstring>
#include <initializer_list>
#include <map>
#include <string>
#include <vector>

namespace verif
{
// ---------------------------------------------------------------------------------------------
// Choice stream: every random decision of a case is drawn from here. Exhausted stream yields 0,
// so every prefix / subsequence of a choice vector is still a valid (smaller) case.
// ---------------------------------------------------------------------------------------------
struct Choices
{
  uint32_t const* p{nullptr};
  size_t n{0};
  size_t i{0};

  Choices() = default;
  Choices(uint32_t const* data, size_t size) : p(data), n(size) {}
  explicit Choices(std::vector<uint32_t> const& v) : p(v.data()), n(v.size()) {}

  bool exhausted() const { return i >= n; }
  size_t consumed() const { return i; }
  uint32_t raw() { return i < n ? p[i++] : 0u; }
  // uniform-ish in [0, k)
  uint32_t pick(uint32_t k) { return k <= 1 ? (raw(), 0u) : raw() % k; }
  // inclusive range
  int64_t range(int64_t lo, int64_t hi)
  {
    if (hi <= lo) { raw(); return lo; }
    uint64_t span = static_cast<uint64_t>(hi - lo) + 1u;
    if (span <= 0x40000000ull) return lo + static_cast<int64_t>(raw() % span);
    uint64_t r = (static_cast<uint64_t>(raw()) << 30) ^ raw();
    return lo + static_cast<int64_t>(r % span);
  }
  bool flip(uint32_t num = 1, uint32_t den = 2) { return (raw() % den) < num; }
  // index chosen with the given weights; index 0 is what an exhausted stream / shrunk 0 selects
  size_t weighted(std::initializer_list<uint32_t> w)
  {
    uint32_t tot = 0;
    for (auto x : w) tot += x;
    uint32_t r = tot ? raw() % tot : (raw(), 0u);
    size_t idx = 0;
    for (auto x : w)
    {
      if (r < x) return idx;
      r -= x;
      ++idx;
    }
    return w.size() - 1;
  }
  template <typename T>
  T const& of(std::vector<T> const& v) { return v[pick(static_cast<uint32_t>(v.size()))]; }
};

inline uint64_t fnv1a(void const* d, size_t n, uint64_t h = 1469598103934665603ull)
{
  auto const* c = static_cast<unsigned char const*>(d);
  for (size_t k = 0; k < n; ++k) { h ^= c[k]; h *= 1099511628211ull; }
  return h;
}
inline uint64_t fnv1a(std::string const& s, uint64_t h = 1469598103934665603ull)
{
  return fnv1a(s.data(), s.size(), h);
}

// printable rendering of arbitrary bytes for case descriptions
inline std::string esc(std::string const& s, size_t maxlen = 200)
{
  std::string o;
  for (size_t k = 0; k < s.size() && k < maxlen; ++k)
  {
    unsigned char c = static_cast<unsigned char>(s[k]);
    if (c == '\\') o += "\\\\";
    else if (c == '"') o += "\\\"";
    else if (c >= 0x20 && c < 0x7f) o += static_cast<char>(c);
    else { char b[8]; std::snprintf(b, sizeof b, "\\x%02X", c); o += b; }
  }
  if (s.size() > maxlen) o += "...(" + std::to_string(s.size()) + "B)";
  return o;
}

// ---------------------------------------------------------------------------------------------
// Report of one executed case
// ---------------------------------------------------------------------------------------------
struct Report
{
  bool failed{false};
  bool inconclusive{false};   // budget/watchdog: never a violation
  bool nontrivial{false};
  std::string message;        // oracle complaint (first one wins)
  std::string known_class;    // non-empty: failure matched a known-finding class predicate
  std::string render;         // canonical rendering of the case (used for samples + distinct hash)
  std::vector<std::string> labels;
  std::map<std::string, long> counters;

  void fail(std::string const& m)
  {
    if (!failed) { failed = true; message = m; }
  }
  void label(std::string const& l)
  {
    for (auto const& x : labels) if (x == l) return;
    labels.push_back(l);
  }
  void count(std::string const& k, long d = 1) { counters[k] += d; }
  void line(std::string const& s) { if (render.size() < 16000) { render += s; render += '\n'; } }
};

struct HarnessInfo
{
  char const* name;
  bool fork_per_case;        // run every case in a forked child of the (thread-free) driver
  unsigned default_max_len;  // nominal maximum length of the choice vector
  unsigned watchdog_ms;      // forked mode: per-case budget before the child is killed (inconclusive)
};

using Params = std::map<std::string, std::string>;

// Implemented by each harness TU ---------------------------------------------------------------
HarnessInfo harness_info();
// called once in the driver process before any case (and therefore inherited by forked children)
void harness_init(Params const& params);
// one case. Must be a pure function of (tree, params, choices).
void run_case(Choices& c, Report& r);
// fixed probes of known-finding classes: return true when the class still FAILS on this tree.
// `what` receives a one-line description. Unknown class => return false and leave what empty.
bool probe_known_class(std::string const& cls, std::string& what);

inline bool param_flag(Params const& p, char const* k)
{
  auto it = p.find(k);
  return it != p.end() && it->second != "0" && it->second != "";
}
inline std::string param_str(Params const& p, char const* k, char const* dflt = "")
{
  auto it = p.find(k);
  return it == p.end() ? std::string{dflt} : it->second;
}
inline long param_int(Params const& p, char const* k, long dflt)
{
  auto it = p.find(k);
  return it == p.end() ? dflt : std::strtol(it->second.c_str(), nullptr, 10);
}
// exclude list: comma separated class names in params["exclude"]
inline bool excluded(Params const& p, char const* cls)
{
  auto it = p.find("exclude");
  if (it == p.end()) return false;
  std::string const& s = it->second;
  size_t pos = 0, L = std::strlen(cls);
  while ((pos = s.find(cls, pos)) != std::string::npos)
  {
    bool b = (pos == 0 || s[pos - 1] == ',');
    bool e = (pos + L == s.size() || s[pos + L] == ',');
    if (b && e) return true;
    pos += L;
  }
  return false;
}
} // namespace verif
