// Code shared by the rapidcheck driver and the libFuzzer driver: executing one case (in-process or
// in a forked child), statistics, replay files, JSON output. No rapidcheck here.
#pragma once

#include "harness.h"

#include <algorithm>
#include <chrono>
#include <csignal>
#include <cstdlib>
#include <fcntl.h>
#include <fstream>
#include <poll.h>
#include <set>
#include <sstream>
#include <sys/mman.h>
#include <sys/resource.h>
#include <sys/wait.h>
#include <unistd.h>

namespace verif
{
inline std::string json_str(std::string const& s)
{
  std::string o = "\"";
  for (unsigned char c : s)
  {
    switch (c)
    {
    case '"': o += "\\\""; break;
    case '\\': o += "\\\\"; break;
    case '\n': o += "\\n"; break;
    case '\t': o += "\\t"; break;
    case '\r': o += "\\r"; break;
    default:
      if (c < 0x20 || c >= 0x7f) { char b[8]; std::snprintf(b, sizeof b, "\\u%04x", c); o += b; }
      else o += static_cast<char>(c);
    }
  }
  return o + "\"";
}

// --- Report (de)serialisation over a pipe ---------------------------------------------------------
inline void put_str(std::string& o, std::string const& s)
{
  uint32_t n = static_cast<uint32_t>(s.size());
  o.append(reinterpret_cast<char const*>(&n), 4);
  o += s;
}
inline bool get_str(std::string const& in, size_t& pos, std::string& s)
{
  if (pos + 4 > in.size()) return false;
  uint32_t n;
  std::memcpy(&n, in.data() + pos, 4);
  pos += 4;
  if (pos + n > in.size()) return false;
  s.assign(in.data() + pos, n);
  pos += n;
  return true;
}
inline std::string serialise(Report const& r)
{
  std::string o;
  o += r.failed ? 'F' : 'P';
  o += r.inconclusive ? 'I' : '-';
  o += r.nontrivial ? 'N' : '-';
  put_str(o, r.message);
  put_str(o, r.known_class);
  put_str(o, r.render);
  put_str(o, std::to_string(r.labels.size()));
  for (auto const& l : r.labels) put_str(o, l);
  put_str(o, std::to_string(r.counters.size()));
  for (auto const& kv : r.counters) { put_str(o, kv.first); put_str(o, std::to_string(kv.second)); }
  o += "END!";
  return o;
}
inline bool deserialise(std::string const& in, Report& r)
{
  if (in.size() < 7 || in.compare(in.size() - 4, 4, "END!") != 0) return false;
  r.failed = in[0] == 'F';
  r.inconclusive = in[1] == 'I';
  r.nontrivial = in[2] == 'N';
  size_t pos = 3;
  std::string t;
  if (!get_str(in, pos, r.message) || !get_str(in, pos, r.known_class) || !get_str(in, pos, r.render)) return false;
  if (!get_str(in, pos, t)) return false;
  size_t nl = std::strtoul(t.c_str(), nullptr, 10);
  for (size_t k = 0; k < nl; ++k) { std::string l; if (!get_str(in, pos, l)) return false; r.labels.push_back(l); }
  if (!get_str(in, pos, t)) return false;
  size_t nc = std::strtoul(t.c_str(), nullptr, 10);
  for (size_t k = 0; k < nc; ++k)
  {
    std::string a, b;
    if (!get_str(in, pos, a) || !get_str(in, pos, b)) return false;
    r.counters[a] = std::strtol(b.c_str(), nullptr, 10);
  }
  return true;
}

inline std::string tail(std::string const& s, size_t n)
{
  return s.size() <= n ? s : s.substr(s.size() - n);
}

// --- executing one case -----------------------------------------------------------------------------
inline Report execute_inprocess(std::vector<uint32_t> const& v)
{
  Report r;
  Choices c{v};
  run_case(c, r);
  r.counters["choices_consumed"] += static_cast<long>(c.consumed());
  return r;
}

#if defined(VERIF_COVERAGE)
extern "C" int __llvm_profile_write_file(void);
#endif
inline Report execute_forked(std::vector<uint32_t> const& v, unsigned watchdog_ms)
{
  Report r;
  int pfd[2];
  if (pipe(pfd) != 0) { r.inconclusive = true; r.message = "pipe failed"; return r; }
  int efd = memfd_create("verif-stderr", 0);
  fflush(stdout);
  fflush(stderr);
  pid_t pid = fork();
  if (pid < 0)
  {
    close(pfd[0]); close(pfd[1]); if (efd >= 0) close(efd);
    r.inconclusive = true; r.message = "fork failed";
    return r;
  }
  if (pid == 0)
  {
    close(pfd[0]);
    if (efd >= 0) { dup2(efd, 2); }
    struct rlimit rl{0, 0};
    setrlimit(RLIMIT_CORE, &rl);
    Report cr;
    Choices c{v};
    run_case(c, cr);
    cr.counters["choices_consumed"] += static_cast<long>(c.consumed());
    std::string s = serialise(cr);
    size_t off = 0;
    while (off < s.size())
    {
      ssize_t w = write(pfd[1], s.data() + off, s.size() - off);
      if (w <= 0) break;
      off += static_cast<size_t>(w);
    }
    close(pfd[1]);
#if defined(VERIF_COVERAGE)
    __llvm_profile_write_file();
#endif
    _exit(0);
  }
  close(pfd[1]);
  std::string in;
  auto const t0 = std::chrono::steady_clock::now();
  bool timed_out = false;
  char buf[65536];
  while (true)
  {
    auto el = std::chrono::duration_cast<std::chrono::milliseconds>(std::chrono::steady_clock::now() - t0).count();
    long left = static_cast<long>(watchdog_ms) - static_cast<long>(el);
    if (left <= 0) { timed_out = true; break; }
    struct pollfd pf{pfd[0], POLLIN, 0};
    int pr = poll(&pf, 1, static_cast<int>(left));
    if (pr < 0) { if (errno == EINTR) continue; break; }
    if (pr == 0) { timed_out = true; break; }
    ssize_t n = read(pfd[0], buf, sizeof buf);
    if (n <= 0) break;
    in.append(buf, static_cast<size_t>(n));
  }
  close(pfd[0]);
  int status = 0;
  if (timed_out)
  {
    kill(pid, SIGKILL);
    waitpid(pid, &status, 0);
  }
  else
  {
    // the child closes the pipe right before _exit; give it a moment, then reap
    waitpid(pid, &status, 0);
  }
  std::string err;
  if (efd >= 0)
  {
    off_t sz = lseek(efd, 0, SEEK_END);
    if (sz > 0)
    {
      lseek(efd, 0, SEEK_SET);
      err.resize(static_cast<size_t>(sz));
      ssize_t n = read(efd, &err[0], err.size());
      err.resize(n > 0 ? static_cast<size_t>(n) : 0);
    }
    close(efd);
  }
  if (deserialise(in, r))
  {
    if (r.failed && !err.empty()) r.message += " | stderr: " + tail(err, 600);
    return r;
  }
  r = Report{};
  if (timed_out)
  {
    r.inconclusive = true;
    r.message = "watchdog: case exceeded " + std::to_string(watchdog_ms) + " ms (inconclusive) stderr: " + tail(err, 400);
    r.label("watchdog");
    return r;
  }
  // child died without a report: sanitizer abort, assert, SEGV ...
  r.failed = true;
  std::ostringstream m;
  if (WIFSIGNALED(status)) m << "child killed by signal " << WTERMSIG(status);
  else m << "child exited with status " << WEXITSTATUS(status) << " without report";
  // a sanitizer's one-line verdict first (the report itself is long)
  for (char const* key : {"SUMMARY: ", "WARNING: ThreadSanitizer: ", "runtime error: "})
  {
    size_t pos = err.find(key);
    if (pos == std::string::npos) continue;
    size_t end = err.find('\n', pos);
    m << " | " << err.substr(pos, (end == std::string::npos ? err.size() : end) - pos);
    break;
  }
  // keep the head of a sanitizer report (the summary line is near the top)
  std::string e = err;
  if (e.size() > 1800) e = e.substr(0, 1200) + " ... " + tail(e, 500);
  m << " | stderr: " << e;
  r.message = m.str();
  r.label("child_died");
  return r;
}

// --- statistics --------------------------------------------------------------------------------------
struct Stats
{
  long evaluations{0};
  long nontrivial{0};
  long inconclusive{0};
  long failures{0};
  long known_class_hits{0};
  std::set<uint64_t> distinct_nontrivial;
  std::set<uint64_t> distinct_all;
  std::map<std::string, long> labels;
  std::map<std::string, long> counters;
  std::vector<std::string> samples;
  size_t max_samples{5};
  long sample_stride{1};

  void account(Report const& r)
  {
    ++evaluations;
    uint64_t h = fnv1a(r.render);
    distinct_all.insert(h);
    if (r.inconclusive) ++inconclusive;
    if (r.nontrivial)
    {
      ++nontrivial;
      bool fresh = distinct_nontrivial.insert(h).second;
      // spread samples over the run: keep first, then every stride-th fresh non-trivial case
      if (fresh && !r.failed)
      {
        long k = static_cast<long>(distinct_nontrivial.size());
        if (samples.size() < max_samples && (k == 1 || k % sample_stride == 0)) samples.push_back(r.render);
      }
    }
    for (auto const& l : r.labels) ++labels[l];
    for (auto const& kv : r.counters) counters[kv.first] += kv.second;
  }

  std::string to_json(std::string const& harness, Params const& params, uint64_t seed, double wall,
                      std::string const& fail_message, std::string const& replay_path) const
  {
    std::ostringstream o;
    o << "{\n \"harness\": " << json_str(harness) << ",\n \"seed\": " << seed << ",\n \"wall_s\": " << wall
      << ",\n \"evaluations\": " << evaluations << ",\n \"nontrivial\": " << nontrivial
      << ",\n \"distinct_nontrivial\": " << distinct_nontrivial.size() << ",\n \"distinct_cases\": " << distinct_all.size()
      << ",\n \"inconclusive\": " << inconclusive << ",\n \"failures\": " << failures
      << ",\n \"known_class_hits\": " << known_class_hits << ",\n \"params\": {";
    bool first = true;
    for (auto const& kv : params) { o << (first ? "" : ", ") << json_str(kv.first) << ": " << json_str(kv.second); first = false; }
    o << "},\n \"labels\": {";
    first = true;
    for (auto const& kv : labels) { o << (first ? "" : ", ") << json_str(kv.first) << ": " << kv.second; first = false; }
    o << "},\n \"counters\": {";
    first = true;
    for (auto const& kv : counters) { o << (first ? "" : ", ") << json_str(kv.first) << ": " << kv.second; first = false; }
    o << "},\n \"samples\": [";
    first = true;
    for (auto const& s : samples) { o << (first ? "" : ", ") << json_str(s.size() > 3000 ? s.substr(0, 3000) + "..." : s); first = false; }
    o << "],\n \"fail_message\": " << json_str(fail_message) << ",\n \"replay\": " << json_str(replay_path) << "\n}\n";
    return o.str();
  }
};

// --- replay files --------------------------------------------------------------------------------------
inline void write_replay(std::string const& path, std::string const& harness, Params const& params,
                         std::vector<uint32_t> const& v, Report const& r)
{
  if (path.empty()) return;
  std::string tmp = path + ".tmp";
  {
    std::ofstream f(tmp);
    f << "# verif replay v1\n";
    f << "harness=" << harness << "\n";
    for (auto const& kv : params) f << "param." << kv.first << "=" << kv.second << "\n";
    f << "choices=" << v.size() << "\n";
    for (size_t k = 0; k < v.size(); ++k) f << v[k] << ((k + 1) % 16 == 0 ? "\n" : " ");
    f << "\n";
    std::string m = r.message;
    for (auto& ch : m) if (ch == '\n') ch = ' ';
    f << "#message: " << m << "\n";
    std::istringstream rs(r.render);
    std::string ln;
    while (std::getline(rs, ln)) f << "#case: " << ln << "\n";
  }
  std::rename(tmp.c_str(), path.c_str());
}

inline bool read_replay(std::string const& path, std::string& harness, Params& params, std::vector<uint32_t>& v)
{
  std::ifstream f(path);
  if (!f) return false;
  std::string ln;
  bool in_choices = false;
  size_t want = 0;
  while (std::getline(f, ln))
  {
    if (ln.empty() || ln[0] == '#') continue;
    if (!in_choices)
    {
      auto eq = ln.find('=');
      if (eq == std::string::npos) continue;
      std::string k = ln.substr(0, eq), val = ln.substr(eq + 1);
      if (k == "harness") harness = val;
      else if (k.rfind("param.", 0) == 0) params[k.substr(6)] = val;
      else if (k == "choices") { want = std::strtoul(val.c_str(), nullptr, 10); in_choices = true; }
    }
    else
    {
      std::istringstream is(ln);
      uint64_t x;
      while (is >> x) v.push_back(static_cast<uint32_t>(x));
    }
  }
  return in_choices && v.size() == want;
}

struct Args
{
  long cases{1000};
  uint64_t seed{1};
  long maxlen{0};
  long max_size{100};
  double time_budget{0};
  double shrink_budget{20};
  std::string out, replay_out, replay, probe, hashes_out;
  Params params;
  size_t samples{5};
};

inline Args parse_args(int argc, char** argv)
{
  Args a;
  for (int k = 1; k < argc; ++k)
  {
    std::string s = argv[k];
    auto next = [&]() -> std::string { return (k + 1 < argc) ? std::string{argv[++k]} : std::string{}; };
    if (s == "--cases") a.cases = std::strtol(next().c_str(), nullptr, 10);
    else if (s == "--seed") a.seed = std::strtoull(next().c_str(), nullptr, 10);
    else if (s == "--maxlen") a.maxlen = std::strtol(next().c_str(), nullptr, 10);
    else if (s == "--time-budget") a.time_budget = std::strtod(next().c_str(), nullptr);
    else if (s == "--shrink-budget") a.shrink_budget = std::strtod(next().c_str(), nullptr);
    else if (s == "--out") a.out = next();
    else if (s == "--replay-out") a.replay_out = next();
    else if (s == "--hashes-out") a.hashes_out = next();
    else if (s == "--replay") a.replay = next();
    else if (s == "--probe") a.probe = next();
    else if (s == "--samples") a.samples = std::strtoul(next().c_str(), nullptr, 10);
    else if (s == "--param")
    {
      std::string kv = next();
      auto eq = kv.find('=');
      if (eq == std::string::npos) a.params[kv] = "1";
      else a.params[kv.substr(0, eq)] = kv.substr(eq + 1);
    }
  }
  return a;
}
} // namespace verif
