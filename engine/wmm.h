// wmm — a randomised C++11 memory-model simulation for single-writer atomics (DESIGN.md Appendix A).
//
// * verif::wmm::atomic<T> replaces std::atomic<T> inside the two queue headers (retargeted with
//   `#define atomic verif_atomic`, no source hook). Per location it keeps the store history with
//   release clocks; per logical thread a vector clock and a coherence floor. A load may return ANY
//   store the C++11 rules allow (choice-driven), acquire loads join the release clock of the store
//   they read (C++11 release sequences), destroyed locations are dead.
// * Logical threads are ucontext coroutines on ONE OS thread (deterministic, cheap); every shim
//   access is a potential preemption point decided by the choice stream.
// * data_write/data_read: happens-before race detector over payload bytes.
#pragma once

#include "harness.h"

#include <array>
#include <atomic>
#include <cstdint>
#include <cstring>
#include <functional>
#include <memory>
#include <string>
#include <ucontext.h>
#include <unordered_map>
#include <vector>

#if defined(__has_feature)
  #if __has_feature(address_sanitizer)
    #define VERIF_ASAN 1
  #endif
#endif
#if defined(__SANITIZE_ADDRESS__)
  #define VERIF_ASAN 1
#endif
#if defined(VERIF_ASAN)
extern "C" void __sanitizer_start_switch_fiber(void** fake_stack_save, void const* bottom, size_t size);
extern "C" void __sanitizer_finish_switch_fiber(void* fake_stack_save, void const** bottom_old, size_t* size_old);
#endif

namespace verif
{
namespace wmm
{
constexpr int NT = 3; // 0 = producer, 1 = consumer, 2 = main (setup / teardown)
using VC = std::array<uint32_t, NT>;

inline void vc_join(VC& a, VC const& b)
{
  for (int k = 0; k < NT; ++k) if (b[k] > a[k]) a[k] = b[k];
}

struct Coro
{
  ucontext_t uc{};
  std::unique_ptr<char[]> stack;
  size_t stack_size{0};
  std::function<void()> body;
  bool started{false};
  bool done{false};
};

struct Engine
{
  Choices* ch{nullptr};
  int cur{2};
  VC vc[NT]{};
  bool force_newest{false};      // quiescence phases: every load returns the newest store
  bool in_coro{false};
  long loads{0}, stores{0}, stale_loads{0}, preemptions{0}, races{0};
  std::string error;             // first violation detected inside the shim / race detector
  // scheduling
  ucontext_t main_uc{};
  Coro co[2];
  int want_switch{-1};
  void const* main_stack_bottom{nullptr};
  size_t main_stack_size{0};
  bool blocked_hint[2]{false, false};

  void fail(std::string const& m) { if (error.empty()) error = m; }

  void reset(Choices* c)
  {
    ch = c;
    cur = 2;
    for (auto& v : vc) v = VC{};
    vc[2][2] = 1;
    force_newest = false;
    in_coro = false;
    loads = stores = stale_loads = preemptions = races = 0;
    error.clear();
    co[0] = Coro{};
    co[1] = Coro{};
  }

  // --- coroutine plumbing -----------------------------------------------------------------------
  static void trampoline(int idx);

  void switch_to_coro(int idx)
  {
    Coro& c = co[idx];
    cur = idx;
    in_coro = true;
#if defined(VERIF_ASAN)
    void* fake = nullptr;
    __sanitizer_start_switch_fiber(&fake, c.stack.get(), c.stack_size);
#endif
    swapcontext(&main_uc, &c.uc);
#if defined(VERIF_ASAN)
    __sanitizer_finish_switch_fiber(fake, nullptr, nullptr);
#endif
    in_coro = false;
    cur = 2;
  }

  // called from inside a coroutine: give control back to the scheduler loop
  void yield_to_main()
  {
    int me = cur;
    Coro& c = co[me];
#if defined(VERIF_ASAN)
    void* fake = nullptr;
    __sanitizer_start_switch_fiber(&fake, main_stack_bottom, main_stack_size);
#endif
    swapcontext(&c.uc, &main_uc);
#if defined(VERIF_ASAN)
    __sanitizer_finish_switch_fiber(fake, &main_stack_bottom, &main_stack_size);
#endif
    cur = me;
    in_coro = true;
  }

  void start(int idx, std::function<void()> body)
  {
    Coro& c = co[idx];
    c.body = std::move(body);
    c.stack_size = 256 * 1024;
    c.stack.reset(new char[c.stack_size]);
    getcontext(&c.uc);
    c.uc.uc_stack.ss_sp = c.stack.get();
    c.uc.uc_stack.ss_size = c.stack_size;
    c.uc.uc_link = &main_uc;
    makecontext(&c.uc, reinterpret_cast<void (*)()>(&Engine::trampoline), 1, idx);
    c.started = true;
    // thread start: the new thread's clock joins its creator's
    vc[idx] = vc[2];
    vc[idx][idx] += 1;
  }

  // a potential preemption point (called by the shim before every atomic access and by harnesses)
  void preempt()
  {
    if (!in_coro) return;
    int other = 1 - cur;
    if (co[other].done || !co[other].started) return;
    // 0/1 = keep running (what a shrunk stream selects), 2 = hand over
    if (ch->pick(3) == 2)
    {
      ++preemptions;
      want_switch = other;
      yield_to_main();
    }
  }

  // the running side cannot make progress (queue full / empty): hand over if the other side can run
  // returns false when the other side is finished (caller must stop waiting)
  bool block()
  {
    if (!in_coro) return false;
    int other = 1 - cur;
    if (co[other].done || !co[other].started) return false;
    want_switch = other;
    yield_to_main();
    return true;
  }

  // run both coroutines to completion under the choice-driven schedule
  void run()
  {
    int next = (ch->pick(2) == 1) ? 1 : 0;
    while (true)
    {
      bool d0 = co[0].done || !co[0].started, d1 = co[1].done || !co[1].started;
      if (d0 && d1) break;
      if (next == 0 && d0) next = 1;
      if (next == 1 && d1) next = 0;
      want_switch = -1;
      switch_to_coro(next);
      if (want_switch >= 0) next = want_switch;
      if (!error.empty())
      {
        // abandon the case: do not resume coroutines (their stacks are simply dropped)
        break;
      }
    }
    // join: the main thread's clock joins both
    vc_join(vc[2], vc[0]);
    vc_join(vc[2], vc[1]);
    vc[2][2] += 1;
  }
};

inline Engine& E()
{
  static Engine e;
  return e;
}

inline void Engine::trampoline(int idx)
{
  Engine& e = E();
#if defined(VERIF_ASAN)
  __sanitizer_finish_switch_fiber(nullptr, &e.main_stack_bottom, &e.main_stack_size);
#endif
  e.cur = idx;
  e.in_coro = true;
  e.co[idx].body();
  e.co[idx].done = true;
  e.want_switch = 1 - idx;
#if defined(VERIF_ASAN)
  void* fake = nullptr;
  // final switch: fake_stack_save == nullptr tells ASan this fiber is finished
  __sanitizer_start_switch_fiber(nullptr, e.main_stack_bottom, e.main_stack_size);
  (void)fake;
#endif
  // returning switches to uc_link (main_uc), which resumes inside switch_to_coro
}

// --- the atomic shim ------------------------------------------------------------------------------
template <typename T>
class atomic
{
  struct Entry
  {
    T value;
    uint8_t writer;
    uint32_t epoch;
    bool has_rel;
    VC rel;
  };
  mutable std::vector<Entry> _h;
  mutable std::array<uint32_t, NT> _floor{};
  mutable std::array<uint8_t, NT> _stale_streak{};
  bool _dead{false};

  void push(T v, std::memory_order mo, bool init)
  {
    Engine& e = E();
    int t = e.cur;
    if (!init) e.vc[t][t] += 1;
    Entry en{v, static_cast<uint8_t>(t), e.vc[t][t], false, VC{}};
    bool rel = (mo == std::memory_order_release || mo == std::memory_order_seq_cst || mo == std::memory_order_acq_rel);
    if (rel || init)
    {
      en.has_rel = true;
      en.rel = e.vc[t];
    }
    else if (!_h.empty() && _h.back().writer == t && _h.back().has_rel)
    {
      // C++11 release sequence: a later store by the same thread continues the sequence
      en.has_rel = true;
      en.rel = _h.back().rel;
    }
    _h.push_back(en);
    _floor[t] = static_cast<uint32_t>(_h.size() - 1);
    // everything the thread does after the store belongs to a later epoch (not covered by en.rel)
    e.vc[t][t] += 1;
  }

public:
  atomic() noexcept { push(T{}, std::memory_order_relaxed, true); }
  atomic(T v) noexcept { push(v, std::memory_order_relaxed, true); }
  atomic(atomic const&) = delete;
  atomic& operator=(atomic const&) = delete;
  ~atomic() { _dead = true; }

  void store(T v, std::memory_order mo = std::memory_order_seq_cst) noexcept
  {
    Engine& e = E();
    e.preempt();
    if (_dead) { e.fail("store to a destroyed atomic (retired buffer accessed)"); return; }
    ++e.stores;
    if (_h[0].writer != e.cur && e.vc[e.cur][_h[0].writer] < _h[0].epoch)
    {
      e.fail("atomic object stored to without a happens-before edge from its construction (node published without release/acquire)");
    }
    push(v, mo, false);
  }

  T load(std::memory_order mo = std::memory_order_seq_cst) const noexcept
  {
    Engine& e = E();
    e.preempt();
    if (_dead) { e.fail("load from a destroyed atomic (retired buffer accessed)"); return T{}; }
    ++e.loads;
    int t = e.cur;
    uint32_t n = static_cast<uint32_t>(_h.size());
    if (_h[0].writer != t && e.vc[t][_h[0].writer] < _h[0].epoch)
    {
      e.fail("atomic object accessed without a happens-before edge from its construction (node published without release/acquire)");
    }
    // coherence: newest entry that happens-before this load hides everything older
    uint32_t lo = _floor[t];
    for (uint32_t i = n; i-- > lo;)
    {
      if (e.vc[t][_h[i].writer] >= _h[i].epoch) { lo = i; break; }
    }
    uint32_t idx = n - 1;
    if (!e.force_newest && t != 2 && lo < n - 1 && _stale_streak[t] < 3)
    {
      // 0,1,2 -> newest; 3 -> any legal store
      if (e.ch->pick(4) == 3)
      {
        idx = lo + e.ch->pick(n - lo);
      }
    }
    if (idx != n - 1) { ++_stale_streak[t]; ++e.stale_loads; } else _stale_streak[t] = 0;
    _floor[t] = idx;
    Entry const& en = _h[idx];
    bool acq = (mo == std::memory_order_acquire || mo == std::memory_order_seq_cst || mo == std::memory_order_acq_rel ||
                mo == std::memory_order_consume);
    if (acq && en.has_rel) vc_join(e.vc[t], en.rel);
    return en.value;
  }

  operator T() const noexcept { return load(); }
  T operator=(T v) noexcept { store(v); return v; }

  // harness-side inspection (not an access by any logical thread)
  T newest_value() const { return _h.back().value; }
  size_t history_size() const { return _h.size(); }
};

// --- payload happens-before race detector ------------------------------------------------------------
struct Shadow
{
  uint32_t w_epoch{0};
  uint32_t r_epoch[2]{0, 0};
  uint8_t w_thread{0xff};
};

struct ShadowMem
{
  static constexpr uintptr_t PAGE = 4096;
  std::unordered_map<uintptr_t, std::unique_ptr<std::array<Shadow, PAGE>>> pages;

  Shadow& at(uintptr_t a)
  {
    auto& p = pages[a / PAGE];
    if (!p) p.reset(new std::array<Shadow, PAGE>{});
    return (*p)[a % PAGE];
  }
  void clear_range(uintptr_t a, size_t len)
  {
    if (pages.empty()) return;
    uintptr_t first = a / PAGE, last = (a + len + PAGE - 1) / PAGE;
    for (uintptr_t p = first; p < last; ++p) pages.erase(p);
  }
  void clear() { pages.clear(); }
};

inline ShadowMem& shadow()
{
  static ShadowMem s;
  return s;
}

inline void data_write(void const* p, size_t n, char const* what)
{
  Engine& e = E();
  int t = e.cur;
  uintptr_t a = reinterpret_cast<uintptr_t>(p);
  for (size_t k = 0; k < n; ++k)
  {
    Shadow& s = shadow().at(a + k);
    if (s.w_thread != 0xff && s.w_thread != t && e.vc[t][s.w_thread] < s.w_epoch)
    {
      ++e.races;
      e.fail(std::string{"data race: write of payload byte +"} + std::to_string(k) + " (" + what +
             ") does not happen-after the previous write by thread " + std::to_string(s.w_thread));
    }
    for (int o = 0; o < 2; ++o)
    {
      if (o != t && s.r_epoch[o] != 0 && e.vc[t][o] < s.r_epoch[o])
      {
        ++e.races;
        e.fail(std::string{"data race: producer overwrites payload byte +"} + std::to_string(k) + " (" + what +
               ") that the consumer read without a happens-before edge (bytes not released)");
      }
    }
    s.w_thread = static_cast<uint8_t>(t);
    s.w_epoch = e.vc[t][t];
  }
}

inline void data_read(void const* p, size_t n, char const* what)
{
  Engine& e = E();
  int t = e.cur;
  uintptr_t a = reinterpret_cast<uintptr_t>(p);
  for (size_t k = 0; k < n; ++k)
  {
    Shadow& s = shadow().at(a + k);
    if (s.w_thread != 0xff && s.w_thread != t && e.vc[t][s.w_thread] < s.w_epoch)
    {
      ++e.races;
      e.fail(std::string{"data race: read of payload byte +"} + std::to_string(k) + " (" + what +
             ") does not happen-after its write by thread " + std::to_string(s.w_thread) +
             " (record visible before its commit was acquired)");
    }
    if (t < 2) s.r_epoch[t] = e.vc[t][t];
  }
}
} // namespace wmm
} // namespace verif
