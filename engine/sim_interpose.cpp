// Link-time interposition for the sim engine: the executable's own nanosleep / clock_nanosleep /
// clock_gettime win over libc's (libstdc++'s sleep_for and system_clock::now() resolve to them, also
// under clang + ASan). Pass-through unless a sim case is active in this process.
#include "sim.h"

#include <cerrno>

extern "C" int nanosleep(const struct timespec* req, struct timespec* rem)
{
  if (!verif::sim::g_active) return static_cast<int>(::syscall(SYS_nanosleep, req, rem));
  verif::sim::virtual_sleep(req ? static_cast<uint64_t>(req->tv_sec) * 1000000000ull + static_cast<uint64_t>(req->tv_nsec) : 0);
  return 0;
}

extern "C" int clock_nanosleep(clockid_t clk, int flags, const struct timespec* req, struct timespec* rem)
{
  if (!verif::sim::g_active) return static_cast<int>(::syscall(SYS_clock_nanosleep, clk, flags, req, rem));
  // (relative sleeps only: libstdc++'s sleep_for does not use TIMER_ABSTIME)
  verif::sim::virtual_sleep((req && flags == 0) ? static_cast<uint64_t>(req->tv_sec) * 1000000000ull + static_cast<uint64_t>(req->tv_nsec) : 0);
  return 0;
}

extern "C" int clock_gettime(clockid_t clk, struct timespec* ts)
{
  if (!verif::sim::g_active || (clk != CLOCK_REALTIME && clk != CLOCK_MONOTONIC))
  {
    return static_cast<int>(::syscall(SYS_clock_gettime, clk, ts));
  }
  uint64_t v = verif::sim::virtual_clock_read(clk == CLOCK_REALTIME);
  ts->tv_sec = static_cast<time_t>(v / 1000000000ull);
  ts->tv_nsec = static_cast<long>(v % 1000000000ull);
  return 0;
}
