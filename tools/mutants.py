#!/usr/bin/env python3
"""Sensitivity campaign: apply one small semantic mutation to a scratch copy of /repo/include and run the quick
check(s) of the property it should break.  usage: tools/mutants.py [--only <id-substring>] [--prop Cxx] [--tier quick]
Results are appended to /verif/build/mutants.log (not evidence; DESIGN.md records the outcome table)."""
import os
import shutil
import subprocess
import sys
import time

ROOT = os.path.dirname(os.path.dirname(os.path.abspath(__file__)))
sys.path.insert(0, os.path.join(ROOT, "tools"))
from mutant_list import MUTANTS  # noqa: E402


def main():
    only = None
    prop = None
    tier = "quick"
    keep = False  # copy the first shrunk replay of a caught mutant to /verif/replays/<prop>/<mutant>.replay (regression replay)
    a = sys.argv[1:]
    while a:
        x = a.pop(0)
        if x == "--only":
            only = a.pop(0)
        elif x == "--prop":
            prop = a.pop(0)
        elif x == "--tier":
            tier = a.pop(0)
        elif x == "--keep":
            keep = True
    results = []
    for m in MUTANTS:
        if only and only not in m["id"]:
            continue
        if prop and prop not in m["props"]:
            continue
        scratch = f"/dev/shm/mut-{m['id']}-{os.getpid()}"  # per process: two campaigns may run side by side
        shutil.rmtree(scratch, ignore_errors=True)
        shutil.copytree("/repo/include", os.path.join(scratch, "include"))
        path = os.path.join(scratch, "include", m["file"])
        src = open(path).read()
        if src.count(m["old"]) < 1:
            print(f"{m['id']}: pattern not found in {m['file']}")
            shutil.rmtree(scratch, ignore_errors=True)
            continue
        src = src.replace(m["old"], m["new"], m.get("count", 1))
        if "old2" in m:  # a second edit site of the same mutant
            assert src.count(m["old2"]) >= 1, m["id"] + ": second pattern not found"
            src = src.replace(m["old2"], m["new2"], 1)
        open(path, "w").write(src)
        for p in m["props"]:
            if prop and p != prop:
                continue
            env = dict(os.environ)
            env["VERIF_REPO"] = scratch
            env["VERIF_ALT_BUILD"] = scratch + "/build"
            t0 = time.time()
            r = subprocess.run([os.path.join(ROOT, "check"), "run", p, "--tier", tier], env=env, stdout=subprocess.PIPE,
                               stderr=subprocess.STDOUT, text=True)
            wall = time.time() - t0
            verdict = {0: "SURVIVED", 1: "caught", 2: "BUILD/INFRA"}.get(r.returncode, f"rc={r.returncode}")
            detail = ""
            for ln in r.stdout.splitlines():
                if ln.startswith("  REPLAY-FAIL") or ln.startswith("  regression"):
                    detail = ln.strip()[:260]
                    break
            if r.returncode == 2:
                detail = r.stdout[-400:].replace("\n", " | ")
            if keep and r.returncode == 1:
                import glob
                import re as _re
                mm = _re.search(r"VIOLATION property=\S+ replay=(\S+)", r.stdout)
                if mm and os.path.exists(mm.group(1)):
                    dst = os.path.join(ROOT, "replays", p)
                    os.makedirs(dst, exist_ok=True)
                    shutil.copy(mm.group(1), os.path.join(dst, f"{m['id']}.replay"))
            line = f"{m['id']:42s} {p} {verdict:10s} {wall:6.1f}s  {m['desc']}  {detail}"
            print(line, flush=True)
            results.append(line)
        shutil.rmtree(scratch, ignore_errors=True)
    os.makedirs(os.path.join(ROOT, "build"), exist_ok=True)
    with open(os.path.join(ROOT, "build", "mutants.log"), "a") as fh:
        fh.write(time.strftime("# %Y-%m-%d %H:%M:%S\n"))
        for ln in results:
            fh.write(ln + "\n")


if __name__ == "__main__":
    main()
