#!/usr/bin/env python3
"""Turns the kept seeded changes (seeded/<name>/patch.diff) into regression replays: each patch is applied to a scratch
git worktree of /repo's HEAD (outside /repo and /verif, removed afterwards), the quick check of its property is run against
that worktree (VERIF_REPO), and the shrunk failing case of a DETERMINISTIC engine is kept as replays/<ID>/seed-<name>.replay.
Real-thread engines (rtstress, tscorder, crashkid, qtsan, alloc) are skipped: their failing cases depend on the schedule.
On the real tree every kept replay must pass; ./check replays them on every run.
usage: tools/seed_replays.py [--only <substring>] [--jobs N]"""
import json
import os
import re
import shutil
import subprocess
import sys
from concurrent.futures import ThreadPoolExecutor

ROOT = os.path.dirname(os.path.dirname(os.path.abspath(__file__)))
DETERMINISTIC = ("sim_", "wmm", "tsfmt", "named", "fmtcat", "pattern", "rot")


def sh(cmd, **kw):
    return subprocess.run(cmd, shell=True, stdout=subprocess.PIPE, stderr=subprocess.STDOUT, text=True, **kw)


def one(name):
    d = os.path.join(ROOT, "seeded", name)
    meta = json.load(open(os.path.join(d, "meta.json")))
    prop = meta["property"]
    wt = f"/tmp/seedreplay-{name}-{os.getpid()}"
    alt = f"/dev/shm/seedreplay-{name}-{os.getpid()}"
    sh(f"git -C /repo worktree remove --force {wt}")
    r = sh(f"git -C /repo worktree add --detach {wt} HEAD")
    try:
        a = sh(f"git -C {wt} apply --3way {os.path.join(d, 'patch.diff')}")
        if a.returncode != 0:
            return f"{name}: patch does not apply to the current tree ({a.stdout.strip().splitlines()[-1][:100] if a.stdout.strip() else ''})"
        env = dict(os.environ)
        env["VERIF_REPO"] = wt
        env["VERIF_ALT_BUILD"] = alt
        c = subprocess.run([os.path.join(ROOT, "check"), "run", prop, "--tier", "quick"], env=env, stdout=subprocess.PIPE,
                           stderr=subprocess.STDOUT, text=True)
        if c.returncode != 1:
            return f"{name}: {prop} not caught now (exit {c.returncode})"
        kept = None
        for m in re.finditer(r"VIOLATION property=\S+ replay=(\S+)", c.stdout):
            path = m.group(1)
            base = os.path.basename(path)[len("found-"):]
            if base.startswith(DETERMINISTIC) and os.path.exists(path):
                dst = os.path.join(ROOT, "replays", prop)
                os.makedirs(dst, exist_ok=True)
                kept = os.path.join(dst, f"seed-{name}.replay")
                shutil.copy(path, kept)
                break
        return f"{name}: {prop} caught, " + (f"kept {os.path.relpath(kept, ROOT)}" if kept else "only by a real-thread engine: no replay kept")
    finally:
        shutil.rmtree(alt, ignore_errors=True)
        sh(f"git -C /repo worktree remove --force {wt}")
        shutil.rmtree(wt, ignore_errors=True)


def main():
    only = None
    jobs = 2
    a = sys.argv[1:]
    while a:
        x = a.pop(0)
        if x == "--only":
            only = a.pop(0)
        elif x == "--jobs":
            jobs = int(a.pop(0))
    names = sorted(n for n in os.listdir(os.path.join(ROOT, "seeded")) if os.path.exists(os.path.join(ROOT, "seeded", n, "patch.diff")))
    if only:
        names = [n for n in names if only in n]
    with ThreadPoolExecutor(max_workers=jobs) as ex:
        for line in ex.map(one, names):
            print(line, flush=True)
    sh("git -C /repo worktree prune")


if __name__ == "__main__":
    main()
