#!/usr/bin/env python3
"""Confirm a seeded change delivered by a sub-agent in its scratch worktree and evaluate the checks against it.
usage: tools/seed_confirm.py <PROP_ID> [--wt /tmp/seed/<ID>] [--name <dir name under seeded/>] [--tier quick] [--skip-ctest]
        [--props C01,C09]   (additional properties whose checks are run against the change)

Steps (all in the agent's scratch worktree, never in /repo):
  1. the worktree's `git diff -- include` must equal seed/patch.diff;
  2. demo built twice: against a pristine export of /repo HEAD (must exit 0) and against the patched worktree (must fail);
  3. the worktree's test build is brought up to date and the whole ctest suite is re-run there (must pass);
  4. ./check run <ID> with VERIF_REPO=<worktree> (same commands as registered, only the include root differs).
Writes seeded/<name>/{patch.diff, demo.*, NOTES.md, meta.json}."""
import json
import os
import re
import shutil
import subprocess
import sys
import time

ROOT = os.path.dirname(os.path.dirname(os.path.abspath(__file__)))


def sh(cmd, **kw):
    return subprocess.run(cmd, shell=True, stdout=subprocess.PIPE, stderr=subprocess.STDOUT, text=True, **kw)


def main():
    a = sys.argv[1:]
    pid = a.pop(0)
    wt = f"/tmp/seed/{pid}"
    name = pid
    tier = "quick"
    skip_ctest = False
    props = [pid]
    demo_flags = ""
    while a:
        x = a.pop(0)
        if x == "--wt":
            wt = a.pop(0)
        elif x == "--name":
            name = a.pop(0)
        elif x == "--tier":
            tier = a.pop(0)
        elif x == "--skip-ctest":
            skip_ctest = True
        elif x == "--props":
            props += a.pop(0).split(",")
        elif x == "--demo-flags":  # e.g. -fsanitize=thread when the demonstration is a data-race report
            demo_flags = a.pop(0).replace("+", " ")
    out = os.path.join(ROOT, "seeded", name)
    os.makedirs(out, exist_ok=True)
    meta = {"property": pid, "worktree": wt, "confirmed_at": time.strftime("%Y-%m-%d %H:%M:%S"), "steps": {}}
    prev = {}
    if os.path.exists(os.path.join(out, "meta.json")):
        try:
            prev = json.load(open(os.path.join(out, "meta.json")))
        except Exception:  # noqa
            prev = {}
    for k in ("change", "needs_to_manifest", "breaks_property"):
        if prev.get(k):
            meta[k] = prev[k]
    if skip_ctest and prev.get("steps", {}).get("ctest"):
        meta["steps"]["ctest"] = prev["steps"]["ctest"]
        meta["steps"]["ctest"]["note"] = "carried over from the confirmation run of " + prev.get("confirmed_at", "?")
    if prev.get("check_history") or prev.get("checks"):
        meta["check_history"] = prev.get("check_history", []) + [{"at": prev.get("confirmed_at"), "checks": {k: v.get("verdict") for k, v in prev.get("checks", {}).items()}}]
    seed = os.path.join(wt, "seed")
    # 1. patch identity
    diff = sh(f"git -C {wt} diff -- include").stdout
    patch = open(os.path.join(seed, "patch.diff")).read()
    same = diff.strip() == patch.strip()
    meta["steps"]["patch_equals_worktree_diff"] = same
    if not same:
        # trust the worktree: it is what was built and tested
        patch = diff
    open(os.path.join(out, "patch.diff"), "w").write(patch)
    meta["files_touched"] = sorted(set(re.findall(r"^\+\+\+ b/(\S+)", patch, re.M)))
    for f in os.listdir(seed):
        if f.startswith("demo") and not os.path.isdir(os.path.join(seed, f)) and os.path.getsize(os.path.join(seed, f)) < 300000 \
                and f.endswith((".cpp", ".h", ".sh", ".txt", ".md")):
            shutil.copy(os.path.join(seed, f), os.path.join(out, f))
        if f == "NOTES.md":
            shutil.copy(os.path.join(seed, f), os.path.join(out, f))
    # 2. demo
    demo = None
    for f in sorted(os.listdir(seed)):
        if f.startswith("demo") and f.endswith(".cpp"):
            demo = os.path.join(seed, f)
            break
    pristine = f"/tmp/confirm-pristine-{pid}"
    shutil.rmtree(pristine, ignore_errors=True)
    os.makedirs(pristine)
    sh(f"git -C /repo archive HEAD include test | tar -x -C {pristine}")
    if demo:
        res = {}
        for label, inc in (("pristine", pristine), ("patched", wt)):
            exe = f"/tmp/confirm-demo-{pid}-{label}"
            extra = f"-I{inc}/test/bundled" if "doctest" in open(demo).read() else ""
            b = sh(f"g++ -std=c++17 -O1 -g {demo_flags} -I{inc}/include {extra} {demo} -lpthread -o {exe}")
            if b.returncode != 0:
                res[label] = {"build_failed": b.stdout[-800:]}
                continue
            rcs = []
            tail = ""
            for _ in range(3):
                try:
                    r = sh(f"cd /tmp && timeout 300 {exe}")
                    rcs.append(r.returncode)
                    tail = r.stdout[-600:]
                except Exception as e:  # noqa
                    rcs.append(-1)
            res[label] = {"exit_codes_3_runs": rcs, "tail": tail}
            if demo_flags:
                res[label]["extra_compile_flags"] = demo_flags
            os.unlink(exe)
        meta["steps"]["demo"] = res
    shutil.rmtree(pristine, ignore_errors=True)
    # 3. test suite in the agent's worktree
    if not skip_ctest:
        b = sh(f"cmake --build {wt}/_build -j8 2>&1 | tail -2")
        t0 = time.time()
        c = sh(f"ctest --test-dir {wt}/_build -j8 --timeout 900 2>&1 | tail -6")
        meta["steps"]["ctest"] = {"build_tail": b.stdout[-300:], "summary": c.stdout[-500:], "wall_s": round(time.time() - t0)}
        if "100% tests passed" not in c.stdout:
            # timing tests (stopwatch_*) are load sensitive on this shared machine: re-run only the failed ones, alone
            failed = re.findall(r"^\s+\d+ - (\S+) \(", sh(f"ctest --test-dir {wt}/_build -j8 --timeout 900 2>&1 | tail -12").stdout, re.M)
            rr = sh(f"ctest --test-dir {wt}/_build --rerun-failed -j1 --timeout 900 2>&1 | tail -4")
            meta["steps"]["ctest"]["failed_first_run"] = failed
            meta["steps"]["ctest"]["rerun_failed_alone"] = rr.stdout[-300:]
            meta["steps"]["ctest"]["all_pass_after_rerun"] = "100% tests passed" in rr.stdout
    # 4. the checks
    meta["checks"] = {}
    for p in props:
        env = dict(os.environ)
        env["VERIF_REPO"] = wt
        env["VERIF_ALT_BUILD"] = f"/dev/shm/seedbuild-{name}"
        t0 = time.time()
        r = subprocess.run([os.path.join(ROOT, "check"), "run", p, "--tier", tier], env=env, stdout=subprocess.PIPE,
                           stderr=subprocess.STDOUT, text=True)
        lines = [ln for ln in r.stdout.splitlines() if ln.startswith(("VIOLATION", "  REPLAY-FAIL", "  regression", "BUILD-FAILED", "["))]
        meta["checks"][p] = {"tier": tier, "exit": r.returncode, "verdict": {0: "MISSED", 1: "caught", 2: "build/infra failure"}.get(r.returncode, "?"),
                             "wall_s": round(time.time() - t0), "output": [ln[:400] for ln in lines][:8]}
        # keep the first shrunk replay next to the seed
        m = re.search(r"VIOLATION property=\S+ replay=(\S+)", r.stdout)
        if m and os.path.exists(m.group(1)):
            shutil.copy(m.group(1), os.path.join(out, f"caught-by-{p}.replay"))
    shutil.rmtree(f"/dev/shm/seedbuild-{name}", ignore_errors=True)
    json.dump(meta, open(os.path.join(out, "meta.json"), "w"), indent=1)
    print(json.dumps({k: meta[k] for k in ("property", "files_touched", "checks")}, indent=1))
    print(json.dumps(meta["steps"], indent=1)[:1800])


if __name__ == "__main__":
    main()
