#!/usr/bin/env python3
"""Validate MANIFEST.json and evidence/*.json against the schemas (run with python3-vt: needs jsonschema)."""
import glob
import json
import sys

import jsonschema

ok = True
m = json.load(open("/verif/MANIFEST.json"))
try:
    jsonschema.validate(m, json.load(open("/root/.vp/MANIFEST.schema.json")))
    print("MANIFEST.json valid:", len(m["checks"]), "checks,", len(m.get("not_applicable", [])), "not applicable")
except jsonschema.ValidationError as e:
    ok = False
    print("MANIFEST.json INVALID:", e.message)
es = json.load(open("/root/.vp/EVIDENCE.schema.json"))
for f in sorted(glob.glob("/verif/evidence/*.json")):
    try:
        ev = json.load(open(f))
        jsonschema.validate(ev, es)
        c = ev["coverage"]
        print(f"{f}: valid tier={ev['tier']} evaluations={c.get('evaluations')} distinct_nontrivial={c.get('distinct_nontrivial')} wall={ev['wall_s']}")
    except Exception as e:  # noqa
        ok = False
        print(f"{f}: INVALID {e}")
props = [json.loads(l)["id"] for l in open("/verif/properties.jsonl")]
claimed = {c["property_id"] for c in m["checks"]}
na = {c["property_id"] for c in m.get("not_applicable", [])}
for p in props:
    if (p in claimed) == (p in na):
        ok = False
        print("property", p, "must be exactly one of claimed / not_applicable")
sys.exit(0 if ok else 1)
