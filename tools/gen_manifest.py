#!/usr/bin/env python3
"""Regenerate /verif/MANIFEST.json from engine/checkconf.py (single source of truth for what is claimed)."""
import json
import os
import sys

ROOT = os.path.dirname(os.path.dirname(os.path.abspath(__file__)))
sys.path.insert(0, os.path.join(ROOT, "engine"))
import checkconf  # noqa: E402

props = [json.loads(l) for l in open(os.path.join(ROOT, "properties.jsonl"))]
checks = []
na = []
for p in props:
    pid = p["id"]
    c = checkconf.PROPERTIES.get(pid)
    if not c:
        na.append({"property_id": pid, "reason": checkconf.NOT_APPLICABLE.get(pid, "check not built yet in this session (planned in DESIGN.md section 4)")})
        continue
    entry = {
        "property_id": pid,
        "quick_cmd": f"./check run {pid} --tier quick",
        "thorough_cmd": f"./check run {pid} --tier thorough",
        "evidence_file": f"/verif/evidence/{pid}.json",
        "replay_cmd_template": "./check replay {path}",
        "engine": ", ".join(sorted({j["bin"] for j in c["jobs"]})),
        "level_claimed": {
            "category": c.get("level", "exploration"),
            "text": c["level_text"],
            "design_ref": c.get("design_ref", f"DESIGN.md section 4, {pid}"),
        },
        "level_note": c["level_note"],
        "technique": c["technique"],
    }
    checks.append(entry)

engines = []
for name, e in checkconf.ENGINES.items():
    engines.append({"name": name, "path": e["path"], "serves_properties": e["serves"], "kind_free_text": e["kind"]})

m = {
    "version": 1,
    "setup_cmd": "./check setup",
    "hooks": checkconf.HOOKS,
    "engines": engines,
    "checks": checks,
    "notes": checkconf.NOTES,
    "not_applicable": na,
}
with open(os.path.join(ROOT, "MANIFEST.json"), "w") as fh:
    json.dump(m, fh, indent=1)
    fh.write("\n")
print("MANIFEST.json written:", len(checks), "checks,", len(na), "not applicable")
