#!/usr/bin/env python3
"""Writes the brief of one independent seeding sub-agent per property: /tmp/seed<R>/<ID>.prompt.txt.
The brief contains the property text (from properties.jsonl), the ideas already taken in earlier rounds (one line
each, from tools/seed_needs.py INFO) and the deliverables tools/seed_confirm.py expects. It contains nothing else
from /verif: no harness, no oracle, no hint of what the checks can already see.
usage: tools/seed_prompts.py <round number> [ID ...]"""
import json
import os
import re
import sys

ROOT = os.path.dirname(os.path.dirname(os.path.abspath(__file__)))


def info():
    src = open(os.path.join(ROOT, "tools", "seed_needs.py")).read()
    ns = {}
    exec(re.search(r"INFO = \{.*?\n\}\n", src, re.S).group(0), ns)
    return ns["INFO"]


TEMPLATE = """You are an experienced C++ engineer. Your complete brief follows; work ONLY inside the directory {wt}
(a scratch git worktree of the open-source logging library odygrd/quill: header-only library under include/quill,
tests under test/, docs under docs/). Do not read, list or touch /repo, /verif or any other directory under /tmp/seed*.
The machine has no network. Other engineers are compiling on this machine at the same time: never use more than
-j4 for any build.

GOAL. We are evaluating how good a verification effort for this library is. To do so we need a realistic DEFECT seeded
into the library: a small change to the library source that BREAKS the property quoted below, yet compiles and still
passes the library's entire existing test suite, and that ordinary use would NOT expose at once. It must need something
specific in order to manifest: a particular interleaving of threads or backend steps, a crash or fault at a particular
point, a multi-step sequence of operations (state left behind by one statement or operation and picked up by a later
one), an unusual but legal input or configuration, or two cooperating sites that each look fine alone.

THE PROPERTY

{prop}

ALREADY TAKEN - do NOT hand in any of these ideas or a close variant of them; earlier engineers seeded:
{taken}
Yours must be of a DIFFERENT nature from all of them: a different mechanism, in a different function or file, breaking a
different clause of the property or needing a different kind of trigger. Look beyond the files named under "Where in
the code": callers, helpers, option handling, rarely used public entry points and overloads, sink / logger / thread
set-ups that the property depends on are all fair game. Plain boundary slips (< versus <=) are the least interesting.

REQUIREMENTS
1. The change touches only files under include/ (library code), is small (roughly 3-40 changed lines), and looks like
   something a maintainer could plausibly commit (a refactor, an optimisation, a tidy-up, a "fix" with a blind spot). No
   preprocessor guards, no environment variables, no comments that give it away, no special-casing of magic values.
2. It compiles without new warnings-as-errors and the ENTIRE existing test suite passes with it. Build and run the suite
   in {wt}/_build exactly like this (once, when your change is final - a full build costs about an hour of CPU, so do
   your exploring with your own small demo program first and build the suite last):
       cmake -G Ninja -B {wt}/_build -S {wt} -DCMAKE_BUILD_TYPE=RelWithDebInfo -DQUILL_BUILD_TESTS=ON -DCMAKE_CXX_FLAGS=-Wno-error
       cmake --build {wt}/_build -j4
       ctest --test-dir {wt}/_build -j4 --timeout 900
   (183 tests; the test `unbounded_unlimited_queue` may fail on the unchanged tree in this sandbox because it needs more
   memory than is available - that one failure is accepted, every other test must pass. Timing-sensitive tests such as
   stopwatch_* can fail under load: re-run a failed test alone before you conclude anything.)
   If a test fails because of your change, choose a different change; never edit the tests.
3. A DEMONSTRATION: one self-contained program {wt}/seed/demo.cpp (plain main(), no test framework, uses only the
   public API of the library plus the standard library; it may include any header under include/) that exits 0 and prints
   a line starting "RESULT: OK" on the UNCHANGED library and exits 1 and prints a line starting "RESULT: VIOLATED" (saying
   what was observed versus what the property requires) with your change. It is built with
       g++ -std=c++17 -O1 -g -I<tree>/include demo.cpp -lpthread
   and must finish within 60 seconds, deterministically or at least reliably: it is run 3 times on each tree and must give
   the same verdict every time (if it needs a race, make the window wide enough by construction - e.g. a slow sink, a
   user clock, a custom filter or formatter that blocks on a latch - rather than hoping). The demonstration must use
   the library the way its documentation allows (no calls the documentation forbids, no private members).
4. Check it yourself: build the demo against a pristine copy of the tree (git stash, or `git worktree`-free:
   `git -C {wt} archive HEAD include | tar -x -C /tmp/seed{rnd}/{pid}.pristine`) and against your changed tree.
   Remove that pristine copy when done.

DELIVERABLES (all inside {wt}; leave the change applied, uncommitted, in the working tree, and leave _build in place):
  seed/patch.diff   - output of `git -C {wt} diff -- include`
  seed/demo.cpp     - the demonstration
  seed/NOTES.md     - (a) which sentence of the property is violated and how, (b) exactly what is needed for it to
                      manifest, (c) why the existing tests do not notice, (d) the commands you ran and their results
                      (suite summary line, demo output on both trees).
Finish with a short report: the change in one sentence, what it needs in order to manifest in one sentence, and the
ctest summary line. If, after serious effort, you cannot find a change that satisfies all requirements, say so plainly
rather than handing in something that does not.
"""


def main():
    rnd = sys.argv[1]
    only = sys.argv[2:]
    INFO = info()
    os.makedirs(f"/tmp/seed{rnd}", exist_ok=True)
    for line in open(os.path.join(ROOT, "properties.jsonl")):
        p = json.loads(line)
        pid = p["id"]
        if only and pid not in only:
            continue
        prop = (f"{pid}: {p['title']}\n\nStatement: {p['statement']}\n\nQuantified over: {p['quantifier']['text']}\n\n"
                f"Why the existing tests cannot settle it: {p['why_tests_cant']}\n\nWhere in the code: {', '.join(p['anchors']['files'])}")
        keys = [pid] + [f"{pid}-{k}" for k in range(2, 20) if f"{pid}-{k}" in INFO]
        taken = "".join(f"  ({i + 1}) {INFO[k][0]}\n" for i, k in enumerate(keys))
        wt = f"/tmp/seed{rnd}/{pid}"
        open(f"/tmp/seed{rnd}/{pid}.prompt.txt", "w").write(TEMPLATE.format(wt=wt, prop=prop, taken=taken, rnd=rnd, pid=pid))
    print("written to", f"/tmp/seed{rnd}")


if __name__ == "__main__":
    main()
