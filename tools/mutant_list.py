"""Hand-written sensitivity mutants (small semantic changes that still compile). Each is applied to a scratch
copy of /repo/include by tools/mutants.py. 'old' must occur in 'file'; the first occurrence is replaced."""

BQ = "quill/core/BoundedSPSCQueue.h"
UQ = "quill/core/UnboundedSPSCQueue.h"

MUTANTS = [
    # ---------------- C01 bounded queue ----------------
    {"id": "c01-space-check-le", "props": ["C01"], "file": BQ,
     "desc": "second space check '< n' -> '<= n - 1 + 0' i.e. grants one byte too many ( < n -> + 1 < n )",
     "old": """      if ((_capacity - static_cast<integer_type>(_writer_pos - _reader_pos_cache)) < n)
      {
        return nullptr;""",
     "new": """      if ((_capacity - static_cast<integer_type>(_writer_pos - _reader_pos_cache)) + 1 < n)
      {
        return nullptr;"""},
    {"id": "c01-drop-acquire-reload", "props": ["C01"], "file": BQ,
     "desc": "prepare_write reloads the reader position relaxed instead of acquire",
     "old": "_reader_pos_cache = _atomic_reader_pos.load(std::memory_order_acquire);",
     "new": "_reader_pos_cache = _atomic_reader_pos.load(std::memory_order_relaxed);"},
    {"id": "c01-writer-release-relaxed", "props": ["C01"], "file": BQ,
     "desc": "commit_write publishes with relaxed instead of release",
     "old": "_atomic_writer_pos.store(_writer_pos, std::memory_order_release);",
     "new": "_atomic_writer_pos.store(_writer_pos, std::memory_order_relaxed);"},
    {"id": "c01-reader-release-relaxed", "props": ["C01"], "file": BQ,
     "desc": "commit_read publishes with relaxed instead of release",
     "old": "_atomic_reader_pos.store(_reader_pos, std::memory_order_release);",
     "new": "_atomic_reader_pos.store(_reader_pos, std::memory_order_relaxed);"},
    {"id": "c01-empty-acquire-relaxed", "props": ["C01"], "file": BQ,
     "desc": "empty() loads the writer position relaxed instead of acquire",
     "old": "_writer_pos_cache = _atomic_writer_pos.load(std::memory_order_acquire);",
     "new": "_writer_pos_cache = _atomic_writer_pos.load(std::memory_order_relaxed);"},
    {"id": "c01-mask-capacity", "props": ["C01"], "file": BQ,
     "desc": "read position masked with _capacity instead of _mask",
     "old": "return _storage + (_reader_pos & _mask);",
     "new": "return _storage + (_reader_pos & _capacity);"},
    {"id": "c01-publish-in-finish-write", "props": ["C01"], "file": BQ,
     "desc": "finish_write already publishes the writer position",
     "old": "void finish_write(integer_type n) noexcept { _writer_pos += n; }",
     "new": "void finish_write(integer_type n) noexcept { _writer_pos += n; _atomic_writer_pos.store(_writer_pos, std::memory_order_release); }"},
    {"id": "c01-distance-cast-removed", "props": ["C01"], "file": BQ,
     "desc": "modular distance computed without the cast to integer_type (breaks at counter wrap)",
     "old": """    if ((_capacity - static_cast<integer_type>(_writer_pos - _reader_pos_cache)) < n)
    {
      // not enough space, we need to load reader and re-check""",
     "new": """    if ((_capacity - (_writer_pos - _reader_pos_cache)) < n)
    {
      // not enough space, we need to load reader and re-check"""},
    {"id": "c01-commit-read-early-publish", "props": ["C01"], "file": BQ,
     "desc": "finish_read publishes immediately one byte more than read",
     "old": "void finish_read(integer_type n) noexcept { _reader_pos += n; }",
     "new": "void finish_read(integer_type n) noexcept { _reader_pos += n; _atomic_reader_pos.store(_reader_pos + 1, std::memory_order_release); }"},
    # ---------------- C02 unbounded queue ----------------
    {"id": "c02-no-recheck-in-read-next", "props": ["C02"], "file": UQ,
     "desc": "_read_next_queue does not re-check the old buffer before switching",
     "old": """    ReadResult read_result{_consumer->bounded_queue.prepare_read()};

    if (read_result.read_pos)
    {
      return read_result;
    }

    // Switch to the new buffer for reading""",
     "new": """    ReadResult read_result{nullptr};

    // Switch to the new buffer for reading"""},
    {"id": "c02-no-commit-before-switch", "props": ["C02"], "file": UQ,
     "desc": "_handle_full_queue does not commit_write the old buffer before publishing next (harmless with per-record commits: expected equivalent)",
     "old": """    // commit previous write to the old queue before switching
    _producer->bounded_queue.commit_write();
""",
     "new": """    // commit previous write to the old queue before switching
"""},
    {"id": "c02-next-store-relaxed", "props": ["C02"], "file": UQ,
     "desc": "grow publishes the next node with relaxed instead of release",
     "old": """    // store the new node pointer as next in the current node
    _producer->next.store(next_node, std::memory_order_release);

    // producer is now using the next node
    _producer = next_node;

    // reserve again""",
     "new": """    // store the new node pointer as next in the current node
    _producer->next.store(next_node, std::memory_order_relaxed);

    // producer is now using the next node
    _producer = next_node;

    // reserve again"""},
    {"id": "c02-next-load-relaxed", "props": ["C02"], "file": UQ,
     "desc": "consumer loads next with relaxed instead of acquire",
     "old": "Node* const next_node = _consumer->next.load(std::memory_order_acquire);",
     "new": "Node* const next_node = _consumer->next.load(std::memory_order_relaxed);"},
    {"id": "c02-delete-before-commit-read", "props": ["C02"], "file": UQ,
     "desc": "old node deleted before its capacity is read (use after free)",
     "old": """    auto const previous_capacity = _consumer->bounded_queue.capacity();
    delete _consumer;
""",
     "new": """    delete _consumer;
    auto const previous_capacity = _consumer->bounded_queue.capacity();
"""},
    {"id": "c02-cap-check-ge", "props": ["C02"], "file": UQ,
     "desc": "cap check capacity > max -> >= max (stops one doubling early)",
     "old": "if (QUILL_UNLIKELY(capacity > _max_capacity))",
     "new": "if (QUILL_UNLIKELY(capacity >= _max_capacity))"},
    {"id": "c02-nullptr-instead-of-throw", "props": ["C02"], "file": UQ,
     "desc": "oversize record returns nullptr instead of throwing",
     "old": "      if (nbytes > _max_capacity)\n      {",
     "new": "      if (false && nbytes > _max_capacity)\n      {"},
    {"id": "c02-shrink-cond-off", "props": ["C02"], "file": UQ,
     "desc": "shrink accepted up to the full capacity instead of half",
     "old": "if (capacity > (_producer->bounded_queue.capacity() >> 1))",
     "new": "if (capacity > (_producer->bounded_queue.capacity()))"},
    {"id": "c02-grow-beyond-max", "props": ["C02"], "file": UQ,
     "desc": "cap check removed for records that fit twice the max",
     "old": "if (QUILL_UNLIKELY(capacity > _max_capacity))",
     "new": "if (QUILL_UNLIKELY(capacity > _max_capacity * 2))"},
    {"id": "c02-switch-without-empty-old", "props": ["C02"], "file": UQ,
     "desc": "prepare_read switches as soon as next exists, before the old buffer is drained",
     "old": """    ReadResult read_result{_consumer->bounded_queue.prepare_read()};

    if (read_result.read_pos != nullptr)
    {
      return read_result;
    }

    // the buffer is empty check if another buffer exists""",
     "new": """    ReadResult read_result{_consumer->bounded_queue.prepare_read()};

    if ((read_result.read_pos != nullptr) && (_consumer->next.load(std::memory_order_acquire) == nullptr))
    {
      return read_result;
    }

    // the buffer is empty check if another buffer exists"""},
]
